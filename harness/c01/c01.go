// Package c01: every accepted write gets exactly one in-order joined response.
//
// (a) correspondence: one real packet.Writer and up to 5 real packet.Readers driven from one
//
//	goroutine through histories over {link, unlink, write, answer, closeR, deliverDrop, closeW};
//	every step's return value, the packets pushed into the writer's pump during the step
//	(observed synchronously by an inbound hook) and the packets handed to readers are compared
//	with Uniflow.Writer.step on the same history (driver `c01`) and with the id-keyed
//	specification (`c01s`).  The goroutines Reader.Close spawns are parked at the verif
//	yield hook at the top of (*Writer).receive and released one per `drop r` step, the
//	one with the oldest link generation first.
//
// (b) property oracle: a reference bookkeeping over the harness's own write log (write ids,
//
//	who accepted, who answered what for which write) predicts count, order and content of
//	the responses; the real responses – as seen by the hook and as read from Receive() –
//	are checked against it.
package c01

import (
	"errors"
	"fmt"
	"sort"
	"strconv"
	"strings"
	"sync"
	"sync/atomic"
	"time"

	"github.com/siyul-park/uniflow/pkg/packet"
	"github.com/siyul-park/uniflow/pkg/types"

	"verifharness/lib"
)

const maxReaders = 5

// ---------------------------------------------------------------- operations

type op struct {
	kind string // link unlink write ans closer drop closew
	r    int
	ak   byte  // answer kind: n e v
	k    int   // answer id / write payload
	cs   []int // writeh: the readers the writer's outbound hook closes inside the write
	js   []int // answer kind j: the leaves of the joined error the reader answers with (a relayed joined-error response)
}

func (o op) line() string {
	switch o.kind {
	case "write":
		return "write " + strconv.Itoa(o.k)
	case "writeh":
		l := "writeh " + strconv.Itoa(o.k)
		for _, r := range o.cs {
			l += " " + strconv.Itoa(r)
		}
		return l
	case "ans", "pop":
		if o.ak == 'n' {
			return fmt.Sprintf("%s %d n", o.kind, o.r)
		}
		if o.ak == 'j' {
			l := fmt.Sprintf("%s %d j", o.kind, o.r)
			for _, k := range o.js {
				l += " " + strconv.Itoa(k)
			}
			return l
		}
		return fmt.Sprintf("%s %d %c %d", o.kind, o.r, o.ak, o.k)
	case "deliver":
		return fmt.Sprintf("deliver %d %d", o.r, o.k)
	case "closew":
		return "closew"
	}
	return o.kind + " " + strconv.Itoa(o.r)
}

func parseOp(line string) (op, bool) {
	f := strings.Fields(line)
	num := func(i int) (int, bool) {
		if i >= len(f) {
			return 0, false
		}
		v, err := strconv.Atoi(f[i])
		return v, err == nil && v >= 0
	}
	if len(f) == 0 {
		return op{}, false
	}
	switch f[0] {
	case "link", "unlink", "closer", "drop":
		r, ok := num(1)
		return op{kind: f[0], r: r}, ok && len(f) == 2 && r < maxReaders
	case "write":
		v, ok := num(1)
		return op{kind: "write", k: v}, ok && len(f) == 2
	case "writeh":
		v, ok := num(1)
		o := op{kind: "writeh", k: v}
		for i := 2; i < len(f); i++ {
			r, ok2 := num(i)
			ok = ok && ok2 && r < maxReaders
			o.cs = append(o.cs, r)
		}
		return o, ok
	case "closew":
		return op{kind: "closew"}, len(f) == 1
	case "deliver":
		r, ok := num(1)
		k, ok2 := num(2)
		return op{kind: "deliver", r: r, k: k}, ok && ok2 && len(f) == 3 && r < maxReaders
	case "ans", "pop":
		r, ok := num(1)
		if !ok || r >= maxReaders || len(f) < 3 {
			return op{}, false
		}
		if f[2] == "n" {
			return op{kind: f[0], r: r, ak: 'n'}, len(f) == 3
		}
		if f[2] == "j" {
			o := op{kind: f[0], r: r, ak: 'j'}
			for i := 3; i < len(f); i++ {
				k, ok2 := num(i)
				ok = ok && ok2
				o.js = append(o.js, k)
			}
			return o, ok && len(o.js) >= 1
		}
		k, ok := num(3)
		return op{kind: f[0], r: r, ak: f[2][0], k: k}, ok && len(f) == 4 && (f[2] == "e" || f[2] == "v")
	}
	return op{}, false
}

func mkAns(o op) *packet.Packet {
	switch o.ak {
	case 'n':
		return packet.None
	case 'e':
		if o.k == 0 {
			return packet.New(packet.ErrDroppedPacket)
		}
		return packet.New(types.NewError(errors.New("e" + strconv.Itoa(o.k))))
	case 'j':
		// what a reader that relays the joined error response of its own writer answers with: an error
		// payload whose error is errors.Join of the leaves
		var es []error
		for _, k := range o.js {
			es = append(es, leafErr(k))
		}
		return packet.New(types.NewError(errors.Join(es...)))
	}
	return packet.New(types.NewInt64(int64(o.k)))
}

func leafErr(k int) error {
	if k == 0 {
		return packet.ErrDroppedPacket.Unwrap()
	}
	return errors.New("e" + strconv.Itoa(k))
}

// errLeaves flattens an error into its leaves, in order: the harness's own walk over the errors.Join tree
// (Unwrap() []error) and over wrappers with a single Unwrap() error.
func errLeaves(err error) []error {
	switch x := err.(type) {
	case nil:
		return nil
	case interface{ Unwrap() []error }:
		var out []error
		for _, e := range x.Unwrap() {
			out = append(out, errLeaves(e)...)
		}
		return out
	case types.Error:
		return errLeaves(x.Unwrap())
	}
	return []error{err}
}

func ansCanon(o op) string {
	switch o.ak {
	case 'n':
		return "N"
	case 'e':
		return "E" + strconv.Itoa(o.k)
	case 'j':
		var ids []string
		for _, k := range o.js {
			ids = append(ids, strconv.Itoa(k))
		}
		return "E" + strings.Join(ids, ",")
	}
	return "v" + strconv.Itoa(o.k)
}

// canon maps a packet emitted by the writer to the model's notation.
func canon(p *packet.Packet) string {
	if p == nil {
		return "nil"
	}
	if p == packet.None {
		return "N"
	}
	switch v := p.Payload().(type) {
	case nil:
		return "nilpayload"
	case types.Error:
		// the leaves of the error, in order, by the harness's own walk over the join tree; the message
		// (one line per leaf) must say the same
		var ids []string
		for _, e := range errLeaves(v) {
			m := e.Error()
			switch {
			case m == "dropped packet":
				ids = append(ids, "0")
			case strings.HasPrefix(m, "e"):
				ids = append(ids, m[1:])
			default:
				ids = append(ids, "?"+m)
			}
		}
		var lines []string
		for _, e := range errLeaves(v) {
			lines = append(lines, e.Error())
		}
		if strings.Join(lines, "\n") != v.Error() {
			return "E?message-differs-from-leaves:" + strings.ReplaceAll(v.Error(), "\n", "/")
		}
		return "E" + strings.Join(ids, ",")
	case types.Int64:
		return "v" + strconv.FormatInt(v.Int(), 10)
	case types.Slice:
		var ids []string
		for _, e := range v.Values() {
			if i, ok := e.(types.Int64); ok {
				ids = append(ids, strconv.FormatInt(i.Int(), 10))
			} else {
				ids = append(ids, "?")
			}
		}
		return "V" + strings.Join(ids, ",")
	}
	return "?"
}

// ---------------------------------------------------------------- the real code, sequentialised

type parkedG struct {
	rid     int
	link    uint64 // generation of the link the dropped request was written over
	write   uint64 // number of the write the dropped request belongs to
	release chan struct{}
	done    chan string
}

type sim struct {
	w        *packet.Writer
	rs       []*packet.Reader
	ridOf    map[*packet.Reader]int
	mainBusy atomic.Bool
	draining atomic.Bool
	parkCh   chan *parkedG
	parked   [][]*parkedG

	// answers in flight: Reader.Receive has popped the request and released r.mu, its call of
	// (*Writer).receive is held at the yield hook (one goroutine per `pop` step)
	launching atomic.Pointer[popG]
	flight    [][]*popG

	mu       sync.Mutex
	emits    []*packet.Packet // pushed into the pump during the current step (inbound hook)
	delivP   []*packet.Packet
	delivR   []int
	spawn    int
	shown    int   // calls of the writer's outbound hook during the current step
	hookPlan []int // readers the writer's outbound hook closes (set for the duration of a `writeh` step)

	streamFail string // first discrepancy between Receive()/Read() and the hooks
	closeLost  int    // responses emitted by Close that never came out of Receive()
	closeSeen  int    // responses emitted by Close that did
	timedOut   bool
}

// popG is one `Reader.Receive` call split at the yield hook.
type popG struct {
	rid     int
	pck     *packet.Packet
	parked  chan struct{}
	release chan struct{}
	ret     chan string
}

var cur atomic.Pointer[sim]
var hookOnce sync.Once

const wait = 3 * time.Second

func yieldHook(w *packet.Writer, r *packet.Reader, pck *packet.Packet, link uint64, write uint64) func() {
	s := cur.Load()
	if s == nil || s.w != w {
		return nil
	}
	if pg := s.launching.Load(); pg != nil && pg.pck == pck && s.ridOf[r] == pg.rid {
		// the answer of a `pop` step: hold it between r.mu.Unlock() and w.mu.Lock()
		s.launching.Store(nil)
		pg.parked <- struct{}{}
		<-pg.release
		return nil
	}
	if s.mainBusy.Load() || s.draining.Load() {
		return nil
	}
	g := &parkedG{rid: s.ridOf[r], link: link, write: write, release: make(chan struct{}), done: make(chan string, 1)}
	s.parkCh <- g
	<-g.release
	return func() {
		msg := ""
		if p := recover(); p != nil {
			msg = fmt.Sprint(p)
		}
		g.done <- msg
	}
}

func newSim(n int) *sim {
	hookOnce.Do(func() { packet.VerifReceiveWrite = yieldHook })
	s := &sim{w: packet.NewWriter(), ridOf: map[*packet.Reader]int{}, parkCh: make(chan *parkedG, 4096), parked: make([][]*parkedG, n), flight: make([][]*popG, n)}
	s.w.AddInboundHook(packet.HookFunc(func(p *packet.Packet) {
		s.mu.Lock()
		s.emits = append(s.emits, p)
		s.mu.Unlock()
	}))
	// the outbound hook runs inside Write, between the decision that the write is a request and the
	// hand-over to the readers; in a `writeh` step it closes the planned readers exactly there
	s.w.AddOutboundHook(packet.HookFunc(func(p *packet.Packet) {
		s.mu.Lock()
		s.shown++
		plan := s.hookPlan
		s.mu.Unlock()
		for _, r := range plan {
			s.rs[r].Close()
		}
	}))
	for i := 0; i < n; i++ {
		i := i
		r := packet.NewReader()
		s.rs = append(s.rs, r)
		s.ridOf[r] = i
		r.AddInboundHook(packet.HookFunc(func(p *packet.Packet) {
			s.mu.Lock()
			s.delivP = append(s.delivP, p)
			s.delivR = append(s.delivR, i)
			s.mu.Unlock()
		}))
		r.AddOutboundHook(packet.HookFunc(func(p *packet.Packet) {
			s.mu.Lock()
			s.spawn++
			s.mu.Unlock()
		}))
	}
	cur.Store(s)
	return s
}

// teardown lets every held goroutine and pump finish.
func (s *sim) teardown() {
	s.draining.Store(true)
	for _, fs := range s.flight {
		for _, pg := range fs {
			close(pg.release)
		}
	}
	for _, gs := range s.parked {
		for _, g := range gs {
			close(g.release)
		}
	}
	for {
		select {
		case g := <-s.parkCh:
			close(g.release)
			continue
		default:
		}
		break
	}
	lib.Safe(func() { s.w.Close() })
	for _, r := range s.rs {
		r := r
		lib.Safe(func() { r.Close() })
	}
	cur.CompareAndSwap(s, nil)
}

func (s *sim) fail(format string, a ...any) {
	if s.streamFail == "" {
		s.streamFail = fmt.Sprintf(format, a...)
	}
}

func tf(b bool) string {
	if b {
		return "t"
	}
	return "f"
}

// exec runs one step on the real code and returns the canonical output line plus the
// canonical responses emitted during the step.
func (s *sim) exec(o op) (out string, emitted []string, panicked bool) {
	s.mu.Lock()
	s.emits, s.delivP, s.delivR, s.spawn, s.shown = nil, nil, nil, 0, 0
	s.mu.Unlock()
	ret := ""
	pmsg := lib.Safe(func() {
		switch o.kind {
		case "link":
			ret = tf(s.w.Link(s.rs[o.r]))
		case "unlink":
			ret = tf(s.w.Unlink(s.rs[o.r]))
		case "write":
			ret = "n" + strconv.Itoa(s.w.Write(packet.New(types.NewInt64(int64(o.k)))))
		case "writeh":
			// the writer's outbound hook – which runs inside Write, after it has decided that the write is a
			// request and before it asks the readers – closes the readers o.cs
			s.mu.Lock()
			s.hookPlan = o.cs
			s.mu.Unlock()
			ret = "n" + strconv.Itoa(s.w.Write(packet.New(types.NewInt64(int64(o.k)))))
			s.mu.Lock()
			s.hookPlan = nil
			s.mu.Unlock()
			s.mu.Lock()
			n := s.spawn
			s.mu.Unlock()
			for i := 0; i < n; i++ {
				select {
				case g := <-s.parkCh:
					ps := append(s.parked[g.rid], g)
					sort.SliceStable(ps, func(i, j int) bool { return ps[i].write < ps[j].write })
					s.parked[g.rid] = ps
				case <-time.After(wait):
					s.timedOut = true
					s.fail("%s: only %d of %d goroutines spawned by the hook's closes reached (*Writer).receive", o.line(), i, n)
					return
				}
			}
		case "ans":
			s.mainBusy.Store(true)
			defer s.mainBusy.Store(false)
			ret = tf(s.rs[o.r].Receive(mkAns(o)))
		case "pop":
			pg := &popG{rid: o.r, pck: mkAns(o), parked: make(chan struct{}, 1), release: make(chan struct{}), ret: make(chan string, 1)}
			s.launching.Store(pg)
			go func() {
				defer func() {
					if p := recover(); p != nil {
						pg.ret <- "panic"
					}
				}()
				pg.ret <- tf(s.rs[pg.rid].Receive(pg.pck))
			}()
			select {
			case <-pg.parked:
				s.flight[o.r] = append(s.flight[o.r], pg)
				ret = "t"
			case v := <-pg.ret:
				ret = v // nothing queued: Receive returned without reaching the writer
			case <-time.After(wait):
				s.timedOut = true
				s.fail("pop %d: Reader.Receive neither returned nor reached (*Writer).receive", o.r)
			}
			s.launching.Store(nil)
		case "deliver":
			if o.k >= len(s.flight[o.r]) {
				ret = "skip"
				return
			}
			pg := s.flight[o.r][o.k]
			s.flight[o.r] = append(append([]*popG{}, s.flight[o.r][:o.k]...), s.flight[o.r][o.k+1:]...)
			close(pg.release)
			select {
			case v := <-pg.ret:
				if v == "panic" {
					panic("(*Writer).receive panicked")
				}
				ret = v
			case <-time.After(wait):
				s.timedOut = true
				s.fail("deliver %d %d: the released Reader.Receive did not return", o.r, o.k)
			}
		case "closer":
			s.rs[o.r].Close()
			s.mu.Lock()
			n := s.spawn
			s.mu.Unlock()
			ret = "n" + strconv.Itoa(n)
			for i := 0; i < n; i++ {
				select {
				case g := <-s.parkCh:
					// keep the held-back notices of a reader in the order of its requests: the write
					// numbers increase along the reader's queue, so sorting by them restores it
					ps := append(s.parked[g.rid], g)
					sort.SliceStable(ps, func(i, j int) bool { return ps[i].write < ps[j].write })
					s.parked[g.rid] = ps
				case <-time.After(wait):
					s.timedOut = true
					s.fail("closer %d: only %d of %d spawned goroutines reached (*Writer).receive", o.r, i, n)
					return
				}
			}
		case "drop":
			if len(s.parked[o.r]) == 0 {
				ret = "skip"
				return
			}
			g := s.parked[o.r][0]
			s.parked[o.r] = s.parked[o.r][1:]
			close(g.release)
			select {
			case msg := <-g.done:
				if msg != "" {
					panic(msg)
				}
			case <-time.After(wait):
				s.timedOut = true
				s.fail("drop %d: the released goroutine did not finish", o.r)
			}
			ret = "u"
		case "closew":
			s.w.Close()
			ret = "u"
		}
	})
	if pmsg != "" {
		return "panic", nil, true
	}
	s.mu.Lock()
	emits, delivP, delivR := s.emits, s.delivP, s.delivR
	s.mu.Unlock()

	var b strings.Builder
	b.WriteString(ret)
	for i, p := range delivP {
		pl := "?"
		if v, ok := p.Payload().(types.Int64); ok {
			pl = strconv.FormatInt(v.Int(), 10)
		}
		fmt.Fprintf(&b, " d%d:%s", delivR[i], pl)
		// the packet must also come out of the reader's stream
		select {
		case q, ok := <-s.rs[delivR[i]].Read():
			if !ok || q != p {
				s.fail("%s: reader %d's Read() gave a different packet than its inbound hook", o.line(), delivR[i])
			}
		case <-time.After(wait):
			s.timedOut = true
			s.fail("%s: reader %d's Read() gave nothing", o.line(), delivR[i])
		}
	}
	for _, p := range emits {
		c := canon(p)
		emitted = append(emitted, c)
		b.WriteString(" | " + c)
	}
	if o.kind == "writeh" {
		s.mu.Lock()
		fmt.Fprintf(&b, " h%d s%d", s.shown, s.spawn)
		s.mu.Unlock()
	}
	// the same packets, in the same order, must come out of Receive()
	for i, p := range emits {
		select {
		case q, ok := <-s.w.Receive():
			if !ok {
				if o.kind == "closew" {
					s.closeLost += len(emits) - i
				} else {
					s.fail("%s: Receive() closed with %d responses outstanding", o.line(), len(emits)-i)
				}
				return b.String(), emitted, false
			}
			if q != p {
				s.fail("%s: Receive() gave %s where the hook saw %s", o.line(), canon(q), canon(p))
			} else if o.kind == "closew" {
				s.closeSeen++
			}
		case <-time.After(wait):
			s.timedOut = true
			s.fail("%s: Receive() gave nothing for response %d of %d", o.line(), i+1, len(emits))
			return b.String(), emitted, false
		}
	}
	return b.String(), emitted, false
}

// ---------------------------------------------------------------- reference bookkeeping (oracle)

type refRow struct {
	wid     int
	readers []int
	cell    map[int]string // reader -> canonical answer; absent = owed
	refused map[int]bool   // readers that were linked but did not accept the write (already closed)
}

type refMsg struct {
	w int
	a string
}

type ref struct {
	linked               []int
	closed               [maxReaders]bool
	owed                 [maxReaders][]int    // write ids reader r accepted and has not answered (or, closed: drop notices in flight)
	flight               [maxReaders][]refMsg // answers on their way to the writer: which write they answer, and with what
	rows                 []*refRow
	done                 bool
	nextW                int
	accepts              int
	relink               bool // the history re-linked an open reader that still had unanswered requests
	wantShown, wantSpawn int  // writeh: calls of the outbound hook / goroutines spawned by its closes
}

func (x *ref) isLinked(r int) bool {
	for _, l := range x.linked {
		if l == r {
			return true
		}
	}
	return false
}

// joinCanon is the statement's join: errors dominate, empty answers vanish, several payloads
// form a list in link order; a single slot is passed through.
func joinCanon(cs []string) string {
	if len(cs) == 0 {
		return "E0"
	}
	if len(cs) == 1 {
		return cs[0]
	}
	var es, vs []string
	for _, c := range cs {
		switch c[0] {
		case 'E':
			es = append(es, c[1:])
		case 'v':
			vs = append(vs, c[1:])
		}
	}
	switch {
	case len(es) > 0:
		return "E" + strings.Join(es, ",")
	case len(vs) == 0:
		return "N"
	case len(vs) == 1:
		return "v" + vs[0]
	}
	return "V" + strings.Join(vs, ",")
}

func (x *ref) flush() (out []string) {
	for len(x.rows) > 0 {
		row := x.rows[0]
		// the join of what the ACCEPTING readers that are still linked answered; a reader that refused
		// the write contributes nothing, and with no accepting reader left the response is `dropped`
		var cs []string
		for _, r := range row.readers {
			if row.refused[r] {
				continue
			}
			c, ok := row.cell[r]
			if !ok {
				return out
			}
			cs = append(cs, c)
		}
		out = append(out, joinCanon(cs))
		x.rows = x.rows[1:]
	}
	return out
}

func (x *ref) arrive(w, r int, a string) []string {
	if x.done || !x.isLinked(r) {
		return nil
	}
	for _, row := range x.rows {
		if row.wid == w {
			has := false
			for _, q := range row.readers {
				has = has || q == r
			}
			if _, filled := row.cell[r]; has && !filled {
				row.cell[r] = a
				return x.flush()
			}
			return nil
		}
	}
	return nil
}

// apply predicts the responses of one step. `ret` is what the implementation returned (used
// only to learn whether a write was accepted / a link took place – the statement is conditional
// on those reports – and checked for consistency by the caller).
func (x *ref) apply(o op) (expectRet string, expect []string) {
	switch o.kind {
	case "link":
		if x.done || x.isLinked(o.r) {
			return "f", nil
		}
		if !x.closed[o.r] && len(x.owed[o.r]) > 0 {
			x.relink = true
		}
		x.linked = append(x.linked, o.r)
		return "t", nil
	case "unlink":
		if x.done || !x.isLinked(o.r) {
			return "f", nil
		}
		var l []int
		for _, q := range x.linked {
			if q != o.r {
				l = append(l, q)
			}
		}
		x.linked = l
		for _, row := range x.rows {
			var rs []int
			for _, q := range row.readers {
				if q != o.r {
					rs = append(rs, q)
				}
			}
			row.readers = rs
			delete(row.cell, o.r)
		}
		return "t", x.flush()
	case "writeh":
		// Is the write a request at all? (writer open, some linked reader open.) If not it reports 0 and
		// nothing happens – the hook is not even shown the packet, no reader closes.
		open := 0
		for _, r := range x.linked {
			if !x.closed[r] {
				open++
			}
		}
		if x.done || open == 0 {
			x.wantShown, x.wantSpawn = 0, 0
			return "n0", nil
		}
		// the readers close inside the write (their queued requests become drop notices), then the write
		// reaches the readers that are still open; if none is, it reports 0 and leaves nothing behind
		x.wantShown, x.wantSpawn = 1, 0
		for _, r := range o.cs {
			if !x.closed[r] {
				x.closed[r] = true
				x.wantSpawn += len(x.owed[r])
			}
		}
		return x.apply(op{kind: "write", k: o.k})
	case "write":
		if x.done {
			return "n0", nil
		}
		n := 0
		row := &refRow{wid: x.nextW, cell: map[int]string{}, refused: map[int]bool{}}
		for _, r := range x.linked {
			row.readers = append(row.readers, r)
			if x.closed[r] {
				row.refused[r] = true
			} else {
				n++
			}
		}
		if n == 0 {
			return "n0", nil
		}
		for _, r := range x.linked {
			if !x.closed[r] {
				x.owed[r] = append(x.owed[r], x.nextW)
			}
		}
		x.rows = append(x.rows, row)
		x.nextW++
		x.accepts++
		return "n" + strconv.Itoa(n), nil
	case "ans":
		if x.closed[o.r] || len(x.owed[o.r]) == 0 {
			return "f", nil
		}
		w := x.owed[o.r][0]
		x.owed[o.r] = x.owed[o.r][1:]
		before := len(x.rows)
		e := x.arrive(w, o.r, ansCanon(o))
		_ = before
		return "", e // whether the answer still counted is not part of the statement
	case "pop":
		if x.closed[o.r] || len(x.owed[o.r]) == 0 {
			return "f", nil
		}
		w := x.owed[o.r][0]
		x.owed[o.r] = x.owed[o.r][1:]
		x.flight[o.r] = append(x.flight[o.r], refMsg{w, ansCanon(o)})
		return "t", nil
	case "deliver":
		if o.k >= len(x.flight[o.r]) {
			return "skip", nil
		}
		m := x.flight[o.r][o.k]
		x.flight[o.r] = append(append([]refMsg{}, x.flight[o.r][:o.k]...), x.flight[o.r][o.k+1:]...)
		// whenever it arrives, the answer belongs to the write whose request was answered
		return "", x.arrive(m.w, o.r, m.a)
	case "closer":
		if x.closed[o.r] {
			return "n0", nil
		}
		x.closed[o.r] = true
		return "n" + strconv.Itoa(len(x.owed[o.r])), nil
	case "drop":
		if !x.closed[o.r] || len(x.owed[o.r]) == 0 {
			return "skip", nil
		}
		w := x.owed[o.r][0]
		x.owed[o.r] = x.owed[o.r][1:]
		return "u", x.arrive(w, o.r, "E0")
	case "closew":
		if x.done {
			return "u", nil
		}
		x.done = true
		var e []string
		for range x.rows {
			e = append(e, "E0")
		}
		x.rows, x.linked = nil, nil
		return "u", e
	}
	return "", nil
}

// ---------------------------------------------------------------- running one history

type result struct {
	lines, impls []string
	fail         *lib.OracleFail
	relink       bool
	accepted     int
	responses    int
	closeLost    int
	closeSeen    int // responses pushed by Writer.Close that did come out of Receive()
}

func replayOf(lines, impls []string) string {
	var b strings.Builder
	for i, l := range lines {
		fmt.Fprintf(&b, "%s\t=> impl: %s\n", l, impls[i])
	}
	return b.String()
}

// runHistory executes a history produced step by step by `next` (which may look at the
// reference state to bias its choice); next returns false to stop.
func runHistory(n int, next func(x *ref, s *sim, i int) (op, bool)) (res result) {
	s := newSim(n)
	defer s.teardown()
	x := &ref{}
	oracleFail := func(class, what string) {
		if res.fail == nil {
			res.fail = &lib.OracleFail{Class: class, What: what}
		}
	}
	for i := 0; ; i++ {
		o, ok := next(x, s, i)
		if !ok {
			break
		}
		out, emitted, pan := s.exec(o)
		res.lines = append(res.lines, o.line())
		res.impls = append(res.impls, out)
		if pan {
			oracleFail("panic", fmt.Sprintf("step %d (%s) panicked", i+1, o.line()))
			break
		}
		wantRet, want := x.apply(o)
		cls := "response"
		ret := strings.Fields(out)[0]
		if wantRet != "" && ret != wantRet {
			oracleFail(cls, fmt.Sprintf("step %d (%s) reported %s; by the write log it must report %s", i+1, o.line(), ret, wantRet))
		}
		if o.kind == "writeh" {
			if hs := fmt.Sprintf("h%d s%d", x.wantShown, x.wantSpawn); !strings.HasSuffix(out, " "+hs) {
				oracleFail(cls, fmt.Sprintf("step %d (%s) gave %q; the outbound hook must be called / its closes must spawn %s", i+1, o.line(), out, hs))
			}
		}
		if strings.Join(emitted, " ") != strings.Join(want, " ") {
			oracleFail(cls, fmt.Sprintf("step %d (%s): responses [%s]; by the write log (count, order, join of the answers given for each write) they must be [%s]",
				i+1, o.line(), strings.Join(emitted, " "), strings.Join(want, " ")))
		}
		res.responses += len(emitted)
		if s.timedOut {
			break
		}
	}
	res.relink = x.relink
	res.accepted = x.accepts
	// exactly one response per accepted write that is no longer owed anything
	if res.fail == nil && res.responses != x.accepts-len(x.rows) {
		oracleFail("response", fmt.Sprintf("%d responses for %d accepted writes of which %d are still owed an answer", res.responses, x.accepts, len(x.rows)))
	}
	if res.fail == nil && s.streamFail != "" {
		oracleFail("stream", s.streamFail)
	}
	if res.fail == nil && s.closeLost > 0 {
		oracleFail("close-discards-buffered", fmt.Sprintf("%d responses pushed by Writer.Close never came out of Receive()", s.closeLost))
	}
	res.closeLost = s.closeLost
	res.closeSeen = s.closeSeen
	if res.fail != nil {
		res.fail.Replay = replayOf(res.lines, res.impls)
	}
	return res
}

func fixed(ops []op) func(*ref, *sim, int) (op, bool) {
	return func(_ *ref, _ *sim, i int) (op, bool) {
		if i >= len(ops) {
			return op{}, false
		}
		return ops[i], true
	}
}

// ---------------------------------------------------------------- generators

type gen struct {
	r       *lib.RNG
	n       int
	length  int
	avoid   bool // avoid re-linking a reader with unanswered requests
	settle  bool // end by answering / delivering everything that is owed
	lagging int  // 0..3: how reluctant readers are to answer
	ctr     int
}

func (g *gen) ans(r int) op {
	g.ctr++
	switch g.r.Intn(10) {
	case 0, 1:
		return op{kind: "ans", r: r, ak: 'n'}
	case 2:
		return op{kind: "ans", r: r, ak: 'e', k: 0}
	case 3:
		return op{kind: "ans", r: r, ak: 'e', k: g.ctr}
	case 4:
		// a relayed joined error of 2–3 leaves (one of them may be the dropped-packet error)
		o := op{kind: "ans", r: r, ak: 'j', js: []int{g.ctr, g.ctr + 100}}
		if g.r.Chance(1, 2) {
			o.js = append(o.js, g.ctr+200)
		}
		if g.r.Chance(1, 4) {
			o.js[g.r.Intn(len(o.js))] = 0
		}
		return o
	}
	return op{kind: "ans", r: r, ak: 'v', k: g.ctr}
}

func (g *gen) next(x *ref, s *sim, i int) (op, bool) {
	if i >= g.length {
		if !g.settle || i > g.length+40 {
			return op{}, false
		}
		// settle: everything owed by a linked reader gets answered / delivered
		for _, r := range x.linked {
			if len(s.parked[r]) > 0 {
				return op{kind: "drop", r: r}, true
			}
			if !x.closed[r] && len(x.owed[r]) > 0 {
				return g.ans(r), true
			}
		}
		for r := 0; r < g.n; r++ {
			if len(s.flight[r]) > 0 {
				return op{kind: "deliver", r: r, k: g.r.Intn(len(s.flight[r]))}, true
			}
		}
		return op{}, false
	}
	if i == 0 || (len(x.linked) == 0 && !x.done && g.r.Chance(2, 3)) {
		r := g.r.Intn(g.n)
		if !(g.avoid && !x.closed[r] && len(x.owed[r]) > 0) {
			return op{kind: "link", r: r}, true
		}
	}
	for try := 0; try < 20; try++ {
		switch g.r.Weighted([]int{3, 2, 6, 2 + 2*(3-g.lagging), 1, 3, 1, 3, 3, 3}) {
		case 9:
			// a write inside which readers close (outbound hook): all open linked readers (the write then
			// reports 0 although it was a request), one of them, a reader that is not linked / already
			// closed, or none (the hook does nothing)
			g.ctr++
			o := op{kind: "writeh", k: g.ctr}
			var open []int
			for _, r := range x.linked {
				if !x.closed[r] {
					open = append(open, r)
				}
			}
			switch g.r.Intn(5) {
			case 0, 1:
				o.cs = append(o.cs, open...)
			case 2:
				if len(open) > 0 {
					o.cs = []int{open[g.r.Intn(len(open))]}
				}
			case 3:
				o.cs = []int{g.r.Intn(g.n)}
			}
			return o, true
		case 7:
			r := g.r.Intn(g.n)
			if (x.closed[r] || len(x.owed[r]) == 0) && g.r.Chance(5, 6) {
				continue
			}
			o := g.ans(r)
			o.kind = "pop"
			return o, true
		case 8:
			r := g.r.Intn(g.n)
			if len(s.flight[r]) == 0 {
				if g.r.Chance(9, 10) {
					continue
				}
				return op{kind: "deliver", r: r, k: g.r.Intn(2)}, true
			}
			return op{kind: "deliver", r: r, k: g.r.Intn(len(s.flight[r]))}, true
		case 0:
			r := g.r.Intn(g.n)
			if g.avoid && !x.isLinked(r) && !x.closed[r] && len(x.owed[r]) > 0 {
				continue
			}
			if x.isLinked(r) && g.r.Chance(3, 4) {
				continue
			}
			return op{kind: "link", r: r}, true
		case 1:
			r := g.r.Intn(g.n)
			if !x.isLinked(r) && g.r.Chance(3, 4) {
				continue
			}
			return op{kind: "unlink", r: r}, true
		case 2:
			g.ctr++
			return op{kind: "write", k: g.ctr}, true
		case 3:
			r := g.r.Intn(g.n)
			if (x.closed[r] || len(x.owed[r]) == 0) && g.r.Chance(5, 6) {
				continue
			}
			return g.ans(r), true
		case 4:
			r := g.r.Intn(g.n)
			if x.closed[r] && g.r.Chance(3, 4) {
				continue
			}
			return op{kind: "closer", r: r}, true
		case 5:
			r := g.r.Intn(g.n)
			if len(s.parked[r]) == 0 && g.r.Chance(9, 10) {
				continue
			}
			return op{kind: "drop", r: r}, true
		case 6:
			if i < g.length*2/3 || g.r.Chance(2, 3) {
				continue
			}
			return op{kind: "closew"}, true
		}
	}
	g.ctr++
	return op{kind: "write", k: g.ctr}, true
}

// flapHistory: see Run, 2b.
func flapHistory(r *lib.RNG) (ops []op, cycles int) {
	ctr, held := 0, 0
	cycles = r.Range(2, 5)
	other := r.Chance(1, 2)
	for c := 0; c < cycles; c++ {
		ops = append(ops, op{kind: "link", r: 0})
		for j, w := 0, r.Range(1, 2); j < w; j++ {
			ctr++
			ops = append(ops, op{kind: "write", k: ctr})
			held++
		}
		ops = append(ops, op{kind: "unlink", r: 0})
		if other && r.Chance(1, 2) {
			// the second reader serves a few writes and leaves the writer idle again
			ops = append(ops, op{kind: "link", r: 1})
			for j, w := 0, r.Range(1, 3); j < w; j++ {
				ctr++
				ops = append(ops, op{kind: "write", k: ctr}, op{kind: "ans", r: 1, ak: 'v', k: ctr})
			}
			if r.Chance(3, 4) {
				ops = append(ops, op{kind: "unlink", r: 1})
			}
		}
	}
	ops = append(ops, op{kind: "link", r: 0})
	for j, w := 0, r.Range(1, 3); j < w; j++ {
		ctr++
		ops = append(ops, op{kind: "write", k: ctr})
		held++
	}
	// the slow reader answers what it holds, oldest first: all of it, or only the stale part before it closes
	n := held
	closes := r.Chance(1, 4)
	if closes {
		n = r.Range(1, held)
	}
	for j := 0; j < n; j++ {
		ctr++
		switch r.Intn(6) {
		case 0:
			ops = append(ops, op{kind: "ans", r: 0, ak: 'e', k: ctr})
		case 1:
			ops = append(ops, op{kind: "ans", r: 0, ak: 'n'})
		default:
			ops = append(ops, op{kind: "ans", r: 0, ak: 'v', k: ctr})
		}
	}
	if closes {
		ops = append(ops, op{kind: "closer", r: 0})
		for j := 0; j < held-n+1; j++ {
			ops = append(ops, op{kind: "drop", r: 0})
		}
	}
	return ops, cycles
}

// ---------------------------------------------------------------- Run

func Run(c *lib.Ctx) {
	c.Rule = "a history counts as non-trivial when at least one write was accepted and at least one response was emitted; distinct by the full operation sequence"
	c.Assumptions = []string{
		"every public method of Writer/Reader is one atomic step (they run under the object's mutex); the harness drives them from one goroutine",
		"the goroutines spawned by Reader.Close run (*Writer).receive in an arbitrary order; all carry the same packet and reader, so the model keeps a count and the harness releases them one per `drop` step through the verif yield hook",
		"Write is not atomic with respect to the readers: Reader.Close does not take the writer's lock, so a reader can close between Write's accepting() and its Reader.write; the harness places the close exactly there with an outbound hook of the writer (`writeh v r…`), the model runs the closes as closeR steps between the decision that the write is a request and the row-building loop; a concurrent Reader.Close that falls into the same window without a hook takes the same path through Write",
		"payloads are opaque to Join (only error / None / other is inspected): answers are int64 ids, errors are identified by their message, errors.Join by the newline-separated messages",
		"responses are observed where they are pushed into the writer's pump (inbound hook) and re-read from Receive() after every step; the dropped responses pushed by Writer.Close itself can be discarded by the pump (known finding close-discards-buffered, DESIGN.md §7 row 7; the closed channel stands for them, see C03): those that do not arrive are counted and attributed to the finding, those that do are checked",
	}
	c.Trusted = []string{"pkg/packet verif hook VerifReceiveLink (yield at the top of (*Writer).receive, told the link generation)", "Go scheduler/channels/mutexes (modelled as atomic steps)"}

	rng := lib.NewRNG(c.Seed)
	model := &lib.Script{}
	spec := &lib.Script{}
	var fails []lib.OracleFail
	seen := map[string]bool{}
	closeLost, closeCases, closeChecked := 0, 0, 0

	record := func(res result, origin string) {
		key := ""
		if res.accepted > 0 && res.responses > 0 {
			key = strings.Join(res.lines, ";")
		}
		c.Count(key)
		for _, l := range res.lines {
			c.Hit("op-" + strings.Fields(l)[0])
			if f := strings.Fields(l); len(f) > 3 && f[2] == "j" {
				c.Hit(fmt.Sprintf("answer-joined-error-of-%d-leaves-at-link-index-%s", len(f)-3, f[1]))
			}
		}
		if res.relink {
			c.Hit("history-relinks-with-pending")
		} else {
			c.Hit("history-no-relink-with-pending")
		}
		c.Hit(fmt.Sprintf("responses-%s", bucket(res.responses)))
		for _, im := range res.impls {
			if strings.Count(im, "|") > 1 {
				c.Hit("step-with-several-responses")
				break
			}
		}
		if res.closeLost > 0 {
			closeLost += res.closeLost
			closeCases++
		}
		closeChecked += res.closeSeen
		if res.closeSeen > 0 {
			c.Hit("closew-with-pending-responses-delivered")
		}
		model.Begin()
		for i, l := range res.lines {
			model.Op(l, res.impls[i])
		}
		spec.Begin()
		for i, l := range res.lines {
			spec.Op(l, res.impls[i])
		}
		if res.fail != nil {
			f := *res.fail
			f.What = origin + ": " + f.What
			fails = append(fails, f)
		}
		if key != "" && !seen[key] && len(res.lines) <= 14 {
			seen[key] = true
			c.Sample(map[string]any{"history": res.lines, "implementation": res.impls})
		}
	}

	// 1. corpus (witnesses of the fixed defects and of the known finding, past failures)
	for _, f := range c.CorpusFiles() {
		var ops []op
		bad := false
		for _, l := range lib.ReadLines(f) {
			o, ok := parseOp(l)
			if !ok {
				bad = true
				break
			}
			ops = append(ops, o)
		}
		if bad {
			fails = append(fails, lib.OracleFail{Class: "corpus", What: "unparseable corpus file " + f})
			continue
		}
		c.Hit("corpus-case")
		record(runHistory(maxReaders, fixed(ops)), "corpus "+f)
	}

	// 2. random histories
	n := c.Scale(2500, 20000)
	maxLen := c.Scale(12, 40)
	for i := 0; i < n; i++ {
		// SIZE FAMILIES: about one case in ten (one in five at thorough) is a long history – tens to 150 writes
		// to one reader, with a window of unanswered requests, in bursts, across unlink/relink, with many
		// responses leaving in one step – the sizes ordinary use reaches and short histories never do
		if rng.Chance(1, c.Scale(10, 5)) {
			ops, fam, writes, window := longHistory(rng.Fork())
			c.Hit("long-family-" + fam)
			c.Hit("long-writes-" + sizeBucket(writes))
			c.Hit("long-max-unanswered-" + sizeBucket(window))
			record(runHistory(2, fixed(ops)), fmt.Sprintf("long history %d (%s, %d writes, up to %d unanswered)", i, fam, writes, window))
			continue
		}
		g := &gen{r: rng.Fork(), n: rng.Range(1, maxReaders), length: rng.Range(2, maxLen), avoid: rng.Chance(1, 2),
			settle: rng.Chance(1, 2), lagging: rng.Intn(4)}
		record(runHistory(g.n, g.next), fmt.Sprintf("random history %d", i))
	}

	// 2b. FLAPPING LINKS: one slow reader is linked and unlinked again and again with its requests left
	// unanswered (each unlink answers them with a dropped packet: the writer is idle in between, or a
	// second reader serves some writes meanwhile); at the end it is linked once more, written to, and
	// answers everything it still holds oldest first – every stale answer must be refused, the new
	// writes get their own answers. Own RNG: the random histories above keep their stream.
	frng := lib.NewRNG(c.Seed*7919 + 13)
	for i, nf := 0, c.Scale(300, 3000); i < nf; i++ {
		ops, cycles := flapHistory(frng.Fork())
		c.Hit(fmt.Sprintf("flapping-link-%d-cycles", cycles))
		record(runHistory(2, fixed(ops)), fmt.Sprintf("flapping link %d (%d cycles)", i, cycles))
	}

	// 3. thorough: every history `link 0 · x`, |x| ≤ k, over two readers (search + correspondence)
	if c.Thorough() {
		alpha := []op{{kind: "link", r: 0}, {kind: "link", r: 1}, {kind: "unlink", r: 0}, {kind: "unlink", r: 1}, {kind: "write"},
			{kind: "ans", r: 0, ak: 'v'}, {kind: "ans", r: 1, ak: 'v'}, {kind: "closer", r: 0}, {kind: "closer", r: 1},
			{kind: "drop", r: 0}, {kind: "drop", r: 1}, {kind: "closew"}}
		k := 5
		idx := make([]int, 0, k)
		var rec func()
		count := 0
		rec = func() {
			ops := []op{{kind: "link", r: 0}}
			for j, a := range idx {
				o := alpha[a]
				o.k = j + 1
				if o.kind == "ans" && j%3 == 2 {
					o.ak, o.k = 'e', j+1
				}
				ops = append(ops, o)
			}
			count++
			record(runHistory(2, fixed(ops)), "exhaustive")
			if len(idx) == k {
				return
			}
			for a := range alpha {
				idx = append(idx, a)
				rec()
				idx = idx[:len(idx)-1]
			}
		}
		rec()
		c.Extra["exhaustive"] = fmt.Sprintf("all %d histories `link 0 · x` with |x| ≤ %d over 2 readers and the 12-symbol alphabet", count, k)

		// the window inside Reader.Receive: every history `link 0 · x`, |x| ≤ 5, over one reader with the answer
		// split into pop / deliver (any order of the answers in flight, the drop notices and the other steps)
		alpha2 := []op{{kind: "write"}, {kind: "pop", r: 0, ak: 'v'}, {kind: "deliver", r: 0, k: 0}, {kind: "deliver", r: 0, k: 1},
			{kind: "ans", r: 0, ak: 'v'}, {kind: "closer", r: 0}, {kind: "drop", r: 0}, {kind: "unlink", r: 0}, {kind: "link", r: 0}}
		idx = idx[:0]
		count2 := 0
		var rec2 func()
		rec2 = func() {
			ops := []op{{kind: "link", r: 0}}
			for j, a := range idx {
				o := alpha2[a]
				if o.kind != "deliver" {
					o.k = j + 1
				}
				ops = append(ops, o)
			}
			count2++
			record(runHistory(1, fixed(ops)), "exhaustive (pop/deliver)")
			if len(idx) == k {
				return
			}
			for a := range alpha2 {
				idx = append(idx, a)
				rec2()
				idx = idx[:len(idx)-1]
			}
		}
		rec2()
		c.Extra["exhaustive_window"] = fmt.Sprintf("all %d histories `link 0 · x` with |x| ≤ %d over 1 reader and the 9-symbol alphabet with pop/deliver", count2, k)

		// readers closing INSIDE a write: every history `link 0 · x`, |x| ≤ 4, over two readers with writes whose
		// outbound hook closes reader 0, reader 1, both or none
		alpha3 := []op{{kind: "link", r: 1}, {kind: "write"}, {kind: "writeh"}, {kind: "writeh", cs: []int{0}}, {kind: "writeh", cs: []int{1}},
			{kind: "writeh", cs: []int{0, 1}}, {kind: "ans", r: 0, ak: 'v'}, {kind: "ans", r: 1, ak: 'v'}, {kind: "closer", r: 0},
			{kind: "drop", r: 0}, {kind: "unlink", r: 0}}
		idx = idx[:0]
		count3 := 0
		var rec3 func()
		rec3 = func() {
			ops := []op{{kind: "link", r: 0}}
			for j, a := range idx {
				o := alpha3[a]
				o.k = j + 1
				ops = append(ops, o)
			}
			count3++
			record(runHistory(2, fixed(ops)), "exhaustive (closes inside a write)")
			if len(idx) == 4 {
				return
			}
			for a := range alpha3 {
				idx = append(idx, a)
				rec3()
				idx = idx[:len(idx)-1]
			}
		}
		rec3()
		c.Extra["exhaustive_write_window"] = fmt.Sprintf("all %d histories `link 0 · x` with |x| ≤ 4 over 2 readers and the 11-symbol alphabet with writes inside which readers close", count3)
	}
	c.Extra["close_discards"] = fmt.Sprintf("%d responses pushed by Writer.Close were not delivered by Receive() in %d histories (known finding close-discards-buffered: the pump drops its buffer when `in` closes); %d responses pushed by Close did arrive and were checked", closeLost, closeCases, closeChecked)

	// 4. the two-level fan-out: a reader relays the joined response of its own writer (oracle only)
	fails = append(fails, relayRig(c)...)

	ms, err := c.RunModel("c01", model)
	if err != nil {
		c.Violation("model driver failed: "+err.Error(), "", false)
		return
	}
	ms2, err := c.RunModel("c01s", spec)
	if err != nil {
		c.Violation("model driver (specification) failed: "+err.Error(), "", false)
		return
	}
	c.Extra["spec_cases"] = fmt.Sprintf("all %d histories also compared with the id-keyed specification: %d differ", spec.Cases(), len(ms2))
	c.Conclude("Uniflow.Writer.step ~ packet.Writer/Reader (per-step return value, responses, deliveries); Uniflow.WriterSpec.step (all histories)", append(ms, ms2...), fails)
}

// relayRig: writer W1 with readers a and b (in either link order); b relays the request to its own writer W2
// with readers c and d and answers W1 with W2's response packet as it is. c and d answer with errors (or close:
// the dropped-packet stand-in), a answers with an error, a payload, or closes. The response on W1 must carry, in
// link order, every error leaf: a's, then c's and d's (or the other way round when b was linked first).
func relayRig(c *lib.Ctx) (fails []lib.OracleFail) {
	take := func(ch <-chan *packet.Packet) *packet.Packet {
		select {
		case p := <-ch:
			return p
		case <-time.After(wait):
			return nil
		}
	}
	for variant := 0; variant < 24; variant++ {
		bFirst := variant&1 == 1
		aKind := (variant >> 1) % 3 // 0 error, 1 payload, 2 closes before answering
		cCloses := (variant>>1)/3&1 == 1
		dPayload := (variant>>1)/6&1 == 1
		c.Hit("relay-rig-variant")
		w1, w2 := packet.NewWriter(), packet.NewWriter()
		a, b, cc, d := packet.NewReader(), packet.NewReader(), packet.NewReader(), packet.NewReader()
		if bFirst {
			w1.Link(b)
			w1.Link(a)
		} else {
			w1.Link(a)
			w1.Link(b)
		}
		w2.Link(cc)
		w2.Link(d)
		desc := fmt.Sprintf("relay rig: W1 linked to %s; a %s; W2's readers: c %s, d %s", map[bool]string{true: "b then a", false: "a then b"}[bFirst],
			[]string{"answers error e1", "answers payload 1", "closes before answering"}[aKind],
			map[bool]string{true: "closes before answering", false: "answers error e2"}[cCloses], map[bool]string{true: "answers payload 3", false: "answers error e3"}[dPayload])
		bad := func(what string) {
			fails = append(fails, lib.OracleFail{Class: "response", What: desc + ": " + what, Replay: "# " + desc + "\n"})
		}
		if w1.Write(packet.New(types.NewInt64(7))) != 2 {
			bad("the request was not accepted by both readers of W1")
		}
		take(a.Read())
		req := take(b.Read())
		if req == nil || w2.Write(packet.New(req.Payload())) != 2 {
			bad("the relayed request was not accepted by both readers of W2")
		}
		take(cc.Read())
		take(d.Read())
		var want []string // leaves expected from W2, then the whole
		if cCloses {
			cc.Close() // its drop notice is delivered by the goroutine Close spawns
			want = append(want, "dropped packet")
		} else {
			cc.Receive(packet.New(types.NewError(errors.New("e2"))))
			want = append(want, "e2")
		}
		if dPayload {
			d.Receive(packet.New(types.NewInt64(3)))
		} else {
			d.Receive(packet.New(types.NewError(errors.New("e3"))))
			want = append(want, "e3")
		}
		back := take(w2.Receive())
		if back == nil {
			bad("W2 gave no response")
			continue
		}
		b.Receive(back) // the relay: W2's response packet as it is
		var aLeaf []string
		switch aKind {
		case 0:
			a.Receive(packet.New(types.NewError(errors.New("e1"))))
			aLeaf = []string{"e1"}
		case 1:
			a.Receive(packet.New(types.NewInt64(1)))
		default:
			a.Close()
			aLeaf = []string{"dropped packet"}
		}
		if bFirst {
			want = append(want, aLeaf...)
		} else {
			want = append(aLeaf, want...)
		}
		resp := take(w1.Receive())
		var got []string
		if resp != nil {
			if e, ok := resp.Payload().(types.Error); ok {
				for _, l := range errLeaves(e) {
					got = append(got, l.Error())
				}
			}
		}
		if resp == nil || strings.Join(got, " | ") != strings.Join(want, " | ") {
			bad(fmt.Sprintf("the response on W1 carries the error leaves [%s]; the join of what the readers answered is [%s]", strings.Join(got, " | "), strings.Join(want, " | ")))
		}
		w1.Close()
		w2.Close()
		for _, r := range []*packet.Reader{a, b, cc, d} {
			r.Close()
		}
	}
	return fails
}

func sizeBucket(n int) string {
	switch {
	case n <= 1:
		return "0-1"
	case n <= 8:
		return "2-8"
	case n <= 16:
		return "9-16"
	case n <= 32:
		return "17-32"
	case n <= 64:
		return "33-64"
	}
	return "65+"
}

// longHistory builds one history of a size family; it returns the family, the number of writes to reader 0 and
// the largest number of requests reader 0 had unanswered at once.
func longHistory(r *lib.RNG) (ops []op, family string, writes, window int) {
	ctr := 0
	pending := 0 // requests reader 0 has accepted and not answered (its queue in the current link)
	write := func() {
		ctr++
		ops = append(ops, op{kind: "write", k: ctr})
		writes++
		pending++
		if pending > window {
			window = pending
		}
	}
	ans := func(rd int) {
		ctr++
		o := op{kind: "ans", r: rd, ak: 'v', k: ctr}
		switch r.Intn(12) {
		case 0:
			o.ak = 'n'
		case 1:
			o.ak, o.k = 'e', ctr
		}
		ops = append(ops, o)
		if rd == 0 && pending > 0 {
			pending--
		}
	}
	windowed := func(n, w int) {
		for i := 0; i < n; i++ {
			write()
			for pending >= w && pending > 0 {
				ans(0)
				if w > 1 && r.Chance(1, 3) {
					break
				}
			}
			for pending > w+3 {
				ans(0)
			}
		}
	}
	bursts := []int{16, 17, 18, 33, 40, 65, 100}
	windows := []int{1, 2, 5, 17, 24}
	ops = append(ops, op{kind: "link", r: 0})
	switch r.Intn(7) {
	case 0: // a window of w unanswered requests over 20..150 writes, then everything answered
		family = "window"
		windowed(r.Range(20, 150), lib.Pick(r, windows))
		for pending > 0 {
			ans(0)
		}
	case 1: // bursts of n writes, then n answers oldest first
		family = "burst"
		for b := r.Range(1, 2); b > 0; b-- {
			n := lib.Pick(r, bursts)
			for i := 0; i < n; i++ {
				write()
			}
			for pending > 0 {
				ans(0)
			}
		}
	case 2: // a long run, unlink with requests outstanding (they are answered `dropped`), relink, a long run again
		family = "relink"
		windowed(r.Range(17, 60), lib.Pick(r, windows))
		stale := pending
		ops = append(ops, op{kind: "unlink", r: 0}, op{kind: "link", r: 0})
		pending = 0
		windowed(r.Range(17, 60), lib.Pick(r, windows))
		// the reader first answers what it was asked before the unlink (ignored), then the rest
		for i := 0; i < stale; i++ {
			ans(0)
		}
		for pending > 0 {
			ans(0)
		}
	case 3: // many responses leave in ONE step: a second reader answers everything, then the slow one is unlinked
		family = "flush-many"
		ops = append(ops, op{kind: "link", r: 1})
		// warm-up: k responses that waited in the pump TOGETHER (k rows completed by reader 1 are flushed by
		// one Unlink of reader 0) and were then taken – the pump's backlog has moved on by k
		if k := lib.Pick(r, []int{0, 1, 3, 7, 8, 9}); k > 0 {
			for i := 0; i < k; i++ {
				write()
			}
			for i := 0; i < k; i++ {
				ans(1)
			}
			ops = append(ops, op{kind: "unlink", r: 0}, op{kind: "link", r: 0})
			for i := 0; i < k; i++ {
				ans(0) // the late answers of the removed link: ignored
			}
			pending = 0
		}
		n := r.Range(9, 70)
		for i := 0; i < n; i++ {
			write()
		}
		for i := 0; i < n; i++ {
			ans(1)
		}
		switch r.Intn(3) {
		case 0:
			ops = append(ops, op{kind: "unlink", r: 0})
			pending = 0
		case 1:
			for pending > 0 {
				ans(0)
			}
		default:
			ops = append(ops, op{kind: "closer", r: 0})
			for i := 0; i < n; i++ {
				ops = append(ops, op{kind: "drop", r: 0})
			}
			pending = 0
		}
	case 4: // the reader closes with 9..40 requests unanswered: one drop notice each, delivered one by one
		family = "close-reader"
		windowed(r.Range(0, 20), 1)
		n := r.Range(9, 40)
		for i := 0; i < n; i++ {
			write()
		}
		ops = append(ops, op{kind: "closer", r: 0})
		for i := 0; i < n+1; i++ {
			ops = append(ops, op{kind: "drop", r: 0})
		}
	case 5: // answers in flight: 17..40 requests popped, delivered newest first, then the rest oldest first
		family = "pop-deliver"
		n := r.Range(17, 40)
		for i := 0; i < n; i++ {
			write()
		}
		k := r.Range(2, n)
		for i := 0; i < k; i++ {
			ctr++
			ops = append(ops, op{kind: "pop", r: 0, ak: 'v', k: ctr})
		}
		for i := k - 1; i >= 0; i-- {
			ops = append(ops, op{kind: "deliver", r: 0, k: i})
		}
		pending -= k
		for pending > 0 {
			ans(0)
		}
	default: // the writer closes with 9..40 requests pending after a warm-up
		family = "close-writer"
		windowed(r.Range(1, 20), 1)
		n := r.Range(9, 40)
		for i := 0; i < n; i++ {
			write()
		}
		ops = append(ops, op{kind: "closew"})
	}
	return ops, family, writes, window
}

func bucket(n int) string {
	switch {
	case n == 0:
		return "0"
	case n <= 2:
		return "1-2"
	case n <= 5:
		return "3-5"
	}
	return "6+"
}
