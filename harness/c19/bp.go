package c19

import (
	"bufio"
	"bytes"
	"context"
	"fmt"
	"os"
	"os/exec"
	"strings"
	"time"

	"github.com/siyul-park/uniflow/pkg/packet"
	"github.com/siyul-park/uniflow/pkg/port"
	"github.com/siyul-park/uniflow/pkg/runtime"
	"github.com/siyul-park/uniflow/pkg/types"

	"verifharness/lib"
)

// A breakpoint scenario: a sequence over
//
//	hook    one more packet (own process) is written into the symbol carrying the breakpoint
//	pause | step | remove | dclose     Debugger.Pause / Step / RemoveBreakpoint / Close
//	close   Breakpoint.Close called directly
//
// Every API call runs on its own goroutine; the harness moves on when the model says the call
// must have returned (then it waits, watchdog 10 s) or may / must still be blocked (then it does
// not wait). Observations: how many packets reached the sink (= were resumed), and for every
// call whether it returned and what.
type scenario []string

func (s scenario) String() string { return strings.Join(s, " ") }

// splitOp: "remove:2" → ("remove", 2); no suffix = breakpoint 0.
func splitOp(o string) (string, int) {
	if i := strings.IndexByte(o, ':'); i >= 0 {
		n := 0
		fmt.Sscanf(o[i+1:], "%d", &n)
		return o[:i], n
	}
	return o, 0
}

func isCall(o string) bool { n, _ := splitOp(o); return n != "hook" }

// nbOf: number of breakpoints a scenario needs.
func nbOf(sc scenario) int {
	nb := 1
	for _, o := range sc {
		if _, b := splitOp(o); b+1 > nb {
			nb = b + 1
		}
	}
	return nb
}

// parallelFlow: k independent chains src → pass → sink (nodes 3i, 3i+1, 3i+2).
func parallelFlow(k int) flowSpec {
	fs := flowSpec{name: fmt.Sprintf("par%d", k)}
	for i := 0; i < k; i++ {
		fs.nodes = append(fs.nodes,
			nodeSpec{kind: "src", outs: map[string]edge{"out": {3*i + 1, "in"}}},
			nodeSpec{kind: "pass", outs: map[string]edge{"out": {3*i + 2, "in"}}},
			nodeSpec{kind: "sink"})
	}
	return fs
}

// modelMust asks the driver, for every scenario and every prefix, what all quiescent states of
// the model agree on (one driver process for all scenarios).
func modelMust(c *lib.Ctx, scs []scenario) ([][][]string, error) {
	var in bytes.Buffer
	for _, sc := range scs {
		in.WriteString(fmt.Sprintf("reset\nbp %d\n", nbOf(sc)))
		for _, o := range sc {
			name, b := splitOp(o)
			if isCall(o) {
				in.WriteString(fmt.Sprintf("call %s %d\n", name, b))
			} else {
				in.WriteString(fmt.Sprintf("hook %d\n", b))
			}
			in.WriteString("must\n")
		}
	}
	exe, derr := c.DriverExe("c19")
	if derr != nil {
		return nil, derr
	}
	cmd := exec.Command(exe, "c19")
	cmd.Stdin = &in
	var out, errb bytes.Buffer
	cmd.Stdout, cmd.Stderr = &out, &errb
	if err := cmd.Run(); err != nil {
		return nil, fmt.Errorf("model driver: %v: %s", err, errb.String())
	}
	var lines []string
	sn := bufio.NewScanner(&out)
	for sn.Scan() {
		lines = append(lines, sn.Text())
	}
	res := make([][][]string, len(scs))
	i := 0
	next := func() (string, error) {
		if i >= len(lines) {
			return "", fmt.Errorf("model driver: short output")
		}
		i++
		return lines[i-1], nil
	}
	for si, sc := range scs {
		for k := 0; k < 2; k++ { // reset, bp
			if l, err := next(); err != nil || l != "ok" {
				return nil, fmt.Errorf("model driver: %q on reset/bp: %v", l, err)
			}
		}
		for range sc {
			if l, err := next(); err != nil || (l != "ok" && l != "fuel") {
				return nil, fmt.Errorf("model driver: %q (scenario %v): %v", l, sc, err)
			}
			l, err := next()
			if err != nil || (!strings.HasPrefix(l, "released=") && l != "fuel") {
				return nil, fmt.Errorf("model driver: %q on must: %v", l, err)
			}
			res[si] = append(res[si], strings.Fields(l))
		}
	}
	return res, nil
}

type callRec struct {
	name string
	done chan bool
	ret  string // "" while blocked
}

func (cr *callRec) poll(wait time.Duration) {
	if cr.ret != "" {
		return
	}
	var t <-chan time.Time
	if wait > 0 {
		t = time.After(wait)
	}
	if wait == 0 {
		select {
		case v := <-cr.done:
			cr.ret = map[bool]string{true: "T", false: "F"}[v]
		default:
		}
		return
	}
	select {
	case v := <-cr.done:
		cr.ret = map[bool]string{true: "T", false: "F"}[v]
	case <-t:
	}
}

// bpBroken: a breakpoint scenario ended with a packet or call stuck for good.
var bpBroken bool

type bpArrival struct {
	sess int
	pck  *packet.Packet
}

// bpCase runs one scenario on the real Debugger.
func bpCase(c *lib.Ctx, sc scenario, must [][]string, script *lib.Script, fails *[]lib.OracleFail) (key string) {
	agent := runtime.NewAgent()
	nb := nbOf(sc)
	fs := parallelFlow(nb)
	f, err := build(fs, agent)
	if err != nil {
		*fails = append(*fails, lib.OracleFail{Class: "build", What: err.Error()})
		return ""
	}
	targetIn := map[*port.InPort]bool{}
	for b := 0; b < nb; b++ {
		targetIn[f.syms[3*b+1].In("in")] = true
	}
	entered := make(chan struct{}, 64)
	agent.Watch(runtime.NewFrameWatcher(func(fr *runtime.Frame) {
		// request stage on a watched port (the answer stage only happens during clean-up)
		if fr.InPort != nil && targetIn[fr.InPort] && fr.OutPck == nil {
			entered <- struct{}{}
		}
	}))
	d := runtime.NewDebugger(agent)
	var bps []*runtime.Breakpoint
	for b := 0; b < nb; b++ { // one breakpoint per symbol, registered in index order
		t := f.syms[3*b+1]
		bps = append(bps, runtime.NewBreakpoint(runtime.BreakWithSymbol(t), runtime.BreakWithInPort(t.In("in"))))
		d.AddBreakpoint(bps[b])
	}
	script.Op(fmt.Sprintf("bp %d", nb), "ok")

	nfails0 := len(*fails)
	trace := []string{"# scenario: " + sc.String()}
	fail := func(class, what string) {
		if len(*fails) < 20 {
			*fails = append(*fails, lib.OracleFail{Class: class, What: "scenario [" + sc.String() + "]: " + what, Replay: strings.Join(trace, "\n")})
		}
	}

	var sessions []*session
	var sessBp []int
	closedBp := make([]bool, nb)
	var wrote []chan int
	sinkPck := map[int]*packet.Packet{}
	arrivals := make(chan bpArrival, 64)
	quit := make(chan struct{})
	released := 0
	var calls []*callRec
	closing, dclosed := false, false
	stalled := false
	ctx := context.Background()

	take := func(a bpArrival) { sinkPck[a.sess] = a.pck; released++ }
	collect := func(want int, wait time.Duration) {
		deadline := time.After(wait)
		for released < want {
			select {
			case a := <-arrivals:
				take(a)
				continue
			case <-deadline:
			}
			break
		}
		for {
			select {
			case a := <-arrivals:
				take(a)
				continue
			default:
			}
			break
		}
	}
	observe := func(m []string) (real, pattern string) {
		// m[0] = released=<n|?>, m[1] = held=<1|0|?>, m[2] = cur=<h|-|?>,…, m[3+i] = T|F|b|? for call i
		if len(m) > 2 && strings.HasPrefix(m[2], "cur=") {
			// b.current of a breakpoint is the frame of packet h in every quiescent state: wait until
			// the real d.next goroutine has received it (Breakpoint.Frame is public API)
			for b, v := range strings.Split(strings.TrimPrefix(m[2], "cur="), ",") {
				var h int
				if _, err := fmt.Sscanf(v, "%d", &h); err != nil || b >= len(bps) || h >= len(sessions) {
					continue
				}
				deadline := time.Now().Add(watchdog)
				for time.Now().Before(deadline) {
					if fr := bps[b].Frame(); fr != nil && fr.Process == sessions[h].proc {
						break
					}
					time.Sleep(50 * time.Microsecond)
				}
			}
			m = append(append([]string{}, m[:2]...), m[3:]...)
		}
		if len(m) > 1 && m[1] == "held=1" {
			// some Pause / Step must be waiting inside its select: make sure the real one got there
			// (a goroutine that has not been scheduled yet is indistinguishable from a blocked one)
			deadline := time.Now().Add(watchdog)
			for !d.VerifPaused() && time.Now().Before(deadline) {
				time.Sleep(50 * time.Microsecond)
			}
		}
		if len(m) > 1 {
			m = append([]string{m[0]}, m[2:]...)
		}
		relKnown := len(m) > 0 && m[0] != "released=?"
		if relKnown {
			var n int
			fmt.Sscanf(m[0], "released=%d", &n)
			collect(n, watchdog)
			if released < n {
				stalled = true // the real system did not get where every schedule of the model gets
			}
		}
		for i, cr := range calls {
			if 1+i < len(m) && (m[1+i] == "T" || m[1+i] == "F") {
				cr.poll(watchdog)
				if cr.ret == "" {
					stalled = true
				}
			}
		}
		if !relKnown {
			time.Sleep(20 * time.Millisecond)
		}
		collect(0, 0)
		rp := []string{fmt.Sprintf("released=%d/%d", released, len(sessions))}
		pp := []string{rp[0]}
		if !relKnown {
			pp[0] = "released=*"
		}
		for i, cr := range calls {
			cr.poll(0)
			st := cr.ret
			if st == "" {
				st = "b"
			}
			rp = append(rp, cr.name+":"+st)
			if 1+i < len(m) && m[1+i] == "?" {
				pp = append(pp, cr.name+":*")
			} else {
				pp = append(pp, cr.name+":"+st)
			}
		}
		return strings.Join(rp, " "), strings.Join(pp, " ")
	}
	start := func(name string, fn func() bool) {
		cr := &callRec{name: name, done: make(chan bool, 1)}
		calls = append(calls, cr)
		go func() { cr.done <- fn() }()
	}

	for step, o := range sc {
		name, b := splitOp(o)
		switch name {
		case "hook":
			s := openSession(f)
			idx := len(sessions)
			sessions = append(sessions, s)
			sessBp = append(sessBp, b)
			w := make(chan int, 1)
			wrote = append(wrote, w)
			go func() { w <- s.writers[3*b].Write(packet.New(types.NewInt(idx))) }()
			go func() {
				select {
				case ev := <-s.events:
					arrivals <- bpArrival{idx, ev.pck}
				case <-quit:
				}
			}()
			select {
			case <-entered:
			case <-time.After(watchdog):
				fail("hook-not-entered", fmt.Sprintf("packet %d never reached the agent's hook", idx))
			}
			script.Op(fmt.Sprintf("hook %d", b), "ok")
		case "pause":
			start(name, func() bool { return d.Pause(ctx) })
		case "step":
			start(name, func() bool { return d.Step(ctx) })
		case "remove":
			closing, closedBp[b] = true, true
			start(name, func() bool { return d.RemoveBreakpoint(bps[b]) })
		case "dclose":
			closing, dclosed = true, true
			for i := range closedBp {
				closedBp[i] = true
			}
			start(name, func() bool { d.Close(); return true })
		case "close":
			closing, closedBp[b] = true, true
			start(name, func() bool { bps[b].Close(); return true })
		}
		if isCall(o) {
			script.Op(fmt.Sprintf("call %s %d", name, b), "ok")
		}
		script.Op("must", strings.Join(must[step], " "))
		real, pat := observe(must[step])
		trace = append(trace, fmt.Sprintf("%-8s => %s   (model agrees on: %s)", o, real, strings.Join(must[step], " ")))
		script.Op("expect "+pat, "ok")
		c.Hit("bp-op-" + name)
		if stalled {
			break // what follows would only wait for more watchdogs
		}
	}
	if nb > 1 {
		c.Hit(fmt.Sprintf("bp-debugger-with-%d-breakpoints", nb))
	}

	// the property, directly: after remove / close, every packet paused on (or arriving later at) a
	// removed / closed breakpoint is resumed
	if closing {
		want := 0
		for _, b := range sessBp {
			if closedBp[b] {
				want++
			}
		}
		deadline := time.Now().Add(watchdog)
		stuck := func() []int {
			var out []int
			for i, b := range sessBp {
				if _, ok := sinkPck[i]; closedBp[b] && !ok {
					out = append(out, i)
				}
			}
			return out
		}
		for len(stuck()) > 0 && time.Now().Before(deadline) {
			collect(released+1, 50*time.Millisecond)
		}
		if st := stuck(); len(st) > 0 {
			var desc []string
			for _, i := range st {
				desc = append(desc, fmt.Sprintf("packet %d on breakpoint %d", i, sessBp[i]))
			}
			fail("paused-packet-never-resumed", fmt.Sprintf("%d of %d packets still paused %v after their breakpoint was removed / the debugger closed: %s", len(st), want, watchdog, strings.Join(desc, ", ")))
		}
	}
	if dclosed {
		for _, cr := range calls {
			cr.poll(watchdog)
			if cr.ret == "" {
				fail("call-blocked-after-close", fmt.Sprintf("%s still blocked %v after Debugger.Close", cr.name, watchdog))
			}
		}
	}
	trace = append(trace, fmt.Sprintf("final   => released=%d/%d", released, len(sessions)))

	if stalled || len(*fails) > nfails0 {
		// something is stuck for good: leave this debugger and its goroutines behind, and do not
		// start further breakpoint scenarios (each would run into the same watchdogs)
		bpBroken = true
		go d.Close()
		return "bp:" + sc.String()
	}

	// clean-up: release everything, answer at the sink, collect the responses
	cleanup := func() {
		d.Close()
		collect(len(sessions), watchdog)
		for i, s := range sessions {
			select {
			case <-wrote[i]:
			case <-time.After(watchdog):
				fail("write-blocked", fmt.Sprintf("Write of packet %d never returned", i))
				continue
			}
			if p := sinkPck[i]; p != nil {
				s.readers[3*sessBp[i]+2].Receive(packet.New(types.NewInt(1000 + i)))
				select {
				case <-s.writers[3*sessBp[i]].Receive():
				case <-time.After(watchdog):
					fail("flow", fmt.Sprintf("no response to packet %d during clean-up", i))
				}
			}
		}
		close(quit)
		for _, s := range sessions {
			s.exit()
		}
		f.close()
	}
	if ok, p := lib.WithTimeout(3*watchdog, cleanup); !ok || p != nil {
		fail("cleanup", fmt.Sprintf("clean-up did not finish (panic=%v)", p))
	}
	if os.Getenv("C19_TRACE") != "" {
		fmt.Fprintln(os.Stderr, strings.Join(trace, "\n"))
	}
	if sampled["bp"] < 2 {
		sampled["bp"]++
		c.Sample(clip(trace))
	}
	if len(sessions) > 0 && len(calls) > 0 {
		return "bp:" + sc.String()
	}
	return ""
}

// genScenarios: quick – all scenarios of length ≤ 2 plus random longer ones; thorough – all of
// length ≤ 4 plus random longer ones. Every scenario contains remove / close / dclose and at
// most 3 packets.
func genScenarios(c *lib.Ctx, rng *lib.RNG) []scenario {
	alpha := []string{"hook", "pause", "step", "remove", "dclose", "close"}
	ok := func(s scenario) bool {
		h, cl := 0, false
		for _, o := range s {
			if o == "hook" {
				h++
			}
			if o == "remove" || o == "dclose" || o == "close" {
				cl = true
			}
		}
		return h <= 3 && cl
	}
	var out []scenario
	var rec func(prefix scenario, n int)
	rec = func(prefix scenario, n int) {
		if len(prefix) > 0 && ok(prefix) {
			out = append(out, append(scenario(nil), prefix...))
		}
		if n == 0 {
			return
		}
		for _, a := range alpha {
			rec(append(prefix, a), n-1)
		}
	}
	rec(nil, c.Scale(2, 4))
	for i := 0; i < c.Scale(60, 600); i++ {
		n := rng.Range(3, 6)
		var s scenario
		h := 0
		for len(s) < n {
			o := alpha[rng.Weighted([]int{5, 3, 5, 2, 2, 1})]
			if o == "hook" {
				if h == 3 {
					continue
				}
				h++
			}
			s = append(s, o)
		}
		if !ok(s) {
			s = append(s, lib.Pick(rng, []string{"remove", "dclose"}))
		}
		out = append(out, s)
	}
	// one debugger with 3–5 breakpoints (one per symbol), every one of them holding a paused packet
	// when RemoveBreakpoint (any order) / Debugger.Close happens; afterwards one more packet per
	// symbol: it must not be held by a leftover watcher
	for i := 0; i < c.Scale(30, 400); i++ {
		nb := rng.Range(3, 5)
		var s scenario
		perm := func() []int {
			p := make([]int, nb)
			for j := range p {
				p[j] = j
			}
			for j := nb - 1; j > 0; j-- {
				k := rng.Intn(j + 1)
				p[j], p[k] = p[k], p[j]
			}
			return p
		}
		for _, b := range perm() {
			s = append(s, fmt.Sprintf("hook:%d", b))
		}
		for j := rng.Intn(3); j > 0; j-- {
			s = append(s, lib.Pick(rng, []string{"pause", "step", fmt.Sprintf("hook:%d", rng.Intn(nb))}))
		}
		switch rng.Intn(3) {
		case 0:
			s = append(s, "dclose")
		case 1: // remove some, in arbitrary order, then close
			for _, b := range perm()[:rng.Range(1, nb-1)] {
				s = append(s, fmt.Sprintf("remove:%d", b))
			}
			s = append(s, "dclose")
		default: // remove all, in arbitrary order
			for _, b := range perm() {
				s = append(s, fmt.Sprintf("remove:%d", b))
			}
		}
		for _, b := range perm() {
			s = append(s, fmt.Sprintf("hook:%d", b))
		}
		out = append(out, s)
	}
	return out
}
