package c19

import (
	"bufio"
	"bytes"
	"context"
	"fmt"
	"os"
	"os/exec"
	"strings"
	"time"

	"github.com/siyul-park/uniflow/pkg/packet"
	"github.com/siyul-park/uniflow/pkg/runtime"
	"github.com/siyul-park/uniflow/pkg/types"

	"verifharness/lib"
)

// A breakpoint scenario: a sequence over
//
//	hook    one more packet (own process) is written into the symbol carrying the breakpoint
//	pause | step | remove | dclose     Debugger.Pause / Step / RemoveBreakpoint / Close
//	close   Breakpoint.Close called directly
//
// Every API call runs on its own goroutine; the harness moves on when the model says the call
// must have returned (then it waits, watchdog 10 s) or may / must still be blocked (then it does
// not wait). Observations: how many packets reached the sink (= were resumed), and for every
// call whether it returned and what.
type scenario []string

func (s scenario) String() string { return strings.Join(s, " ") }

func isCall(o string) bool { return o != "hook" }

// modelMust asks the driver, for every scenario and every prefix, what all quiescent states of
// the model agree on (one driver process for all scenarios).
func modelMust(c *lib.Ctx, scs []scenario) ([][][]string, error) {
	var in bytes.Buffer
	for _, sc := range scs {
		in.WriteString("reset\nbp\n")
		for _, o := range sc {
			if isCall(o) {
				in.WriteString("call " + o + "\n")
			} else {
				in.WriteString("hook\n")
			}
			in.WriteString("must\n")
		}
	}
	exe, derr := c.DriverExe("c19")
	if derr != nil {
		return nil, derr
	}
	cmd := exec.Command(exe, "c19")
	cmd.Stdin = &in
	var out, errb bytes.Buffer
	cmd.Stdout, cmd.Stderr = &out, &errb
	if err := cmd.Run(); err != nil {
		return nil, fmt.Errorf("model driver: %v: %s", err, errb.String())
	}
	var lines []string
	sn := bufio.NewScanner(&out)
	for sn.Scan() {
		lines = append(lines, sn.Text())
	}
	res := make([][][]string, len(scs))
	i := 0
	next := func() (string, error) {
		if i >= len(lines) {
			return "", fmt.Errorf("model driver: short output")
		}
		i++
		return lines[i-1], nil
	}
	for si, sc := range scs {
		for k := 0; k < 2; k++ { // reset, bp
			if l, err := next(); err != nil || l != "ok" {
				return nil, fmt.Errorf("model driver: %q on reset/bp: %v", l, err)
			}
		}
		for range sc {
			if l, err := next(); err != nil || (l != "ok" && l != "fuel") {
				return nil, fmt.Errorf("model driver: %q (scenario %v): %v", l, sc, err)
			}
			l, err := next()
			if err != nil || (!strings.HasPrefix(l, "released=") && l != "fuel") {
				return nil, fmt.Errorf("model driver: %q on must: %v", l, err)
			}
			res[si] = append(res[si], strings.Fields(l))
		}
	}
	return res, nil
}

type callRec struct {
	name string
	done chan bool
	ret  string // "" while blocked
}

func (cr *callRec) poll(wait time.Duration) {
	if cr.ret != "" {
		return
	}
	var t <-chan time.Time
	if wait > 0 {
		t = time.After(wait)
	}
	if wait == 0 {
		select {
		case v := <-cr.done:
			cr.ret = map[bool]string{true: "T", false: "F"}[v]
		default:
		}
		return
	}
	select {
	case v := <-cr.done:
		cr.ret = map[bool]string{true: "T", false: "F"}[v]
	case <-t:
	}
}

type bpArrival struct {
	sess int
	pck  *packet.Packet
}

// bpCase runs one scenario on the real Debugger.
func bpCase(c *lib.Ctx, sc scenario, must [][]string, script *lib.Script, fails *[]lib.OracleFail) (key string) {
	agent := runtime.NewAgent()
	fs := chainFlow([]int{0})
	f, err := build(fs, agent)
	if err != nil {
		*fails = append(*fails, lib.OracleFail{Class: "build", What: err.Error()})
		return ""
	}
	target := f.syms[1]
	targetIn := target.In("in")
	entered := make(chan struct{}, 64)
	agent.Watch(runtime.NewFrameWatcher(func(fr *runtime.Frame) {
		// request stage on the watched port (the answer stage only happens during clean-up)
		if fr.Symbol == target && fr.InPort == targetIn && fr.OutPck == nil {
			entered <- struct{}{}
		}
	}))
	d := runtime.NewDebugger(agent)
	bp := runtime.NewBreakpoint(runtime.BreakWithSymbol(target), runtime.BreakWithInPort(targetIn))
	d.AddBreakpoint(bp)
	script.Op("bp", "ok")

	trace := []string{"# scenario: " + sc.String()}
	fail := func(class, what string) {
		if len(*fails) < 20 {
			*fails = append(*fails, lib.OracleFail{Class: class, What: "scenario [" + sc.String() + "]: " + what, Replay: strings.Join(trace, "\n")})
		}
	}

	var sessions []*session
	var wrote []chan int
	sinkPck := map[int]*packet.Packet{}
	arrivals := make(chan bpArrival, 64)
	quit := make(chan struct{})
	released := 0
	var calls []*callRec
	closing, dclosed := false, false
	ctx := context.Background()

	take := func(a bpArrival) { sinkPck[a.sess] = a.pck; released++ }
	collect := func(want int, wait time.Duration) {
		deadline := time.After(wait)
		for released < want {
			select {
			case a := <-arrivals:
				take(a)
				continue
			case <-deadline:
			}
			break
		}
		for {
			select {
			case a := <-arrivals:
				take(a)
				continue
			default:
			}
			break
		}
	}
	observe := func(m []string) (real, pattern string) {
		// m[0] = released=<n|?>, m[1] = held=<1|0|?>, m[2+i] = T|F|b|? for call i
		if len(m) > 1 && m[1] == "held=1" {
			// some Pause / Step must be waiting inside its select: make sure the real one got there
			// (a goroutine that has not been scheduled yet is indistinguishable from a blocked one)
			deadline := time.Now().Add(watchdog)
			for !d.VerifPaused() && time.Now().Before(deadline) {
				time.Sleep(50 * time.Microsecond)
			}
		}
		if len(m) > 1 {
			m = append([]string{m[0]}, m[2:]...)
		}
		relKnown := len(m) > 0 && m[0] != "released=?"
		if relKnown {
			var n int
			fmt.Sscanf(m[0], "released=%d", &n)
			collect(n, watchdog)
		}
		for i, cr := range calls {
			if 1+i < len(m) && (m[1+i] == "T" || m[1+i] == "F") {
				cr.poll(watchdog)
			}
		}
		if !relKnown {
			time.Sleep(20 * time.Millisecond)
		}
		collect(0, 0)
		rp := []string{fmt.Sprintf("released=%d/%d", released, len(sessions))}
		pp := []string{rp[0]}
		if !relKnown {
			pp[0] = "released=*"
		}
		for i, cr := range calls {
			cr.poll(0)
			st := cr.ret
			if st == "" {
				st = "b"
			}
			rp = append(rp, cr.name+":"+st)
			if 1+i < len(m) && m[1+i] == "?" {
				pp = append(pp, cr.name+":*")
			} else {
				pp = append(pp, cr.name+":"+st)
			}
		}
		return strings.Join(rp, " "), strings.Join(pp, " ")
	}
	start := func(name string, fn func() bool) {
		cr := &callRec{name: name, done: make(chan bool, 1)}
		calls = append(calls, cr)
		go func() { cr.done <- fn() }()
	}

	for step, o := range sc {
		switch o {
		case "hook":
			s := openSession(f)
			idx := len(sessions)
			sessions = append(sessions, s)
			w := make(chan int, 1)
			wrote = append(wrote, w)
			go func() { w <- s.writers[0].Write(packet.New(types.NewInt(idx))) }()
			go func() {
				select {
				case ev := <-s.events:
					arrivals <- bpArrival{idx, ev.pck}
				case <-quit:
				}
			}()
			select {
			case <-entered:
			case <-time.After(watchdog):
				fail("hook-not-entered", fmt.Sprintf("packet %d never reached the agent's hook", idx))
			}
			script.Op("hook", "ok")
		case "pause":
			start(o, func() bool { return d.Pause(ctx) })
		case "step":
			start(o, func() bool { return d.Step(ctx) })
		case "remove":
			closing = true
			start(o, func() bool { return d.RemoveBreakpoint(bp) })
		case "dclose":
			closing, dclosed = true, true
			start(o, func() bool { d.Close(); return true })
		case "close":
			closing = true
			start(o, func() bool { bp.Close(); return true })
		}
		if isCall(o) {
			script.Op("call "+o, "ok")
		}
		real, pat := observe(must[step])
		trace = append(trace, fmt.Sprintf("%-7s => %s   (model agrees on: %s)", o, real, strings.Join(must[step], " ")))
		script.Op("expect "+pat, "ok")
		c.Hit("bp-op-" + o)
	}

	// the property, directly: after remove / close, every paused packet is resumed
	if closing {
		collect(len(sessions), watchdog)
		if released < len(sessions) {
			fail("paused-packet-never-resumed", fmt.Sprintf("%d of %d packets still paused %v after the breakpoint was removed / closed", len(sessions)-released, len(sessions), watchdog))
		}
	}
	if dclosed {
		for _, cr := range calls {
			cr.poll(watchdog)
			if cr.ret == "" {
				fail("call-blocked-after-close", fmt.Sprintf("%s still blocked %v after Debugger.Close", cr.name, watchdog))
			}
		}
	}
	trace = append(trace, fmt.Sprintf("final   => released=%d/%d", released, len(sessions)))

	// clean-up: release everything, answer at the sink, collect the responses
	cleanup := func() {
		d.Close()
		collect(len(sessions), watchdog)
		for i, s := range sessions {
			select {
			case <-wrote[i]:
			case <-time.After(watchdog):
				fail("write-blocked", fmt.Sprintf("Write of packet %d never returned", i))
				continue
			}
			if p := sinkPck[i]; p != nil {
				s.readers[2].Receive(packet.New(types.NewInt(1000 + i)))
				select {
				case <-s.writers[0].Receive():
				case <-time.After(watchdog):
					fail("flow", fmt.Sprintf("no response to packet %d during clean-up", i))
				}
			}
		}
		close(quit)
		for _, s := range sessions {
			s.exit()
		}
		f.close()
	}
	if ok, p := lib.WithTimeout(3*watchdog, cleanup); !ok || p != nil {
		fail("cleanup", fmt.Sprintf("clean-up did not finish (panic=%v)", p))
	}
	if os.Getenv("C19_TRACE") != "" {
		fmt.Fprintln(os.Stderr, strings.Join(trace, "\n"))
	}
	if sampled["bp"] < 2 {
		sampled["bp"]++
		c.Sample(clip(trace))
	}
	if len(sessions) > 0 && len(calls) > 0 {
		return "bp:" + sc.String()
	}
	return ""
}

// genScenarios: quick – all scenarios of length ≤ 2 plus random longer ones; thorough – all of
// length ≤ 4 plus random longer ones. Every scenario contains remove / close / dclose and at
// most 3 packets.
func genScenarios(c *lib.Ctx, rng *lib.RNG) []scenario {
	alpha := []string{"hook", "pause", "step", "remove", "dclose", "close"}
	ok := func(s scenario) bool {
		h, cl := 0, false
		for _, o := range s {
			if o == "hook" {
				h++
			}
			if o == "remove" || o == "dclose" || o == "close" {
				cl = true
			}
		}
		return h <= 3 && cl
	}
	var out []scenario
	var rec func(prefix scenario, n int)
	rec = func(prefix scenario, n int) {
		if len(prefix) > 0 && ok(prefix) {
			out = append(out, append(scenario(nil), prefix...))
		}
		if n == 0 {
			return
		}
		for _, a := range alpha {
			rec(append(prefix, a), n-1)
		}
	}
	rec(nil, c.Scale(2, 4))
	for i := 0; i < c.Scale(60, 600); i++ {
		n := rng.Range(3, 6)
		var s scenario
		h := 0
		for len(s) < n {
			o := alpha[rng.Weighted([]int{5, 3, 5, 2, 2, 1})]
			if o == "hook" {
				if h == 3 {
					continue
				}
				h++
			}
			s = append(s, o)
		}
		if !ok(s) {
			s = append(s, lib.Pick(rng, []string{"remove", "dclose"}))
		}
		out = append(out, s)
	}
	return out
}
