package c19

import (
	"fmt"

	"verifharness/lib"
)

func chainFlow(cs []int) flowSpec {
	fs := flowSpec{name: fmt.Sprintf("chain%d", len(cs))}
	fs.nodes = append(fs.nodes, nodeSpec{kind: "src", outs: map[string]edge{"out": {1, "in"}}})
	for i, c := range cs {
		fs.nodes = append(fs.nodes, nodeSpec{kind: "pass", c: c, outs: map[string]edge{"out": {i + 2, "in"}}})
	}
	fs.nodes = append(fs.nodes, nodeSpec{kind: "sink"})
	return fs
}

// splitFlow: src → [pass] → split → (out → [pass] → sinkA, error → sinkB)
func splitFlow(pre, post bool, parity int) flowSpec {
	fs := flowSpec{name: "split"}
	add := func(n nodeSpec) int { fs.nodes = append(fs.nodes, n); return len(fs.nodes) - 1 }
	add(nodeSpec{kind: "src", outs: map[string]edge{"out": {1, "in"}}})
	if pre {
		add(nodeSpec{kind: "pass", c: 1, outs: map[string]edge{"out": {2, "in"}}})
	}
	sp := add(nodeSpec{kind: "split", c: parity})
	next := sp + 1
	outs := map[string]edge{}
	if post {
		add(nodeSpec{kind: "pass", c: 10, outs: map[string]edge{"out": {next + 1, "in"}}})
		outs["out"] = edge{next, "in"}
		next++
	} else {
		outs["out"] = edge{next, "in"}
	}
	add(nodeSpec{kind: "sink"})
	outs["error"] = edge{next + 1, "in"}
	add(nodeSpec{kind: "sink"})
	fs.nodes[sp].outs = outs
	return fs
}

// fanFlow: src → fan → (out[0] → [pass] → sinkA, out[1] → sinkB)
func fanFlow(post bool) flowSpec {
	fs := flowSpec{name: "fan"}
	fs.nodes = append(fs.nodes, nodeSpec{kind: "src", outs: map[string]edge{"out": {1, "in"}}})
	if post {
		fs.nodes = append(fs.nodes,
			nodeSpec{kind: "fan", outs: map[string]edge{"out[0]": {2, "in"}, "out[1]": {4, "in"}}},
			nodeSpec{kind: "pass", c: 7, outs: map[string]edge{"out": {3, "in"}}},
			nodeSpec{kind: "sink"}, nodeSpec{kind: "sink"})
	} else {
		fs.nodes = append(fs.nodes,
			nodeSpec{kind: "fan", outs: map[string]edge{"out[0]": {2, "in"}, "out[1]": {3, "in"}}},
			nodeSpec{kind: "sink"}, nodeSpec{kind: "sink"})
	}
	return fs
}

// joinFlow: src0 → join.in[0], src1 → join.in[1], join.out → [pass] → sink
func joinFlow(post bool) flowSpec {
	fs := flowSpec{name: "join"}
	fs.nodes = append(fs.nodes,
		nodeSpec{kind: "src", outs: map[string]edge{"out": {2, "in[0]"}}},
		nodeSpec{kind: "src", outs: map[string]edge{"out": {2, "in[1]"}}})
	if post {
		fs.nodes = append(fs.nodes,
			nodeSpec{kind: "join", outs: map[string]edge{"out": {3, "in"}}},
			nodeSpec{kind: "pass", c: 3, outs: map[string]edge{"out": {4, "in"}}},
			nodeSpec{kind: "sink"})
	} else {
		fs.nodes = append(fs.nodes,
			nodeSpec{kind: "join", outs: map[string]edge{"out": {3, "in"}}},
			nodeSpec{kind: "sink"})
	}
	return fs
}

func genFlow(rng *lib.RNG) flowSpec {
	switch rng.Weighted([]int{3, 4, 3, 3}) {
	case 0:
		k := rng.Range(1, 3)
		cs := make([]int, k)
		for i := range cs {
			cs[i] = rng.Range(0, 5)
		}
		return chainFlow(cs)
	case 1:
		return splitFlow(rng.Bool(), rng.Bool(), rng.Intn(2))
	case 2:
		return fanFlow(rng.Bool())
	default:
		return joinFlow(rng.Bool())
	}
}

// genOps draws a schedule: writes interleaved with answers at sinks that have an unanswered
// request (tracked with the reference semantics), several requests in flight. In join workflows
// a source gets its next write only after its previous one was answered (what a ManyToOneNode
// answers to a queued, unpaired packet behind unanswered ones is C02's subject, not ours).
func genOps(rng *lib.RNG, fs flowSpec, nsess, maxWrites int, serialAll bool) []op {
	type st struct {
		ip       *interp
		pending  map[int][]int // per sink: write indices, oldest first
		out      []int         // per write: outstanding arrivals
		src      []int         // per write: its source
		inflight map[int]int   // per source: writes not yet fully answered
	}
	sts := make([]*st, nsess)
	for i := range sts {
		sts[i] = &st{ip: newInterp(fs), pending: map[int][]int{}, inflight: map[int]int{}}
	}
	serial := serialAll || len(fs.indices("join")) > 0
	srcs, sinks := fs.indices("src"), fs.indices("sink")
	var ops []op
	writes := 0
	for steps := 0; steps < 4*maxWrites+8; steps++ {
		si := rng.Intn(nsess)
		s := sts[si]
		var ready []int
		for _, k := range sinks {
			if len(s.pending[k]) > 0 {
				ready = append(ready, k)
			}
		}
		var free []int
		for _, k := range srcs {
			if !serial || s.inflight[k] == 0 {
				free = append(free, k)
			}
		}
		if writes < maxWrites && len(free) > 0 && (len(ready) == 0 || rng.Chance(3, 5)) {
			o := op{kind: 'w', sess: si, node: lib.Pick(rng, free), v: rng.Range(0, 9)}
			var arr []arrival
			w := len(s.out)
			s.ip.deliver(o.node, "", o.v, w, &arr)
			s.out = append(s.out, len(arr))
			s.src = append(s.src, o.node)
			if len(arr) > 0 {
				s.inflight[o.node]++
			}
			for _, a := range arr {
				s.pending[a.sink] = append(s.pending[a.sink], a.write)
			}
			ops = append(ops, o)
			writes++
		} else if len(ready) > 0 {
			k := lib.Pick(rng, ready)
			w := s.pending[k][0]
			s.pending[k] = s.pending[k][1:]
			s.out[w]--
			if s.out[w] == 0 {
				s.inflight[s.src[w]]--
			}
			ops = append(ops, op{kind: 'a', sess: si, node: k})
		}
	}
	return ops
}
