package c19

import (
	"fmt"
	"sort"
	"strings"

	"verifharness/lib"
)

func chainFlow(cs []int) flowSpec {
	fs := flowSpec{name: fmt.Sprintf("chain%d", len(cs))}
	fs.nodes = append(fs.nodes, nodeSpec{kind: "src", outs: map[string]edge{"out": {1, "in"}}})
	for i, c := range cs {
		fs.nodes = append(fs.nodes, nodeSpec{kind: "pass", c: c, outs: map[string]edge{"out": {i + 2, "in"}}})
	}
	fs.nodes = append(fs.nodes, nodeSpec{kind: "sink"})
	return fs
}

// splitFlow: src → [pass] → split → (out → [pass] → sinkA, error → sinkB)
func splitFlow(pre, post bool, parity int) flowSpec {
	fs := flowSpec{name: "split"}
	add := func(n nodeSpec) int { fs.nodes = append(fs.nodes, n); return len(fs.nodes) - 1 }
	add(nodeSpec{kind: "src", outs: map[string]edge{"out": {1, "in"}}})
	if pre {
		add(nodeSpec{kind: "pass", c: 1, outs: map[string]edge{"out": {2, "in"}}})
	}
	sp := add(nodeSpec{kind: "split", c: parity})
	next := sp + 1
	outs := map[string]edge{}
	if post {
		add(nodeSpec{kind: "pass", c: 10, outs: map[string]edge{"out": {next + 1, "in"}}})
		outs["out"] = edge{next, "in"}
		next++
	} else {
		outs["out"] = edge{next, "in"}
	}
	add(nodeSpec{kind: "sink"})
	outs["error"] = edge{next + 1, "in"}
	add(nodeSpec{kind: "sink"})
	fs.nodes[sp].outs = outs
	return fs
}

// fanFlow: src → fan → (out[0] → [pass] → sinkA, out[1] → sinkB)
func fanFlow(post bool) flowSpec {
	fs := flowSpec{name: "fan"}
	fs.nodes = append(fs.nodes, nodeSpec{kind: "src", outs: map[string]edge{"out": {1, "in"}}})
	if post {
		fs.nodes = append(fs.nodes,
			nodeSpec{kind: "fan", outs: map[string]edge{"out[0]": {2, "in"}, "out[1]": {4, "in"}}},
			nodeSpec{kind: "pass", c: 7, outs: map[string]edge{"out": {3, "in"}}},
			nodeSpec{kind: "sink"}, nodeSpec{kind: "sink"})
	} else {
		fs.nodes = append(fs.nodes,
			nodeSpec{kind: "fan", outs: map[string]edge{"out[0]": {2, "in"}, "out[1]": {3, "in"}}},
			nodeSpec{kind: "sink"}, nodeSpec{kind: "sink"})
	}
	return fs
}

// joinFlow: src0 → join.in[0], src1 → join.in[1], join.out → [pass] → sink
func joinFlow(post bool) flowSpec {
	fs := flowSpec{name: "join"}
	fs.nodes = append(fs.nodes,
		nodeSpec{kind: "src", outs: map[string]edge{"out": {2, "in[0]"}}},
		nodeSpec{kind: "src", outs: map[string]edge{"out": {2, "in[1]"}}})
	if post {
		fs.nodes = append(fs.nodes,
			nodeSpec{kind: "join", outs: map[string]edge{"out": {3, "in"}}},
			nodeSpec{kind: "pass", c: 3, outs: map[string]edge{"out": {4, "in"}}},
			nodeSpec{kind: "sink"})
	} else {
		fs.nodes = append(fs.nodes,
			nodeSpec{kind: "join", outs: map[string]edge{"out": {3, "in"}}},
			nodeSpec{kind: "sink"})
	}
	return fs
}

// multiFlow: src → pass c → k sinks, all linked to the pass node's one out-port; with srcToo the
// source's out-port has a second link as well (to a sink of its own).
func multiFlow(c, k int, srcToo bool) flowSpec {
	fs := flowSpec{name: fmt.Sprintf("multi%d", k)}
	fs.nodes = append(fs.nodes, nodeSpec{kind: "src", outs: map[string]edge{"out": {1, "in"}}},
		nodeSpec{kind: "pass", c: c, outs: map[string]edge{"out": {2, "in"}}, more: map[string][]edge{}},
		nodeSpec{kind: "sink"})
	for i := 1; i < k; i++ {
		fs.nodes = append(fs.nodes, nodeSpec{kind: "sink"})
		fs.nodes[1].more["out"] = append(fs.nodes[1].more["out"], edge{len(fs.nodes) - 1, "in"})
	}
	if srcToo {
		fs.nodes = append(fs.nodes, nodeSpec{kind: "sink"})
		fs.nodes[0].more = map[string][]edge{"out": {{len(fs.nodes) - 1, "in"}}}
	}
	return fs
}

func genFlow(rng *lib.RNG) flowSpec {
	var fs flowSpec
	switch rng.Weighted([]int{3, 4, 3, 3, 2}) {
	case 4: // fan-in: the two outputs of a OneToMany node meet again at one in-port
		fs = diamondFlow(rng.Range(0, 3), rng.Range(4, 7), 0, false) // meeting at a sink: the reference reading does not depend on which branch is first
	case 0:
		k := rng.Range(1, 3)
		cs := make([]int, k)
		for i := range cs {
			cs[i] = rng.Range(0, 5)
		}
		fs = chainFlow(cs)
	case 1:
		fs = splitFlow(rng.Bool(), rng.Bool(), rng.Intn(2))
	case 2:
		fs = fanFlow(rng.Bool())
	default:
		fs = joinFlow(rng.Bool())
	}
	// fan-out on one port: some out-ports get 1–2 further links (to new sinks); one Write on such a
	// port is one request, delivered to every linked in-port and answered once, by the joined answer
	if rng.Chance(1, 2) {
		n0 := len(fs.nodes)
		hasJoin := len(fs.indices("join")) > 0
		for i := 0; i < n0; i++ {
			if hasJoin && fs.nodes[i].kind == "src" {
				// a write into a ManyToOne in-port is only handed over once its response is in
				// (lock-step per source); a second link would keep it in flight while the next
				// source writes – that race inside the join is C02's, not ours
				continue
			}
			var names []string
			for name := range fs.nodes[i].outs {
				names = append(names, name)
			}
			sort.Strings(names)
			for _, name := range names {
				if !rng.Chance(1, 2) {
					continue
				}
				for k := rng.Range(1, 2); k > 0; k-- {
					fs.nodes = append(fs.nodes, nodeSpec{kind: "sink"})
					if fs.nodes[i].more == nil {
						fs.nodes[i].more = map[string][]edge{}
					}
					fs.nodes[i].more[name] = append(fs.nodes[i].more[name], edge{len(fs.nodes) - 1, "in"})
				}
			}
		}
		fs.name += "+links"
	}
	// hold the actions of some nodes back (blocked-action schedules)
	for i := range fs.nodes {
		switch fs.nodes[i].kind {
		case "pass", "split", "fan":
			fs.nodes[i].gated = rng.Chance(2, 5)
		}
	}
	return fs
}

// genOps draws a schedule: writes interleaved with releases of held actions and answers at sinks
// that have an unanswered request (tracked with the reference semantics); every source has at
// most `depth` writes in flight per process (1 = lock-step). In join workflows a source gets its
// next write only after its previous one was answered (what a ManyToOneNode answers to a queued,
// unpaired packet behind unanswered ones is C02's subject, not ours).
func genOps(rng *lib.RNG, fs flowSpec, nsess, maxWrites, depth int) []op {
	type st struct {
		ip       *interp
		pending  map[int][]int // per sink: write indices, oldest first
		inflight map[int]int   // per source: writes not yet fully answered
		counted  map[int]bool
	}
	sts := make([]*st, nsess)
	for i := range sts {
		sts[i] = &st{ip: newInterp(fs), pending: map[int][]int{}, inflight: map[int]int{}, counted: map[int]bool{}}
	}
	if len(fs.indices("join")) > 0 {
		depth = 1
	}
	srcs, sinks := fs.indices("src"), fs.indices("sink")
	var ops []op
	writes := 0
	settle := func(s *st) {
		for _, a := range s.ip.arrivals {
			s.pending[a.sink] = append(s.pending[a.sink], a.write)
		}
		for w, ws := range s.ip.writes {
			if s.counted[w] && ws.done() {
				s.counted[w] = false
				s.inflight[ws.src]--
			}
		}
	}
	for steps := 0; steps < 6*maxWrites+10; steps++ {
		si := rng.Intn(nsess)
		s := sts[si]
		var ready []int
		for _, k := range sinks {
			if len(s.pending[k]) > 0 {
				ready = append(ready, k)
			}
		}
		held := s.ip.blocked()
		var free []int
		for _, k := range srcs {
			if s.inflight[k] < depth {
				free = append(free, k)
			}
		}
		s.ip.clear()
		canWrite := writes < maxWrites && len(free) > 0
		switch {
		case canWrite && (len(ready)+len(held) == 0 || rng.Chance(2, 5)):
			o := op{kind: 'w', sess: si, node: lib.Pick(rng, free), v: rng.Range(0, 9)}
			v := o.v
			if rng.Chance(1, 6) { // the request is the packet.None singleton itself
				o.v, v = noneReq, 0
			}
			w := s.ip.write(o.node, v)
			if !s.ip.writes[w].done() {
				s.counted[w] = true
				s.inflight[o.node]++
			}
			ops = append(ops, o)
			writes++
		case len(held) > 0 && (len(ready) == 0 || rng.Bool()):
			n := lib.Pick(rng, held)
			s.ip.finish(n)
			ops = append(ops, op{kind: 'r', sess: si, node: n})
		case len(ready) > 0:
			k := lib.Pick(rng, ready)
			w := s.pending[k][0]
			s.pending[k] = s.pending[k][1:]
			s.ip.writes[w].outstanding--
			ak := byte('a')
			// the sink answers with the packet.None singleton – not where two branches meet at the sink:
			// which of the two requests would get it depends on which branch arrived first
			if rng.Chance(1, 4) && !strings.HasPrefix(fs.name, "diamond") {
				ak = 'n'
			}
			ops = append(ops, op{kind: ak, sess: si, node: k})
			if len(s.pending[k]) == 0 && rng.Chance(1, 4) {
				// the sink answers once more although nothing is pending (refused, no answer)
				ops = append(ops, op{kind: 'd', sess: si, node: k})
			}
		}
		settle(s)
	}
	return ops
}

// insertReloads puts Agent.Unload / Unload→Load / Load (again) of random symbols, and process
// restarts, at random points of a schedule: before the first request, with requests in flight,
// between an answer and the next request, and (X, then more requests of the fresh process) after
// a process has exited.
func insertReloads(rng *lib.RNG, fs flowSpec, nsess int, ops []op) []op {
	out := append([]op(nil), ops...)
	for i := range out {
		// no packet.None singleton here: frames recorded twice (a symbol loaded twice) are recognised
		// as adjacent equal frames, which two requests both made of and answered with None would be too
		if out[i].kind == 'n' {
			out[i].kind = 'a'
		}
		if out[i].kind == 'w' && out[i].v == noneReq {
			out[i].v = 0
		}
	}
	for k := rng.Range(1, 3); k > 0; k-- {
		pos := rng.Intn(len(out) + 1)
		if rng.Chance(1, 4) {
			pos = 0
		}
		n := rng.Intn(len(fs.nodes))
		var ins []op
		kinds := 5
		if len(fs.indices("join")) > 0 {
			// no process restart in join workflows: the schedule was drawn for the lock-step of the
			// ManyToOne queues, which a fresh process would start from empty
			kinds = 4
		}
		switch rng.Intn(kinds) {
		case 0:
			ins = []op{{kind: 'U', node: n}}
		case 1:
			ins = []op{{kind: 'U', node: n}, {kind: 'L', node: n}}
		case 2:
			ins = []op{{kind: 'L', node: n}}
		case 3:
			ins = []op{{kind: 'L', node: n}, {kind: 'L', node: n}}
		default:
			ins = []op{{kind: 'X', sess: rng.Intn(nsess)}}
		}
		out = append(out[:pos:pos], append(ins, out[pos:]...)...)
	}
	return out
}
