package c19

import (
	"fmt"
	"strings"
	"time"

	"github.com/siyul-park/uniflow/pkg/packet"
	"github.com/siyul-park/uniflow/pkg/runtime"
	"github.com/siyul-park/uniflow/pkg/symbol"
	"github.com/siyul-park/uniflow/pkg/types"

	"verifharness/lib"
)

// replaceCase: a symbol of a chain src → A → B → sink is REPLACED in the real symbol.Table
// (Insert of a new symbol with the same id) while a process has a request in flight through the
// chain. The table frees the old symbol (its ports close, what is pending there is dropped) and
// runs Unload and then Load for it and for every linked neighbour – which is what hands the agent
// an Unload → Load of symbols that live processes are still using. Afterwards the same process
// sends further requests (they end where its writers still lead), and a fresh process sends some
// through the new symbol. The harness does not predict where the requests end: it answers whatever
// reaches the sink and waits for every response at the source. Checked at rest, per process and
// port: every complete frame pairs request i with answer i (the harness's hook log), no frame is
// left half-open; the model is fed the same log (frames the agent chose to forget are not compared).
func replaceCase(c *lib.Ctx, rng *lib.RNG, sc *lib.Script, fails *[]lib.OracleFail) string {
	which := rng.Range(1, 2) // 1: A (upstream neighbour of B) is replaced, 2: B (downstream neighbour of A)
	fs := chainFlow([]int{rng.Range(0, 3), rng.Range(4, 7)})
	nLater, nFresh := rng.Range(1, 3), rng.Range(1, 2)
	trace := []string{"# " + fs.String(), fmt.Sprintf("# node %d is replaced in the table with a request of process 0 in flight; then %d more requests of process 0, then %d of a fresh process", which, nLater, nFresh)}
	var class, what string
	ok, p := lib.WithTimeout(8*watchdog, func() {
		agent := runtime.NewAgent()
		f, err := build(fs, agent)
		if err != nil {
			class, what = "build", err.Error()
			return
		}
		defer f.close()
		t := installTap(f)
		sessions := []*session{openSession(f)}
		t.procs[sessions[0].proc] = 0
		defer func() {
			for _, s := range sessions {
				s.exit()
			}
		}()
		// one request of process 0, left unanswered at the sink
		request := func(s *session, v int) bool { return s.writers[0].Write(packet.New(types.NewInt(v))) > 0 }
		response := func(s *session, what string) bool {
			select {
			case r, ok := <-s.writers[0].Receive():
				trace = append(trace, fmt.Sprintf("%s: response %s (open=%v)", what, canon(r), ok))
				return true
			case <-time.After(watchdog):
				trace = append(trace, what+": NO response")
				return false
			}
		}
		request(sessions[0], 1)
		var pending *sinkEv
		select {
		case ev := <-sessions[0].events:
			pending = &ev
		case <-time.After(watchdog):
			class, what = "flow", "the first request never reached the sink"
			return
		}
		trace = append(trace, "request 1 of process 0 is at the sink, unanswered")
		// replace the symbol
		old := f.syms[which]
		ns := fs.nodes[which]
		fresh := &symbol.Symbol{Spec: old.Spec, Node: mkNode(ns, which, f.gates)}
		if err := f.table.Insert(fresh); err != nil {
			class, what = "flow", "Table.Insert of the replacement: "+err.Error()
			return
		}
		f.syms[which] = fresh
		t.mu.Lock()
		t.addSymbol(which, fresh)
		t.mu.Unlock()
		trace = append(trace, fmt.Sprintf("symbol %d replaced (Table.Insert): the table unloaded / loaded it and its neighbours", which))
		// from now on whatever reaches the sink is answered at once
		answer := func(s *session, ev sinkEv) {
			s.readers[3].Receive(packet.New(types.NewInt(intOf(ev.pck) + 1000)))
		}
		answer(sessions[0], *pending)
		if which == 1 {
			// A is gone, the response to request 1 is A's drop – but the sink's answer still travels
			// up through B (its backward goroutine, its tracer, Receive on B's in-port, where it ends
			// at A's closed writer): wait until it has passed B's in-port, hooks included, so that the
			// frames are at rest when they are read
			deadline := time.Now().Add(watchdog)
			for seen := false; !seen && time.Now().Before(deadline); time.Sleep(50 * time.Microsecond) {
				t.mu.Lock()
				for _, e := range t.log {
					if e.sess == 0 && e.key.sym == 2 && e.key.in >= 0 && !e.inb {
						seen = true
					}
				}
				t.mu.Unlock()
			}
			// (the hooks run under the reader's lock: once this call gets the lock they are done)
			f.syms[2].In("in").Open(sessions[0].proc).AddInboundHook(packet.HookFunc(func(*packet.Packet) {}))
		}
		if !response(sessions[0], "request 1 (in flight at the replacement)") {
			class, what = "flow", "no response to the request that was in flight when the symbol was replaced"
			return
		}
		send := func(s *session, si, v int) bool {
			if !request(s, v) {
				// the process's writer only leads to the closed reader of the replaced symbol
				trace = append(trace, fmt.Sprintf("request %d of process %d: accepted by no reader (no response due)", v, si))
				return true
			}
			done := make(chan bool, 1)
			go func() { done <- response(s, fmt.Sprintf("request %d of process %d", v, si)) }()
			for {
				select {
				case ev := <-s.events:
					answer(s, ev)
				case ok := <-done:
					return ok
				}
			}
		}
		for i := 0; i < nLater; i++ {
			if !send(sessions[0], 0, 2+i) {
				class, what = "flow", fmt.Sprintf("no response to request %d of process 0 after the replacement", 2+i)
				return
			}
		}
		s1 := openSession(f)
		sessions = append(sessions, s1)
		t.mu.Lock()
		t.procs[s1.proc] = 1
		t.mu.Unlock()
		for i := 0; i < nFresh; i++ {
			if !send(s1, 1, 10+i) {
				class, what = "flow", fmt.Sprintf("no response to request %d of the fresh process", 10+i)
				return
			}
		}
		// at rest: model input and oracle
		t.mu.Lock()
		log := append([]hookEv(nil), t.log...)
		t.mu.Unlock()
		for _, e := range log {
			name := "outb"
			if e.inb {
				name = "inb"
			}
			line := fmt.Sprintf("%s %d %v %d", name, e.sess, e.key, e.pck)
			sc.Op(line, "ok")
			trace = append(trace, line)
		}
		for si, s := range sessions {
			rows := dedupAdjacent(t.readFrames(f, agent, s.proc))
			for _, k := range t.keys {
				if col := showCol(rows, k); col != "0" {
					sc.Op(fmt.Sprintf("col %d %v", si, k), col)
				}
			}
			for _, row := range rows {
				trace = append(trace, fmt.Sprintf("# frame sess=%d port=%v(%s) in=%s out=%s", si, row.key, t.names[row.key], pid(row.in), pid(row.out)))
			}
			if cl, wh := framesPairingOracle(t, si, rows); cl != "" && class == "" {
				class, what = cl, wh
			}
		}
	})
	if !ok || p != nil {
		class, what = "hang", fmt.Sprintf("did not finish (panic=%v)", p)
		trace = append(trace, goroutineDump())
	}
	if class != "" {
		*fails = append(*fails, lib.OracleFail{Class: class, What: fmt.Sprintf("%v, node %d replaced in flight: %s", fs, which, what), Replay: strings.Join(trace, "\n")})
	}
	c.Hit(fmt.Sprintf("frames-table-replace-node-%d", which))
	if sampled["replace"] < 1 {
		sampled["replace"]++
		c.Sample(clip(trace))
	}
	return fmt.Sprintf("replace:%v:%d:%d:%d", fs, which, nLater, nFresh)
}
