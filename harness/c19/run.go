package c19

import (
	"fmt"
	"sort"
	"strings"
	"time"

	"github.com/siyul-park/uniflow/pkg/packet"
	"github.com/siyul-park/uniflow/pkg/types"
)

// op is one step of a deterministic schedule: a source write or the answer to the oldest
// unanswered request at a sink, in one of the sessions (processes).
type op struct {
	kind byte // 'w' | 'a'
	sess int
	node int // source or sink index
	v    int
}

func (o op) String() string {
	if o.kind == 'w' {
		return fmt.Sprintf("w%d.%d=%d", o.sess, o.node, o.v)
	}
	return fmt.Sprintf("a%d.%d", o.sess, o.node)
}

type pendingReq struct {
	write int
	value int
	pck   *packet.Packet
}

type writeRec struct {
	src         int
	outstanding int
	answered    bool
}

// sessRun is the harness-side bookkeeping of one session.
type sessRun struct {
	s       *session
	ip      *interp
	pending map[int][]pendingReq // per sink, oldest first
	writes  []writeRec
	queue   map[int][]int // per source: writes whose response has not been collected
}

type runner struct {
	f     *flow
	ss    []*sessRun
	log   []string // observations, one per op (what the transparency check compares)
	fails []string
}

func newRunner(f *flow, nsess int) *runner {
	r := &runner{f: f}
	for i := 0; i < nsess; i++ {
		r.ss = append(r.ss, &sessRun{s: openSession(f), ip: newInterp(f.spec), pending: map[int][]pendingReq{}, queue: map[int][]int{}})
	}
	return r
}

func (r *runner) failf(format string, a ...any) {
	if len(r.fails) < 10 {
		r.fails = append(r.fails, fmt.Sprintf(format, a...))
	}
}

// collect gathers the responses that are due at the sources, in write order per source.
func (r *runner) collect(sr *sessRun, obs *[]string) {
	srcs := make([]int, 0, len(sr.queue))
	for s := range sr.queue {
		srcs = append(srcs, s)
	}
	sort.Ints(srcs)
	for _, src := range srcs {
		for len(sr.queue[src]) > 0 {
			w := sr.queue[src][0]
			if sr.writes[w].outstanding > 0 {
				break
			}
			select {
			case p, ok := <-sr.s.writers[src].Receive():
				if !ok {
					r.failf("source %d: response channel closed while write %d was unanswered", src, w)
					*obs = append(*obs, fmt.Sprintf("resp(%d,#%d)=closed", src, w))
				} else {
					*obs = append(*obs, fmt.Sprintf("resp(%d,#%d)=%s", src, w, canon(p)))
				}
			case <-time.After(watchdog):
				r.failf("source %d: no response to write %d within %v", src, w, watchdog)
				*obs = append(*obs, fmt.Sprintf("resp(%d,#%d)=timeout", src, w))
			}
			sr.writes[w].answered = true
			sr.queue[src] = sr.queue[src][1:]
		}
	}
}

func (r *runner) exec(o op) {
	sr := r.ss[o.sess]
	var obs []string
	switch o.kind {
	case 'w':
		var arr []arrival
		w := len(sr.writes)
		sr.ip.deliver(o.node, "", o.v, w, &arr)
		n := sr.s.writers[o.node].Write(packet.New(types.NewInt(o.v)))
		obs = append(obs, fmt.Sprintf("n=%d", n))
		sr.writes = append(sr.writes, writeRec{src: o.node, outstanding: len(arr)})
		sr.queue[o.node] = append(sr.queue[o.node], w)
		want := map[string]int{}
		for i, a := range arr {
			want[fmt.Sprintf("%d:%d", a.sink, a.value)] = i + 1
		}
		var got []string
		for range arr {
			select {
			case ev := <-sr.s.events:
				key := fmt.Sprintf("%d:%s", ev.sink, canon(ev.pck))
				got = append(got, key)
				if idx := want[key]; idx > 0 {
					delete(want, key)
					a := arr[idx-1]
					sr.pending[a.sink] = append(sr.pending[a.sink], pendingReq{write: a.write, value: a.value, pck: ev.pck})
				} else {
					r.failf("write %v: unexpected arrival %s at a sink (expected %v)", o, key, arr)
				}
			case <-time.After(watchdog):
				r.failf("write %v: expected %d arrivals at the sinks, saw %v", o, len(arr), got)
				got = append(got, "timeout")
			}
		}
		sort.Strings(got)
		obs = append(obs, "arr=["+strings.Join(got, ",")+"]")
	case 'a':
		q := sr.pending[o.node]
		if len(q) == 0 {
			return
		}
		req := q[0]
		sr.pending[o.node] = q[1:]
		ok := sr.s.readers[o.node].Receive(packet.New(types.NewInt(req.value + 1000)))
		obs = append(obs, fmt.Sprintf("recv=%v", ok))
		sr.writes[req.write].outstanding--
	}
	r.collect(sr, &obs)
	r.log = append(r.log, o.String()+" "+strings.Join(obs, " "))
}

// drain answers everything still pending (sink order, oldest first) and collects the responses.
func (r *runner) drain() {
	for si, sr := range r.ss {
		sinks := r.f.spec.indices("sink")
		for again := true; again; {
			again = false
			for _, k := range sinks {
				if len(sr.pending[k]) > 0 {
					r.exec(op{kind: 'a', sess: si, node: k})
					again = true
				}
			}
		}
	}
}

func (r *runner) closeSessions() {
	for _, sr := range r.ss {
		sr.s.exit()
	}
}
