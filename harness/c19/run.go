package c19

import (
	"fmt"
	"sort"
	"strings"
	"time"

	"github.com/siyul-park/uniflow/pkg/packet"
	"github.com/siyul-park/uniflow/pkg/process"
	"github.com/siyul-park/uniflow/pkg/types"
)

// op is one step of a deterministic schedule, in one of the sessions (processes):
//
//	w  a source write
//	a  the answer to the oldest unanswered request at a sink
//	r  the action held in a gated node returns
//	U  Agent.Unload(symbol <node>)     L  Agent.Load(symbol <node>)   (the agent attached to the workflow)
//	X  the session's process exits (only when nothing of it is in flight) and a fresh process takes its place
//	n  like a, but the answer is the packet.None singleton itself (what nop / fork / session nodes answer)
//	d  a sink calls Receive once more although nothing is pending (a repeated answer): it must be
//	   refused, reach no writer and be no answer to anything
type op struct {
	kind byte // 'w' | 'a' | 'r' | 'd' | 'U' | 'L' | 'X'
	sess int
	node int // source, sink or gated node index
	v    int
}

func (o op) String() string {
	switch o.kind {
	case 'w':
		if o.v == noneReq {
			return fmt.Sprintf("w%d.%d=N", o.sess, o.node)
		}
		return fmt.Sprintf("w%d.%d=%d", o.sess, o.node, o.v)
	case 'n':
		return fmt.Sprintf("n%d.%d", o.sess, o.node)
	case 'd':
		return fmt.Sprintf("d%d.%d", o.sess, o.node)
	case 'U':
		return fmt.Sprintf("U%d", o.node)
	case 'L':
		return fmt.Sprintf("L%d", o.node)
	case 'X':
		return fmt.Sprintf("X%d", o.sess)
	case 'r':
		return fmt.Sprintf("r%d.%d", o.sess, o.node)
	}
	return fmt.Sprintf("a%d.%d", o.sess, o.node)
}

// noneReq as the value of a write: the source writes the packet.None singleton itself (downstream it
// is a packet without payload, read as 0 by the workflows' nodes).
const noneReq = -1

type pendingReq struct {
	write int
	value int
	pck   *packet.Packet
}

// sessRun is the harness-side bookkeeping of one session.
type sessRun struct {
	s       *session
	ip      *interp
	pending map[int][]pendingReq // per sink, oldest first
	// the harness's own request / answer log at the ends it drives itself
	resp    map[int][]*packet.Packet // per source: the responses received, in order
	arrived map[int][]*packet.Packet // per sink: the packets that arrived
	sent    map[int][]*packet.Packet // per sink: the answers given, in order
	queue   map[int][]int            // per source: writes whose response has not been collected
}

type runner struct {
	f     *flow
	ss    []*sessRun
	log   []string // observations, one per op (what the transparency check compares)
	fails []string
	// beforeWrite, when set, runs just before every source write (directed scenarios arm their hooks here)
	beforeWrite func(sess int)
	dups        int // refused repeated answers issued
	// onRestart is told when op X replaced a session's process
	onRestart func(sess int, old, fresh *session)
}

func newRunner(f *flow, nsess int) *runner {
	r := &runner{f: f}
	for i := 0; i < nsess; i++ {
		r.ss = append(r.ss, &sessRun{s: openSession(f), ip: newInterp(f.spec), pending: map[int][]pendingReq{}, queue: map[int][]int{},
			resp: map[int][]*packet.Packet{}, arrived: map[int][]*packet.Packet{}, sent: map[int][]*packet.Packet{}})
	}
	return r
}

func (r *runner) owns(p *process.Process) bool {
	for _, sr := range r.ss {
		if sr.s.proc == p {
			return true
		}
	}
	return false
}

func (r *runner) failf(format string, a ...any) {
	if len(r.fails) < 10 {
		r.fails = append(r.fails, fmt.Sprintf(format, a...))
	}
}

// collect gathers the responses that are due at the sources, in write order per source.
func (r *runner) collect(sr *sessRun, obs *[]string) {
	srcs := make([]int, 0, len(sr.queue))
	for s := range sr.queue {
		srcs = append(srcs, s)
	}
	sort.Ints(srcs)
	for _, src := range srcs {
		for len(sr.queue[src]) > 0 {
			w := sr.queue[src][0]
			if !sr.ip.writes[w].done() {
				break
			}
			select {
			case p, ok := <-sr.s.writers[src].Receive():
				if !ok {
					r.failf("source %d: response channel closed while write %d was unanswered", src, w)
					*obs = append(*obs, fmt.Sprintf("resp(%d,#%d)=closed", src, w))
				} else {
					sr.resp[src] = append(sr.resp[src], p)
					*obs = append(*obs, fmt.Sprintf("resp(%d,#%d)=%s", src, w, canon(p)))
				}
			case <-time.After(watchdog):
				r.failf("source %d: no response to write %d within %v", src, w, watchdog)
				*obs = append(*obs, fmt.Sprintf("resp(%d,#%d)=timeout", src, w))
			}
			sr.queue[src] = sr.queue[src][1:]
		}
	}
}

// await waits for the events the reference reading says the step causes: actions entered in
// gated nodes and packets arriving at sinks (any order), and files the arrivals as pending.
func (r *runner) await(o op, sr *sessRun, obs *[]string) {
	wantE := map[string]int{}
	for _, e := range sr.ip.entered {
		wantE[fmt.Sprintf("%d:%d", e.node, e.value)]++
	}
	wantA := map[string][]arrival{}
	for _, a := range sr.ip.arrivals {
		k := fmt.Sprintf("%d:%d", a.sink, a.value)
		wantA[k] = append(wantA[k], a)
	}
	var gotE, gotA []string
	total := len(sr.ip.entered) + len(sr.ip.arrivals)
	deadline := time.After(watchdog)
	for i := 0; i < total; i++ {
		select {
		case ev := <-sr.s.events:
			key := fmt.Sprintf("%d:%d", ev.sink, intOf(ev.pck)) // a packet without payload reads as 0
			gotA = append(gotA, key)
			if as := wantA[key]; len(as) > 0 {
				a := as[0]
				wantA[key] = as[1:]
				sr.pending[a.sink] = append(sr.pending[a.sink], pendingReq{write: a.write, value: a.value, pck: ev.pck})
				sr.arrived[a.sink] = append(sr.arrived[a.sink], ev.pck)
			} else {
				r.failf("step %v: unexpected arrival %s at a sink (expected %v)", o, key, sr.ip.arrivals)
			}
		case ev := <-r.f.gates.entered:
			if !r.owns(ev.proc) {
				// an action of a process that is not one of the sessions (a victim of the open-exit
				// cases whose write was still accepted): not ours to account for
				i--
				continue
			}
			key := fmt.Sprintf("%d:%d", ev.node, ev.value)
			gotE = append(gotE, key)
			if ev.proc != sr.s.proc || wantE[key] == 0 {
				r.failf("step %v: unexpected action entered %s (expected %v)", o, key, sr.ip.entered)
			} else {
				wantE[key]--
			}
		case <-deadline:
			r.failf("step %v: expected actions %v and arrivals %v, saw actions %v arrivals %v", o, sr.ip.entered, sr.ip.arrivals, gotE, gotA)
			gotA = append(gotA, "timeout")
			i = total
		}
	}
	sort.Strings(gotA)
	sort.Strings(gotE)
	if len(gotE) > 0 {
		*obs = append(*obs, "act=["+strings.Join(gotE, ",")+"]")
	}
	*obs = append(*obs, "arr=["+strings.Join(gotA, ",")+"]")
}

func (r *runner) exec(o op) {
	sr := r.ss[o.sess]
	var obs []string
	sr.ip.clear()
	switch o.kind {
	case 'w':
		out := packet.New(types.NewInt(o.v))
		v := o.v
		if o.v == noneReq {
			out, v = packet.None, 0
		}
		w := sr.ip.write(o.node, v)
		if r.beforeWrite != nil {
			r.beforeWrite(o.sess)
		}
		n := sr.s.writers[o.node].Write(out)
		obs = append(obs, fmt.Sprintf("n=%d", n))
		sr.queue[o.node] = append(sr.queue[o.node], w)
		r.await(o, sr, &obs)
	case 'r':
		st := sr.ip.nodes[o.node]
		if st == nil || !st.busy || !r.f.spec.nodes[o.node].gated {
			return
		}
		sr.ip.finish(o.node)
		if !r.f.gates.release(o.node, sr.s.proc) {
			r.failf("step %v: no action was waiting in node %d", o, o.node)
		}
		r.await(o, sr, &obs)
	case 'a', 'n':
		q := sr.pending[o.node]
		if len(q) == 0 {
			return
		}
		req := q[0]
		sr.pending[o.node] = q[1:]
		back := packet.New(types.NewInt(req.value + 1000))
		if o.kind == 'n' {
			back = packet.None
		}
		sr.sent[o.node] = append(sr.sent[o.node], back)
		ok := sr.s.readers[o.node].Receive(back)
		obs = append(obs, fmt.Sprintf("recv=%v", ok))
		sr.ip.writes[req.write].outstanding--
	case 'U', 'L':
		if r.f.agent == nil {
			return
		}
		var err error
		if o.kind == 'U' {
			err = r.f.agent.Unload(r.f.syms[o.node])
		} else {
			err = r.f.agent.Load(r.f.syms[o.node])
		}
		r.log = append(r.log, fmt.Sprintf("%v err=%v", o, err))
		return
	case 'X':
		idle := len(sr.ip.blocked()) == 0
		for _, q := range sr.pending {
			idle = idle && len(q) == 0
		}
		for _, w := range sr.ip.writes {
			idle = idle && w.done()
		}
		for _, q := range sr.queue {
			idle = idle && len(q) == 0
		}
		if !idle {
			return
		}
		old := sr.s
		old.exit()
		fresh := &sessRun{s: openSession(r.f), ip: newInterp(r.f.spec), pending: map[int][]pendingReq{}, queue: map[int][]int{},
			resp: map[int][]*packet.Packet{}, arrived: map[int][]*packet.Packet{}, sent: map[int][]*packet.Packet{}}
		r.ss[o.sess] = fresh
		if r.onRestart != nil {
			r.onRestart(o.sess, old, fresh.s)
		}
		r.log = append(r.log, o.String()+" process exited, a fresh one took its place")
		return
	case 'd':
		if len(sr.pending[o.node]) != 0 {
			return // something is pending: a further Receive would be its answer
		}
		ok := sr.s.readers[o.node].Receive(packet.New(types.NewInt(-1)))
		obs = append(obs, fmt.Sprintf("dup=%v", ok))
		if ok {
			r.failf("step %v: a Receive with no request pending was accepted", o)
		}
		r.dups++
	}
	r.collect(sr, &obs)
	r.log = append(r.log, o.String()+" "+strings.Join(obs, " "))
}

// drain releases every held action and answers everything still pending (node / sink order,
// oldest first) until nothing is left, collecting the responses.
func (r *runner) drain(skip ...int) {
	for si, sr := range r.ss {
		if len(skip) > 0 && skip[0] == si {
			continue
		}
		sinks := r.f.spec.indices("sink")
		for again := true; again; {
			again = false
			for _, n := range sr.ip.blocked() {
				r.exec(op{kind: 'r', sess: si, node: n})
				again = true
			}
			for _, k := range sinks {
				if len(sr.pending[k]) > 0 {
					r.exec(op{kind: 'a', sess: si, node: k})
					again = true
				}
			}
		}
	}
}

func (r *runner) closeSessions() {
	for _, sr := range r.ss {
		sr.s.exit()
	}
}
