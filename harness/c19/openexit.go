package c19

import (
	"fmt"
	goruntime "runtime"
	"strings"
	"sync/atomic"
	"time"

	"github.com/siyul-park/uniflow/pkg/packet"
	"github.com/siyul-park/uniflow/pkg/port"
	"github.com/siyul-park/uniflow/pkg/process"
	"github.com/siyul-park/uniflow/pkg/runtime"
	"github.com/siyul-park/uniflow/pkg/types"

	"verifharness/lib"
)

// Processes that terminate while one of their ports is being opened, i.e. before their first
// packet reaches the agent: InPort.Open / OutPort.Open check proc.Status() *before* they run the
// open hooks, so the agent's open hook (accept, hooks, AddInboundHook …) can be handed a process
// that is already dead. Whatever the agent does with it, the requests of the other processes
// must be answered as without the agent.
//
//	hook    an open hook added after Agent.Load (open hooks run newest first, so it runs just
//	        before the agent's) terminates the designated process during its Open
//	yield   the process is terminated at one of the verif yield points of OutPort.Open / InPort.Open
//	        (after the status check; after the endpoint was created, before its exit hook)
//	race    fresh processes with proc.Exit racing out.Open + Write on another goroutine
//
// wedged is set once a run did not come back: every call into a wedged agent blocks, the
// remaining cases of this family are skipped (each would only wait for its watchdog).
var wedged bool

type openExitResult struct {
	log  []string
	hung string // what did not return
}

func openExitRun(fs flowSpec, variant string, site int, nvictims int, nsess int, ops []op, attach bool) (res openExitResult) {
	step := "build"
	done := make(chan struct{})
	var out openExitResult
	go func() {
		defer close(done)
		var agent *runtime.Agent
		if attach {
			agent = runtime.NewAgent()
		}
		f, err := build(fs, agent)
		if err != nil {
			out.log = append(out.log, "build: "+err.Error())
			return
		}
		srcOut := f.syms[0].Out("out")
		var designated atomic.Pointer[process.Process]
		exitDesignated := func(p *process.Process) {
			if d := designated.Load(); d != nil && (p == nil || p == d) && designated.CompareAndSwap(d, nil) {
				d.Exit(nil)
			}
		}
		switch variant {
		case "hook":
			srcOut.AddOpenHook(port.OpenHookFunc(func(p *process.Process) { exitDesignated(p) }))
		case "yield":
			port.VerifSetYield(func(s int) {
				if s == site {
					exitDesignated(nil)
				}
			})
			defer port.VerifSetYield(nil)
		case "race":
			port.VerifSetYield(func(int) { goruntime.Gosched() })
			defer port.VerifSetYield(nil)
		}
		for i := 0; i < nvictims; i++ {
			step = fmt.Sprintf("open/write of victim process %d (%s)", i, variant)
			victim := process.New()
			if variant == "race" {
				go victim.Exit(nil)
			} else {
				designated.Store(victim)
			}
			w := srcOut.Open(victim)
			n := w.Write(packet.New(types.NewInt(i)))
			if variant != "race" {
				// deterministic variants: the process was dead before its writer was linked
				out.log = append(out.log, fmt.Sprintf("victim %d: write accepted by %d", i, n))
			}
			victim.Exit(nil)
			if agent != nil {
				step = fmt.Sprintf("Agent.Frames / Processes after victim %d", i)
				_ = agent.Frames(victim.ID())
				_ = agent.Processes()
			}
		}
		if variant != "hook" {
			port.VerifSetYield(nil)
		}
		step = "ordinary requests of other processes"
		r := newRunner(f, nsess)
		for _, o := range ops {
			r.exec(o)
		}
		r.drain()
		out.log = append(out.log, r.log...)
		for _, w := range r.fails {
			out.log = append(out.log, "flow: "+w)
		}
		step = "process exit"
		r.closeSessions()
		step = "Table.Close / Agent.Unload / Agent.Close"
		f.close()
		step = ""
	}()
	select {
	case <-done:
		return out
	case <-time.After(3 * watchdog):
		port.VerifSetYield(nil)
		return openExitResult{log: out.log, hung: step}
	}
}

func openExitCase(c *lib.Ctx, rng *lib.RNG, variant string, fails *[]lib.OracleFail) (key string) {
	if wedged {
		c.Hit("openexit-skipped-after-wedge")
		return ""
	}
	fs := genFlow(rng)
	for len(fs.indices("src")) != 1 { // one source: the victims and the others share its out-port
		fs = genFlow(rng)
	}
	nsess := rng.Range(1, 2)
	ops := genOps(rng, fs, nsess, 4, rng.Range(1, 3))
	site := lib.Pick(rng, []int{port.VerifSiteOpenAfterStatus, port.VerifSiteOpenBeforeAddExitHook})
	nv := 1
	if variant == "race" {
		nv = rng.Range(4, 12)
	}
	var os []string
	for _, o := range ops {
		os = append(os, o.String())
	}
	head := fmt.Sprintf("# %v\n# victims: %d × %s (site %d); then schedule: %s", fs, nv, variant, site, strings.Join(os, " "))
	with := openExitRun(fs, variant, site, nv, nsess, ops, true)
	if with.hung != "" {
		wedged = true
		*fails = append(*fails, lib.OracleFail{Class: "agent-wedged",
			What:   fmt.Sprintf("%v: with the agent attached, after a process terminated during its Open (%s), %q did not return within %v", fs, variant, with.hung, 4*watchdog),
			Replay: head + "\n# log so far:\n" + strings.Join(with.log, "\n") + "\n" + goroutineDump()})
		return ""
	}
	without := openExitRun(fs, variant, site, nv, nsess, ops, false)
	if without.hung != "" {
		*fails = append(*fails, lib.OracleFail{Class: "flow", What: fmt.Sprintf("%v: without the agent, %q did not return", fs, without.hung), Replay: head + "\n" + goroutineDump()})
		return ""
	}
	a, b := strings.Join(with.log, "\n"), strings.Join(without.log, "\n")
	replay := head + "\n# with agent:\n" + a + "\n# without agent:\n" + b
	if a != b {
		*fails = append(*fails, lib.OracleFail{Class: "not-transparent", What: fmt.Sprintf("%v: after a process terminated during its Open (%s) the observations differ with / without the agent", fs, variant), Replay: replay})
	} else if strings.Contains(a, "flow: ") {
		*fails = append(*fails, lib.OracleFail{Class: "flow", What: fmt.Sprintf("%v: reference reading of the workflow failed (both runs alike)", fs), Replay: replay})
	}
	c.Hit("openexit-" + variant)
	if sampled["openexit"] < 2 {
		sampled["openexit"]++
		c.Sample(clip(strings.Split(replay, "\n")))
	}
	return "openexit:" + variant + ":" + fs.String() + ":" + strings.Join(os, ",")
}
