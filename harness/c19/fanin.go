package c19

import (
	"fmt"
	goruntime "runtime"
	"sync/atomic"
	"time"

	"github.com/siyul-park/uniflow/pkg/packet"

	"verifharness/lib"
)

// Fan-in: one in-port linked from two out-ports, one process writing on both at the same time
// (a diamond: src → OneToMany → two branches → the same in-port). The requests of that in-port
// are the packets in the order the reader delivered them; Receive answers the oldest delivered.
// Every frame of the port must pair a request with the answer to *that* request – also when the
// two writers pass the port's inbound hooks in one order and are delivered in the other.
//
//	inner=false  the two branches meet at a sink's in-port (the harness reads the reader itself)
//	inner=true   they meet at the in-port of a further OneToOne node (then a sink)
func diamondFlow(cB, cC, cD int, inner bool) flowSpec {
	fs := flowSpec{name: "diamond"}
	join := 4
	fs.nodes = append(fs.nodes,
		nodeSpec{kind: "src", outs: map[string]edge{"out": {1, "in"}}},
		nodeSpec{kind: "fan", outs: map[string]edge{"out[0]": {2, "in"}, "out[1]": {3, "in"}}},
		nodeSpec{kind: "pass", c: cB, outs: map[string]edge{"out": {join, "in"}}},
		nodeSpec{kind: "pass", c: cC, outs: map[string]edge{"out": {join, "in"}}})
	if inner {
		fs.name = "diamond-inner"
		fs.nodes = append(fs.nodes, nodeSpec{kind: "pass", c: cD, outs: map[string]edge{"out": {5, "in"}}}, nodeSpec{kind: "sink"})
	} else {
		fs.nodes = append(fs.nodes, nodeSpec{kind: "sink"})
	}
	return fs
}

// fanInCase: `rounds` strictly sequential requests of one process through a diamond, every one
// answered before the next. The harness adds its own inbound hook to the fan-in reader *after*
// the agent's (public API):
//
//	park  the first of the two writers to reach the hook is held there until the other one's
//	      packet has come out of a sink, or `park` has passed (on a tree where the hooks run under
//	      the reader's lock the other writer cannot get past, and the hold simply times out)
//	race  every writer yields the processor a few times inside the hook
func fanInCase(c *lib.Ctx, rng *lib.RNG, variant string, inner bool, rounds int, sc *lib.Script, fails *[]lib.OracleFail) string {
	fs := diamondFlow(rng.Range(0, 3), rng.Range(4, 7), rng.Range(0, 3), inner)
	sink := len(fs.nodes) - 1
	var ops []op
	for i := 0; i < rounds; i++ {
		ops = append(ops, op{kind: 'w', node: 0, v: rng.Range(0, 9)}, op{kind: 'a', node: sink}, op{kind: 'a', node: sink})
	}
	const park = 150 * time.Millisecond
	prep := func(r *runner) {
		s := r.ss[0].s
		reader := r.f.syms[4].In("in").Open(s.proc)
		var armed atomic.Bool
		released := make(chan struct{}, 8)
		s.onArrive = func(int) {
			select {
			case released <- struct{}{}:
			default:
			}
		}
		r.beforeWrite = func(int) {
			for len(released) > 0 {
				<-released
			}
			armed.Store(true)
		}
		reader.AddInboundHook(packet.HookFunc(func(*packet.Packet) {
			switch variant {
			case "park":
				if armed.CompareAndSwap(true, false) {
					select {
					case <-released:
					case <-time.After(park):
					}
				}
			case "race":
				for i := 0; i < 4; i++ {
					goruntime.Gosched()
				}
			}
		}))
	}
	c.Hit("frames-fan-in-" + variant)
	key := framesCase(c, fs, 1, ops, false, sc, fails, prep)
	if key == "" {
		return ""
	}
	return fmt.Sprintf("fanin:%s:%v:%s", variant, inner, key)
}
