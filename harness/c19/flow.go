package c19

import (
	"fmt"
	"sort"
	"strings"
	"sync"
	"time"

	"github.com/gofrs/uuid"
	"github.com/siyul-park/uniflow/pkg/node"
	"github.com/siyul-park/uniflow/pkg/packet"
	"github.com/siyul-park/uniflow/pkg/port"
	"github.com/siyul-park/uniflow/pkg/process"
	"github.com/siyul-park/uniflow/pkg/runtime"
	"github.com/siyul-park/uniflow/pkg/spec"
	"github.com/siyul-park/uniflow/pkg/symbol"
	"github.com/siyul-park/uniflow/pkg/types"
)

const watchdog = 10 * time.Second

// ---------------------------------------------------------------- workflow description

type edge struct {
	to   int
	port string
}

// nodeSpec: kind ∈ src | sink | pass | split | fan | join.
//
//	src   harness-owned out-port "out"
//	sink  harness-owned in-port "in"
//	pass  OneToOneNode: out ← v + c
//	split OneToOneNode: v%2 == c → error port, else out port (value unchanged)
//	fan   OneToManyNode: out[0] ← v, out[1] ← v + 100
//	join  ManyToOneNode with in[0], in[1]: out ← a + b
type nodeSpec struct {
	kind string
	c    int
	outs map[string]edge
}

type flowSpec struct {
	name  string
	nodes []nodeSpec // upstream first
}

func (fs flowSpec) String() string {
	var parts []string
	for i, n := range fs.nodes {
		var es []string
		for name, e := range n.outs {
			es = append(es, fmt.Sprintf("%s>%d.%s", name, e.to, e.port))
		}
		sort.Strings(es)
		parts = append(parts, fmt.Sprintf("%d:%s%d(%s)", i, n.kind, n.c, strings.Join(es, ",")))
	}
	return fs.name + "{" + strings.Join(parts, " ") + "}"
}

func (fs flowSpec) indices(kind string) []int {
	var out []int
	for i, n := range fs.nodes {
		if n.kind == kind {
			out = append(out, i)
		}
	}
	return out
}

// endNode is a node whose ports the harness drives itself (sources and sinks).
type endNode struct {
	ins  map[string]*port.InPort
	outs map[string]*port.OutPort
}

func (n *endNode) In(name string) *port.InPort   { return n.ins[name] }
func (n *endNode) Out(name string) *port.OutPort { return n.outs[name] }
func (n *endNode) Close() error {
	for _, p := range n.ins {
		p.Close()
	}
	for _, p := range n.outs {
		p.Close()
	}
	return nil
}

func intOf(p *packet.Packet) int {
	v, _ := types.InterfaceOf(p.Payload()).(int)
	return v
}

func mkNode(ns nodeSpec) node.Node {
	switch ns.kind {
	case "src":
		return &endNode{outs: map[string]*port.OutPort{"out": port.NewOut()}}
	case "sink":
		return &endNode{ins: map[string]*port.InPort{"in": port.NewIn()}}
	case "pass":
		c := ns.c
		return node.NewOneToOneNode(func(_ *process.Process, in *packet.Packet) (*packet.Packet, *packet.Packet) {
			return packet.New(types.NewInt(intOf(in) + c)), nil
		})
	case "split":
		c := ns.c
		return node.NewOneToOneNode(func(_ *process.Process, in *packet.Packet) (*packet.Packet, *packet.Packet) {
			v := intOf(in)
			if ((v%2)+2)%2 == c {
				return nil, packet.New(types.NewInt(v))
			}
			return packet.New(types.NewInt(v)), nil
		})
	case "fan":
		return node.NewOneToManyNode(func(_ *process.Process, in *packet.Packet) ([]*packet.Packet, *packet.Packet) {
			v := intOf(in)
			return []*packet.Packet{packet.New(types.NewInt(v)), packet.New(types.NewInt(v + 100))}, nil
		})
	case "join":
		return node.NewManyToOneNode(func(_ *process.Process, ins []*packet.Packet) (*packet.Packet, *packet.Packet) {
			return packet.New(types.NewInt(intOf(ins[0]) + intOf(ins[1]))), nil
		})
	}
	panic("unknown node kind " + ns.kind)
}

// ---------------------------------------------------------------- a built workflow

type flow struct {
	spec  flowSpec
	table *symbol.Table
	syms  []*symbol.Symbol
	agent *runtime.Agent // nil: detached
	loads []int          // Load calls seen per symbol (through a counting load hook)
}

type countHook struct {
	f *flow
}

func (h *countHook) Load(sb *symbol.Symbol) error {
	for i, s := range h.f.syms {
		if s == sb {
			h.f.loads[i]++
		}
	}
	return nil
}

// build creates the symbols inside a real symbol.Table; the agent
// (when given) is attached through the table's load / unload hooks, as cmd/pkg/cli/start.go does.
func build(fs flowSpec, agent *runtime.Agent) (*flow, error) {
	f := &flow{spec: fs, agent: agent, loads: make([]int, len(fs.nodes))}
	opt := symbol.TableOption{}
	if agent != nil {
		opt.LoadHooks = append(opt.LoadHooks, agent)
		opt.UnloadHooks = append(opt.UnloadHooks, agent)
	}
	opt.LoadHooks = append(opt.LoadHooks, &countHook{f})
	f.table = symbol.NewTable(opt)
	for i, ns := range fs.nodes {
		ports := map[string][]spec.Port{}
		for name, e := range ns.outs {
			ports[name] = []spec.Port{{Name: fmt.Sprintf("n%d", e.to), Port: e.port}}
		}
		sb := &symbol.Symbol{
			Spec: &spec.Meta{ID: uuid.Must(uuid.NewV7()), Kind: ns.kind, Namespace: "default", Name: fmt.Sprintf("n%d", i), Ports: ports},
			Node: mkNode(ns),
		}
		if ns.kind == "join" { // materialise both in-ports before anything links to in[1] only
			sb.In("in[0]")
			sb.In("in[1]")
		}
		f.syms = append(f.syms, sb)
	}
	// Upstream symbols first: a symbol is loaded (load hooks run) once everything it refers to
	// is present, i.e. when the last sink arrives, and by then Table.links has materialised every
	// linked in-port. (Inserted downstream-first, a symbol is loaded *before* its in-ports are
	// cached by the referrer's links(), and Agent.Load – which only walks sym.Ins() – never sees
	// them: no in-port frames at all. Reported as an observation, not part of the property.)
	for i := range f.syms {
		if err := f.table.Insert(f.syms[i]); err != nil {
			return nil, err
		}
	}
	return f, nil
}

func (f *flow) close() {
	_ = f.table.Close()
	if f.agent != nil {
		f.agent.Close()
	}
}

// ---------------------------------------------------------------- reference semantics of the workflow

type arrival struct {
	sink  int
	value int
	write int // index of the source write it derives from
}

// interp is the harness's own reading of the workflow: which sink sees which value.
type interp struct {
	fs    flowSpec
	joinQ map[int]*[2][]int // per join node, per in-port: queued values (per process handled by caller)
}

func newInterp(fs flowSpec) *interp { return &interp{fs: fs, joinQ: map[int]*[2][]int{}} }

func (ip *interp) deliver(n int, inPort string, v int, write int, out *[]arrival) {
	ns := ip.fs.nodes[n]
	fwd := func(name string, v int) {
		if e, ok := ns.outs[name]; ok {
			ip.deliver(e.to, e.port, v, write, out)
		}
	}
	switch ns.kind {
	case "src":
		fwd("out", v)
	case "sink":
		*out = append(*out, arrival{sink: n, value: v, write: write})
	case "pass":
		fwd("out", v+ns.c)
	case "split":
		if ((v%2)+2)%2 == ns.c {
			fwd("error", v)
		} else {
			fwd("out", v)
		}
	case "fan":
		fwd("out[0]", v)
		fwd("out[1]", v+100)
	case "join":
		q := ip.joinQ[n]
		if q == nil {
			q = &[2][]int{}
			ip.joinQ[n] = q
		}
		idx := 0
		if inPort == "in[1]" {
			idx = 1
		}
		q[idx] = append(q[idx], v)
		if len(q[0]) > 0 && len(q[1]) > 0 {
			a, b := q[0][0], q[1][0]
			q[0], q[1] = q[0][1:], q[1][1:]
			fwd("out", a+b)
		}
	}
}

// ---------------------------------------------------------------- one process running through a workflow

type sinkEv struct {
	sink int
	pck  *packet.Packet
}

type session struct {
	f       *flow
	proc    *process.Process
	writers map[int]*packet.Writer
	readers map[int]*packet.Reader
	events  chan sinkEv
	wg      sync.WaitGroup
}

func openSession(f *flow) *session {
	s := &session{f: f, proc: process.New(), writers: map[int]*packet.Writer{}, readers: map[int]*packet.Reader{}, events: make(chan sinkEv, 64)}
	for _, i := range f.spec.indices("sink") {
		r := f.syms[i].In("in").Open(s.proc)
		s.readers[i] = r
		i := i
		s.wg.Add(1)
		go func() {
			defer s.wg.Done()
			for p := range r.Read() {
				s.events <- sinkEv{i, p}
			}
		}()
	}
	for _, i := range f.spec.indices("src") {
		s.writers[i] = f.syms[i].Out("out").Open(s.proc)
	}
	return s
}

func (s *session) exit() {
	s.proc.Exit(nil)
	done := make(chan struct{})
	go func() { s.wg.Wait(); close(done) }()
	select {
	case <-done:
	case <-time.After(watchdog):
	}
}

func canon(p *packet.Packet) string {
	if p == nil {
		return "nil"
	}
	if p == packet.None {
		return "none"
	}
	switch v := p.Payload().(type) {
	case nil:
		return "null"
	case types.Error:
		return "err(" + v.Error() + ")"
	default:
		return fmt.Sprint(types.InterfaceOf(v))
	}
}
