package c19

import (
	"fmt"
	"os"
	goruntime "runtime"
	"sort"
	"strings"
	"sync"
	"time"

	"github.com/gofrs/uuid"
	"github.com/siyul-park/uniflow/pkg/node"
	"github.com/siyul-park/uniflow/pkg/packet"
	"github.com/siyul-park/uniflow/pkg/port"
	"github.com/siyul-park/uniflow/pkg/process"
	"github.com/siyul-park/uniflow/pkg/runtime"
	"github.com/siyul-park/uniflow/pkg/spec"
	"github.com/siyul-park/uniflow/pkg/symbol"
	"github.com/siyul-park/uniflow/pkg/types"
)

const watchdog = 10 * time.Second

// ---------------------------------------------------------------- workflow description

type edge struct {
	to   int
	port string
}

// nodeSpec: kind ∈ src | sink | pass | split | fan | join.
//
//	src   harness-owned out-port "out"
//	sink  harness-owned in-port "in"
//	pass  OneToOneNode: out ← v + c
//	split OneToOneNode: v%2 == c → error port, else out port (value unchanged)
//	fan   OneToManyNode: out[0] ← v, out[1] ← v + 100
//	join  ManyToOneNode with in[0], in[1]: out ← a + b
type nodeSpec struct {
	kind  string
	c     int
	gated bool // pass | split | fan only: the action blocks until the harness releases it
	outs  map[string]edge
	more  map[string][]edge // further links of the same out-port (one Write reaches every linked in-port)
}

// links lists every link of an out-port.
func (n nodeSpec) links(name string) []edge {
	var es []edge
	if e, ok := n.outs[name]; ok {
		es = append(es, e)
	}
	return append(es, n.more[name]...)
}

// portReq identifies a port of a node in the reference reading: requests that passed it.
type portReq struct {
	node int
	out  bool
	name string
}

type flowSpec struct {
	name  string
	nodes []nodeSpec // upstream first
}

func (fs flowSpec) String() string {
	var parts []string
	for i, n := range fs.nodes {
		var es []string
		for name := range n.outs {
			for _, e := range n.links(name) {
				es = append(es, fmt.Sprintf("%s>%d.%s", name, e.to, e.port))
			}
		}
		sort.Strings(es)
		g := ""
		if n.gated {
			g = "g"
		}
		parts = append(parts, fmt.Sprintf("%d:%s%d%s(%s)", i, n.kind, n.c, g, strings.Join(es, ",")))
	}
	return fs.name + "{" + strings.Join(parts, " ") + "}"
}

func (fs flowSpec) indices(kind string) []int {
	var out []int
	for i, n := range fs.nodes {
		if n.kind == kind {
			out = append(out, i)
		}
	}
	return out
}

// endNode is a node whose ports the harness drives itself (sources and sinks).
type endNode struct {
	ins  map[string]*port.InPort
	outs map[string]*port.OutPort
}

func (n *endNode) In(name string) *port.InPort   { return n.ins[name] }
func (n *endNode) Out(name string) *port.OutPort { return n.outs[name] }
func (n *endNode) Close() error {
	for _, p := range n.ins {
		p.Close()
	}
	for _, p := range n.outs {
		p.Close()
	}
	return nil
}

func intOf(p *packet.Packet) int {
	v, _ := types.InterfaceOf(p.Payload()).(int)
	return v
}

// gates hold the actions of gated nodes back: an action announces itself on `entered` and then
// waits for the harness to release it (one forward goroutine, hence one action at a time, per
// node and process).
type gateKey struct {
	node int
	proc *process.Process
}

type gateEv struct {
	node  int
	proc  *process.Process
	value int
}

type gates struct {
	mu      sync.Mutex
	entered chan gateEv
	rel     map[gateKey]chan struct{}
}

func newGates() *gates {
	return &gates{entered: make(chan gateEv, 256), rel: map[gateKey]chan struct{}{}}
}

func (g *gates) ch(k gateKey) chan struct{} {
	g.mu.Lock()
	defer g.mu.Unlock()
	c, ok := g.rel[k]
	if !ok {
		c = make(chan struct{})
		g.rel[k] = c
	}
	return c
}

func (g *gates) wait(node int, proc *process.Process, v int) {
	g.entered <- gateEv{node, proc, v}
	select {
	case <-g.ch(gateKey{node, proc}):
	case <-proc.Done(): // the process was terminated while the action was held
	}
}

// release lets the action running in (node, proc) return; false when none took it within the watchdog.
func (g *gates) release(node int, proc *process.Process) bool {
	select {
	case g.ch(gateKey{node, proc}) <- struct{}{}:
		return true
	case <-time.After(watchdog):
		return false
	}
}

func mkNode(ns nodeSpec, idx int, g *gates) node.Node {
	hold := func(proc *process.Process, v int) {
		if ns.gated {
			g.wait(idx, proc, v)
		}
	}
	switch ns.kind {
	case "src":
		return &endNode{outs: map[string]*port.OutPort{"out": port.NewOut()}}
	case "sink":
		return &endNode{ins: map[string]*port.InPort{"in": port.NewIn()}}
	case "pass":
		c := ns.c
		return node.NewOneToOneNode(func(proc *process.Process, in *packet.Packet) (*packet.Packet, *packet.Packet) {
			hold(proc, intOf(in))
			return packet.New(types.NewInt(intOf(in) + c)), nil
		})
	case "split":
		c := ns.c
		return node.NewOneToOneNode(func(proc *process.Process, in *packet.Packet) (*packet.Packet, *packet.Packet) {
			v := intOf(in)
			hold(proc, v)
			if ((v%2)+2)%2 == c {
				return nil, packet.New(types.NewInt(v))
			}
			return packet.New(types.NewInt(v)), nil
		})
	case "fan":
		return node.NewOneToManyNode(func(proc *process.Process, in *packet.Packet) ([]*packet.Packet, *packet.Packet) {
			v := intOf(in)
			hold(proc, v)
			return []*packet.Packet{packet.New(types.NewInt(v)), packet.New(types.NewInt(v + 100))}, nil
		})
	case "join":
		return node.NewManyToOneNode(func(_ *process.Process, ins []*packet.Packet) (*packet.Packet, *packet.Packet) {
			return packet.New(types.NewInt(intOf(ins[0]) + intOf(ins[1]))), nil
		})
	}
	panic("unknown node kind " + ns.kind)
}

// ---------------------------------------------------------------- a built workflow

type flow struct {
	spec  flowSpec
	table *symbol.Table
	syms  []*symbol.Symbol
	agent *runtime.Agent // nil: detached
	gates *gates
	loads []int // Load calls seen per symbol (through a counting load hook)
}

type countHook struct {
	f *flow
}

func (h *countHook) Load(sb *symbol.Symbol) error {
	for i, s := range h.f.syms {
		if s == sb {
			h.f.loads[i]++
		}
	}
	return nil
}

// build creates the symbols inside a real symbol.Table; the agent
// (when given) is attached through the table's load / unload hooks, as cmd/pkg/cli/start.go does.
func build(fs flowSpec, agent *runtime.Agent) (*flow, error) {
	f := &flow{spec: fs, agent: agent, loads: make([]int, len(fs.nodes)), gates: newGates()}
	opt := symbol.TableOption{}
	if agent != nil {
		opt.LoadHooks = append(opt.LoadHooks, agent)
		opt.UnloadHooks = append(opt.UnloadHooks, agent)
	}
	opt.LoadHooks = append(opt.LoadHooks, &countHook{f})
	f.table = symbol.NewTable(opt)
	for i, ns := range fs.nodes {
		ports := map[string][]spec.Port{}
		for name := range ns.outs {
			for _, e := range ns.links(name) {
				ports[name] = append(ports[name], spec.Port{Name: fmt.Sprintf("n%d", e.to), Port: e.port})
			}
		}
		sb := &symbol.Symbol{
			Spec: &spec.Meta{ID: uuid.Must(uuid.NewV7()), Kind: ns.kind, Namespace: "default", Name: fmt.Sprintf("n%d", i), Ports: ports},
			Node: mkNode(ns, i, f.gates),
		}
		if ns.kind == "join" { // materialise both in-ports before anything links to in[1] only
			sb.In("in[0]")
			sb.In("in[1]")
		}
		f.syms = append(f.syms, sb)
	}
	// Upstream symbols first: a symbol is loaded (load hooks run) once everything it refers to
	// is present, i.e. when the last sink arrives, and by then Table.links has materialised every
	// linked in-port. (Inserted downstream-first, a symbol is loaded *before* its in-ports are
	// cached by the referrer's links(), and Agent.Load – which only walks sym.Ins() – never sees
	// them: no in-port frames at all. Reported as an observation, not part of the property.)
	for i := range f.syms {
		if err := f.table.Insert(f.syms[i]); err != nil {
			return nil, err
		}
	}
	return f, nil
}

func (f *flow) close() {
	_ = f.table.Close()
	if f.agent != nil {
		f.agent.Close()
	}
}

// ---------------------------------------------------------------- reference semantics of the workflow

type arrival struct {
	sink  int
	value int
	write int // index of the source write it derives from
}

type item struct {
	value int
	write int
}

// wstate: where the packets derived from one source write are.
type wstate struct {
	src         int
	inside      int // queued at, or being processed by, a node
	outstanding int // arrived at a sink, not yet answered
}

func (w *wstate) done() bool { return w.inside == 0 && w.outstanding == 0 }

type nstate struct {
	queue []item
	busy  bool
	cur   item
}

// interp is the harness's own reading of the workflow for one process: every node handles the
// packets of its in-port one at a time, in arrival order; a gated node holds the packet it is
// handling until released; sinks see what the leaves emit.
type interp struct {
	fs     flowSpec
	joinQ  map[int]*[2][]int
	nodes  map[int]*nstate
	writes []*wstate
	// events the last step must cause
	entered  []enteredEv
	arrivals []arrival
	// the request log: how many requests passed each port (one per Write on an out-port, whatever
	// the number of links; one per packet delivered to an in-port)
	reqs map[portReq]int
}

// emit: node n writes v on its out-port `name`: one request on that port, delivered to every link.
func (ip *interp) emit(n int, name string, it item) {
	es := ip.fs.nodes[n].links(name)
	if len(es) == 0 {
		return
	}
	ip.reqs[portReq{n, true, name}]++
	for _, e := range es {
		ip.reqs[portReq{e.to, false, e.port}]++
		ip.deliver(e.to, e.port, it)
	}
}

type enteredEv struct {
	node  int
	value int
}

func newInterp(fs flowSpec) *interp {
	return &interp{fs: fs, joinQ: map[int]*[2][]int{}, nodes: map[int]*nstate{}, reqs: map[portReq]int{}}
}

func (ip *interp) clear() { ip.entered, ip.arrivals = nil, nil }

func (ip *interp) node(n int) *nstate {
	st := ip.nodes[n]
	if st == nil {
		st = &nstate{}
		ip.nodes[n] = st
	}
	return st
}

// write starts a new source write and returns its index.
func (ip *interp) write(src, v int) int {
	w := len(ip.writes)
	ip.writes = append(ip.writes, &wstate{src: src})
	ip.deliver(src, "", item{v, w})
	return w
}

func (ip *interp) deliver(n int, inPort string, it item) {
	ns := ip.fs.nodes[n]
	switch ns.kind {
	case "src":
		ip.emit(n, "out", it)
	case "sink":
		ip.arrivals = append(ip.arrivals, arrival{sink: n, value: it.value, write: it.write})
		ip.writes[it.write].outstanding++
	case "pass", "split", "fan":
		st := ip.node(n)
		st.queue = append(st.queue, it)
		ip.writes[it.write].inside++
		if !st.busy {
			ip.start(n)
		}
	case "join":
		q := ip.joinQ[n]
		if q == nil {
			q = &[2][]int{}
			ip.joinQ[n] = q
		}
		idx := 0
		if inPort == "in[1]" {
			idx = 1
		}
		q[idx] = append(q[idx], it.value)
		if len(q[0]) > 0 && len(q[1]) > 0 {
			a, b := q[0][0], q[1][0]
			q[0], q[1] = q[0][1:], q[1][1:]
			ip.emit(n, "out", item{a + b, it.write})
		}
	}
}

func (ip *interp) start(n int) {
	st := ip.node(n)
	st.cur, st.queue, st.busy = st.queue[0], st.queue[1:], true
	if ip.fs.nodes[n].gated {
		ip.entered = append(ip.entered, enteredEv{n, st.cur.value})
		return
	}
	ip.finish(n)
}

// blocked lists the gated nodes whose action is being held.
func (ip *interp) blocked() []int {
	var out []int
	for n := range ip.fs.nodes {
		if st := ip.nodes[n]; st != nil && st.busy && ip.fs.nodes[n].gated {
			out = append(out, n)
		}
	}
	return out
}

// finish: the action of node n returns; its outputs travel on; the node takes its next packet.
func (ip *interp) finish(n int) {
	st := ip.node(n)
	ns := ip.fs.nodes[n]
	it := st.cur
	st.busy = false
	ip.writes[it.write].inside--
	fwd := func(name string, v int) { ip.emit(n, name, item{v, it.write}) }
	switch ns.kind {
	case "pass":
		fwd("out", it.value+ns.c)
	case "split":
		if ((it.value%2)+2)%2 == ns.c {
			fwd("error", it.value)
		} else {
			fwd("out", it.value)
		}
	case "fan":
		fwd("out[0]", it.value)
		fwd("out[1]", it.value+100)
	}
	if !st.busy && len(st.queue) > 0 {
		ip.start(n)
	}
}

// ---------------------------------------------------------------- one process running through a workflow

type sinkEv struct {
	sink int
	pck  *packet.Packet
}

type session struct {
	f       *flow
	proc    *process.Process
	writers map[int]*packet.Writer
	readers map[int]*packet.Reader
	events  chan sinkEv
	wg      sync.WaitGroup
	// onArrive, when set (before the first write), is told about every packet a sink reader hands out
	onArrive func(sink int)
}

func openSession(f *flow) *session {
	s := &session{f: f, proc: process.New(), writers: map[int]*packet.Writer{}, readers: map[int]*packet.Reader{}, events: make(chan sinkEv, 64)}
	for _, i := range f.spec.indices("sink") {
		r := f.syms[i].In("in").Open(s.proc)
		s.readers[i] = r
		i := i
		s.wg.Add(1)
		go func() {
			defer s.wg.Done()
			for p := range r.Read() {
				if s.onArrive != nil {
					s.onArrive(i)
				}
				s.events <- sinkEv{i, p}
			}
		}()
	}
	for _, i := range f.spec.indices("src") {
		s.writers[i] = f.syms[i].Out("out").Open(s.proc)
	}
	return s
}

func (s *session) exit() {
	s.proc.Exit(nil)
	done := make(chan struct{})
	go func() { s.wg.Wait(); close(done) }()
	select {
	case <-done:
	case <-time.After(watchdog):
		if os.Getenv("C19_TRACE") != "" {
			buf := make([]byte, 1<<18)
			fmt.Fprintf(os.Stderr, "session.exit: sink readers not closed after %v\n%s\n", watchdog, buf[:goruntime.Stack(buf, true)])
		}
	}
}

func canon(p *packet.Packet) string {
	if p == nil {
		return "nil"
	}
	if p == packet.None {
		return "none"
	}
	switch v := p.Payload().(type) {
	case nil:
		return "null"
	case types.Error:
		return "err(" + v.Error() + ")"
	default:
		return fmt.Sprint(types.InterfaceOf(v))
	}
}
