package c19

import (
	"fmt"
	"strings"
	"time"

	"github.com/siyul-park/uniflow/pkg/packet"
	"github.com/siyul-park/uniflow/pkg/port"
	"github.com/siyul-park/uniflow/pkg/process"
	"github.com/siyul-park/uniflow/pkg/runtime"
	"github.com/siyul-park/uniflow/pkg/types"

	"verifharness/lib"
)

// openWindowCase forces the open-hook window (repaired defect, fix 5a92fce) deterministically:
// the in-port of an observed OneToOne node is opened for a process on one goroutine; an open hook
// of the harness (added last, hence run first) holds that goroutine inside InPort.Open – after the
// reader has been published in the port's map, before the agent's open hook has attached its packet
// hooks. Meanwhile the process's source writer is opened (it finds the published reader and links
// to it) and writes request 1. Then the held goroutine goes on: hooks attached, the node starts,
// request 1 travels on, is answered, and n-1 further requests follow in lock-step.
// Expected (fix 5a92fce): request 1 has no frame, its answer is not recorded, and every recorded
// frame of the port pairs a request with its own answer.
func openWindowCase(c *lib.Ctx, rng *lib.RNG, sc *lib.Script, fails *[]lib.OracleFail) string {
	fs := chainFlow([]int{rng.Range(0, 5)})
	n := rng.Range(2, 4)
	trace := []string{"# " + fs.String(), fmt.Sprintf("# request 1 of the process is written while the in-port of node 1 is still being opened (its open hooks have not run); then %d more requests", n-1)}
	var class, what string
	ok, p := lib.WithTimeout(6*watchdog, func() {
		agent := runtime.NewAgent()
		f, err := build(fs, agent)
		if err != nil {
			class, what = "build", err.Error()
			return
		}
		defer f.close()
		t := installTap(f)
		proc := process.New()
		defer proc.Exit(nil)
		t.procs[proc] = 0
		passIn := f.syms[1].In("in")
		held, release := make(chan struct{}), make(chan struct{})
		passIn.AddOpenHook(port.OpenHookFunc(func(p *process.Process) {
			if p == proc {
				close(held)
				<-release
			}
		}))
		go passIn.Open(proc)
		select {
		case <-held:
		case <-time.After(watchdog):
			class, what = "flow", "the open hook never ran"
			return
		}
		sink := f.syms[2].In("in").Open(proc)
		w := f.syms[0].Out("out").Open(proc)
		send := func(i int) bool {
			acc := w.Write(packet.New(types.NewInt(i)))
			if i == 1 {
				close(release)
			}
			var got *packet.Packet
			select {
			case got = <-sink.Read():
			case <-time.After(watchdog):
				class, what = "flow", fmt.Sprintf("request %d never reached the sink", i)
				return false
			}
			sink.Receive(packet.New(types.NewInt(1000 + i)))
			select {
			case r := <-w.Receive():
				trace = append(trace, fmt.Sprintf("request %d accepted by %d, sink saw %s, response %s", i, acc, canon(got), canon(r)))
				return true
			case <-time.After(watchdog):
				class, what = "flow", fmt.Sprintf("no response to request %d", i)
				return false
			}
		}
		for i := 1; i <= n; i++ {
			if !send(i) {
				return
			}
		}
		t.mu.Lock()
		log := append([]hookEv(nil), t.log...)
		t.mu.Unlock()
		for _, e := range log {
			name := "outb"
			if e.inb {
				name = "inb"
			}
			trace = append(trace, fmt.Sprintf("%s %d %v %d", name, e.sess, e.key, e.pck))
		}
		rows := t.readFrames(f, agent, proc)
		for _, row := range rows {
			trace = append(trace, fmt.Sprintf("# frame port=%v(%s) in=%s out=%s", row.key, t.names[row.key], pid(row.in), pid(row.out)))
		}
		// the agent before fix 5a92fce: orphan frame, every later frame shifted – must not come back
		if old := openHookWindow(t, 0, rows, false); len(old) > 0 {
			class, what = "open-hook-window", fmt.Sprintf("in-port %v (%s): request 1 passed before the agent's packet hooks were attached, its answer was recorded as an orphan frame and every later frame of the port pairs request k+1 with answer k", old[0], t.names[old[0]])
			return
		}
		// repaired: request 1 has no frame, its answer is skipped, the frames read (R2,A2) … (Rn,An)
		tv, window := windowView(t, 0, rows, false)
		if len(window) > 0 {
			c.Hit("frames-open-hook-window-hit")
		}
		onPort := 0
		for _, r := range rows {
			if r.key.sym == 1 && r.key.in >= 0 {
				onPort++
			}
		}
		if len(window) != 1 || onPort != n-1 {
			class, what = "frame-count-vs-requests", fmt.Sprintf("the forced window: %d requests passed the in-port of node 1, the first before the hooks were attached: %d frames expected there, the agent holds %d (window recognised on %d ports)", n, n-1, onPort, len(window))
			return
		}
		if cl, wh := framesPairingOracle(tv, 0, rows); cl != "" {
			class, what = cl, wh
		}
	})
	if !ok || p != nil {
		class, what = "hang", fmt.Sprintf("did not finish (panic=%v)", p)
	}
	if class != "" {
		*fails = append(*fails, lib.OracleFail{Class: class, What: fs.String() + ": " + what, Replay: strings.Join(trace, "\n")})
	}
	c.Hit("frames-open-hook-window-forced")
	_ = sc
	return fmt.Sprintf("window:%v:%d", fs, n)
}
