package c19

import (
	"fmt"
	"strings"
	"time"

	"github.com/gofrs/uuid"
	"github.com/siyul-park/uniflow/pkg/node"
	"github.com/siyul-park/uniflow/pkg/packet"
	"github.com/siyul-park/uniflow/pkg/port"
	"github.com/siyul-park/uniflow/pkg/process"
	"github.com/siyul-park/uniflow/pkg/runtime"
	"github.com/siyul-park/uniflow/pkg/spec"
	"github.com/siyul-park/uniflow/pkg/symbol"
	"github.com/siyul-park/uniflow/pkg/types"

	"verifharness/lib"
)

// closedPortRevisitedCase: an agent-observed in-port holds n requests of one process that nobody
// has answered (the node has no action: they stay pending on the reader); the port is CLOSED (what
// freeing or replacing its symbol does while the process runs) – every pending request is answered
// with the dropped error; then the same process reaches the closed port again through another
// out-port linked to it, and that request is answered with the dropped error too. "Each recorded
// frame pairs a packet that entered a symbol's port with the packet that answered it": no frame
// of a request that entered BEFORE the close may hold an answer recorded AFTER the port was reached
// again, and no frame of the later request an answer recorded before. Nothing is demanded about
// WHICH requests have frames (the agent no longer observes a closed port). (Seeded change c19m:
// InPort.Close kept the open hooks and Reader.Close showed the dropped packet to the hooks once
// per Close – the open frame of request 2 took the answer of the later request.)
func closedPortRevisitedCase(c *lib.Ctx, n, later int, fails *[]lib.OracleFail) string {
	var trace []string
	var class, what string
	ok, p := lib.WithTimeout(6*watchdog, func() {
		agent := runtime.NewAgent()
		defer agent.Close()
		sb := &symbol.Symbol{
			Spec: &spec.Meta{ID: uuid.Must(uuid.NewV7()), Kind: "verif", Namespace: "default", Name: "held"},
			Node: node.NewOneToOneNode(nil),
		}
		in := sb.In(node.PortIn)
		if err := agent.Load(sb); err != nil {
			class, what = "build", err.Error()
			return
		}
		defer agent.Unload(sb)
		proc := process.New()
		defer proc.Exit(nil)
		recv := func(w *packet.Writer, who string) bool {
			select {
			case pck := <-w.Receive():
				trace = append(trace, fmt.Sprintf("%s: response %s", who, canon(pck)))
				return true
			case <-time.After(watchdog):
				class, what = "flow", who+": no response"
				return false
			}
		}
		out1 := port.NewOut()
		defer out1.Close()
		out1.Link(in)
		w1 := out1.Open(proc)
		for i := 1; i <= n; i++ {
			if w1.Write(packet.New(types.NewInt(i))) != 1 {
				class, what = "flow", fmt.Sprintf("request %d was not accepted", i)
				return
			}
		}
		trace = append(trace, fmt.Sprintf("out1.Link(in); %d requests (1..%d) of one process written, none answered", n, n))
		in.Close()
		trace = append(trace, "in.Close()")
		for i := 1; i <= n; i++ {
			if !recv(w1, fmt.Sprintf("request %d", i)) {
				return
			}
		}
		time.Sleep(5 * time.Millisecond)
		reopened := time.Now()
		time.Sleep(5 * time.Millisecond)
		out2 := port.NewOut()
		defer out2.Close()
		out2.Link(in)
		w2 := out2.Open(proc)
		trace = append(trace, "out2.Link(in); out2.Open(proc) – the same process reaches the closed port again")
		for i := 1; i <= later; i++ {
			if w2.Write(packet.New(types.NewInt(100+i))) == 1 {
				if !recv(w2, fmt.Sprintf("request %d", 100+i)) {
					return
				}
			} else {
				trace = append(trace, fmt.Sprintf("request %d was not accepted", 100+i))
			}
		}
		time.Sleep(20 * time.Millisecond)
		for _, f := range agent.Frames(proc.ID()) {
			if f.InPort != in || f.InPck == nil {
				continue
			}
			req := canon(f.InPck)
			trace = append(trace, fmt.Sprintf("frame: request %s answer %s", req, canon(f.OutPck)))
			if f.OutPck == nil {
				continue
			}
			early := f.InTime.Before(reopened)
			if early && f.OutTime.After(reopened) {
				class, what = "frame-pairs-other-request", fmt.Sprintf("the frame of request %s (it entered the in-port before the port was closed and was answered by the close) holds an answer recorded after the port was reached again: the answer to a later request", req)
			}
			if !early && f.OutTime.Before(reopened) {
				class, what = "frame-pairs-other-request", fmt.Sprintf("the frame of request %s (written after the port was reached again) holds an answer recorded before", req)
			}
		}
	})
	if !ok || p != nil {
		class, what = "hang", fmt.Sprintf("did not finish (panic=%v)", p)
	}
	if class != "" {
		*fails = append(*fails, lib.OracleFail{Class: class, What: what, Replay: strings.Join(trace, "\n")})
	}
	c.Hit(fmt.Sprintf("closed-port-revisited-%d-pending", n))
	return fmt.Sprintf("revisit:%d:%d", n, later)
}
