package c19

import (
	"fmt"
	"strings"
	"time"

	"github.com/siyul-park/uniflow/pkg/packet"
	"github.com/siyul-park/uniflow/pkg/runtime"
	"github.com/siyul-park/uniflow/pkg/types"

	"verifharness/lib"
)

// refusedWriteCase: every reader a process's source writer is linked to has been closed (what
// freeing the downstream symbols does) – its writes return 0 and are never answered; later a
// live reader is linked to the same writer (packet.Writer.Link, public API) and further requests
// are answered. A write that nobody accepted is not a request: the agent must hold exactly one
// frame per accepted request on the port, each with the answer to that request.
func refusedWriteCase(c *lib.Ctx, rng *lib.RNG, fails *[]lib.OracleFail) string {
	nRefused, nLater := rng.Range(1, 3), rng.Range(1, 3)
	fs := multiFlow(rng.Range(0, 3), 1, rng.Bool())
	var trace []string
	trace = append(trace, "# "+fs.String(), fmt.Sprintf("# %d refused writes, then a live reader is linked, then %d answered requests", nRefused, nLater))
	var class, what string
	ok, p := lib.WithTimeout(6*watchdog, func() {
		agent := runtime.NewAgent()
		f, err := build(fs, agent)
		if err != nil {
			class, what = "build", err.Error()
			return
		}
		defer f.close()
		s := openSession(f)
		defer s.exit()
		w := s.writers[0]
		for _, r := range w.Links() {
			r.Close()
		}
		for i := 0; i < nRefused; i++ {
			n := w.Write(packet.New(types.NewInt(i)))
			trace = append(trace, fmt.Sprintf("write %d (all linked readers closed) accepted by %d", i, n))
			if n != 0 {
				class, what = "flow", fmt.Sprintf("a write to closed readers was accepted by %d", n)
				return
			}
		}
		live := packet.NewReader()
		defer live.Close()
		w.Link(live)
		var reqs, answs []*packet.Packet
		for i := 0; i < nLater; i++ {
			req := packet.New(types.NewInt(100 + i))
			n := w.Write(req)
			var got *packet.Packet
			select {
			case got = <-live.Read():
			case <-time.After(watchdog):
				class, what = "flow", "the live reader never saw the request"
				return
			}
			ans := packet.New(types.NewInt(1100 + i))
			live.Receive(ans)
			select {
			case r := <-w.Receive():
				trace = append(trace, fmt.Sprintf("write %d accepted by %d, delivered %s, answered %s, response %s", 100+i, n, canon(got), canon(ans), canon(r)))
				reqs, answs = append(reqs, req), append(answs, r)
			case <-time.After(watchdog):
				class, what = "flow", "no response to an answered request"
				return
			}
		}
		src := f.syms[0]
		var onPort []*runtime.Frame
		for _, fr := range agent.Frames(s.proc.ID()) {
			if fr.Symbol == src && fr.OutPort != nil {
				onPort = append(onPort, fr)
			}
		}
		id := func(p *packet.Packet) string {
			if p == nil {
				return "-"
			}
			for i := range reqs {
				if p == reqs[i] {
					return fmt.Sprintf("request%d", i)
				}
				if p == answs[i] {
					return fmt.Sprintf("answer%d", i)
				}
			}
			return "refused:" + canon(p)
		}
		for i, fr := range onPort {
			trace = append(trace, fmt.Sprintf("# frame %d on the source's out-port: OutPck=%s InPck=%s", i, id(fr.OutPck), id(fr.InPck)))
		}
		if len(onPort) != nLater {
			class, what = "frame-for-refused-write", fmt.Sprintf("%d requests were accepted on the source's out-port (%d writes before them were refused by every reader) but the agent holds %d frames for it", nLater, nRefused, len(onPort))
			return
		}
		for i, fr := range onPort {
			if fr.OutPck != reqs[i] || fr.InPck != answs[i] {
				class, what = "frame-pairs-request-with-another-answer", fmt.Sprintf("frame %d holds %s / %s, expected request%d / answer%d", i, id(fr.OutPck), id(fr.InPck), i, i)
				return
			}
		}
	})
	if !ok || p != nil {
		class, what = "hang", fmt.Sprintf("did not finish (panic=%v)", p)
	}
	if class != "" {
		*fails = append(*fails, lib.OracleFail{Class: class, What: fs.String() + ": " + what, Replay: strings.Join(trace, "\n")})
	}
	c.Hit("frames-refused-write-then-live-reader")
	if sampled["refused"] < 1 {
		sampled["refused"]++
		c.Sample(clip(trace))
	}
	return fmt.Sprintf("refused:%v:%d:%d", fs, nRefused, nLater)
}

// addAfterCloseCase: a breakpoint is added to a debugger that has already been closed, a packet
// reaches it, the debugger is closed (again). "Closing the debugger resumes every packet it had
// paused": whatever AddBreakpoint answers, the packet must not stay paused after that Close.
func addAfterCloseCase(c *lib.Ctx, fails *[]lib.OracleFail) string {
	var trace []string
	var class, what string
	ok, p := lib.WithTimeout(6*watchdog, func() {
		agent := runtime.NewAgent()
		f, err := build(chainFlow([]int{0}), agent)
		if err != nil {
			class, what = "build", err.Error()
			return
		}
		d := runtime.NewDebugger(agent)
		d.Close()
		target := f.syms[1]
		bp := runtime.NewBreakpoint(runtime.BreakWithSymbol(target), runtime.BreakWithInPort(target.In("in")))
		added := d.AddBreakpoint(bp)
		trace = append(trace, fmt.Sprintf("Debugger.Close; AddBreakpoint => %v", added))
		s := openSession(f)
		wrote := make(chan int, 1)
		go func() { wrote <- s.writers[0].Write(packet.New(types.NewInt(1))) }()
		var arrived *packet.Packet
		wait := func(d time.Duration) bool {
			if arrived != nil {
				return true
			}
			select {
			case ev := <-s.events:
				arrived = ev.pck
				return true
			case <-time.After(d):
				return false
			}
		}
		early := wait(100 * time.Millisecond)
		trace = append(trace, fmt.Sprintf("packet written; reached the sink at once: %v", early))
		d.Close()
		trace = append(trace, "Debugger.Close (again)")
		if !wait(watchdog) {
			class, what = "paused-packet-never-resumed", fmt.Sprintf("a breakpoint added to a closed debugger (AddBreakpoint => %v) paused a packet and Debugger.Close did not resume it within %v", added, watchdog)
			d.RemoveBreakpoint(bp) // let the run end
			bp.Close()
			wait(watchdog)
		}
		select {
		case <-wrote:
		case <-time.After(watchdog):
		}
		if arrived != nil {
			s.readers[2].Receive(packet.New(types.NewInt(1001)))
			select {
			case <-s.writers[0].Receive():
			case <-time.After(watchdog):
			}
		}
		s.exit()
		f.close()
	})
	if !ok || p != nil {
		class, what = "hang", fmt.Sprintf("did not finish (panic=%v)", p)
	}
	if class != "" {
		*fails = append(*fails, lib.OracleFail{Class: class, What: what, Replay: strings.Join(trace, "\n")})
	}
	c.Hit("bp-add-breakpoint-after-close")
	return "bp:add-after-close"
}
