package c19

import (
	"fmt"
	"strings"

	"github.com/siyul-park/uniflow/pkg/runtime"

	"verifharness/lib"
)

// runOnce executes the schedule on a freshly built workflow, with or without the agent, and
// returns the observation log (per op: accepted count, arrivals at the sinks, responses at the
// sources, in order).
func runOnce(fs flowSpec, nsess int, ops []op, attach bool) (log []string, fails []string, err error) {
	ok, p := lib.WithTimeout(12*watchdog, func() { log, fails, err = runOnceBody(fs, nsess, ops, attach) })
	if !ok || p != nil {
		return nil, nil, fmt.Errorf("the run (agent attached: %v) did not finish within %v (panic=%v)\n%s", attach, 12*watchdog, p, goroutineDump())
	}
	return log, fails, err
}

func runOnceBody(fs flowSpec, nsess int, ops []op, attach bool) (log []string, fails []string, err error) {
	var agent *runtime.Agent
	if attach {
		agent = runtime.NewAgent()
	}
	f, err := build(fs, agent)
	if err != nil {
		return nil, nil, err
	}
	defer f.close()
	r := newRunner(f, nsess)
	for _, o := range ops {
		r.exec(o)
	}
	r.drain()
	r.closeSessions()
	return r.log, r.fails, nil
}

// transparencyCase: the same workflow, inputs and schedule, once observed and once not.
func transparencyCase(c *lib.Ctx, fs flowSpec, nsess int, ops []op, fails *[]lib.OracleFail) (key string) {
	with, f1, err1 := runOnce(fs, nsess, ops, true)
	without, f2, err2 := runOnce(fs, nsess, ops, false)
	var os []string
	for _, o := range ops {
		os = append(os, o.String())
	}
	head := "# " + fs.String() + "\n# schedule: " + strings.Join(os, " ")
	if err1 != nil || err2 != nil {
		class := "build"
		if err1 != nil && err2 == nil {
			class = "not-transparent" // the run with the agent failed / hung, the one without did not
		}
		*fails = append(*fails, lib.OracleFail{Class: class, What: fmt.Sprintf("%v: with agent: %.200v, without: %.200v", fs, err1, err2), Replay: head + fmt.Sprintf("\n# with agent: %v\n# without agent: %v", err1, err2)})
		return ""
	}
	replay := head + "\n# with agent:\n" + strings.Join(with, "\n") + "\n# without agent:\n" + strings.Join(without, "\n")
	if strings.Join(with, "\n") != strings.Join(without, "\n") {
		first := 0
		for first < len(with) && first < len(without) && with[first] == without[first] {
			first++
		}
		*fails = append(*fails, lib.OracleFail{Class: "not-transparent", What: fmt.Sprintf("%v: observations differ from step %d on", fs, first), Replay: replay})
	} else {
		// both runs agree; a failure of the reference reading of the workflow in both is not C19's
		for _, w := range append(f1, f2...) {
			*fails = append(*fails, lib.OracleFail{Class: "flow", What: w, Replay: replay})
			break
		}
	}
	c.Hit("transparency-flow-" + fs.name)
	if sampled["transp"] < 2 {
		sampled["transp"]++
		c.Sample(clip(strings.Split(replay, "\n")))
	}
	nresp := strings.Count(strings.Join(with, " "), "resp(")
	if nresp >= 2 {
		return "transp:" + fs.String() + ":" + strings.Join(os, ",")
	}
	return ""
}
