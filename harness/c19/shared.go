package c19

import (
	"context"
	"fmt"
	"strings"
	"time"

	"github.com/siyul-park/uniflow/pkg/packet"
	"github.com/siyul-park/uniflow/pkg/port"
	"github.com/siyul-park/uniflow/pkg/runtime"
	"github.com/siyul-park/uniflow/pkg/types"

	"verifharness/lib"
)

// Release scenarios with TWO debuggers on ONE agent and direct use of the agent's watcher list.
//
// nb breakpoints (one per symbol of nb parallel chains), each added to one of the two debuggers
// (its owner). A scenario is a sequence over
//
//	pkt:k          a packet (own process) is written into symbol k
//	rm:d:k         d.RemoveBreakpoint(bp k)        – by the owner or by the other debugger (cross call)
//	rmnil:d        d.RemoveBreakpoint(nil)
//	add:d:k        d.AddBreakpoint(bp k)           – duplicates, other debugger's, removed / closed ones
//	unwatch:k / watch:k    agent.Unwatch(bp k) / agent.Watch(bp k) by hand (a Breakpoint is a Watcher)
//	aclose         agent.Close()
//	dclose:d       d.Close()
//	bclose:k       bp k .Close()
//	pause:d / step:d       d.Pause / d.Step on a goroutine of their own (never waited for)
//
// This family is ORACLE-ONLY: Uniflow.Breakpoint models one debugger and has no agent watcher list;
// the reference below (who lists what, which breakpoint is closed) is kept in Go, in this file.
// Checked:
//   - the result of every Add / Remove / Watch / Unwatch call against the reference;
//   - the property: once bp k has been closed – RemoveBreakpoint(k) by a debugger that lists it,
//     Close of a debugger that lists it, bp.Close – every packet sent into symbol k so far and
//     later reaches its sink within the watchdog;
//   - a packet sent while nobody watches symbol k (or bp k is closed) is not held;
//   - in scenarios without pause / step: a packet sent while bp k is watched and open IS held
//     (30 ms grace; a slow machine can only make this check miss, never fail) – this is what
//     "a cross RemoveBreakpoint must not disturb the owner's breakpoint" means observably.
type sharedRef struct {
	list     [2][]int // per debugger: the breakpoints it lists, in order
	dclosed  [2]bool
	watching map[int]bool // the agent's watcher list (breakpoints only)
	bclosed  map[int]bool
}

func (r *sharedRef) lists(d, k int) bool {
	for _, x := range r.list[d] {
		if x == k {
			return true
		}
	}
	return false
}

func (r *sharedRef) drop(d, k int) {
	var out []int
	for _, x := range r.list[d] {
		if x != k {
			out = append(out, x)
		}
	}
	r.list[d] = out
}

func genSharedScenario(rng *lib.RNG) (nb int, owner []int, ops []string, stir bool) {
	nb = rng.Range(2, 3)
	for k := 0; k < nb; k++ {
		owner = append(owner, rng.Intn(2))
	}
	stir = rng.Chance(1, 3)
	n := rng.Range(5, 11)
	aclosed := false
	for i := 0; i < n; i++ {
		k, d := rng.Intn(nb), rng.Intn(2)
		w := []int{6, 4, 3, 1, 2, 2, 1, 1, 1, 1, 0, 0}
		if stir {
			w[10], w[11] = 2, 2
		}
		switch rng.Weighted(w) {
		case 0:
			ops = append(ops, fmt.Sprintf("pkt:%d", k))
		case 1: // by the owner
			ops = append(ops, fmt.Sprintf("rm:%d:%d", owner[k], k))
		case 2: // cross call
			ops = append(ops, fmt.Sprintf("rm:%d:%d", 1-owner[k], k))
		case 3:
			ops = append(ops, fmt.Sprintf("rmnil:%d", d))
		case 4:
			ops = append(ops, fmt.Sprintf("add:%d:%d", d, k))
		case 5:
			ops = append(ops, fmt.Sprintf("unwatch:%d", k))
		case 6:
			ops = append(ops, fmt.Sprintf("watch:%d", k))
		case 7:
			if !aclosed && i > 1 {
				aclosed = true
				ops = append(ops, "aclose")
			}
		case 8:
			ops = append(ops, fmt.Sprintf("dclose:%d", d))
		case 9:
			ops = append(ops, fmt.Sprintf("bclose:%d", k))
		case 10:
			ops = append(ops, fmt.Sprintf("pause:%d", d))
		case 11:
			ops = append(ops, fmt.Sprintf("step:%d", d))
		}
	}
	// every breakpoint is finally removed by whoever lists it, then one more packet each
	for k := 0; k < nb; k++ {
		ops = append(ops, fmt.Sprintf("rm:%d:%d", owner[k], k), fmt.Sprintf("rm:%d:%d", 1-owner[k], k), fmt.Sprintf("pkt:%d", k))
	}
	return nb, owner, ops, stir
}

func sharedCase(c *lib.Ctx, nb int, owner []int, ops []string, stir bool, fails *[]lib.OracleFail) (key string) {
	head := fmt.Sprintf("# two debuggers on one agent, %d breakpoints (symbol k ↔ bp k), owners %v\n# scenario: %s", nb, owner, strings.Join(ops, " "))
	trace := []string{head}
	failed, stuck := false, false
	fail := func(class, what string) {
		failed = true
		if class != "breakpoint-disturbed" && class != "debugger-call-result" {
			stuck = true
		}
		if len(*fails) < 20 {
			*fails = append(*fails, lib.OracleFail{Class: class, What: what + "  [owners " + fmt.Sprint(owner) + ": " + strings.Join(ops, " ") + "]", Replay: strings.Join(trace, "\n")})
		}
	}
	agent := runtime.NewAgent()
	f, err := build(parallelFlow(nb), agent)
	if err != nil {
		fail("build", err.Error())
		return ""
	}
	targetIn := map[*port.InPort]bool{}
	for k := 0; k < nb; k++ {
		targetIn[f.syms[3*k+1].In("in")] = true
	}
	entered := make(chan struct{}, 64)
	agent.Watch(runtime.NewFrameWatcher(func(fr *runtime.Frame) {
		if fr.InPort != nil && targetIn[fr.InPort] && fr.OutPck == nil {
			entered <- struct{}{}
		}
	}))
	harnessWatching := true
	ds := [2]*runtime.Debugger{runtime.NewDebugger(agent), runtime.NewDebugger(agent)}
	ref := &sharedRef{watching: map[int]bool{}, bclosed: map[int]bool{}}
	var bps []*runtime.Breakpoint
	for k := 0; k < nb; k++ {
		t := f.syms[3*k+1]
		bps = append(bps, runtime.NewBreakpoint(runtime.BreakWithSymbol(t), runtime.BreakWithInPort(t.In("in"))))
		ds[owner[k]].AddBreakpoint(bps[k])
		ref.list[owner[k]] = append(ref.list[owner[k]], k)
		ref.watching[k] = true
	}

	type pktRec struct {
		k       int
		s       *session
		wrote   chan int
		arrived bool
		pck     *packet.Packet
	}
	var pkts []*pktRec
	arrivals := make(chan int, 64)
	quit := make(chan struct{})
	ctx, cancel := context.WithCancel(context.Background())
	take := func(i int) { pkts[i].arrived = true }
	collect := func(wait time.Duration, done func() bool) {
		deadline := time.After(wait)
		for !done() {
			select {
			case i := <-arrivals:
				take(i)
				continue
			case <-deadline:
			}
			break
		}
		for {
			select {
			case i := <-arrivals:
				take(i)
				continue
			default:
			}
			break
		}
	}
	// every packet of symbol k must be at its sink
	mustBeFree := func(k int, why string) {
		stuck := func() []int {
			var out []int
			for i, p := range pkts {
				if p.k == k && !p.arrived {
					out = append(out, i)
				}
			}
			return out
		}
		collect(watchdog, func() bool { return len(stuck()) == 0 })
		if st := stuck(); len(st) > 0 {
			fail("paused-packet-never-resumed", fmt.Sprintf("%s: packets %v of symbol %d are still paused after %v", why, st, k, watchdog))
		}
	}
	check := func(op string, got, want bool) {
		trace = append(trace, fmt.Sprintf("%-12s => %v", op, got))
		if got != want {
			fail("debugger-call-result", fmt.Sprintf("%s returned %v, expected %v (debugger 0 lists %v, debugger 1 lists %v, agent watches %v, closed breakpoints %v)", op, got, want, ref.list[0], ref.list[1], ref.watching, ref.bclosed))
		}
	}
	closeBp := func(k int, why string) {
		ref.bclosed[k] = true
		mustBeFree(k, why)
	}

	for _, o := range ops {
		if failed {
			break
		}
		f3 := strings.Split(o, ":")
		arg := func(i int) int {
			n := 0
			if i < len(f3) {
				fmt.Sscanf(f3[i], "%d", &n)
			}
			return n
		}
		c.Hit("shared-op-" + f3[0])
		switch f3[0] {
		case "pkt":
			k := arg(1)
			s := openSession(f)
			idx := len(pkts)
			rec := &pktRec{k: k, s: s, wrote: make(chan int, 1)}
			pkts = append(pkts, rec)
			go func() { rec.wrote <- s.writers[3*k].Write(packet.New(types.NewInt(idx))) }()
			go func() {
				select {
				case ev := <-s.events:
					rec.pck = ev.pck
					arrivals <- idx
				case <-quit:
				}
			}()
			if harnessWatching {
				select {
				case <-entered:
				case <-time.After(watchdog):
					fail("hook-not-entered", fmt.Sprintf("packet %d never reached the agent's hook", idx))
				}
			}
			held := ref.watching[k] && !ref.bclosed[k]
			if !held {
				collect(watchdog, func() bool { return rec.arrived })
				trace = append(trace, fmt.Sprintf("%-12s => packet %d, nobody holds symbol %d: arrived=%v", o, idx, k, rec.arrived))
				if !rec.arrived {
					fail("packet-held-by-nobody", fmt.Sprintf("packet %d of symbol %d did not reach its sink within %v although its breakpoint is %s", idx, k, watchdog, map[bool]string{true: "closed", false: "not watched by the agent"}[ref.bclosed[k]]))
				}
			} else {
				collect(30*time.Millisecond, func() bool { return rec.arrived })
				trace = append(trace, fmt.Sprintf("%-12s => packet %d, bp %d watched and open: arrived=%v", o, idx, k, rec.arrived))
				// (a breakpoint listed by BOTH debuggers has two d.next goroutines: the second one's
				// Next starts with Done, which hands the frame the first one took straight back – such a
				// breakpoint does not hold packets; only a breakpoint with one owner is expected to)
				if rec.arrived && !stir && !(ref.lists(0, k) && ref.lists(1, k)) {
					fail("breakpoint-disturbed", fmt.Sprintf("packet %d of symbol %d passed although breakpoint %d is registered, watched by the agent and open", idx, k, k))
				}
			}
		case "rm":
			d, k := arg(1), arg(2)
			want := ref.lists(d, k)
			got := ds[d].RemoveBreakpoint(bps[k])
			check(o, got, want)
			if want {
				ref.drop(d, k)
				delete(ref.watching, k)
				closeBp(k, fmt.Sprintf("debugger %d, which lists breakpoint %d, removed it (RemoveBreakpoint => %v)", d, k, got))
			}
		case "rmnil":
			check(o, ds[arg(1)].RemoveBreakpoint(nil), false)
		case "add":
			d, k := arg(1), arg(2)
			want := !ref.dclosed[d] && !ref.lists(d, k)
			check(o, ds[d].AddBreakpoint(bps[k]), want)
			if want {
				ref.list[d] = append(ref.list[d], k)
				ref.watching[k] = true
			}
		case "unwatch":
			k := arg(1)
			check(o, agent.Unwatch(bps[k]), ref.watching[k])
			delete(ref.watching, k)
		case "watch":
			k := arg(1)
			if !ref.bclosed[k] && !ref.lists(0, k) && !ref.lists(1, k) {
				continue // an open breakpoint no debugger lists would hold packets nobody is there to step
			}
			check(o, agent.Watch(bps[k]), !ref.watching[k])
			ref.watching[k] = true
		case "aclose":
			agent.Close()
			ref.watching = map[int]bool{}
			harnessWatching = false
			trace = append(trace, "aclose")
		case "dclose":
			d := arg(1)
			ds[d].Close()
			trace = append(trace, o)
			closing := !ref.dclosed[d]
			ref.dclosed[d] = true
			if closing {
				ks := ref.list[d]
				ref.list[d] = nil
				for _, k := range ks {
					closeBp(k, fmt.Sprintf("debugger %d, which lists breakpoint %d, was closed", d, k))
				}
			}
		case "bclose":
			k := arg(1)
			bps[k].Close()
			trace = append(trace, o)
			closeBp(k, fmt.Sprintf("breakpoint %d was closed", k))
		case "pause":
			go ds[arg(1)].Pause(ctx)
			trace = append(trace, o)
		case "step":
			go ds[arg(1)].Step(ctx)
			trace = append(trace, o)
		}
	}
	if failed {
		// something is wrong: leave this scenario's goroutines behind; when something is stuck for
		// good, also stop this family (every further scenario would run into the same watchdogs)
		if stuck {
			sharedBroken = true
		}
		cancel()
		go func() {
			for _, b := range bps {
				b.Close()
			}
			ds[0].Close()
			ds[1].Close()
		}()
		return "shared:" + strings.Join(ops, " ")
	}
	// clean-up
	ok, p := lib.WithTimeout(4*watchdog, func() {
		cancel()
		ds[0].Close()
		ds[1].Close()
		for _, b := range bps {
			b.Close()
		}
		collect(watchdog, func() bool {
			for _, p := range pkts {
				if !p.arrived {
					return false
				}
			}
			return true
		})
		for i, p := range pkts {
			select {
			case <-p.wrote:
			case <-time.After(watchdog):
				fail("write-blocked", fmt.Sprintf("Write of packet %d never returned", i))
				continue
			}
			if p.arrived {
				p.s.readers[3*p.k+2].Receive(packet.New(types.NewInt(1000 + i)))
				select {
				case <-p.s.writers[3*p.k].Receive():
				case <-time.After(watchdog):
					fail("flow", fmt.Sprintf("no response to packet %d during clean-up", i))
				}
			}
		}
		close(quit)
		for _, p := range pkts {
			p.s.exit()
		}
		f.close()
	})
	if !ok || p != nil {
		fail("cleanup", fmt.Sprintf("clean-up did not finish (panic=%v)", p))
		sharedBroken = true
	}
	if sampled["shared"] < 2 {
		sampled["shared"]++
		c.Sample(clip(trace))
	}
	return "shared:" + fmt.Sprint(owner) + strings.Join(ops, " ")
}

var sharedBroken bool
