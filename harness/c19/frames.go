package c19

import (
	"fmt"
	goruntime "runtime"
	"sort"
	"strings"
	"sync"

	"github.com/siyul-park/uniflow/pkg/packet"
	"github.com/siyul-park/uniflow/pkg/port"
	"github.com/siyul-park/uniflow/pkg/process"
	"github.com/siyul-park/uniflow/pkg/runtime"
	"github.com/siyul-park/uniflow/pkg/symbol"

	"verifharness/lib"
)

// portKey identifies a port of a symbol the way the model does: (symbol, in-port id | -, out-port id | -).
type portKey struct {
	sym     int
	in, out int // -1 = nil
}

func (k portKey) String() string {
	f := func(i int) string {
		if i < 0 {
			return "-"
		}
		return fmt.Sprint(i)
	}
	return fmt.Sprintf("%d %s %s", k.sym, f(k.in), f(k.out))
}

type hookEv struct {
	sess int
	key  portKey
	inb  bool
	pck  int
	val  int // the packet's payload when it is an int (the workflows' values), else 0
}

// tap is the harness's own log of the packets passing every port of every symbol: its packet
// hooks sit on the same readers / writers as the agent's (installed the same way, through open
// hooks) and run immediately before them under the endpoint's lock.
type tap struct {
	mu      sync.Mutex
	procs   map[*process.Process]int
	pcks    map[*packet.Packet]int
	inPorts map[*port.InPort]portKey
	outPort map[*port.OutPort]portKey
	names   map[portKey]string
	keys    []portKey
	log     []hookEv
	symIdx  map[*symbol.Symbol]int // also symbols that have been replaced meanwhile
	next    int
	window  map[portKey]bool // per oracle view: in-ports whose first request passed before the hooks were attached
}

func (t *tap) pckID(p *packet.Packet) int {
	if p == nil {
		return -1
	}
	id, ok := t.pcks[p]
	if !ok {
		id = len(t.pcks) + 1
		t.pcks[p] = id
	}
	return id
}

func (t *tap) record(proc *process.Process, key portKey, inb bool, p *packet.Packet) {
	t.mu.Lock()
	defer t.mu.Unlock()
	s, ok := t.procs[proc]
	if !ok {
		return
	}
	t.log = append(t.log, hookEv{sess: s, key: key, inb: inb, pck: t.pckID(p), val: intOf(p)})
}

func installTap(f *flow) *tap {
	t := &tap{procs: map[*process.Process]int{}, pcks: map[*packet.Packet]int{}, inPorts: map[*port.InPort]portKey{},
		outPort: map[*port.OutPort]portKey{}, names: map[portKey]string{}, symIdx: map[*symbol.Symbol]int{}}
	for i, sb := range f.syms {
		t.addSymbol(i, sb)
	}
	return t
}

// addSymbol taps every (materialised) port of the symbol standing at position i of the workflow
// (also a symbol that replaces an earlier one there: its ports are new ports with keys of their own).
func (t *tap) addSymbol(i int, sb *symbol.Symbol) {
	t.symIdx[sb] = i
	ins := sb.Ins()
	var names []string
	for n := range ins {
		names = append(names, n)
	}
	sort.Strings(names)
	for _, n := range names {
		in := ins[n]
		key := portKey{sym: i, in: t.next, out: -1}
		t.next++
		t.inPorts[in] = key
		t.names[key] = n
		t.keys = append(t.keys, key)
		in.AddOpenHook(port.OpenHookFunc(func(proc *process.Process) {
			r := in.Open(proc)
			r.AddInboundHook(packet.HookFunc(func(p *packet.Packet) { t.record(proc, key, true, p) }))
			r.AddOutboundHook(packet.HookFunc(func(p *packet.Packet) { t.record(proc, key, false, p) }))
		}))
	}
	outs := sb.Outs()
	names = nil
	for n := range outs {
		names = append(names, n)
	}
	sort.Strings(names)
	for _, n := range names {
		out := outs[n]
		key := portKey{sym: i, in: -1, out: t.next}
		t.next++
		t.outPort[out] = key
		t.names[key] = n
		t.keys = append(t.keys, key)
		out.AddOpenHook(port.OpenHookFunc(func(proc *process.Process) {
			w := out.Open(proc)
			w.AddInboundHook(packet.HookFunc(func(p *packet.Packet) { t.record(proc, key, true, p) }))
			w.AddOutboundHook(packet.HookFunc(func(p *packet.Packet) { t.record(proc, key, false, p) }))
		}))
	}
}

var obsDeadFrames int

func goroutineDump() string {
	buf := make([]byte, 1<<20)
	n := goruntime.Stack(buf, true)
	if n > 60000 {
		n = 60000
	}
	return "# goroutine dump at the time the watchdog fired\n" + string(buf[:n])
}

type frameRow struct {
	key     portKey
	in, out int // packet ids, -1 = nil
}

// readFrames canonicalises Agent.Frames(proc). Only called at quiescence (the frames' fields are
// written by the hooks under the agent's lock but are handed out as shared pointers).
func (t *tap) readFrames(f *flow, a *runtime.Agent, proc *process.Process) []frameRow {
	t.mu.Lock()
	defer t.mu.Unlock()
	var rows []frameRow
	for _, fr := range a.Frames(proc.ID()) {
		row := frameRow{key: portKey{sym: -1, in: -1, out: -1}, in: t.pckID(fr.InPck), out: t.pckID(fr.OutPck)}
		if i, ok := t.symIdx[fr.Symbol]; ok {
			row.key.sym = i
		}
		if fr.InPort != nil {
			row.key.in = t.inPorts[fr.InPort].in
		}
		if fr.OutPort != nil {
			row.key.out = t.outPort[fr.OutPort].out
		}
		rows = append(rows, row)
	}
	return rows
}

func pid(i int) string {
	if i < 0 {
		return "-"
	}
	return fmt.Sprint(i)
}

func showCol(rows []frameRow, key portKey) string {
	parts := []string{}
	for _, r := range rows {
		if r.key == key {
			parts = append(parts, pid(r.in)+" "+pid(r.out))
		}
	}
	return strings.Join(append([]string{fmt.Sprint(len(parts))}, parts...), " | ")
}

// framesOracle checks the statement directly: every completed frame pairs the k-th request of a
// port with the k-th answer of that same port (FIFO per port), every request has its frame.
// openHookWindow recognises the known finding `open-hook-window` on the in-ports of one process:
// InPort.Open publishes a new reader in the port's map before the open hooks have run, so a writer
// opened on another goroutine can find it and deliver the process's FIRST packet of that port
// before the agent's hook has attached its packet hooks. That request is not recorded, its answer is
// (an orphan frame), and every later request fills the orphan left before it: with requests
// R1 … Rn and answers A1 … An the port's frames are (R2,A1) (R3,A2) … (Rn,An-1) (-,An).
// Exactly this and nothing else: same number of frames as answers, every one shifted by one from
// the very first, the last one the orphan. The harness's own hook log may or may not hold R1 (its
// hooks are attached just before the agent's); `strict` (schedules with Agent.Unload in them, where a
// deleted first frame would look the same) accepts only the case in which it does not.
func openHookWindow(t *tap, sess int, rows []frameRow, strict bool) []portKey {
	var hit []portKey
	for _, key := range t.keys {
		if key.in < 0 {
			continue
		}
		var fr []frameRow
		for _, r := range rows {
			if r.key == key {
				fr = append(fr, r)
			}
		}
		var reqs, answs []int
		for _, e := range t.log {
			if e.sess == sess && e.key == key {
				if e.inb {
					reqs = append(reqs, e.pck)
				} else {
					answs = append(answs, e.pck)
				}
			}
		}
		n := len(answs)
		if n == 0 || len(fr) != n || fr[n-1].in != -1 || fr[n-1].out != answs[n-1] {
			continue
		}
		var seen []int
		switch {
		case len(reqs) == n-1:
			seen = reqs
		case len(reqs) == n && !strict:
			seen = reqs[1:]
		default:
			continue
		}
		ok := true
		for i := 0; i < n-1; i++ {
			if fr[i].in != seen[i] || fr[i].out != answs[i] {
				ok = false
			}
		}
		if ok {
			hit = append(hit, key)
		}
	}
	return hit
}

// withoutPorts: the rows and a copy of the tap restricted to the other ports of the session.
func withoutPorts(t *tap, sess int, rows []frameRow, drop []portKey) (*tap, []frameRow) {
	gone := map[portKey]bool{}
	for _, k := range drop {
		gone[k] = true
	}
	t2 := *t
	t2.keys = nil
	for _, k := range t.keys {
		if !gone[k] {
			t2.keys = append(t2.keys, k)
		}
	}
	t2.log = nil
	for _, e := range t.log {
		if !(e.sess == sess && gone[e.key]) {
			t2.log = append(t2.log, e)
		}
	}
	var out []frameRow
	for _, r := range rows {
		if !gone[r.key] {
			out = append(out, r)
		}
	}
	return &t2, out
}

// windowView: the open-hook window under the REPAIRED agent (fix 5a92fce). InPort.Open publishes a
// new reader before the open hooks have run, so the process's FIRST packet of an in-port can pass
// before the agent's packet hooks (and the harness's own, attached just before them) are on. The
// agent then has no frame for that request and skips its answer; every recorded frame pairs a
// request with its own answer. This is the one situation in which a request without a frame is
// accepted: the first events of the process on that port – the answer A1, and the request R1 if the
// harness's hook did see it – appear in no frame; they are taken out of the view the oracles judge,
// and the port is marked so that one request less is expected there.
func windowView(t *tap, sess int, rows []frameRow, lax bool) (*tap, []portKey) {
	inFrames := map[portKey]map[int]bool{}
	nfr := map[portKey]int{}
	for _, r := range rows {
		if inFrames[r.key] == nil {
			inFrames[r.key] = map[int]bool{}
		}
		inFrames[r.key][r.in], inFrames[r.key][r.out] = true, true
		nfr[r.key]++
	}
	dropReq, dropAns := map[portKey]bool{}, map[portKey]bool{}
	var hit []portKey
	for _, key := range t.keys {
		if key.in < 0 {
			continue
		}
		var reqs, answs []int
		for _, e := range t.log {
			if e.sess == sess && e.key == key {
				if e.inb {
					reqs = append(reqs, e.pck)
				} else {
					answs = append(answs, e.pck)
				}
			}
		}
		switch {
		case len(answs) == len(reqs)+1 && !inFrames[key][answs[0]]:
			dropAns[key] = true
			hit = append(hit, key)
		case !lax && len(answs) == len(reqs) && len(reqs) >= 1 && nfr[key] == len(reqs)-1 && !inFrames[key][reqs[0]] && !inFrames[key][answs[0]]:
			dropReq[key], dropAns[key] = true, true
			hit = append(hit, key)
		}
	}
	if len(hit) == 0 {
		return t, nil
	}
	t2 := *t
	t2.window = map[portKey]bool{}
	for _, k := range hit {
		t2.window[k] = true
	}
	t2.log = nil
	for _, e := range t.log {
		if e.sess == sess && e.inb && dropReq[e.key] {
			dropReq[e.key] = false
			continue
		}
		if e.sess == sess && !e.inb && dropAns[e.key] {
			dropAns[e.key] = false
			continue
		}
		t2.log = append(t2.log, e)
	}
	return &t2, hit
}

// dedupAdjacent drops a frame that repeats its predecessor on the same port (a symbol loaded twice
// has two sets of hooks on the endpoints of processes that came later: every frame is recorded twice).
func dedupAdjacent(rows []frameRow) []frameRow {
	last := map[portKey]frameRow{}
	var out []frameRow
	for _, r := range rows {
		if p, ok := last[r.key]; ok && p == r {
			continue
		}
		last[r.key] = r
		out = append(out, r)
	}
	return out
}

// framesPairingOracle is the oracle for histories with Agent.Unload / Load in them: which frames
// exist is then the agent's choice, what the statement fixes is that every complete frame pairs
// request i with answer i of its port and process (FIFO per port, the harness's hook log), and
// that once every request has been answered no frame is left half-open.
func framesPairingOracle(t *tap, sess int, rows []frameRow) (class, what string) {
	reqs, answs := map[portKey][]int{}, map[portKey][]int{}
	for _, e := range t.log {
		if e.sess != sess {
			continue
		}
		if e.inb == (e.key.in >= 0) {
			reqs[e.key] = append(reqs[e.key], e.pck)
		} else {
			answs[e.key] = append(answs[e.key], e.pck)
		}
	}
	idx := func(xs []int, p int) int {
		for j, x := range xs {
			if x == p {
				return j
			}
		}
		return -1
	}
	used := map[portKey]map[int]bool{}
	for i, r := range rows {
		req, ans := r.in, r.out
		if r.key.in < 0 {
			req, ans = r.out, r.in
		}
		name := fmt.Sprintf("port %v (%s)", r.key, t.names[r.key])
		if req < 0 {
			return "frame-half-open", fmt.Sprintf("%s: frame %d holds only the answer packet %s (answer %d of the port) and no request, although every request has been answered", name, i, pid(ans), idx(answs[r.key], ans))
		}
		k := -1
		for j, x := range reqs[r.key] {
			if x == req && !used[r.key][j] {
				k = j
				break
			}
		}
		if k >= 0 {
			if used[r.key] == nil {
				used[r.key] = map[int]bool{}
			}
			used[r.key][k] = true
		}
		if k < 0 {
			return "frame-cross-port", fmt.Sprintf("%s: frame %d holds request packet %s, which never passed that port", name, i, pid(req))
		}
		if ans < 0 {
			if k < len(answs[r.key]) {
				return "frame-half-open", fmt.Sprintf("%s: frame %d holds request %d (packet %s) and no answer, although request %d was answered by packet %s", name, i, k, pid(req), k, pid(answs[r.key][k]))
			}
			continue
		}
		if k >= len(answs[r.key]) || answs[r.key][k] != ans {
			return "frame-not-request-i-answer-i", fmt.Sprintf("%s: frame %d pairs request %d (packet %s) with packet %s, which is answer %d of the port; the answer to request %d was packet %s", name, i, k, pid(req), pid(ans), idx(answs[r.key], ans), k, func() string {
				if k < len(answs[r.key]) {
					return pid(answs[r.key][k])
				}
				return "-"
			}())
		}
	}
	return "", ""
}

func framesOracle(t *tap, sess int, rows []frameRow, sr *sessRun) (class, what string) {
	// (1) against the request log (the harness's reference reading of the workflow, independent of
	// any packet hook): on every port exactly one frame per request that passed it, none half-open
	if sr != nil {
		perPort := map[portKey][]frameRow{}
		for _, r := range rows {
			perPort[r.key] = append(perPort[r.key], r)
		}
		hooks := map[portKey]int{}
		for _, e := range t.log {
			if e.sess == sess && e.inb == (e.key.in >= 0) {
				hooks[e.key]++
			}
		}
		for _, key := range t.keys {
			want := sr.ip.reqs[portReq{key.sym, key.in < 0, t.names[key]}]
			if t.window[key] {
				want-- // the request that passed before the hooks were attached has no frame
			}
			if got := len(perPort[key]); got != want {
				return "frame-count-vs-requests", fmt.Sprintf("port %v (%s): %d requests passed the port but the agent holds %d frames for it (its request hook fired %d times)", key, t.names[key], want, got, hooks[key])
			}
			for i, r := range perPort[key] {
				if r.in < 0 || r.out < 0 {
					return "frame-half-open", fmt.Sprintf("port %v (%s): frame %d is half-open (in=%s out=%s) although every request has been answered", key, t.names[key], i, pid(r.in), pid(r.out))
				}
			}
		}
		// (2) at the ends the harness drives itself it knows request i and answer i by identity
		// (reqs == nil: the request is not compared by identity – whether the writer's hook is shown
		// the packet handed to Write or the copy it delivers is not part of the statement)
		check := func(key portKey, reqs, answs []*packet.Packet) (string, string) {
			for i, r := range perPort[key] {
				req, ans := r.in, r.out
				if key.in < 0 {
					req, ans = r.out, r.in
				}
				if i >= len(answs) || (reqs != nil && i >= len(reqs)) {
					break
				}
				wr, wa := req, t.pcks[answs[i]]
				if reqs != nil {
					wr = t.pcks[reqs[i]]
				}
				if wr != req || wa != ans {
					return "frame-not-request-i-answer-i", fmt.Sprintf("port %v (%s): frame %d holds request packet %s and answer packet %s, but request %d was packet %s and its answer was packet %s", key, t.names[key], i, pid(req), pid(ans), i, pid(wr), pid(wa))
				}
			}
			return "", ""
		}
		for _, key := range t.keys {
			switch sr.s.f.spec.nodes[key.sym].kind {
			case "src":
				if c, w := check(key, nil, sr.resp[key.sym]); c != "" {
					return c, w
				}
			case "sink":
				// the reader hands the requests out in delivery order, by identity, and Receive answers
				// the oldest delivered one: request j of the port is arrived[j], its answer sent[j]
				// (an in-port with several links: whatever order the agent's hook saw the packets in)
				arrived, sent := sr.arrived[key.sym], sr.sent[key.sym]
				for i, r := range perPort[key] {
					j := -1
					for x, p := range arrived {
						if t.pcks[p] == r.in {
							j = x
						}
					}
					if j < 0 {
						return "frame-not-request-i-answer-i", fmt.Sprintf("port %v (%s): frame %d holds request packet %s, which never arrived at this port", key, t.names[key], i, pid(r.in))
					}
					if j < len(sent) && t.pcks[sent[j]] != r.out {
						return "frame-pairs-request-with-another-answer", fmt.Sprintf("port %v (%s): frame %d pairs request packet %s (delivered as request %d of the port) with packet %s, but the answer to request %d was packet %s", key, t.names[key], i, pid(r.in), j, pid(r.out), j, pid(t.pcks[sent[j]]))
					}
				}
			case "pass":
				// an observed node: its forward loop emits in the order its in-port delivered, and its
				// reader's Receive answers the oldest delivered request – so the k-th emission on
				// "out" (value − c) identifies the k-th delivered request and the k-th packet leaving
				// through the in-port is its answer, whatever order the inbound hooks ran in
				if key.in < 0 || t.window[key] {
					continue
				}
				c := sr.s.f.spec.nodes[key.sym].c
				type reqEv struct{ pck, val int }
				var reqs []reqEv
				var emitted, answers []int
				for _, e := range t.log {
					if e.sess != sess || e.key.sym != key.sym {
						continue
					}
					switch {
					case e.key == key && e.inb:
						reqs = append(reqs, reqEv{e.pck, e.val})
					case e.key == key && !e.inb:
						answers = append(answers, e.pck)
					case e.key.in < 0 && !e.inb && t.names[e.key] == "out":
						emitted = append(emitted, e.val-c)
					}
				}
				truth := map[int]int{} // request packet → its answer packet
				used := make([]bool, len(reqs))
				for k, v := range emitted {
					for x, rq := range reqs {
						if !used[x] && rq.val == v {
							used[x] = true
							if k < len(answers) {
								truth[rq.pck] = answers[k]
							}
							break
						}
					}
				}
				for i, r := range perPort[key] {
					if want, ok := truth[r.in]; ok && want != r.out {
						return "frame-pairs-request-with-another-answer", fmt.Sprintf("port %v (%s): frame %d pairs request packet %s with packet %s, but that request was answered by packet %s (delivery order of the port: the node emitted %v, answers left in the order %v)", key, t.names[key], i, pid(r.in), pid(r.out), pid(want), emitted, answers)
					}
				}
			}
		}
	}
	reqs, answs := map[portKey][]int{}, map[portKey][]int{}
	for _, e := range t.log {
		if e.sess != sess {
			continue
		}
		// in-port: the request is the inbound packet; out-port: the request is the outbound packet
		isReq := e.inb == (e.key.in >= 0)
		if isReq {
			reqs[e.key] = append(reqs[e.key], e.pck)
		} else {
			answs[e.key] = append(answs[e.key], e.pck)
		}
	}
	count := map[portKey]int{}
	usedReq := map[portKey]map[int]bool{}
	for i, r := range rows {
		req, ans := r.in, r.out
		if r.key.in < 0 {
			req, ans = r.out, r.in
		}
		count[r.key]++
		if req < 0 {
			return "frame-without-request", fmt.Sprintf("frame %d on port %v (%s) holds answer packet %d but no request", i, r.key, t.names[r.key], ans)
		}
		// (the same packet object can pass a port several times – the packet.None singleton: the
		// frames of a port take its occurrences in order)
		k := -1
		for j, p := range reqs[r.key] {
			if p == req && !usedReq[r.key][j] {
				k = j
				break
			}
		}
		if k >= 0 {
			if usedReq[r.key] == nil {
				usedReq[r.key] = map[int]bool{}
			}
			usedReq[r.key][k] = true
		}
		if k < 0 {
			return "frame-cross-port", fmt.Sprintf("frame %d on port %v (%s): its request packet %d never entered that port (requests there: %v)", i, r.key, t.names[r.key], req, reqs[r.key])
		}
		if ans >= 0 {
			if k >= len(answs[r.key]) || answs[r.key][k] != ans {
				class := "frame-cross-port"
				for _, p := range answs[r.key] {
					if p == ans {
						class = "frame-wrong-answer-of-same-port"
					}
				}
				return class, fmt.Sprintf("frame %d on port %v (%s): request #%d (packet %d) is paired with packet %d, but the answers on that port were %v", i, r.key, t.names[r.key], k, req, ans, answs[r.key])
			}
		} else if k < len(answs[r.key]) {
			return "frame-incomplete", fmt.Sprintf("frame %d on port %v (%s): request #%d was answered (packet %d) but the frame has no answer", i, r.key, t.names[r.key], k, answs[r.key][k])
		}
	}
	for key, rs := range reqs {
		if count[key] != len(rs) {
			return "frame-count", fmt.Sprintf("port %v (%s): %d requests but %d frames", key, t.names[key], len(rs), count[key])
		}
	}
	return "", ""
}

// framesCase runs one workflow with the agent attached and compares Agent.Frames with the model
// (fed the harness's hook log) and with the oracle.
func framesCase(c *lib.Ctx, fs flowSpec, nsess int, ops []op, early bool, sc *lib.Script, fails *[]lib.OracleFail, prep ...func(*runner)) (key string) {
	ok, p := lib.WithTimeout(12*watchdog, func() { key = framesCaseBody(c, fs, nsess, ops, early, sc, fails, prep...) })
	if !ok || p != nil {
		*fails = append(*fails, lib.OracleFail{Class: "hang", What: fmt.Sprintf("%v: the frames case did not finish within %v (panic=%v): a call into the agent or the workflow never returned", fs, 12*watchdog, p), Replay: goroutineDump()})
	}
	return key
}

// early: session 0 is terminated with its requests still unanswered (its frames are read just
// before); what the agent then still holds for the dead process is reported as an observation.
func framesCaseBody(c *lib.Ctx, fs flowSpec, nsess int, ops []op, early bool, sc *lib.Script, fails *[]lib.OracleFail, prep ...func(*runner)) (key string) {
	agent := runtime.NewAgent()
	f, err := build(fs, agent)
	if err != nil {
		*fails = append(*fails, lib.OracleFail{Class: "build", What: fs.String() + ": " + err.Error()})
		return ""
	}
	defer f.close()
	for i, n := range f.loads {
		if n != 1 {
			*fails = append(*fails, lib.OracleFail{Class: "load-count", What: fmt.Sprintf("%v: symbol %d loaded %d times", fs, i, n)})
			return ""
		}
	}
	lax := false // Agent.Unload / Load / process restarts in the schedule: which frames exist is the agent's choice
	for _, o := range ops {
		if o.kind == 'U' || o.kind == 'L' || o.kind == 'X' {
			lax = true
		}
	}
	t := installTap(f)
	// a watcher of the agent (what a breakpoint is): it must be shown every request and every answer
	var wmu sync.Mutex
	watched := map[*process.Process]int{}
	agent.Watch(runtime.NewFrameWatcher(func(fr *runtime.Frame) {
		wmu.Lock()
		watched[fr.Process]++
		wmu.Unlock()
	}))
	r := newRunner(f, nsess)
	r.onRestart = func(sess int, old, fresh *session) {
		// the old process and everything recorded for it are gone: the session's log starts afresh
		t.mu.Lock()
		defer t.mu.Unlock()
		delete(t.procs, old.proc)
		t.procs[fresh.proc] = sess
		var kept []hookEv
		for _, e := range t.log {
			if e.sess != sess {
				kept = append(kept, e)
			}
		}
		t.log = kept
	}
	for _, p := range prep { // directed scenarios: the harness's own hooks, added after the agent's
		p(r)
	}
	for i, sr := range r.ss {
		t.mu.Lock()
		t.procs[sr.s.proc] = i
		t.mu.Unlock()
	}
	// NB the sessions were opened before their processes were known to the tap: nothing is
	// logged at open time (hooks only fire on packets), so no event is lost.
	var trace []string
	trace = append(trace, "# "+fs.String())
	for _, o := range ops {
		r.exec(o)
	}
	if early {
		r.drain(0)
	} else {
		r.drain()
	}
	trace = append(trace, r.log...)
	replay := func() string { return strings.Join(trace, "\n") }
	for _, w := range r.fails {
		*fails = append(*fails, lib.OracleFail{Class: "flow", What: w, Replay: replay()})
	}
	// model: the event sequence the harness's hooks saw – one request event and one answer event
	// per request of the request log (the reference reading says how many requests passed each
	// port; a hook that fires more often than that is not a request and is not fed to the model,
	// so that model and agent disagree about it)
	t.mu.Lock()
	log := append([]hookEv(nil), t.log...)
	t.mu.Unlock()
	type evKey struct {
		sess int
		key  portKey
		req  bool
	}
	seen := map[evKey]int{}
	for _, e := range log {
		if !(early && e.sess == 0) {
			k := evKey{e.sess, e.key, e.inb == (e.key.in >= 0)}
			seen[k]++
			// an answer event is an answer only if a request of the port is still unanswered
			orphan := !k.req && seen[k] > seen[evKey{e.sess, e.key, true}]
			if want := r.ss[e.sess].ip.reqs[portReq{e.key.sym, e.key.in < 0, t.names[e.key]}]; seen[k] > want || orphan {
				if orphan {
					seen[k]--
				}
				c.Hit("frames-hook-fired-more-often-than-requests-passed")
				trace = append(trace, fmt.Sprintf("# hook call beyond the %d requests of port %v (%s) in session %d: packet %d", want, e.key, t.names[e.key], e.sess, e.pck))
				continue
			}
			// a sink's in-port: the model is told the requests in the order the reader delivered
			// them (the harness read them off the reader, by identity) – the order in which the
			// port's inbound hooks happened to run is not the request order of the port
			if sr := r.ss[e.sess]; e.inb && e.key.in >= 0 && fs.nodes[e.key.sym].kind == "sink" && seen[k] <= len(sr.arrived[e.key.sym]) {
				if id, ok := t.pcks[sr.arrived[e.key.sym][seen[k]-1]]; ok {
					e.pck = id
				}
			}
		}
		name := "outb"
		if e.inb {
			name = "inb"
		}
		line := fmt.Sprintf("%s %d %v %d", name, e.sess, e.key, e.pck)
		sc.Op(line, "ok")
		trace = append(trace, line)
	}
	cross, piped := false, false
	for si, sr := range r.ss {
		if early && si == 0 {
			// stopped in mid-flight: the last answer may still be travelling upstream, so this
			// session's frames are not at rest and are not compared (the drained sessions are)
			continue
		}
		rows := t.readFrames(f, agent, sr.s.proc)
		tv, window := windowView(t, si, rows, lax)
		if len(window) > 0 {
			c.Hit("frames-open-hook-window-hit")
			var names []string
			for _, k := range window {
				names = append(names, fmt.Sprintf("%v (%s)", k, t.names[k]))
			}
			trace = append(trace, fmt.Sprintf("# open-hook window: the first request of process %d on in-port %s passed before the agent's packet hooks were attached; it has no frame (accepted), its answer is not recorded", si, strings.Join(names, ", ")))
		}
		if lax {
			// frames recorded twice (a symbol loaded twice) count once; a port the agent holds nothing
			// for (unloaded before the process came) is not compared; the number of frames is not
			rows = dedupAdjacent(rows)
			for _, k := range tv.keys {
				if col := showCol(rows, k); col != "0" && !tv.window[k] {
					sc.Op(fmt.Sprintf("col %d %v", si, k), col)
				}
			}
		} else {
			if len(window) == 0 {
				sc.Op(fmt.Sprintf("nframes %d", si), fmt.Sprint(len(rows)))
			}
			for _, k := range tv.keys {
				if !tv.window[k] {
					sc.Op(fmt.Sprintf("col %d %v", si, k), showCol(rows, k))
				}
			}
		}
		for _, row := range rows {
			trace = append(trace, fmt.Sprintf("# frame sess=%d port=%v(%s) in=%s out=%s", si, row.key, t.names[row.key], pid(row.in), pid(row.out)))
		}
		class, what := "", ""
		if lax {
			class, what = framesPairingOracle(tv, si, rows)
		} else {
			class, what = framesOracle(tv, si, rows, sr)
		}
		if class == "" && !lax {
			// watcher events: one for every request and one for every answer that passed an observed port
			want := -2 * len(window) // (neither the unrecorded first request of a window port nor its answer was shown to anybody)
			for _, k := range t.keys {
				want += 2 * sr.ip.reqs[portReq{k.sym, k.in < 0, t.names[k]}]
			}
			wmu.Lock()
			got := watched[sr.s.proc]
			wmu.Unlock()
			if got != want {
				class, what = "watcher-events", fmt.Sprintf("%d requests passed the observed ports of the process and every one was answered: the agent's watchers should have been shown %d frame events (request + answer), they were shown %d", want/2, want, got)
			}
		}
		if class != "" {
			*fails = append(*fails, lib.OracleFail{Class: class, What: fs.String() + ": " + what, Replay: replay()})
		}
		// interleaving across ports of one symbol in this case? several requests open on one port?
		last := map[int]portKey{}
		open := map[portKey]int{}
		for _, e := range log {
			if e.sess == si {
				if e.inb == (e.key.in >= 0) {
					open[e.key]++
					if open[e.key] >= 2 {
						piped = true
					}
				} else {
					open[e.key]--
				}
				if p, ok := last[e.key.sym]; ok && p != e.key && (p.in >= 0) == (e.key.in >= 0) {
					cross = true
				}
				last[e.key.sym] = e.key
			}
		}
	}
	r.closeSessions()
	for si, sr := range r.ss {
		n := len(agent.Frames(sr.s.proc.ID()))
		if early && si == 0 {
			// Terminated with requests in flight: the agent's exit hook deletes frames[proc], the
			// drop answers that Reader.Close / the nodes then still send through the hooks re-create
			// the entry, and nothing deletes it again (until Agent.Close). Not part of C19's
			// statement (C05 owns "nothing outlives the process"): recorded, not judged.
			c.Hit("frames-early-exit-cases")
			if n > 0 {
				c.Hit("obs-frames-recorded-for-terminated-process")
				obsDeadFrames += n
				c.Extra["observation_frames_held_for_terminated_processes"] = obsDeadFrames
				c.Extra["observation_frames_held_for_terminated_processes_note"] = "Agent.Frames(proc) of processes terminated with unanswered requests: the exit hook deleted the entry, later drop answers re-created it (leak until Agent.Close); observation only, C05's subject"
			}
			continue
		}
		sc.Op(fmt.Sprintf("exit %d", si), "ok")
		sc.Op(fmt.Sprintf("nframes %d", si), fmt.Sprint(n))
	}
	c.Hit("frames-flow-" + fs.name)
	if cross {
		c.Hit("frames-interleaved-ports-of-one-symbol")
	}
	if piped {
		c.Hit("frames-several-requests-open-on-one-port")
	}
	if sampled["frames"] < 2 {
		sampled["frames"]++
		c.Sample(clip(trace))
	}
	if len(log) >= 8 {
		var os []string
		for _, o := range ops {
			os = append(os, o.String())
		}
		return "frames:" + fs.String() + ":" + strings.Join(os, ",")
	}
	return ""
}
