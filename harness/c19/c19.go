// Package c19: observing a workflow with the debug agent never changes its answers; frames pair
// a request with its answer on the same port; removing a breakpoint / closing the debugger
// resumes every paused packet.
package c19

import (
	"os"

	"verifharness/lib"
)

var sampled = map[string]int{}

// clip keeps evidence samples readable.
func clip(lines []string) []string {
	if len(lines) > 40 {
		return append(append([]string{}, lines[:40]...), "…")
	}
	return lines
}

func Run(c *lib.Ctx) {
	c.Rule = "three families. frames: random workflows (chain of 1–3 OneToOne nodes | OneToOne with out+error ports | OneToMany fan-out | ManyToOne join) inside a real symbol.Table with a runtime.Agent attached through the table's load/unload hooks, 1–2 processes, ≤6 (quick) / ≤12 (thorough) writes interleaved with sink answers (several requests in flight), Agent.Frames per port against Uniflow.Agent fed the harness's own packet-hook log, and against the oracle (k-th request with k-th answer of the same port); non-trivial = ≥8 hook events, distinct by workflow+schedule. transparency: the same families with one request in flight per source and process, run with and without the agent, every accepted-count / sink arrival / source response compared in order; non-trivial = ≥2 responses. breakpoints: real runtime.Debugger with one breakpoint on a symbol's in-port, ≤3 packets (own process each) paused, every sequence over {packet, Pause, Step, RemoveBreakpoint, Debugger.Close, Breakpoint.Close} of length ≤2 (quick) / ≤4 (thorough) containing a remove/close plus random ones of length ≤7, observations (packets resumed, which calls returned with what) after every call against the set of quiescent states of Uniflow.Breakpoint under all schedules; non-trivial = ≥1 packet and ≥1 call"
	c.Assumptions = []string{
		"frames: packets, ports, symbols and processes are harness-assigned integers; the order of hook events fed to the model is the order in which the harness's own packet hooks (installed like the agent's, running just before them under the same endpoint lock) saw them; columns are compared per port (the order of frames of different ports in Agent.Frames depends on goroutine scheduling and is not compared), Agent.Frames is read only at quiescence",
		"frames: that the k-th answer on a port answers the k-th request on it is C01's contract (Reader.Receive / Writer.receive are FIFO by construction); the oracle and theorem C19.frame_pairs take it as the hypothesis",
		"transparency is a differential over deterministic hand-over schedules with at most one request in flight per source and process: with several requests pipelined through a OneToOne/OneToMany node the flow machinery itself is non-deterministic (an answer is occasionally dropped or replaced by an empty one, ~1% of runs, with or without the agent – C02's subject), so pipelined schedules are used for the frames part only",
		"the theorem C19.hooks_transparent is about hooks that are functions of (flow state, call, observer state): that the real hooks are (when no watcher blocks) is what the differential supports; symbols are inserted upstream-first so that the table has materialised every linked in-port before Agent.Load walks sym.Ins()",
		"breakpoints: the mutexes are derived from program counters; the reader/writer mutex held around a packet hook is not modelled (each paused packet uses its own process, hence its own reader); ctx is never cancelled; a call the model says may still be blocked is not waited for, a call (or packet) every quiescent model state has returned (resumed) is awaited with a 10 s watchdog; components on which the model's quiescent states disagree are compared as wildcards",
	}
	c.Trusted = []string{"Go scheduler / channels / sync (the small-step machine of Uniflow.Breakpoint is a model of them)", "harness/c19 reference reading of the workflows (which sink sees which value)"}
	rng := lib.NewRNG(c.Seed)
	sc := &lib.Script{}
	var fails []lib.OracleFail

	// corpus first
	var corpusBP []scenario
	for _, path := range c.CorpusFiles() {
		for _, l := range lib.ReadLines(path) {
			cc, err := parseCorpusLine(l)
			if err != nil {
				c.Violation("corpus "+path+": "+err.Error(), l, false)
				continue
			}
			c.Hit("corpus-" + cc.kind)
			switch cc.kind {
			case "frames":
				sc.Begin()
				c.Count(framesCase(c, cc.fs, cc.nsess, cc.ops, sc, &fails))
			case "transp":
				c.Count(transparencyCase(c, cc.fs, cc.nsess, cc.ops, &fails))
			case "bp":
				corpusBP = append(corpusBP, cc.sc)
			}
		}
	}

	// C19_ONLY_CORPUS=1 runs the corpus cases alone (replaying a witness)
	only := os.Getenv("C19_ONLY_CORPUS") != ""

	// (2) frames
	n := c.Scale(80, 3000)
	if only {
		n = 0
	}
	for i := 0; i < n; i++ {
		r := rng.Fork()
		fs := genFlow(r)
		nsess := r.Range(1, 2)
		ops := genOps(r, fs, nsess, c.Scale(6, 12), false)
		sc.Begin()
		c.Count(framesCase(c, fs, nsess, ops, sc, &fails))
	}

	// (1) transparency differential
	n = c.Scale(80, 3000)
	if only {
		n = 0
	}
	for i := 0; i < n; i++ {
		r := rng.Fork()
		fs := genFlow(r)
		nsess := r.Range(1, 2)
		ops := genOps(r, fs, nsess, c.Scale(6, 12), true)
		c.Count(transparencyCase(c, fs, nsess, ops, &fails))
	}

	// (3) breakpoints
	scs := corpusBP
	if !only {
		scs = append(scs, genScenarios(c, rng.Fork())...)
	}
	if c.Proof.DriverBuilt {
		must, err := modelMust(c, scs)
		if err != nil {
			c.Violation("model driver failed: "+err.Error(), "", false)
		} else {
			for i, s := range scs {
				if n := len(must[i]); n > 0 && must[i][n-1][0] == "fuel" {
					c.Hit("bp-skipped-model-state-space-over-budget")
					continue
				}
				sc.Begin()
				c.Count(bpCase(c, s, must[i], sc, &fails))
			}
		}
	}

	var ms []lib.Mismatch
	if c.Proof.DriverBuilt {
		var err error
		ms, err = c.RunModel("c19", sc)
		if err != nil {
			c.Violation("model driver failed: "+err.Error(), "", false)
		}
	}
	c.Conclude("runtime.Agent frames ≈ Uniflow.Agent.step; runtime.Debugger ≈ Uniflow.Breakpoint.step", ms, fails)
}
