// Package c19: observing a workflow with the debug agent never changes its answers; frames pair
// a request with its answer on the same port; removing a breakpoint / closing the debugger
// resumes every paused packet.
package c19

import (
	"fmt"
	"os"
	"strings"
	"time"

	"verifharness/lib"
)

var sampled = map[string]int{}

// slow reports (stderr, evidence counter) a case that took suspiciously long: some wait ran into
// its watchdog without this being a failure by itself.
func slow(c *lib.Ctx, what string, f func() string) string {
	t0 := time.Now()
	key := f()
	if d := time.Since(t0); d > watchdog/2 {
		c.Hit("slow-case")
		fmt.Fprintf(os.Stderr, "[C19] slow case (%.1fs): %s %s\n", d.Seconds(), what, key)
	}
	return key
}

// clip keeps evidence samples readable.
func clip(lines []string) []string {
	if len(lines) > 40 {
		return append(append([]string{}, lines[:40]...), "…")
	}
	return lines
}

func Run(c *lib.Ctx) {
	c.Rule = "four families over random workflows (chain of 1–3 OneToOne nodes | OneToOne with out+error ports | OneToMany fan-out | ManyToOne join | diamond: the two outputs of a OneToMany node meeting again at one in-port (fan-in); in half of them out-ports get 1–2 further links, i.e. one out-port linked to 2–3 in-ports; 2/5 of the node actions are held back on harness gates) inside a real symbol.Table, 1–2 processes, schedules of source writes / releases of held actions / sink answers with 1–4 requests in flight per source and process (≤6 writes quick, ≤12 thorough; join workflows lock-step per source). frames: runtime.Agent attached through the table's load/unload hooks, Agent.Frames per port against Uniflow.Agent fed the harness's own packet-hook log and against the oracle (k-th request with k-th answer of the same port, also with several requests open on one port); 1/5 of the cases terminate process 0 in mid-flight (its frames are an observation only); non-trivial = ≥8 hook events, distinct by workflow+schedule. transparency: the same schedule run with and without the agent, every accepted-count / action entered / sink arrival / source response compared in order; non-trivial = ≥2 responses. open-exit: a process is terminated while its port is being opened (by an open hook running just before the agent's | at a verif yield point of Open | by a racing goroutine, 4–12 fresh processes), then ordinary requests of other processes, with/without agent, every agent call under a watchdog. breakpoints: real runtime.Debugger with (a) one breakpoint on a symbol's in-port, ≤3 packets (own process each) paused, every sequence over {packet, Pause, Step, RemoveBreakpoint, Debugger.Close, Breakpoint.Close} of length ≤2 (quick) / ≤4 (thorough) containing a remove/close plus random ones of length ≤7, and (b) 3–5 breakpoints in one debugger (one per symbol of 3–5 parallel chains), a packet paused on every one of them, then Pause/Step/extra packets, then Debugger.Close or RemoveBreakpoint in arbitrary order (some or all, optionally followed by Close), then one more packet per symbol (must pass: no leftover watcher); observations after every call (packets resumed, which calls returned with what) against the reachable states of the n-breakpoint Uniflow.Breakpoint under all schedules; non-trivial = ≥1 packet and ≥1 call. two debuggers on one agent (oracle-only, reference kept in harness/c19/shared.go): 2–3 breakpoints each owned by one of two debuggers sharing the agent, random sequences of packets, RemoveBreakpoint by the owner / by the other debugger / of nil / of a removed one, AddBreakpoint of duplicates, foreign, removed and closed breakpoints, agent.Unwatch / agent.Watch by hand, agent.Close, Debugger.Close, Breakpoint.Close, Pause / Step; every call result against the reference, every packet of a symbol must reach its sink once its breakpoint was removed by a debugger listing it / closed, a packet must be held while its breakpoint is listed by one debugger, watched and open"
	c.Assumptions = []string{
		"frames: packets, ports, symbols and processes are harness-assigned integers; the order of hook events fed to the model is the order in which the harness's own packet hooks (installed like the agent's, running just before them under the same endpoint lock) saw them; columns are compared per port (the order of frames of different ports in Agent.Frames depends on goroutine scheduling and is not compared), Agent.Frames is read only at quiescence",
		"frames: the number of requests that passed a port comes from the harness's reference reading of the workflow (one per Write on an out-port whatever the number of its links, one per packet delivered to an in-port), not from the packet hooks: the oracle demands exactly one complete frame per request at quiescence, the model is fed one request and one answer event per request (a hook call beyond that is dropped and counted), and at the sources / sinks the answer of frame i must be the i-th response received / answer given, by identity",
		"frames, fan-in: the requests of an in-port are the packets in the order its reader delivered them (read off the reader by identity at a sink; identified by the value the node then emits at an observed OneToOne node) and the k-th packet leaving through the port answers the k-th delivered one; a frame must pair a request with that answer whatever order the port's inbound hooks ran in; directed cases add a harness inbound hook after the agent's that parks the first of two racing writers for ≤150 ms (or yields the processor, 25–60 rounds)",
		"frames: after its last pending request is answered a sink calls Receive once more with probability 1/4 (op d): the call must be refused and is no answer – an answer event with no unanswered request on its port is not fed to the model; directed cases: writes refused by every (closed) linked reader followed by a live reader linked to the same writer (exactly one frame per accepted request), and a breakpoint added to an already closed debugger (a further Close must leave no packet paused: AddBreakpoint-after-Close is an order of add / close calls with a packet paused when Close is called, hence inside the statement)",
		"frames with Agent.Unload / Unload→Load / Load again of a random symbol and process restarts at random points of a schedule (2–4 requests pipelined per process), and with a symbol of a chain replaced in the real symbol.Table while a request is in flight (the table then unloads and loads it and its linked neighbours): which frames the agent keeps is its choice – frames recorded twice count once, a port the agent holds nothing for is not compared, the number of frames is not – the oracle demands that every complete frame pairs request i with answer i of its port and process (FIFO, the harness's hook log) and that no frame is half-open once every request was answered",
		"frames: that the k-th answer on a port answers the k-th request on it is C01's contract (Reader.Receive / Writer.receive are FIFO by construction); the oracle and theorem C19.frame_pairs take it as the hypothesis",
		"transparency is a differential over deterministic hand-over schedules: after every step the harness waits for exactly the events its reference reading of the workflow predicts (actions entered in gated nodes, sink arrivals, source responses) before the next step, the same on both runs; goroutine interleavings inside one step are the Go scheduler's. ManyToOne workflows keep one request in flight per source (a queued unpaired packet behind unanswered ones is C02's subject)",
		"frames recorded for a process that was terminated with requests in flight (the exit hook deletes frames[proc], later drop answers re-create it) are reported in the evidence as an observation, not judged: C19 speaks about pairing, C05 about what outlives a process",
		"Debugger.Close does not Unwatch its breakpoints: the closed breakpoints stay in Agent.watchers and every later frame still calls their OnFrame, which falls through both selects on the closed done channel – packets are not held (scenarios with packets after dclose: all resumed), so C19's 'closing the debugger resumes every packet it had paused' holds; it is a leak of watchers, not a violation",
		"the theorem C19.hooks_transparent is about hooks that are functions of (flow state, call, observer state): that the real hooks are (when no watcher blocks) is what the differential supports; symbols are inserted upstream-first so that the table has materialised every linked in-port before Agent.Load walks sym.Ins()",
		"breakpoints: before the next call the harness waits for what every quiescent model state agrees on (packets resumed, calls returned, d.rmu held – probe VerifPaused –, b.current of a breakpoint being a given packet – public Breakpoint.Frame) and the model's state set is pruned to the states compatible with these facts (driver line `must`); the mutexes are derived from program counters; the reader/writer mutex held around a packet hook is not modelled (each paused packet uses its own process, hence its own reader); ctx is never cancelled; a call the model says may still be blocked is not waited for, a call (or packet) every quiescent model state has returned (resumed) is awaited with a 10 s watchdog; components on which the model's quiescent states disagree are compared as wildcards",
	}
	c.Trusted = []string{"Go scheduler / channels / sync (the small-step machine of Uniflow.Breakpoint is a model of them)", "harness/c19 reference reading of the workflows (which sink sees which value)"}
	rng := lib.NewRNG(c.Seed)
	lapT := time.Now()
	lap := func(what string) {
		fmt.Fprintf(os.Stderr, "[C19] %-28s %5.1fs\n", what, time.Since(lapT).Seconds())
		lapT = time.Now()
	}
	sc := &lib.Script{}
	var fails []lib.OracleFail

	// corpus first
	var corpusBP []scenario
	for _, path := range c.CorpusFiles() {
		for _, l := range lib.ReadLines(path) {
			cc, err := parseCorpusLine(l)
			if err != nil {
				c.Violation("corpus "+path+": "+err.Error(), l, false)
				continue
			}
			c.Hit("corpus-" + cc.kind)
			switch cc.kind {
			case "frames":
				sc.Begin()
				c.Count(framesCase(c, cc.fs, cc.nsess, cc.ops, false, sc, &fails))
			case "transp":
				c.Count(transparencyCase(c, cc.fs, cc.nsess, cc.ops, &fails))
			case "bp":
				corpusBP = append(corpusBP, cc.sc)
			case "shared":
				stir := false
				for _, o := range cc.sops {
					if strings.HasPrefix(o, "pause") || strings.HasPrefix(o, "step") {
						stir = true
					}
				}
				if sharedBroken {
					continue
				}
				c.Count(slow(c, "shared (corpus)", func() string { return sharedCase(c, len(cc.owner), cc.owner, cc.sops, stir, &fails) }))
			}
		}
	}

	// C19_ONLY_CORPUS=1 runs the corpus cases alone (replaying a witness)
	only := os.Getenv("C19_ONLY_CORPUS") != ""

	// (2) frames
	n := c.Scale(80, 3000)
	if only {
		n = 0
	}
	for i := 0; i < n; i++ {
		r := rng.Fork()
		fs := genFlow(r)
		nsess := r.Range(1, 2)
		ops := genOps(r, fs, nsess, c.Scale(6, 12), r.Range(1, 4))
		sc.Begin()
		early := r.Chance(1, 5)
		if early { // stop in mid-flight: requests unanswered, actions held
			ops = ops[:len(ops)/2+1]
		}
		c.Count(slow(c, "frames", func() string { return framesCase(c, fs, nsess, ops, early, sc, &fails) }))
	}

	lap("corpus + frames")
	// (2a) the agent is unloaded / loaded again at random points of the schedule
	if !only {
		for i := 0; i < c.Scale(60, 1500); i++ {
			r := rng.Fork()
			fs := genFlow(r)
			nsess := r.Range(1, 2)
			ops := insertReloads(r, fs, nsess, genOps(r, fs, nsess, c.Scale(8, 12), r.Range(2, 4)))
			sc.Begin()
			c.Hit("frames-reload-cases")
			c.Count(slow(c, "frames reload", func() string { return framesCase(c, fs, nsess, ops, false, sc, &fails) }))
		}
	}

	// (2a') a linked neighbour is replaced in the real table with a request in flight
	if !only {
		for i := 0; i < c.Scale(8, 100); i++ {
			r := rng.Fork()
			sc.Begin()
			c.Count(slow(c, "table replace", func() string { return replaceCase(c, r, sc, &fails) }))
		}
	}

	// (2w) the window of the known finding open-hook-window, forced
	if !only {
		for i := 0; i < c.Scale(3, 20); i++ {
			r := rng.Fork()
			c.Count(slow(c, "open-hook window", func() string { return openWindowCase(c, r, sc, &fails) }))
		}
	}

	// (2b) fan-in: two writers of one process racing into one in-port
	if !only {
		for i := 0; i < c.Scale(6, 40); i++ {
			r := rng.Fork()
			sc.Begin()
			c.Count(slow(c, "fan-in park", func() string { return fanInCase(c, r, "park", i%2 == 1, r.Range(2, 3), sc, &fails) }))
		}
		for i := 0; i < c.Scale(4, 40); i++ {
			r := rng.Fork()
			sc.Begin()
			c.Count(slow(c, "fan-in race", func() string { return fanInCase(c, r, "race", i%2 == 1, c.Scale(25, 60), sc, &fails) }))
		}
	}

	lap("fan-in")
	// (2c) writes nobody accepts, then a live reader; a breakpoint added to a closed debugger
	if !only {
		for i := 0; i < c.Scale(6, 60); i++ {
			r := rng.Fork()
			c.Count(slow(c, "refused write", func() string { return refusedWriteCase(c, r, &fails) }))
		}
		c.Count(slow(c, "add after close", func() string { return addAfterCloseCase(c, &fails) }))
		for n := 1; n <= 4; n++ {
			n := n
			c.Count(slow(c, "closed port revisited", func() string { return closedPortRevisitedCase(c, n, 1+n%2, &fails) }))
		}
	}

	lap("refused write / add-after-close")
	// (1) transparency differential
	n = c.Scale(80, 3000)
	if only {
		n = 0
	}
	for i := 0; i < n; i++ {
		r := rng.Fork()
		fs := genFlow(r)
		nsess := r.Range(1, 2)
		ops := genOps(r, fs, nsess, c.Scale(6, 12), r.Range(1, 4))
		c.Count(slow(c, "transparency", func() string { return transparencyCase(c, fs, nsess, ops, &fails) }))
	}

	lap("transparency")
	// (1b) processes that terminate while a port of theirs is being opened
	if !only {
		for i := 0; i < c.Scale(24, 300); i++ {
			c.Count(slow(c, "openexit", func() string { return openExitCase(c, rng.Fork(), []string{"hook", "yield", "race"}[i%3], &fails) }))
		}
	}

	lap("open-exit")
	// (3) breakpoints
	scs := corpusBP
	if !only {
		scs = append(scs, genScenarios(c, rng.Fork())...)
	}
	if c.Proof.DriverBuilt {
		must, err := modelMust(c, scs)
		if err != nil {
			c.Violation("model driver failed: "+err.Error(), "", false)
		} else {
			for i, s := range scs {
				if n := len(must[i]); n > 0 && must[i][n-1][0] == "fuel" {
					c.Hit("bp-skipped-model-state-space-over-budget")
					continue
				}
				if bpBroken {
					c.Hit("bp-skipped-after-a-stuck-scenario")
					continue
				}
				sc.Begin()
				c.Count(slow(c, "bp "+s.String(), func() string { return bpCase(c, s, must[i], sc, &fails) }))
			}
		}
	}

	lap("breakpoints")
	// (3b) two debuggers on one agent, the agent's watcher list used directly (oracle-only)
	if !only {
		srng := rng.Fork()
		for i := 0; i < c.Scale(40, 500); i++ {
			nb, owner, ops, stir := genSharedScenario(srng.Fork())
			if sharedBroken {
				c.Hit("shared-skipped-after-a-stuck-scenario")
				continue
			}
			c.Count(slow(c, "shared "+strings.Join(ops, " "), func() string { return sharedCase(c, nb, owner, ops, stir, &fails) }))
		}
	}
	lap("two debuggers / one agent")
	var ms []lib.Mismatch
	if c.Proof.DriverBuilt {
		var err error
		ms, err = c.RunModel("c19", sc)
		if err != nil {
			c.Violation("model driver failed: "+err.Error(), "", false)
		}
	}
	c.Conclude("runtime.Agent frames ≈ Uniflow.Agent.step; runtime.Debugger ≈ Uniflow.Breakpoint.step", ms, fails)
}
