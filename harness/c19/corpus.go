package c19

import (
	"fmt"
	"strconv"
	"strings"
)

func atoi(s string) int { n, _ := strconv.Atoi(s); return n }

// parseFlow: chain c1,c2,… (a g suffix gates the node's action) | split pre post parity | fan post | join post
func parseFlow(f []string) (flowSpec, error) {
	bad := fmt.Errorf("bad flow %q", strings.Join(f, " "))
	if len(f) == 0 {
		return flowSpec{}, bad
	}
	switch {
	case f[0] == "chain" && len(f) == 2:
		var cs []int
		var gs []bool
		for _, x := range strings.Split(f[1], ",") {
			gs = append(gs, strings.HasSuffix(x, "g"))
			cs = append(cs, atoi(strings.TrimSuffix(x, "g")))
		}
		fs := chainFlow(cs)
		for i, g := range gs {
			fs.nodes[i+1].gated = g
		}
		return fs, nil
	case f[0] == "multi" && len(f) == 4: // multi <c> <k sinks on the pass node's out-port> <src out-port linked twice: 0|1>
		return multiFlow(atoi(f[1]), atoi(f[2]), f[3] == "1"), nil
	case f[0] == "split" && len(f) == 4:
		return splitFlow(f[1] == "1", f[2] == "1", atoi(f[3])), nil
	case f[0] == "fan" && len(f) == 2:
		return fanFlow(f[1] == "1"), nil
	case f[0] == "join" && len(f) == 2:
		return joinFlow(f[1] == "1"), nil
	}
	return flowSpec{}, bad
}

// parseOps: w<sess>.<node>=<v> | a<sess>.<node> | r<sess>.<node>
func parseOps(f []string) ([]op, error) {
	var ops []op
	for _, t := range f {
		var o op
		if _, err := fmt.Sscanf(t, "w%d.%d=N", &o.sess, &o.node); err == nil && strings.HasSuffix(t, "=N") {
			o.kind, o.v = 'w', noneReq
		} else if _, err := fmt.Sscanf(t, "w%d.%d=%d", &o.sess, &o.node, &o.v); err == nil {
			o.kind = 'w'
		} else if _, err := fmt.Sscanf(t, "n%d.%d", &o.sess, &o.node); err == nil {
			o.kind = 'n'
		} else if _, err := fmt.Sscanf(t, "a%d.%d", &o.sess, &o.node); err == nil {
			o.kind = 'a'
		} else if _, err := fmt.Sscanf(t, "r%d.%d", &o.sess, &o.node); err == nil {
			o.kind = 'r'
		} else if _, err := fmt.Sscanf(t, "d%d.%d", &o.sess, &o.node); err == nil {
			o.kind = 'd'
		} else if _, err := fmt.Sscanf(t, "U%d", &o.node); err == nil {
			o.kind = 'U'
		} else if _, err := fmt.Sscanf(t, "L%d", &o.node); err == nil {
			o.kind = 'L'
		} else if _, err := fmt.Sscanf(t, "X%d", &o.sess); err == nil {
			o.kind = 'X'
		} else {
			return nil, fmt.Errorf("bad op %q", t)
		}
		ops = append(ops, o)
	}
	return ops, nil
}

type corpusCase struct {
	kind  string // frames | transp | bp | shared
	owner []int  // shared: owner of each breakpoint
	sops  []string
	fs    flowSpec
	nsess int
	ops   []op
	sc    scenario
}

func parseCorpusLine(l string) (corpusCase, error) {
	f := strings.Fields(l)
	if len(f) == 0 {
		return corpusCase{}, fmt.Errorf("empty")
	}
	cc := corpusCase{kind: f[0]}
	switch f[0] {
	case "shared": // shared <owner of bp 0>,<owner of bp 1>,… | <ops of harness/c19/shared.go>
		parts := strings.Split(strings.Join(f[1:], " "), "|")
		if len(parts) != 2 {
			return cc, fmt.Errorf("bad corpus line %q", l)
		}
		for _, x := range strings.Split(strings.TrimSpace(parts[0]), ",") {
			if x != "0" && x != "1" {
				return cc, fmt.Errorf("bad owner %q in %q", x, l)
			}
			cc.owner = append(cc.owner, atoi(x))
		}
		for _, o := range strings.Fields(parts[1]) {
			switch strings.Split(o, ":")[0] {
			case "pkt", "rm", "rmnil", "add", "unwatch", "watch", "aclose", "dclose", "bclose", "pause", "step":
				cc.sops = append(cc.sops, o)
			default:
				return cc, fmt.Errorf("bad op %q in %q", o, l)
			}
		}
		return cc, nil
	case "bp":
		for _, o := range f[1:] {
			switch name, _ := splitOp(o); name {
			case "hook", "pause", "step", "remove", "dclose", "close":
				cc.sc = append(cc.sc, o)
			default:
				return cc, fmt.Errorf("bad scenario op %q", o)
			}
		}
		return cc, nil
	case "frames", "transp":
		parts := strings.Split(strings.Join(f[1:], " "), "|")
		if len(parts) != 3 {
			return cc, fmt.Errorf("bad corpus line %q", l)
		}
		var err error
		if cc.fs, err = parseFlow(strings.Fields(parts[0])); err != nil {
			return cc, err
		}
		cc.nsess = atoi(strings.TrimSpace(parts[1]))
		if cc.nsess < 1 {
			return cc, fmt.Errorf("bad session count in %q", l)
		}
		cc.ops, err = parseOps(strings.Fields(parts[2]))
		for _, o := range cc.ops {
			if o.sess >= cc.nsess || o.node >= len(cc.fs.nodes) {
				return cc, fmt.Errorf("op %v out of range in %q", o, l)
			}
		}
		return cc, err
	}
	return cc, fmt.Errorf("unknown corpus case kind %q", f[0])
}
