package c05

// Workflow level (OBSERVATION, PARTIAL – not a proof and not a model comparison).
//
// A chain of 1–3 real OneToOne nodes (bare nodes with linked ports, optionally loaded into a
// debug Agent as symbols) processes 1–4 requests of one process. The flight is either completed
// (every response received, then Exit) or aborted: one node's action blocks, the process exits
// while requests are in flight, then the action is released. After a settle loop the harness
// looks at everything the property names:
//   * every port of the chain maps no process          (InPort.VerifReaders / OutPort.VerifWriters)
//   * every node's tracer has empty maps               (Tracer.VerifC05Sizes)
//   * the agent no longer knows the process            (Agent.Process / Processes / Frames)
//   * no goroutine with a uniflow/pkg frame is left    (runtime.Stack(all), compared with the count
//                                                       before the workflow was built)
// The goroutine check is a runtime observation: it supports, and cannot prove, "no goroutine
// started for the process is still running".

import (
	"fmt"
	"runtime"
	"strings"
	"sync"
	"sync/atomic"
	"time"

	"github.com/gofrs/uuid"
	"github.com/siyul-park/uniflow/pkg/node"
	"github.com/siyul-park/uniflow/pkg/packet"
	"github.com/siyul-park/uniflow/pkg/port"
	"github.com/siyul-park/uniflow/pkg/process"
	uruntime "github.com/siyul-park/uniflow/pkg/runtime"
	"github.com/siyul-park/uniflow/pkg/spec"
	"github.com/siyul-park/uniflow/pkg/symbol"
	"github.com/siyul-park/uniflow/pkg/types"

	"verifharness/lib"
)

const pkgFrame = "github.com/siyul-park/uniflow/pkg/"

// uniflowGoroutines returns the stacks of all goroutines that have a uniflow/pkg frame.
func uniflowGoroutines() []string {
	buf := make([]byte, 1<<20)
	for {
		n := runtime.Stack(buf, true)
		if n < len(buf) {
			buf = buf[:n]
			break
		}
		buf = make([]byte, 2*len(buf))
	}
	var out []string
	for _, g := range strings.Split(string(buf), "\n\n") {
		if strings.Contains(g, pkgFrame) {
			out = append(out, g)
		}
	}
	return out
}

type flowPlan struct {
	nodes    int
	requests int
	agent    bool
	abort    bool // a node blocks and the process exits mid-flight
	blockAt  int  // index of the blocking node
	exitFrom int  // 0: the requesting goroutine exits the process; 1: another goroutine
	errPath  bool // the blocking node answers on its error port after release
	abandon  bool // aborted flight: the requester never reads Receive() again (otherwise it drains it, as packet.Send would)
	watch    bool // with the agent: a process watcher and a frame watcher are registered (Watchers.OnProcess / OnFrame run)
}

func (p flowPlan) String() string {
	return fmt.Sprintf("nodes=%d requests=%d agent=%v abort=%v blockAt=%d exitFrom=%d errPath=%v abandon=%v",
		p.nodes, p.requests, p.agent, p.abort, p.blockAt, p.exitFrom, p.errPath, p.abandon)
}

type flowResult struct {
	ports     []int
	tracers   [][7]int
	agentProc bool
	agentList bool
	frames    int
	gor       []string
	timeout   string
	onProc    int64 // calls of the process watcher
	onFrame   int64 // calls of the frame watcher
}

func (r flowResult) clean(base int) bool {
	for _, n := range r.ports {
		if n != 0 {
			return false
		}
	}
	for _, t := range r.tracers {
		if t != [7]int{} {
			return false
		}
	}
	return !r.agentProc && !r.agentList && r.frames == 0 && len(r.gor) <= base && r.timeout == ""
}

// agentTap is the harness's own log of what the agent is told, fed to Uniflow.AgentProc (driver c05a):
// an open hook installed on every port of every symbol BEFORE Agent.Load logs `accept p` (the
// agent's open hook, which calls accept, runs right after it), registers – once per process, hence
// before the agent's – an exit hook that logs `hook p` (it runs right after the agent's, exit hooks
// running newest first), and puts packet hooks on the endpoint that log `inb` / `outb` just before
// the agent's own packet hooks run under the same endpoint lock. Only the key sets of the agent's
// two maps are compared (at rest they do not depend on how events of different endpoints interleave).
type agentTap struct {
	mu     sync.Mutex
	procs  map[*process.Process]int
	marked map[*process.Process]bool
	pcks   map[*packet.Packet]int
	lines  [][2]string
}

func (t *agentTap) log(line string) {
	t.mu.Lock()
	t.lines = append(t.lines, [2]string{line, "ok"})
	t.mu.Unlock()
}

func (t *agentTap) packet(key string, inb bool, pi int, pck *packet.Packet) {
	t.mu.Lock()
	id, ok := t.pcks[pck]
	if !ok {
		id = len(t.pcks) + 1
		t.pcks[pck] = id
	}
	name := "outb"
	if inb {
		name = "inb"
	}
	t.lines = append(t.lines, [2]string{fmt.Sprintf("%s %d %s %d", name, pi, key, id), "ok"})
	t.mu.Unlock()
}

// opened is the body of the tap's open hook; attach puts the packet hooks on the endpoint.
func (t *agentTap) opened(pr *process.Process, key string, attach func(in, out packet.Hook)) {
	t.mu.Lock()
	pi, ok := t.procs[pr]
	first := ok && !t.marked[pr]
	if first {
		t.marked[pr] = true
	}
	t.mu.Unlock()
	if !ok {
		return
	}
	t.log(fmt.Sprintf("accept %d", pi))
	// A marker at EVERY open (not only the first): when the process has already terminated – an
	// Open that passed its status check just before the exit – the agent's accept registers the
	// process and its exit hook runs at once; the marker, registered just before, does the same and
	// logs the `hook p` that belongs to this late `accept p`. Extra `hook p` lines are no-ops in the
	// model (nothing owed), and only key sets at rest are compared.
	_ = first
	pr.AddExitHook(process.ExitFunc(func(error) { t.log(fmt.Sprintf("hook %d", pi)) }))
	attach(packet.HookFunc(func(p *packet.Packet) { t.packet(key, true, pi, p) }),
		packet.HookFunc(func(p *packet.Packet) { t.packet(key, false, pi, p) }))
}

// keys asks the agent for the key sets of its two maps, as indices of the harness's processes.
func (t *agentTap) keys(a *uruntime.Agent, procs []*process.Process) {
	ps, fs := a.VerifC05Keys()
	show := func(ids []uuid.UUID) string {
		var xs []string
		for i, pr := range procs {
			for _, id := range ids {
				if id == pr.ID() {
					xs = append(xs, fmt.Sprint(i))
				}
			}
		}
		if len(xs) == 0 {
			return "-"
		}
		return strings.Join(xs, ",")
	}
	t.mu.Lock()
	t.lines = append(t.lines, [2]string{fmt.Sprintf("keys %d", len(procs)), "procs=" + show(ps) + " frames=" + show(fs)})
	t.mu.Unlock()
}

func runFlow(p flowPlan) (res flowResult, base int, alines [][2]string) {
	base = len(uniflowGoroutines())
	var mainProc *process.Process
	var watchProc, watchFrame int64

	entered := make(chan struct{}, 16)
	gate := make(chan struct{})
	var nodes []*node.OneToOneNode
	for i := 0; i < p.nodes; i++ {
		i := i
		nodes = append(nodes, node.NewOneToOneNode(func(pr *process.Process, in *packet.Packet) (*packet.Packet, *packet.Packet) {
			if p.abort && i == p.blockAt && pr == mainProc {
				entered <- struct{}{}
				<-gate
				if p.errPath {
					return nil, packet.New(types.NewString("err"))
				}
			}
			return in, nil
		}))
	}
	for i := 0; i+1 < len(nodes); i++ {
		nodes[i].Out(node.PortOut).Link(nodes[i+1].In(node.PortIn))
	}
	src := port.NewOut()
	src.Link(nodes[0].In(node.PortIn))

	var agent *uruntime.Agent
	var syms []*symbol.Symbol
	var tap *agentTap
	if p.agent {
		agent = uruntime.NewAgent()
		if p.watch {
			agent.Watch(uruntime.NewProcessWatcher(func(*process.Process) { atomic.AddInt64(&watchProc, 1) }))
			fw := uruntime.NewFrameWatcher(func(*uruntime.Frame) { atomic.AddInt64(&watchFrame, 1) })
			agent.Watch(fw)
			agent.Watch(fw) // already registered: false
		}
		tap = &agentTap{procs: map[*process.Process]int{}, marked: map[*process.Process]bool{}, pcks: map[*packet.Packet]int{}}
		for i, n := range nodes {
			in, out, er := n.In(node.PortIn), n.Out(node.PortOut), n.Out(node.PortError)
			kin, kout, kerr := fmt.Sprintf("%d %d -", i, 3*i), fmt.Sprintf("%d - %d", i, 3*i+1), fmt.Sprintf("%d - %d", i, 3*i+2)
			in.AddOpenHook(port.OpenHookFunc(func(pr *process.Process) {
				tap.opened(pr, kin, func(a, b packet.Hook) { r := in.Open(pr); r.AddInboundHook(a); r.AddOutboundHook(b) })
			}))
			for _, x := range []struct {
				o *port.OutPort
				k string
			}{{out, kout}, {er, kerr}} {
				x := x
				x.o.AddOpenHook(port.OpenHookFunc(func(pr *process.Process) {
					tap.opened(pr, x.k, func(a, b packet.Hook) { w := x.o.Open(pr); w.AddInboundHook(a); w.AddOutboundHook(b) })
				}))
			}
		}
		for i, n := range nodes {
			sb := &symbol.Symbol{Spec: &spec.Meta{ID: uuid.Must(uuid.NewV7()), Kind: "verif", Namespace: "default", Name: fmt.Sprintf("n%d", i)}, Node: n}
			syms = append(syms, sb)
			// Agent.Load hooks the ports listed by Symbol.Ins() / Outs(), and those list only ports
			// that were looked up before: look them up, as the symbol table's linking does.
			sb.In(node.PortIn)
			sb.Out(node.PortOut)
			sb.Out(node.PortError)
			_ = agent.Load(sb)
		}
	}

	proc := process.New()
	mainProc = proc
	var by *process.Process // a second process that completes one request and exits before the first one does
	procs := []*process.Process{proc}
	if tap != nil {
		by = process.New()
		procs = append(procs, by)
		tap.procs[proc], tap.procs[by] = 0, 1
	}
	// midway: the main process is in flight (or has all its answers), the bystander is done
	midway := func() {
		if tap == nil {
			return
		}
		tap.keys(agent, procs)
		tap.log("term 1")
		by.Exit(nil)
		tap.keys(agent, procs)
	}
	w := src.Open(proc)
	ok, _ := lib.WithTimeout(watchdog, func() {
		if by != nil {
			bw := src.Open(by)
			bw.Write(packet.New(types.NewString("bystander")))
			select {
			case <-bw.Receive():
			case <-time.After(watchdog / 2):
				res.timeout = "the bystander's response did not arrive"
				return
			}
		}
		for i := 0; i < p.requests; i++ {
			w.Write(packet.New(types.NewString(fmt.Sprintf("req%d", i))))
		}
		if !p.abort {
			for i := 0; i < p.requests; i++ {
				select {
				case <-w.Receive():
				case <-time.After(watchdog / 2):
					res.timeout = fmt.Sprintf("response %d of a completed flight did not arrive", i)
					return
				}
			}
			midway()
			if tap != nil {
				tap.log("term 0")
			}
			proc.Exit(nil)
			return
		}
		<-entered // the first request is inside the blocking action
		midway()
		if tap != nil {
			tap.log("term 0")
		}
		if p.exitFrom == 0 {
			proc.Exit(nil)
		} else {
			var wg sync.WaitGroup
			wg.Add(1)
			go func() { defer wg.Done(); proc.Exit(nil) }()
			wg.Wait()
		}
		close(gate)
		if !p.abandon {
			// a well-behaved requester takes what it is owed until the writer's output closes
			for {
				select {
				case _, more := <-w.Receive():
					if !more {
						return
					}
				case <-time.After(watchdog / 2):
					res.timeout = "the requester's writer was closed by Exit but its Receive() channel never closed"
					return
				}
			}
		}
	})
	if !ok {
		res.timeout = "the flight did not finish (requests / Exit wedged)"
		if p.abort {
			select {
			case <-gate:
			default:
				close(gate)
			}
		}
	}

	// settle loop: poll until everything the property names is clean, at most 5 s
	look := func() flowResult {
		r := flowResult{timeout: res.timeout}
		r.ports = append(r.ports, src.VerifWriters())
		for _, n := range nodes {
			r.ports = append(r.ports, n.In(node.PortIn).VerifReaders(), n.Out(node.PortOut).VerifWriters(), n.Out(node.PortError).VerifWriters())
			r.tracers = append(r.tracers, node.VerifC05Tracer(n).VerifC05Sizes())
		}
		if agent != nil {
			r.agentProc = agent.Process(proc.ID()) != nil
			for _, q := range agent.Processes() {
				if q == proc {
					r.agentList = true
				}
			}
			r.frames = len(agent.Frames(proc.ID()))
		}
		r.gor = uniflowGoroutines()
		return r
	}
	// Residue, when there is any, is permanent; a clean state is normally reached within
	// milliseconds. Poll for up to 10 s so that load cannot cause a false alarm (tracer entries
	// after an aborted flight used to be a listed finding and were given up on after 1 s; since
	// the nodes drop what they still await when a writer's channel or their reader closes they are
	// a violation like any other residue).
	start := time.Now()
	for {
		res = look()
		if res.clean(base) {
			break
		}
		el := time.Since(start)
		if el > 10*time.Second {
			break
		}
		time.Sleep(2 * time.Millisecond)
	}

	res.onProc, res.onFrame = atomic.LoadInt64(&watchProc), atomic.LoadInt64(&watchFrame)
	if tap != nil && res.timeout == "" {
		// at rest after Exit: the agent's two maps against the model fed the tap's log
		tap.keys(agent, procs)
		tap.mu.Lock()
		alines = append(alines, tap.lines...)
		tap.mu.Unlock()
	}

	// tear the workflow down so that a leak is charged to this scenario only
	if agent != nil {
		for _, sb := range syms {
			_ = agent.Unload(sb)
		}
		agent.Close()
	}
	src.Close()
	for _, n := range nodes {
		_ = n.Close()
	}
	return res, base, alines
}

func runFlows(c *lib.Ctx, rng *lib.RNG, fails *[]lib.OracleFail) []lib.Mismatch {
	sc := &lib.Script{}
	n := c.Scale(50, 500)
	perClass := map[string]int{}
	// regression witnesses first: (1) one node, one request blocked inside the action, Exit, with the
	// agent attached – Reader.Close hands the dropped response to the agent's packet hook after the
	// agent's own exit hook has already forgotten the process (Agent.Frames kept 1 frame forever
	// before the fix "the agent does not record frames for a process it has already forgotten")
	fixed := []flowPlan{
		{nodes: 1, requests: 1, agent: true, abort: true, blockAt: 0},
		{nodes: 1, requests: 2, agent: true, abort: true, blockAt: 0, abandon: true},
		{nodes: 2, requests: 1, agent: true, abort: true, blockAt: 1, errPath: true},
	}
	for i := 0; i < n; i++ {
		var p flowPlan
		if i < len(fixed) {
			p = fixed[i]
		} else {
			p = flowPlan{nodes: rng.Range(1, 3), requests: rng.Range(1, 4), agent: rng.Bool(), abort: rng.Chance(3, 5), exitFrom: rng.Intn(2), errPath: rng.Chance(1, 4), abandon: rng.Chance(1, 4), watch: rng.Bool()}
			p.blockAt = rng.Intn(p.nodes)
		}
		r, base, alines := runFlow(p)
		if len(alines) > 0 {
			sc.Begin()
			for _, l := range alines {
				sc.Op(l[0], l[1])
			}
			c.Hit("flow-agent-model-case")
		}
		c.Hist["flow-agent-watcher-onprocess-calls"] += int(r.onProc)
		c.Hist["flow-agent-watcher-onframe-calls"] += int(r.onFrame)
		c.Count("flow:" + p.String())
		c.Hit(fmt.Sprintf("flow-abort-%v-agent-%v", p.abort, p.agent))
		add := func(class, what string) {
			c.Hit("flow-residue-" + class)
			perClass[class]++
			if perClass[class] <= 3 { // a few witnesses per class; never let one class crowd out another
				*fails = append(*fails, lib.OracleFail{Class: class, What: what, Replay: "workflow " + p.String()})
			}
		}
		if r.timeout != "" {
			add("flow-wedge", r.timeout)
			continue
		}
		for j, s := range r.ports {
			if s != 0 {
				add("flow-port-residue", fmt.Sprintf("after Exit and the settle loop port #%d of the chain still maps %d processes (%s)", j, s, p))
				break
			}
		}
		for j, t := range r.tracers {
			if t != [7]int{} {
				class := "completed-flight-tracer-residue"
				if p.abort {
					class = "aborted-flight-tracer-residue"
				}
				add(class, fmt.Sprintf("after Exit and the settle loop the tracer of node %d keeps hooks/sources/targets/receives/reads/writes/reader = %v (%s)", j, t, p))
				break
			}
		}
		if r.agentProc || r.agentList {
			add("flow-agent-residue", fmt.Sprintf("the agent still lists the exited process (%s)", p))
		}
		if r.frames != 0 {
			add("flow-agent-frames", fmt.Sprintf("Agent.Frames still returns %d frames for the exited process (%s)", r.frames, p))
		}
		if len(r.gor) > base {
			g := r.gor[len(r.gor)-1]
			if len(g) > 900 {
				g = g[:900]
			}
			add("flow-goroutine", fmt.Sprintf("%d goroutines with uniflow/pkg frames remain (before the workflow: %d) (%s); one of them:\n%s", len(r.gor), base, p, g))
		}
	}
	ms, err := c.RunModel("c05a", sc)
	if err != nil {
		c.Violation("model driver (agent) failed: "+err.Error(), "", false)
		return nil
	}
	return ms
}
