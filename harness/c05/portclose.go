package c05

// Ports closed while a process that opened them is still running (a node unloaded / reloaded in
// mid-flight), then the process exits.
//
// Ports WITH listeners, as every port of a node has: a hand-made in-port whose listener answers what
// it reads, a hand-made out-port (linked to it) whose listener drains `writer.Receive()` the way a
// node's backward loop does, and – in half of the cases – the in / out / error ports of a real
// OneToOne node. A case is a short sequential script over 1–2 processes:
//
//	open q p      Open(proc) on port q (for an out-port with links also its in-ports, as the code does)
//	close q       InPort.Close / OutPort.Close          nodeclose   Node.Close (its three ports + tracer)
//	listen q      AddListener on q (also after a Close: ports are reusable)
//	exit p        Process.Exit
//
// in random order – in particular Close between the Opens and the Exit, Close → Open again for the
// same running process, Close twice, AddListener after Close. After every Close / Exit the harness lets
// the listeners return (settle: `listening` of the closed or exited ports drains). Oracle only (no
// model comparison: a listener goroutine that is scheduled late re-opens the port it listens on after
// the Close – for a running process that is legitimate and timing dependent, so map sizes in mid-script
// are not compared; they are printed into the replay):
//   - Open for a RUNNING process never returns a closed endpoint (a fresh usable one after a Close);
//   - after every process has exited, and the listeners had time to return, EVERY port touched holds
//     nothing: readers, writers AND the out-ports' `listening` table (verif accessors) are empty;
//   - every endpoint ever returned is closed; no reader / writer pump goroutine above the baseline.
//
// Model note: Uniflow.PortMaps has no `listening` table and no listener goroutines (the step-level
// port cases use ports without listeners); adding them means a spawned-thread component in every
// invariant of Proofs/PortMaps.lean – not done, the `listening` clause is checked by this oracle only.

import (
	"fmt"
	"strings"
	"time"

	"github.com/siyul-park/uniflow/pkg/node"
	"github.com/siyul-park/uniflow/pkg/packet"
	"github.com/siyul-park/uniflow/pkg/port"
	"github.com/siyul-park/uniflow/pkg/process"

	"verifharness/lib"
)

func inListener(in *port.InPort) port.Listener {
	return port.ListenFunc(func(proc *process.Process) {
		r := in.Open(proc)
		for range r.Read() {
			r.Receive(packet.None)
		}
	})
}

func outListener(out *port.OutPort) port.Listener {
	return port.ListenFunc(func(proc *process.Process) {
		w := out.Open(proc)
		for range w.Receive() {
		}
	})
}

type pcCase struct {
	ports []anyPort
	links map[int][]int // out-port index ↦ linked in-port indices (as long as neither side was closed)
	nd    *node.OneToOneNode
	procs []*process.Process
	alive []bool
	eps   []any
	trace []string
}

func (k *pcCase) listening() int {
	n := 0
	for _, p := range k.ports {
		if p.out != nil {
			n += p.out.VerifListening()
		}
	}
	return n
}

// settleListening waits until `listening` of every out-port holds at most the writers of running
// processes on open ports; want is that number as the harness knows it.
func settle(cond func() bool, patience time.Duration) bool {
	for d := time.Now().Add(patience); ; {
		if cond() {
			return true
		}
		if time.Now().After(d) {
			return false
		}
		time.Sleep(200 * time.Microsecond)
	}
}

func runPortCloseCases(c *lib.Ctx, rng *lib.RNG, fails *[]lib.OracleFail) {
	ncases := c.Scale(120, 800)
	reported := 0
	patience := 2 * time.Second
	for ci := 0; ci < ncases && reported < 3; ci++ {
		k := &pcCase{links: map[int][]int{}}
		in0, out0 := port.NewIn(), port.NewOut()
		in0.AddListener(inListener(in0))
		out0.AddListener(outListener(out0))
		out0.Link(in0)
		k.ports = []anyPort{{in: in0}, {out: out0}}
		k.links[1] = []int{0}
		useNode := rng.Bool() || ci == 0
		if useNode {
			k.nd = node.NewOneToOneNode(func(_ *process.Process, p *packet.Packet) (*packet.Packet, *packet.Packet) { return p, nil })
			k.ports = append(k.ports, anyPort{in: k.nd.In(node.PortIn)}, anyPort{out: k.nd.Out(node.PortOut)}, anyPort{out: k.nd.Out(node.PortError)})
		}
		nprocs := rng.Range(1, 2)
		for i := 0; i < nprocs; i++ {
			k.procs = append(k.procs, process.New())
			k.alive = append(k.alive, true)
		}
		base := settlePumps(0, pumpPatience(200*time.Millisecond))
		add := func(class, what string) {
			if reported < 3 {
				*fails = append(*fails, lib.OracleFail{Class: class, What: what, Replay: strings.Join(k.trace, "\n")})
			}
			reported++
			patience = 50 * time.Millisecond
		}
		obs := func() {
			var xs []string
			for _, p := range k.ports {
				xs = append(xs, fmt.Sprint(p.size()))
			}
			k.trace = append(k.trace, fmt.Sprintf("   sizes=%s listening=%d", strings.Join(xs, ","), k.listening()))
		}
		// what `listening` may still hold at rest: the writers of running processes on out-ports with
		// listeners that were not closed since the Open (their listeners are still in their loops)
		quiet := func() {
			ok := settle(func() bool {
				for qi, p := range k.ports {
					if p.out == nil {
						continue
					}
					if p.out.VerifListening() > p.out.VerifWriters() {
						_ = qi
						return false
					}
				}
				return true
			}, patience)
			if !ok {
				k.trace = append(k.trace, "# the listeners did not return: `listening` holds more writers than the port has open")
			}
		}
		do := func(line string, f func()) {
			c.Hit("port-close-op-" + strings.Fields(line)[0])
			k.trace = append(k.trace, line)
			f()
			quiet()
			obs()
		}
		open := func(q, p int) {
			do(fmt.Sprintf("open %d %d", q, p), func() {
				r, e := k.ports[q].open(k.procs[p])
				if e != nil {
					k.eps = append(k.eps, e)
				}
				k.trace[len(k.trace)-1] += " => " + r
				if k.alive[p] && r != "ep open" {
					add("port-closed-endpoint", fmt.Sprintf("Open(port %d) for the RUNNING process %d returned %q: a closed port must hand out a fresh endpoint, not the closed one it still holds", q, p, r))
				}
				if !k.alive[p] && r != "sentinel" && r != "ep closed" {
					add("port-closed-endpoint", fmt.Sprintf("Open(port %d) for the terminated process %d returned %q", q, p, r))
				}
			})
		}
		closePort := func(q int) {
			do(fmt.Sprintf("close %d", q), func() {
				k.ports[q].close()
				// Close drops the links on both sides (out: ins = nil; in: its close hooks unlink)
				delete(k.links, q)
				for o, is := range k.links {
					var keep []int
					for _, i := range is {
						if i != q {
							keep = append(keep, i)
						}
					}
					k.links[o] = keep
				}
			})
		}
		nsteps := rng.Range(4, 12)
		if ci == 0 {
			// the regression witness: out-port with listeners opened, closed while the process runs,
			// opened again, then the process exits
			open(3, 0)
			closePort(3)
			open(3, 0)
			nsteps = 0
		}
		for si := 0; si < nsteps; si++ {
			q, p := rng.Intn(len(k.ports)), rng.Intn(nprocs)
			switch rng.Weighted([]int{8, 4, 1, 1, 2}) {
			case 0:
				open(q, p)
			case 1:
				closePort(q)
			case 2:
				if k.nd != nil {
					do("nodeclose", func() {
						_ = k.nd.Close()
						for _, qq := range []int{2, 3, 4} {
							delete(k.links, qq)
						}
					})
				}
			case 3:
				do(fmt.Sprintf("listen %d", q), func() {
					if k.ports[q].in != nil {
						k.ports[q].in.AddListener(inListener(k.ports[q].in))
					} else {
						k.ports[q].out.AddListener(outListener(k.ports[q].out))
					}
				})
			default:
				if k.alive[p] {
					do(fmt.Sprintf("exit %d", p), func() {
						k.procs[p].Exit(nil)
						k.alive[p] = false
					})
				}
			}
		}
		for p := range k.procs {
			if k.alive[p] {
				do(fmt.Sprintf("exit %d", p), func() {
					k.procs[p].Exit(nil)
					k.alive[p] = false
				})
			}
		}
		// at rest: nothing of the exited processes anywhere
		clean := settle(func() bool {
			for _, p := range k.ports {
				if p.size() != 0 || (p.out != nil && p.out.VerifListening() != 0) {
					return false
				}
			}
			return true
		}, patience)
		if !clean {
			var xs []string
			for qi, p := range k.ports {
				l := 0
				if p.out != nil {
					l = p.out.VerifListening()
				}
				if p.size() != 0 || l != 0 {
					xs = append(xs, fmt.Sprintf("port %d: map=%d listening=%d", qi, p.size(), l))
				}
			}
			add("port-residue", "every process has exited and the listeners had time to return, but "+strings.Join(xs, "; ")+" (a closed port keeps the endpoint of a terminated process)")
		}
		for i, e := range k.eps {
			if !epDone(e) {
				add("endpoint-open", fmt.Sprintf("every process exited, but endpoint #%d returned by Open was never closed", i))
				break
			}
		}
		if got := settlePumps(base, pumpPatience(patience)); got != base {
			pumpLeaks++
			add("pump-leak", fmt.Sprintf("close/open/exit script: %d reader/writer pump goroutines above the baseline after every process exited", got-base))
		}
		c.Count("port-close:" + strings.Join(k.trace, ";"))
		for _, p := range k.ports {
			p.close()
		}
		if k.nd != nil {
			_ = k.nd.Close()
		}
	}
}
