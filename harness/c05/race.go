package c05

// Free-running race family: hook-registering operations truly concurrent with Exit.
//
// Every operation that creates something for a process registers the removal as an exit hook
// (Local.Store / LoadOrStore: Delete; InPort.Open / OutPort.Open: delete the map entry and close
// the endpoint; Agent.accept: forget the process). `Process.AddExitHook` must either register the
// hook before the process terminates (Exit then runs it) or find the process terminated and run
// it at once – atomically with the status check. The yield sites of local.go / inport.go /
// outport.go lie BEFORE AddExitHook is entered, so the step-controlled correspondence cannot put
// an Exit INSIDE AddExitHook; this family does it by brute force: per trial a fresh process, 3–5
// goroutines each doing one hook-registering operation and one goroutine calling Exit, all
// released together behind a spin barrier (GOMAXPROCS ≥ 4), then – everything has returned and
// the process is terminated – the residue oracles: no Local holds a value for it, no port maps
// it, the agent knows it in neither map; per batch no reader / writer pump goroutine is left above
// the baseline. Failure class `exit-race-residue`, replay = the trial's operation list.
//
// Not driven deterministically: a yield point inside AddExitHook would sit inside p.mu's critical
// section on the real code (parking there blocks Exit, which the model already treats as one atomic
// step), and an added line there would make seeded patches of that function unappliable.

import (
	"fmt"
	"runtime"
	"strings"
	"sync"
	"sync/atomic"
	"time"

	"github.com/gofrs/uuid"
	"github.com/siyul-park/uniflow/pkg/node"
	"github.com/siyul-park/uniflow/pkg/port"
	"github.com/siyul-park/uniflow/pkg/process"
	uruntime "github.com/siyul-park/uniflow/pkg/runtime"
	"github.com/siyul-park/uniflow/pkg/spec"
	"github.com/siyul-park/uniflow/pkg/symbol"

	"verifharness/lib"
)

type raceKit struct {
	locals []*process.Local[int]
	ins    []*port.InPort
	outs   []*port.OutPort // outs[1] is linked to ins[1]
	agent  *uruntime.Agent
	sym    *symbol.Symbol
	symIn  *port.InPort
	symOut *port.OutPort
}

func newRaceKit() *raceKit {
	k := &raceKit{}
	for i := 0; i < 4; i++ {
		k.locals = append(k.locals, process.NewLocal[int]())
	}
	k.ins = []*port.InPort{port.NewIn(), port.NewIn()}
	k.outs = []*port.OutPort{port.NewOut(), port.NewOut()}
	k.outs[1].Link(k.ins[1])
	n := node.NewOneToOneNode(nil)
	k.sym = &symbol.Symbol{Spec: &spec.Meta{ID: uuid.Must(uuid.NewV7()), Kind: "verif", Namespace: "default", Name: "race"}, Node: n}
	k.symIn = k.sym.In(node.PortIn)
	k.symOut = k.sym.Out(node.PortOut)
	k.sym.Out(node.PortError)
	k.agent = uruntime.NewAgent()
	_ = k.agent.Load(k.sym)
	return k
}

func (k *raceKit) close() {
	_ = k.agent.Unload(k.sym)
	k.agent.Close()
	_ = k.sym.Close()
	for _, p := range k.ins {
		p.Close()
	}
	for _, p := range k.outs {
		p.Close()
	}
}

// raceOp kinds: 0..3 Local.Store on local i; 4..7 Local.LoadOrStore on local i-4; 8,9 InPort.Open;
// 10,11 OutPort.Open (11 also opens the linked in-port 1); 12 Open of the in-port of a symbol the
// agent watches (Agent.accept registers its own exit hook); 13 the same through its out-port.
const raceKinds = 14

func raceName(op int) string {
	switch {
	case op < 4:
		return fmt.Sprintf("Local%d.Store", op)
	case op < 8:
		return fmt.Sprintf("Local%d.LoadOrStore", op-4)
	case op < 10:
		return fmt.Sprintf("InPort%d.Open", op-8)
	case op < 12:
		return fmt.Sprintf("OutPort%d.Open", op-10)
	case op == 12:
		return "agent-watched InPort.Open"
	default:
		return "agent-watched OutPort.Open"
	}
}

func (k *raceKit) do(op int, proc *process.Process, v int) {
	switch {
	case op < 4:
		k.locals[op].Store(proc, v)
	case op < 8:
		_, _ = k.locals[op-4].LoadOrStore(proc, func() (int, error) { return v, nil })
	case op < 10:
		k.ins[op-8].Open(proc)
	case op < 12:
		k.outs[op-10].Open(proc)
	case op == 12:
		k.symIn.Open(proc)
	default:
		k.symOut.Open(proc)
	}
}

// residue lists what is still held for the (terminated) process.
func (k *raceKit) residue(proc *process.Process) []string {
	var r []string
	for i, l := range k.locals {
		if _, ok := l.Load(proc); ok {
			r = append(r, fmt.Sprintf("Local %d still holds a value", i))
		}
	}
	for i, p := range k.ins {
		if n := p.VerifReaders(); n != 0 {
			r = append(r, fmt.Sprintf("in-port %d still maps %d process(es)", i, n))
		}
	}
	for i, p := range k.outs {
		if n := p.VerifWriters(); n != 0 {
			r = append(r, fmt.Sprintf("out-port %d still maps %d process(es)", i, n))
		}
	}
	if n := k.symIn.VerifReaders() + k.symOut.VerifWriters(); n != 0 {
		r = append(r, fmt.Sprintf("the watched symbol's ports still map %d process(es)", n))
	}
	ps, fs := k.agent.VerifC05Keys()
	if len(ps) != 0 || len(fs) != 0 {
		r = append(r, fmt.Sprintf("the agent still has %d processes / %d frames keys", len(ps), len(fs)))
	}
	return r
}

func runExitRaces(c *lib.Ctx, rng *lib.RNG, fails *[]lib.OracleFail) {
	if runtime.GOMAXPROCS(0) < 4 {
		defer runtime.GOMAXPROCS(runtime.GOMAXPROCS(4))
	}
	trials := c.Scale(30000, 300000)
	const batch = 1000
	kit := newRaceKit()
	defer func() { kit.close() }()
	base := settlePumps(0, pumpPatience(200*time.Millisecond))
	reported := 0
	hits := 0
	start := time.Now()
	for tr := 0; tr < trials; tr++ {
		proc := process.New()
		nops := rng.Range(3, 5)
		withAgent := rng.Chance(1, 6)
		ops := make([]int, nops)
		used := map[int]bool{}
		for i := range ops {
			// distinct operations (two Stores on one Local would register one hook only)
			for {
				lim := 12
				if withAgent {
					lim = raceKinds
				}
				op := rng.Intn(lim)
				if withAgent && i == 0 {
					op = 12 + rng.Intn(2)
				}
				// Store and LoadOrStore of the same Local count as the same slot
				slot := op
				if op >= 4 && op < 8 {
					slot = op - 4
				}
				if !used[slot] {
					used[slot] = true
					ops[i] = op
					break
				}
			}
		}
		var ready atomic.Int32
		var gate atomic.Bool
		var wg sync.WaitGroup
		for _, op := range ops {
			op := op
			wg.Add(1)
			go func() {
				defer wg.Done()
				ready.Add(1)
				for !gate.Load() {
				}
				kit.do(op, proc, tr)
			}()
		}
		wg.Add(1)
		go func() {
			defer wg.Done()
			ready.Add(1)
			for !gate.Load() {
			}
			proc.Exit(nil)
		}()
		for int(ready.Load()) < nops+1 {
			runtime.Gosched()
		}
		gate.Store(true)
		wg.Wait()

		if res := kit.residue(proc); len(res) > 0 {
			hits++
			if reported < 3 {
				var names []string
				for _, op := range ops {
					names = append(names, raceName(op))
				}
				*fails = append(*fails, lib.OracleFail{Class: "exit-race-residue",
					What: fmt.Sprintf("trial %d: %s, each on its own goroutine, released together with Exit of the same fresh process; everything returned, the process is terminated, but %s (an exit hook registered while Exit was running was neither run by Exit nor run at once)",
						tr, strings.Join(names, " + "), strings.Join(res, "; ")),
					Replay: fmt.Sprintf("proc := process.New()\n# goroutines behind one spin barrier (GOMAXPROCS >= 4):\n#   %s\n#   proc.Exit(nil)\n# wait for all; then: %s\n# (trial %d of runExitRaces, VERIF_SEED-derived; the race needs true parallelism: repeat the trial ~1000x)",
						strings.Join(names, "\n#   "), strings.Join(res, "; "), tr)})
			}
			reported++
			// the residue would be charged to every later trial: start from fresh objects
			kit.close()
			kit = newRaceKit()
		}
		if (tr+1)%batch == 0 || tr+1 == trials {
			got := settlePumps(base, pumpPatience(5*time.Second))
			c.Count(fmt.Sprintf("exit-race:batch-%d", tr/batch))
			if got != base {
				pumpLeaks++
				if reported < 3 {
					*fails = append(*fails, lib.OracleFail{Class: "exit-race-residue",
						What:   fmt.Sprintf("exit races, trials %d..%d: every process exited and every operation returned, but %d reader/writer pump goroutines are running above the baseline", tr+1-batch, tr, got-base),
						Replay: "Open racing with Exit (see runExitRaces); goroutines with a pkg/packet.NewReader.func1 / NewWriter.func1 frame counted after a settle loop"})
				}
				reported++
				base = got
			}
		}
		if time.Since(start) > time.Duration(c.Scale(20, 600))*time.Second {
			c.Extra["exit_race_trials_cut_short_at"] = tr + 1
			trials = tr + 1
			break
		}
	}
	c.Hist["exit-race-trials"] += trials
	c.Hist["exit-race-residue-trials"] += hits
}
