package c05

// Free-running oracle for process.Local: real goroutines, no step control.
//
// Phase A (no Exit): random Store / Load / LoadOrStore / Delete / AddStoreHook / Keys / Close from
// several goroutines on a few processes. When all have returned:
//     initialiser runs of p  ≤  1 + (Delete(p) calls that returned true) + (Close calls).
// Phase B: the same mix racing with Exit of every process. When all have returned and every
// process has exited: Keys() is empty, Load finds nothing, len(eager) = 0.
// In both phases no operation may wedge (watchdog).

import (
	"fmt"
	"runtime"
	"sync"
	"sync/atomic"

	"github.com/siyul-park/uniflow/pkg/process"

	"verifharness/lib"
)

type freeOp struct {
	kind int // 0 store 1 load 2 los 3 delete 4 ash 5 keys 6 close 7 exit 8 rsh (RemoveStoreHook)
	p, v int
	fail bool
}

func (o freeOp) String() string {
	names := []string{"store", "load", "los", "delete", "ash", "keys", "close", "exit", "rsh"}
	return fmt.Sprintf("%s(p%d,%d,%v)", names[o.kind], o.p, o.v, o.fail)
}

func genFree(rng *lib.RNG, nprocs int, withExit bool) freeOp {
	w := []int{6, 3, 8, 3, 2, 1, 1, 0, 1}
	if withExit {
		w[7] = 3
	}
	return freeOp{kind: rng.Weighted(w), p: rng.Intn(nprocs), v: rng.Range(1, 9), fail: rng.Chance(1, 6)}
}

func runFreeCase(c *lib.Ctx, rng *lib.RNG, fails *[]lib.OracleFail) string {
	nprocs, nthreads := rng.Range(1, 3), rng.Range(2, 6)
	l := process.NewLocal[int]()
	procs := make([]*process.Process, nprocs)
	for i := range procs {
		procs[i] = process.New()
	}
	inits := make([]atomic.Int64, nprocs)
	delTrue := make([]atomic.Int64, nprocs)
	var closes atomic.Int64
	hooks := []process.StoreHook[int]{process.StoreFunc(func(int) {}), process.StoreFunc(func(int) {})}

	plans := [2][][]freeOp{}
	for ph := 0; ph < 2; ph++ {
		plans[ph] = make([][]freeOp, nthreads)
		for t := range plans[ph] {
			n := rng.Range(2, c.Scale(10, 24))
			for i := 0; i < n; i++ {
				o := genFree(rng, nprocs, ph == 1)
				c.Hit("free-op-" + []string{"store", "load", "los", "delete", "ash", "keys", "close", "exit", "rsh"}[o.kind])
				plans[ph][t] = append(plans[ph][t], o)
			}
		}
	}
	desc := fmt.Sprintf("procs=%d threads=%d A=%v B=%v", nprocs, nthreads, plans[0], plans[1])
	fail := func(class, what string) {
		if len(*fails) < 20 {
			*fails = append(*fails, lib.OracleFail{Class: class, What: what, Replay: desc})
		}
	}

	exec := func(o freeOp) {
		p := procs[o.p]
		switch o.kind {
		case 0:
			l.Store(p, o.v)
		case 1:
			l.Load(p)
		case 2:
			_, _ = l.LoadOrStore(p, func() (int, error) {
				inits[o.p].Add(1)
				runtime.Gosched()
				if o.fail {
					return 0, errInit
				}
				return o.v, nil
			})
		case 3:
			if l.Delete(p) {
				delTrue[o.p].Add(1)
			}
		case 4:
			l.AddStoreHook(p, hooks[o.v%2])
		case 5:
			l.Keys()
		case 6:
			closes.Add(1)
			l.Close()
		case 7:
			p.Exit(nil)
		case 8:
			l.RemoveStoreHook(p, hooks[o.v%2])
		}
	}

	for ph := 0; ph < 2; ph++ {
		ok, pan := lib.WithTimeout(watchdog, func() {
			var wg sync.WaitGroup
			for t := 0; t < nthreads; t++ {
				wg.Add(1)
				go func(ops []freeOp) {
					defer wg.Done()
					for _, o := range ops {
						exec(o)
					}
				}(plans[ph][t])
			}
			wg.Wait()
		})
		if !ok {
			fail("wedge", fmt.Sprintf("free-running phase %d: some operation did not return within %v", ph, watchdog))
			return ""
		}
		if pan != nil {
			fail("panic", fmt.Sprintf("free-running phase %d panicked: %v", ph, pan))
			return ""
		}
		if ph == 0 {
			for p := range procs {
				if in, bound := inits[p].Load(), 1+delTrue[p].Load()+closes.Load(); in > bound {
					fail("lazy-twice", fmt.Sprintf("process %d (running): initialiser ran %d times with %d effective deletes and %d closes", p, in, delTrue[p].Load(), closes.Load()))
				}
			}
		}
	}
	ok, _ := lib.WithTimeout(watchdog, func() {
		for _, p := range procs {
			p.Exit(nil)
		}
	})
	if !ok {
		fail("wedge", "Exit did not return")
		return ""
	}
	if ks := l.Keys(); len(ks) != 0 {
		fail("local-residue", fmt.Sprintf("free-running: every process exited and every operation returned, but Keys() has %d entries", len(ks)))
	}
	for i, p := range procs {
		if _, ok := l.Load(p); ok {
			fail("local-residue", fmt.Sprintf("free-running: process %d exited but Load still finds a value", i))
		}
	}
	if e, _, _ := l.VerifSizes(); e != 0 {
		fail("local-residue", fmt.Sprintf("free-running: len(eager) = %d after every process exited", e))
	}
	return desc
}

// pinnedWitness is the deadlock of the pinned tree (fixed by 5790134): Store on a process that
// has already terminated. Run under the watchdog on every check.
func pinnedWitness(fails *[]lib.OracleFail) {
	l := process.NewLocal[int]()
	p := process.New()
	p.Exit(nil)
	ok, _ := lib.WithTimeout(watchdog, func() { l.Store(p, 7) })
	if !ok {
		*fails = append(*fails, lib.OracleFail{Class: "wedge",
			What:   "Local.Store on a terminated process never returns (exit hook run under l.mu calls Delete, which locks l.mu again)",
			Replay: "p := process.New(); p.Exit(nil); l := process.NewLocal[int](); l.Store(p, 7)"})
		return
	}
	if _, found := l.Load(p); found {
		*fails = append(*fails, lib.OracleFail{Class: "local-residue", What: "Store on a terminated process left its value behind",
			Replay: "p := process.New(); p.Exit(nil); l.Store(p, 7); l.Load(p)"})
	}
}
