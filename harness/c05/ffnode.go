package c05

// A hand-written "fire-and-forget" node with its own packet.Tracer, between a source and an
// answering sink (ext's try / pipe nodes use the tracer like this; no node of pkg/node calls
// Tracer.Receive(w, nil)):
//
//	forward  (listener of the in-port):  for p := range reader.Read() { tracer.Read(reader, p)
//	            same:   tracer.Write(writer, p)                          – the packet itself, no Link
//	            linked: q := packet.New(...); tracer.Link(p, q); tracer.Write(writer, q) }
//	          tracer.Drop(writer)
//	backward (listener of the out-port): for b := range writer.Receive() {
//	            discard: tracer.Receive(writer, nil)                      – the answer is thrown away
//	            pass:    tracer.Receive(writer, b) }
//	          tracer.Drop(writer)
//
// 1–3 requests of one process, each with its own (same | linked) × (discard | pass) plan, answered by
// the sink in order (optionally only after all requests were written, so that a later request can
// be complete while an earlier one is not); then proc.Exit. Every tracer call is made under a harness
// mutex and logged for the tracer model (driver c05t): after each call the sizes of the tracer's
// seven maps are compared. Oracle: the requester gets one answer per request, in order – the sink's
// answer when it is passed on, packet.None (the join of nothing) when it was discarded – and after
// Exit the tracer holds nothing: Reads(reader), Writes(writer) and all seven maps are empty.

import (
	"fmt"
	"strings"
	"sync"
	"time"

	"github.com/siyul-park/uniflow/pkg/packet"
	"github.com/siyul-park/uniflow/pkg/port"
	"github.com/siyul-park/uniflow/pkg/process"
	"github.com/siyul-park/uniflow/pkg/types"

	"verifharness/lib"
)

type ffPlan struct {
	linked  []bool // per request: forward a new linked packet (else the packet itself)
	discard []bool // per request: the downstream answer is discarded
	late    bool   // the sink answers only after every request has been written
}

func (p ffPlan) String() string {
	var xs []string
	for i := range p.linked {
		a, b := "same", "pass"
		if p.linked[i] {
			a = "linked"
		}
		if p.discard[i] {
			b = "discard"
		}
		xs = append(xs, a+"/"+b)
	}
	return fmt.Sprintf("%s late=%v", strings.Join(xs, ","), p.late)
}

type ffNode struct {
	mu     sync.Mutex
	tracer *packet.Tracer
	in     *port.InPort
	out    *port.OutPort
	plan   ffPlan
	nfwd   int
	nbwd   int
	pcks   map[*packet.Packet]int
	lines  [][2]string
}

func (n *ffNode) id(p *packet.Packet) int {
	if v, ok := n.pcks[p]; ok {
		return v
	}
	v := len(n.pcks) + 1
	n.pcks[p] = v
	return v
}

func (n *ffNode) logSizes(line string) {
	sz := n.tracer.VerifC05Sizes()
	n.lines = append(n.lines, [2]string{line, fmt.Sprintf("sizes=%d,%d,%d,%d,%d,%d,%d", sz[0], sz[1], sz[2], sz[3], sz[4], sz[5], sz[6])})
}

func (n *ffNode) forward(proc *process.Process) {
	reader := n.in.Open(proc)
	var writer *packet.Writer
	for p := range reader.Read() {
		n.mu.Lock()
		i := n.nfwd
		n.nfwd++
		n.tracer.Read(reader, p)
		n.logSizes(fmt.Sprintf("read 0 %d", n.id(p)))
		n.mu.Unlock()
		if writer == nil {
			writer = n.out.Open(proc)
		}
		out := p
		if i < len(n.plan.linked) && n.plan.linked[i] {
			out = packet.New(p.Payload())
			n.mu.Lock()
			n.tracer.Link(p, out)
			n.logSizes(fmt.Sprintf("link %d %d", n.id(p), n.id(out)))
			n.mu.Unlock()
		}
		n.mu.Lock()
		before := len(n.tracer.Writes(writer))
		n.tracer.Write(writer, out)
		acc := 0
		if len(n.tracer.Writes(writer)) > before {
			acc = 1
		}
		n.logSizes(fmt.Sprintf("write 1 %d %d", n.id(out), acc))
		n.mu.Unlock()
	}
	n.mu.Lock()
	n.tracer.Drop(writer)
	n.logSizes("drop 1")
	n.mu.Unlock()
}

func (n *ffNode) backward(proc *process.Process) {
	writer := n.out.Open(proc)
	for b := range writer.Receive() {
		n.mu.Lock()
		i := n.nbwd
		n.nbwd++
		if i < len(n.plan.discard) && n.plan.discard[i] {
			n.tracer.Receive(writer, nil)
			n.logSizes("recv 1 nil")
		} else {
			n.tracer.Receive(writer, b)
			n.logSizes(fmt.Sprintf("recv 1 %s", ffAns(b)))
		}
		n.mu.Unlock()
	}
	n.mu.Lock()
	n.tracer.Drop(writer)
	n.logSizes("drop 1")
	n.mu.Unlock()
}

// ffAns renders an answer packet for the model: `none` for packet.None, the number for an int payload.
func ffAns(p *packet.Packet) string {
	if p == packet.None || p.Payload() == nil {
		return "none"
	}
	if v, ok := p.Payload().(types.Integer); ok {
		return fmt.Sprint(v.Int())
	}
	return "999"
}

func runFireForget(c *lib.Ctx, rng *lib.RNG, fails *[]lib.OracleFail) []lib.Mismatch {
	sc := &lib.Script{}
	ncases := c.Scale(40, 400)
	// the regression witness first: one request forwarded unchanged, its answer discarded
	fixed := []ffPlan{
		{linked: []bool{false}, discard: []bool{true}},
		{linked: []bool{false, false}, discard: []bool{false, true}, late: true},
		{linked: []bool{true, false, true}, discard: []bool{true, true, false}, late: true},
	}
	reported := 0
	for ci := 0; ci < ncases && reported < 3; ci++ { // a few witnesses are enough; every failing case waits seconds
		var plan ffPlan
		if ci < len(fixed) {
			plan = fixed[ci]
		} else {
			k := rng.Range(1, 3)
			for i := 0; i < k; i++ {
				plan.linked = append(plan.linked, rng.Bool())
				plan.discard = append(plan.discard, rng.Chance(1, 2))
			}
			plan.late = rng.Bool()
		}
		nreq := len(plan.linked)
		n := &ffNode{tracer: packet.NewTracer(), in: port.NewIn(), out: port.NewOut(), plan: plan, pcks: map[*packet.Packet]int{}}
		n.in.AddListener(port.ListenFunc(n.forward))
		n.out.AddListener(port.ListenFunc(n.backward))
		src := port.NewOut()
		src.Link(n.in)
		sink := port.NewIn()
		n.out.Link(sink)

		proc := process.New()
		var got []string
		what := ""
		ok, _ := lib.WithTimeout(watchdog, func() {
			sr := sink.Open(proc)
			w := src.Open(proc)
			release := make(chan struct{})
			go func() {
				if plan.late {
					<-release
				}
				k := 0
				for range sr.Read() {
					k++
					sr.Receive(packet.New(types.NewInt(100 + k)))
				}
			}()
			for i := 0; i < nreq; i++ {
				w.Write(packet.New(types.NewInt(i + 1)))
			}
			if plan.late {
				// every request has been read and written on by the node before the sink starts
				for d := time.Now().Add(2 * time.Second); time.Now().Before(d); {
					n.mu.Lock()
					done := n.nfwd == nreq && len(n.lines) >= 2*nreq
					n.mu.Unlock()
					if done {
						break
					}
					time.Sleep(time.Millisecond)
				}
			}
			close(release)
			for i := 0; i < nreq; i++ {
				select {
				case b, more := <-w.Receive():
					if !more {
						what = fmt.Sprintf("the requester's Receive() closed before answer %d", i+1)
						return
					}
					got = append(got, ffAns(b))
				case <-time.After(3 * time.Second):
					what = fmt.Sprintf("request %d of %d was never answered (3 s)", i+1, nreq)
					return
				}
			}
		})
		if !ok {
			what = "the flight did not finish"
		}
		proc.Exit(nil)
		// settle: the loops end, Drop runs, the maps empty
		var sz [7]int
		for d := time.Now().Add(3 * time.Second); ; {
			sz = n.tracer.VerifC05Sizes()
			if sz == [7]int{} || time.Now().After(d) {
				break
			}
			time.Sleep(time.Millisecond)
		}
		time.Sleep(2 * time.Millisecond)
		replay := "fire-and-forget node, plan (forward/backward per request): " + plan.String()
		n.mu.Lock()
		lines := append([][2]string(nil), n.lines...)
		n.mu.Unlock()
		for _, l := range lines {
			replay += "\n" + l[0] + " => " + l[1]
		}
		add := func(class, w string) {
			if reported < 4 {
				*fails = append(*fails, lib.OracleFail{Class: class, What: w + " [" + plan.String() + "]", Replay: replay})
			}
			reported++
		}
		if what != "" {
			add("ff-unanswered", what)
		} else {
			// expected answers: in order; discarded → packet.None, passed → what the sink said for the k-th request
			for i := 0; i < nreq; i++ {
				want := fmt.Sprint(100 + i + 1)
				if plan.discard[i] {
					want = "none"
				}
				if i >= len(got) || got[i] != want {
					add("ff-answer", fmt.Sprintf("request %d was answered with %v, expected %s", i+1, got, want))
					break
				}
			}
		}
		if sz != [7]int{} {
			add("ff-tracer-residue", fmt.Sprintf("after Exit the node's tracer keeps hooks/sources/targets/receives/reads/writes/reader = %v", sz))
		}
		sc.Begin()
		for _, l := range lines {
			sc.Op(l[0], l[1])
		}
		if what == "" {
			// the answers the requester received, in order, against the replies the model sent to reader 0
			var rs []string
			for _, g := range got {
				if g == "none" {
					rs = append(rs, "0:none")
				} else {
					rs = append(rs, "0:a"+g)
				}
			}
			sc.Op("replies", strings.Join(rs, ","))
		}
		c.Count("ff:" + plan.String() + fmt.Sprint(len(lines)))
		c.Hit("ff-case")
		for i := range plan.linked {
			c.Hit(fmt.Sprintf("ff-request-linked-%v-discard-%v", plan.linked[i], plan.discard[i]))
		}
		src.Close()
		n.in.Close()
		n.out.Close()
		sink.Close()
		n.tracer.Close()
	}
	ms, err := c.RunModel("c05t", sc)
	if err != nil {
		c.Violation("model driver (tracer) failed: "+err.Error(), "", false)
		return nil
	}
	return ms
}
