// Package c05: nothing created for a process outlives it; process-local stores never wedge; a
// lazily initialised value is computed at most once per process.
//
// Parts:
//  1. process.Local, step-controlled (step.go): 2–4 real goroutines released one yield point at a
//     time against Uniflow.Local (driver c05) – return values, Keys(), map sizes, initialiser runs,
//     store-hook calls after every macro step.
//  2. process.Local, free-running oracle (free.go).
//  3. ports (ports.go): Open on real InPort / OutPort racing with Exit and Close, reader / writer map
//     sizes at quiescence against Uniflow.PortMaps (driver c05p).
//  4. workflow level (flow.go, observation, partial): small real workflows, completed or aborted by
//     Exit; port maps, tracer maps, debug agent, goroutine profile after a settle loop.
package c05

import (
	"path/filepath"
	"strings"

	"verifharness/lib"
)

func Run(c *lib.Ctx) {
	c.Rule = "a step-controlled case is non-trivial when it contains at least one release from a yield point; distinct by its full action/observation trace"
	c.Assumptions = []string{
		"size family (fork.go): oracle only – the C05 models have no parent–child relation (Fork / Join are C04's), every single registration made here (port Open, Local.Store / LoadOrStore, agent accept) is an operation the models cover; checked after the parent's Exit: all port tables empty, endpoints closed, no Local value of the parent or any child, agent empty, every child terminated, no exit hook left, no pump goroutine",
		"ports closed in mid-flight (portclose.go): oracle only – Uniflow.PortMaps has no `listening` table and no listener goroutines, and a listener that is scheduled late legitimately re-opens the port it listens on after the Close, so map sizes in mid-script are not compared with the model; checked are: Open for a running process never returns a closed endpoint (after the listeners of the closed port had time to return), and after every Exit all readers / writers / listening tables of every port touched are empty, every endpoint returned is closed, no pump goroutine is left",
		"fire-and-forget node (ffnode.go): every call the hand-written node makes on its own packet.Tracer (Read, Link, Write, Receive incl. Receive(w, nil) = discard, Drop) runs under a harness mutex and is replayed on Uniflow.Tracer (driver c05t): the sizes of the seven maps after each call and the answers the requester received are compared; whether a Write was accepted is read off Tracer.Writes(writer)",
		"exit races (race.go): that AddExitHook is atomic with respect to Exit (one step in Uniflow.Local / PortMaps / AgentProc) is tied to the code by C04's regenerated process.go facts (Props/C05Tie.lean) and searched for failing inputs by brute force – 3–5 hook-registering operations and Exit released together behind a spin barrier on >= 4 CPUs, 30k trials quick / 300k thorough; a window narrower than the scheduler can hit in that many trials would be missed",
		"Go's sync.Mutex / RWMutex / channels behave as the atomic-step semantics of Uniflow.Local (a critical section is one step; RLock sections are atomic)",
		"user call-outs (initialisers, store hooks, foreign exit hooks) terminate; re-entry is NOT assumed away: the store hook with id 100 parks inside AddStoreHook's call-out (yield site 8) and there performs Load / Keys / Store / Delete on the same Local or Exit of the process on the same goroutine (model: a helper thread runs the operation while the caller sits at ashCb – justified by C05.hooks_run_unlocked and the regenerated-facts tie C05.local_calls_out_unlocked); an initialiser re-entering LoadOrStore for its own process is outside (it waits for its own lazy mutex, like sync.Once)",
		"the verif yield hook of pkg/process is called exactly at the five documented sites and nowhere under a lock",
		"goroutine identity in the harness is read from runtime.Stack's header line",
		"agent (C05.agent_forgets_exited): the events fed to Uniflow.AgentProc are the harness tap's log – `accept p` from an open hook installed before Agent.Load, `hook p` from an exit hook registered before the agent's (runs right after it), `inb`/`outb` from packet hooks running just before the agent's under the same endpoint lock, `term p` before Process.Exit; only the key sets of Agent.processes / Agent.frames are compared (at rest they do not depend on the interleaving of different endpoints)",
		"tracer (C05.tracer_no_residue): the node loops are ASSUMED to make these calls at process exit – every forward loop has left its last iteration (each derived packet passed to Tracer.Write) and Tracer.Drop(w) has run for every writer w of the process after the last accepted Write on it (forward loop end: Drop(outWriter), Drop(errWriter); backward loop end: Drop(outWriter)); Uniflow.Node has no loop-end steps, the harness observes the outcome (all seven tracer maps empty after every flight)",
		"pumps (C05.pumps_match_endpoints / no_pump_after_exit): one pump goroutine per NewReader / NewWriter, ending when the endpoint is closed; compared with the goroutine profile (frames pkg/packet.NewReader.func1 / NewWriter.func1) at quiescence",
	}
	c.Trusted = []string{"harness thread controller (one released goroutine at a time; blocked-on-lazy predicted by pointer identity of the *lazy)"}

	c.Extra["levels"] = map[string]string{
		"process.Local (no residue, no deadlock, lazy once)": "proof (Uniflow.Local, all schedules) + step-controlled correspondence + free-running oracle",
		"port maps (no residue, endpoints closed, no deadlock)": "proof (Uniflow.PortMaps, all schedules) + step-controlled correspondence + free-running oracle",
		"pump goroutines of endpoints":                          "proof (Uniflow.PortMaps.pumps: = endpoints created and not closed; 0 after exit) + goroutine profile compared with the model at quiescence",
		"debug agent (processes / frames)":                      "proof (Uniflow.AgentProc, all histories incl. packet hooks after the exit hook) + key sets compared with the model fed the harness's hook log on real workflows",
		"tracer maps":                                           "proof (C05.tracer_no_residue over C02's protocol, relative to the stated loop-end calls of the nodes) + observed empty after every real flight",
		"goroutine set (no uniflow/pkg goroutine left)":         "observation on real workflows after a settle loop (runtime.Stack); not provable in this framework",
	}
	var fails []lib.OracleFail
	rng := lib.NewRNG(c.Seed)

	// the witness of the fixed defect, directly on the implementation
	pinnedWitness(&fails)

	// ---- 1. Local, step-controlled
	sc := &lib.Script{}
	wedged := false
	for _, f := range c.CorpusFiles() {
		if !strings.HasSuffix(f, ".ops") || !strings.HasPrefix(filepath.Base(f), "local") {
			continue
		}
		if !runStepCorpus(c, lib.ReadLines(f), sc, &fails) {
			wedged = true
		}
		c.Count("corpus:" + filepath.Base(f))
		c.Hit("corpus-local")
	}
	ncases := c.Scale(600, 6000)
	for i := 0; i < ncases && !wedged; i++ {
		key, ok := runStepCase(c, rng.Fork(), sc, &fails)
		if !ok {
			wedged = true
		}
		if !strings.Contains(key, "run ") {
			key = ""
		}
		c.Count(key)
		if i < 2 {
			c.Sample(strings.Split(key, ";"))
		}
	}
	ms, err := c.RunModel("c05", sc)
	if err != nil {
		c.Violation("model driver failed: "+err.Error(), "", false)
		return
	}

	// ---- 2. Local, free-running
	if !wedged {
		nfree := c.Scale(600, 8000)
		for i := 0; i < nfree; i++ {
			key := runFreeCase(c, rng.Fork(), &fails)
			c.Count("free:" + key)
			if key == "" {
				break
			}
		}
	}

	// ---- 3. ports, 4. workflows
	ms = append(ms, runPorts(c, rng, &fails)...)
	ms = append(ms, runFlows(c, rng, &fails)...)

	// ---- 4b. a hand-written fire-and-forget node on its own tracer (Receive(w, nil) = discard)
	ms = append(ms, runFireForget(c, rng.Fork(), &fails)...)

	// ---- 5. hook-registering operations racing with Exit on several CPUs
	runExitRaces(c, rng.Fork(), &fails)

	// ---- 6. crowded exit-hook lists: forking parents, processes with many ports
	runSizeCases(c, rng.Fork(), &fails)

	c.Conclude("Uniflow.Local / Uniflow.PortMaps vs pkg/process.Local, pkg/port", ms, fails)
}
