// Package c05: nothing created for a process outlives it; process-local stores never wedge; a
// lazily initialised value is computed at most once per process.
//
// Parts:
//  1. process.Local, step-controlled (step.go): 2–4 real goroutines released one yield point at a
//     time against Uniflow.Local (driver c05) – return values, Keys(), map sizes, initialiser runs,
//     store-hook calls after every macro step.
//  2. process.Local, free-running oracle (free.go).
//  3. ports (ports.go): Open on real InPort / OutPort racing with Exit and Close, reader / writer map
//     sizes at quiescence against Uniflow.PortMaps (driver c05p).
//  4. workflow level (flow.go, observation, partial): small real workflows, completed or aborted by
//     Exit; port maps, tracer maps, debug agent, goroutine profile after a settle loop.
package c05

import (
	"path/filepath"
	"strings"

	"verifharness/lib"
)

func Run(c *lib.Ctx) {
	c.Rule = "a step-controlled case is non-trivial when it contains at least one release from a yield point; distinct by its full action/observation trace"
	c.Assumptions = []string{
		"Go's sync.Mutex / RWMutex / channels behave as the atomic-step semantics of Uniflow.Local (a critical section is one step; RLock sections are atomic)",
		"user call-outs (initialisers, store hooks, foreign exit hooks) terminate and do not call back into the same Local",
		"the verif yield hook of pkg/process is called exactly at the five documented sites and nowhere under a lock",
		"goroutine identity in the harness is read from runtime.Stack's header line",
	}
	c.Trusted = []string{"harness thread controller (one released goroutine at a time; blocked-on-lazy predicted by pointer identity of the *lazy)"}

	c.Extra["levels"] = map[string]string{
		"process.Local (no residue, no deadlock, lazy once)": "proof (Uniflow.Local, all schedules) + step-controlled correspondence + free-running oracle",
		"port maps (no residue, endpoints closed, no deadlock)": "proof (Uniflow.PortMaps, all schedules) + step-controlled correspondence + free-running oracle",
		"tracer maps, debug agent, goroutine set":               "observation on real workflows after a settle loop (partial: not proved here; tracer emptiness is C02's theorem + C03's teardown)",
	}
	var fails []lib.OracleFail
	rng := lib.NewRNG(c.Seed)

	// the witness of the fixed defect, directly on the implementation
	pinnedWitness(&fails)

	// ---- 1. Local, step-controlled
	sc := &lib.Script{}
	wedged := false
	for _, f := range c.CorpusFiles() {
		if !strings.HasSuffix(f, ".ops") || !strings.HasPrefix(filepath.Base(f), "local") {
			continue
		}
		if !runStepCorpus(c, lib.ReadLines(f), sc, &fails) {
			wedged = true
		}
		c.Count("corpus:" + filepath.Base(f))
		c.Hit("corpus-local")
	}
	ncases := c.Scale(600, 6000)
	for i := 0; i < ncases && !wedged; i++ {
		key, ok := runStepCase(c, rng.Fork(), sc, &fails)
		if !ok {
			wedged = true
		}
		if !strings.Contains(key, "run ") {
			key = ""
		}
		c.Count(key)
		if i < 2 {
			c.Sample(strings.Split(key, ";"))
		}
	}
	ms, err := c.RunModel("c05", sc)
	if err != nil {
		c.Violation("model driver failed: "+err.Error(), "", false)
		return
	}

	// ---- 2. Local, free-running
	if !wedged {
		nfree := c.Scale(600, 8000)
		for i := 0; i < nfree; i++ {
			key := runFreeCase(c, rng.Fork(), &fails)
			c.Count("free:" + key)
			if key == "" {
				break
			}
		}
	}

	// ---- 3. ports, 4. workflows
	ms = append(ms, runPorts(c, rng, &fails)...)
	runFlows(c, rng, &fails)

	c.Conclude("Uniflow.Local / Uniflow.PortMaps vs pkg/process.Local, pkg/port", ms, fails)
}
