package c05

// SIZE family: crowded exit-hook lists.
//
// (a) processes that FORK. A parent forks 20–80 children in batches of 5–25; most children of a
//     batch exit at once, 1–3 slow ones outlive it; between the batches the parent registers hooks of
//     its own – it opens real InPorts / OutPorts (some with listeners), Stores / LoadOrStores values
//     in Locals, is accepted by a debug agent (Open on a port of a watched symbol) – and some children
//     do the same for themselves before they exit. Slow children exit at random later points (or not
//     at all: then the parent's Exit has to terminate them). Finally the parent exits.
// (b) long-lived processes WITHOUT forks: 20–70 ports opened for one process, a few Local values, an
//     agent entry, then Exit.
// Oracle (no model: Uniflow.Local / PortMaps / AgentProc have no parent–child relation – Fork is C04's
// – and every hook registration here is an operation they cover one by one): after the parent's Exit
// and a settle loop nothing of the parent or of any child is left – every port's readers / writers /
// listening empty, every endpoint ever returned closed, no Local holds a value for any of the
// processes, the agent has no key, every child is terminated, no exit hook is left on any process, no
// reader / writer pump goroutine above the baseline. Failure class `fork-residue` (or `port-residue`
// for (b)), replay = the script.

import (
	"fmt"
	"os"
	"strings"
	"time"

	"github.com/gofrs/uuid"
	"github.com/siyul-park/uniflow/pkg/node"
	"github.com/siyul-park/uniflow/pkg/packet"
	"github.com/siyul-park/uniflow/pkg/port"
	"github.com/siyul-park/uniflow/pkg/process"
	uruntime "github.com/siyul-park/uniflow/pkg/runtime"
	"github.com/siyul-park/uniflow/pkg/spec"
	"github.com/siyul-park/uniflow/pkg/symbol"

	"verifharness/lib"
)

type sizeCase struct {
	ports  []anyPort
	locals []*process.Local[int]
	agent  *uruntime.Agent
	sym    *symbol.Symbol
	symIn  *port.InPort
	eps    []any
	procs  []*process.Process // the parent first, then every child ever forked
	trace  []string
}

func newSizeCase(nports int) *sizeCase {
	k := &sizeCase{}
	for i := 0; i < nports; i++ {
		switch i % 4 {
		case 0:
			k.ports = append(k.ports, anyPort{in: port.NewIn()})
		case 1:
			k.ports = append(k.ports, anyPort{out: port.NewOut()})
		case 2:
			in := port.NewIn()
			in.AddListener(inListener(in))
			k.ports = append(k.ports, anyPort{in: in})
		default:
			out := port.NewOut()
			out.AddListener(outListener(out))
			k.ports = append(k.ports, anyPort{out: out})
		}
	}
	for i := 0; i < 3; i++ {
		k.locals = append(k.locals, process.NewLocal[int]())
	}
	n := node.NewOneToOneNode(nil)
	k.sym = &symbol.Symbol{Spec: &spec.Meta{ID: uuid.Must(uuid.NewV7()), Kind: "verif", Namespace: "default", Name: "size"}, Node: n}
	k.symIn = k.sym.In(node.PortIn)
	k.sym.Out(node.PortOut)
	k.sym.Out(node.PortError)
	k.agent = uruntime.NewAgent()
	_ = k.agent.Load(k.sym)
	return k
}

func (k *sizeCase) close() {
	_ = k.agent.Unload(k.sym)
	k.agent.Close()
	_ = k.sym.Close()
	for _, p := range k.ports {
		p.close()
	}
}

func (k *sizeCase) log(format string, a ...any) { k.trace = append(k.trace, fmt.Sprintf(format, a...)) }

// register makes process pr (index pi in k.procs) register one hook of its own kind.
func (k *sizeCase) register(rng *lib.RNG, pi int) {
	pr := k.procs[pi]
	switch rng.Weighted([]int{5, 2, 2, 1}) {
	case 0:
		q := rng.Intn(len(k.ports))
		r, e := k.ports[q].open(pr)
		if e != nil {
			k.eps = append(k.eps, e)
		}
		k.log("open port%d proc%d => %s", q, pi, r)
	case 1:
		l := rng.Intn(len(k.locals))
		k.locals[l].Store(pr, pi+1)
		k.log("store local%d proc%d", l, pi)
	case 2:
		l := rng.Intn(len(k.locals))
		_, _ = k.locals[l].LoadOrStore(pr, func() (int, error) { return pi + 1, nil })
		k.log("loadorstore local%d proc%d", l, pi)
	default:
		k.symIn.Open(pr)
		k.log("open watched-port proc%d (agent accept)", pi)
	}
}

// residue lists what is left after every process should be gone.
func (k *sizeCase) residue() []string {
	var r []string
	for qi, p := range k.ports {
		l := 0
		if p.out != nil {
			l = p.out.VerifListening()
		}
		if p.size() != 0 || l != 0 {
			r = append(r, fmt.Sprintf("port%d maps %d process(es), listening=%d", qi, p.size(), l))
		}
	}
	if n := k.symIn.VerifReaders(); n != 0 {
		r = append(r, fmt.Sprintf("the watched in-port maps %d process(es)", n))
	}
	for li, l := range k.locals {
		for pi, pr := range k.procs {
			if _, ok := l.Load(pr); ok {
				r = append(r, fmt.Sprintf("local%d still holds a value for proc%d", li, pi))
			}
		}
	}
	ps, fs := k.agent.VerifC05Keys()
	if len(ps) != 0 || len(fs) != 0 {
		r = append(r, fmt.Sprintf("the agent still has %d processes / %d frames keys", len(ps), len(fs)))
	}
	for pi, pr := range k.procs {
		if pr.Status() != process.StatusTerminated {
			r = append(r, fmt.Sprintf("proc%d (a child) is still running after its parent exited", pi))
		}
		if n := pr.VerifExitHooks(); n != 0 {
			r = append(r, fmt.Sprintf("proc%d still has %d exit hooks", pi, n))
		}
	}
	for i, e := range k.eps {
		if !epDone(e) {
			r = append(r, fmt.Sprintf("endpoint #%d returned by Open was never closed", i))
			break
		}
	}
	if len(r) > 6 {
		r = append(r[:6], fmt.Sprintf("… and %d more", len(r)-6))
	}
	return r
}

func runSizeCases(c *lib.Ctx, rng *lib.RNG, fails *[]lib.OracleFail) {
	ncases := c.Scale(60, 600)
	reported := 0
	patience := 3 * time.Second
	nostop := os.Getenv("C05_SIZE_NOSTOP") != "" // measurement aid: count every failing case
	for ci := 0; ci < ncases && (reported < 3 || nostop); ci++ {
		forking := ci%3 != 2 // two fork cases for every crowded-ports case
		base := settlePumps(0, pumpPatience(200*time.Millisecond))
		var k *sizeCase
		class := "fork-residue"
		if forking {
			k = newSizeCase(rng.Range(4, 8))
			parent := process.New()
			k.procs = append(k.procs, parent)
			var slow []int // indices of children still running
			total := rng.Range(20, 80)
			forked := 0
			exitSlow := func() {
				if len(slow) == 0 {
					return
				}
				i := rng.Intn(len(slow))
				cidx := slow[i]
				slow = append(slow[:i], slow[i+1:]...)
				k.procs[cidx].Exit(nil)
				k.log("exit proc%d (slow child)", cidx)
			}
			for forked < total {
				b := rng.Range(5, 25)
				nslow := rng.Range(1, 3)
				k.log("# batch of %d children, %d slow", b, nslow)
				for j := 0; j < b && forked < total; j++ {
					child := parent.Fork()
					k.procs = append(k.procs, child)
					idx := len(k.procs) - 1
					forked++
					if rng.Chance(1, 5) {
						k.register(rng, idx) // the child has something of its own
					}
					if j < nslow {
						slow = append(slow, idx)
						k.log("fork proc%d (slow)", idx)
					} else {
						child.Exit(nil)
						k.log("fork proc%d, exit at once", idx)
					}
				}
				// the parent's own registrations between the batches
				for j, n := 0, rng.Range(1, 6); j < n; j++ {
					k.register(rng, 0)
				}
				for j, n := 0, rng.Intn(3); j < n; j++ {
					exitSlow()
				}
			}
			// most slow children exit before the parent, some are left to the parent's Exit
			for len(slow) > 0 && !rng.Chance(1, 4) {
				exitSlow()
			}
			k.log("exit proc0 (the parent; %d children still running)", len(slow))
			ok, _ := lib.WithTimeout(watchdog, func() { parent.Exit(nil) })
			if !ok {
				k.log("# parent.Exit did not return")
			}
			c.Hit("size-fork-case")
			c.Hist["size-forks"] += forked
		} else {
			class = "port-residue"
			nports := rng.Range(20, 70)
			k = newSizeCase(nports)
			pr := process.New()
			k.procs = append(k.procs, pr)
			for q := 0; q < nports; q++ {
				r, e := k.ports[q].open(pr)
				if e != nil {
					k.eps = append(k.eps, e)
				}
				k.log("open port%d proc0 => %s", q, r)
				if rng.Chance(1, 6) {
					k.register(rng, 0)
				}
				if rng.Chance(1, 10) {
					k.ports[rng.Intn(q+1)].close()
					k.log("close a port opened before")
				}
			}
			k.log("exit proc0 (%d exit hooks)", pr.VerifExitHooks())
			pr.Exit(nil)
			c.Hit("size-ports-case")
			c.Hist["size-ports-opened"] += nports
		}
		var res []string
		settle(func() bool { res = k.residue(); return len(res) == 0 }, patience)
		if len(res) > 0 {
			if reported < 3 {
				*fails = append(*fails, lib.OracleFail{Class: class,
					What:   "after the (parent) process exited and a settle loop: " + strings.Join(res, "; ") + " – an exit hook of the process never ran",
					Replay: strings.Join(k.trace, "\n")})
			}
			reported++
			c.Hit("size-case-with-residue")
			patience = 50 * time.Millisecond
		}
		if got := settlePumps(base, pumpPatience(patience)); got != base {
			pumpLeaks++
			if reported < 3 {
				*fails = append(*fails, lib.OracleFail{Class: class,
					What:   fmt.Sprintf("%d reader/writer pump goroutines above the baseline after the process and all its children exited", got-base),
					Replay: strings.Join(k.trace, "\n")})
			}
			reported++
		}
		c.Count(fmt.Sprintf("size:%d:%d", ci, len(k.trace)))
		k.close()
	}
}

var _ = packet.None
