package c05

// Ports: InPort.readers / OutPort.writers against Uniflow.PortMaps (driver c05p).
//
//  (a) step-controlled: Open / Close / Exit on bare InPorts and unlinked OutPorts from 2–4 real
//      goroutines released one yield point at a time (verif yield sites 11 = after the status
//      check, 12 = inserted and unlocked, before AddExitHook); after every macro step the size of
//      every port's map is compared, and what Open returned (sentinel / endpoint open / closed).
//  (b) the window, deterministically: Open parked after the status check, the process exits,
//      Open goes on – the entry appears for the terminated process, then the opening goroutine
//      removes it and closes the endpoint.
//  (c) free-running: Opens (also through an OutPort linked to InPorts) racing with Exit; at
//      quiescence the sizes are compared with the model (which runs the same operations one
//      after the other – at quiescence the result does not depend on the schedule), then with
//      racing port Closes as well; finally every process exits: all maps empty, every endpoint
//      ever returned is closed.
//  (d) concurrent FIRST Opens of one (port, process) from 2–3 goroutines, many rounds; after exit
//      and port close the goroutine profile must show no reader / writer pump above the baseline.
// In (a) the yield site 13 (lookup missed, before the write lock) lets two openers sit in the
// same window; whenever every thread is idle the number of running pump goroutines is compared
// with the model's number of created-and-not-closed endpoints (line `pumps`).

import (
	"fmt"
	"runtime"
	"strconv"
	"strings"
	"sync"
	"sync/atomic"
	"time"

	"github.com/siyul-park/uniflow/pkg/packet"
	"github.com/siyul-park/uniflow/pkg/port"
	"github.com/siyul-park/uniflow/pkg/process"

	"verifharness/lib"
)

type anyPort struct {
	in  *port.InPort
	out *port.OutPort
}

func (a anyPort) size() int {
	if a.in != nil {
		return a.in.VerifReaders()
	}
	return a.out.VerifWriters()
}

// open returns the canonical description of what Open returned, and the endpoint.
func (a anyPort) open(p *process.Process) (string, any) {
	if a.in != nil {
		r := a.in.Open(p)
		if r == packet.ClosedReader {
			return "sentinel", nil
		}
		if r.VerifC05Done() {
			return "ep closed", r
		}
		return "ep open", r
	}
	w := a.out.Open(p)
	if w == packet.ClosedWriter {
		return "sentinel", nil
	}
	if w.VerifC05Done() {
		return "ep closed", w
	}
	return "ep open", w
}

func (a anyPort) close() {
	if a.in != nil {
		a.in.Close()
	} else {
		a.out.Close()
	}
}

func epDone(e any) bool {
	switch e := e.(type) {
	case *packet.Reader:
		return e.VerifC05Done()
	case *packet.Writer:
		return e.VerifC05Done()
	}
	return true
}

// pumpGoroutines counts the goroutines running the pump started by packet.NewReader / NewWriter:
// one per endpoint that was created and not closed.
func pumpGoroutines() int {
	buf := make([]byte, 1<<18)
	for {
		n := runtime.Stack(buf, true)
		if n < len(buf) {
			buf = buf[:n]
			break
		}
		buf = make([]byte, 2*len(buf))
	}
	n := 0
	for _, g := range strings.Split(string(buf), "\n\n") {
		if strings.Contains(g, "pkg/packet.NewReader.func1") || strings.Contains(g, "pkg/packet.NewWriter.func1") {
			n++
		}
	}
	return n
}

// pumpLeaks counts detected leaks; once a few are reported the settle loops stop being patient,
// so that a tree that leaks on every case still finishes quickly.
var pumpLeaks int

func pumpPatience(d time.Duration) time.Duration {
	if pumpLeaks >= 3 {
		return 10 * time.Millisecond
	}
	return d
}

// settlePumps polls until the number of pump goroutines equals want (a closed endpoint's pump
// ends asynchronously) and returns the last count seen; patience bounds the wait.
func settlePumps(want int, patience time.Duration) int {
	deadline := time.Now().Add(patience)
	for {
		n := pumpGoroutines()
		if n == want || time.Now().After(deadline) {
			return n
		}
		time.Sleep(time.Millisecond)
	}
}

// ---------------------------------------------------------------- (a) step-controlled

type portCase struct {
	c     *lib.Ctx
	sc    *lib.Script
	ctl   *ctl
	ports []anyPort
	procs []*process.Process
	emu   sync.Mutex
	eps   []any
	trace []string
	fails *[]lib.OracleFail
	wedge bool
	exits []bool
	base  int // pump goroutines before the case created anything
}

func newPortCase(c *lib.Ctx, sc *lib.Script, fails *[]lib.OracleFail, nthreads, nports, nprocs int) *portCase {
	s := &portCase{c: c, sc: sc, fails: fails, ctl: &ctl{gids: map[int64]int{}}}
	for i := 0; i < nthreads; i++ {
		s.ctl.threads = append(s.ctl.threads, &thread{arrive: make(chan arrival, 1), release: make(chan struct{})})
	}
	for i := 0; i < nports; i++ {
		if i%2 == 0 {
			s.ports = append(s.ports, anyPort{in: port.NewIn()})
		} else {
			s.ports = append(s.ports, anyPort{out: port.NewOut()})
		}
	}
	for i := 0; i < nprocs; i++ {
		s.procs = append(s.procs, process.New())
	}
	s.exits = make([]bool, nprocs)
	s.base = settlePumps(0, pumpPatience(200*time.Millisecond))
	return s
}

// pumps compares, at a point where every thread is idle, the number of running pump goroutines
// (endpoints actually created and not closed) with what the maps account for; the model answers
// the same line with its count of created-and-not-closed endpoints.
func (s *portCase) pumps() {
	want := s.base
	for _, p := range s.ports {
		want += p.size()
	}
	got := settlePumps(want, pumpPatience(5*time.Second))
	s.emit("pumps", fmt.Sprintf("open=%d", got-s.base))
	if got != want {
		pumpLeaks++
		s.fail("pump-leak", fmt.Sprintf("every operation has returned and the port maps hold %d endpoints, but %d reader/writer pump goroutines are running above the baseline: an endpoint was created and dropped without Close", want-s.base, got-s.base))
	}
}

func (s *portCase) emit(line, out string) {
	s.sc.Op(line, out)
	s.trace = append(s.trace, line+" => "+out)
}

func (s *portCase) fail(class, what string) {
	if len(*s.fails) < 20 {
		*s.fails = append(*s.fails, lib.OracleFail{Class: class, What: what, Replay: strings.Join(s.trace, "\n")})
	}
}

func (s *portCase) obs() {
	var xs []string
	for _, p := range s.ports {
		xs = append(xs, strconv.Itoa(p.size()))
	}
	s.emit(fmt.Sprintf("obs %d %d", len(s.ports), len(s.procs)), "sizes="+strings.Join(xs, ","))
}

func (s *portCase) settle(t int, line string) bool {
	th := s.ctl.threads[t]
	a, ok := s.ctl.await(t)
	if !ok {
		s.wedge = true
		s.emit(line, "wedged")
		s.fail("wedge", fmt.Sprintf("ports: thread %d made no progress for %v after %q", t, watchdog, line))
		return false
	}
	if a.returned {
		th.busy, th.site = false, 0
		kind := "in"
		if th.curOp == "open-out" {
			kind = "out"
		}
		if strings.HasPrefix(th.curOp, "open") {
			s.c.Hit("branch-port-open-" + kind + "-" + strings.Join(th.path, ".") + "-" + strings.ReplaceAll(a.ret, " ", "-"))
		}
		s.emit(line, "ret "+a.ret)
	} else {
		th.site = a.site
		th.path = append(th.path, fmt.Sprint("y", a.site))
		s.emit(line, fmt.Sprintf("y%d", a.site))
	}
	s.obs()
	return true
}

func (s *portCase) do(line string) bool {
	f := strings.Fields(line)
	if len(f) < 2 {
		return false
	}
	t, err := strconv.Atoi(f[1])
	if err != nil || t < 0 || t >= len(s.ctl.threads) {
		return false
	}
	th := s.ctl.threads[t]
	num := func(i, lim int) (int, bool) {
		if i >= len(f) {
			return 0, false
		}
		v, err := strconv.Atoi(f[i])
		return v, err == nil && v >= 0 && v < lim
	}
	switch f[0] {
	case "call":
		if th.busy || len(f) < 4 {
			return false
		}
		var op func() string
		switch f[2] {
		case "open":
			q, ok1 := num(3, len(s.ports))
			p, ok2 := num(4, len(s.procs))
			if !ok1 || !ok2 || len(f) != 5 {
				return false
			}
			op = func() string {
				r, e := s.ports[q].open(s.procs[p])
				if e != nil {
					s.emu.Lock()
					s.eps = append(s.eps, e)
					s.emu.Unlock()
				}
				return r
			}
		case "close":
			q, ok := num(3, len(s.ports))
			if !ok || len(f) != 4 {
				return false
			}
			op = func() string { s.ports[q].close(); return "unit" }
		case "exit":
			p, ok := num(3, len(s.procs))
			if !ok || len(f) != 4 {
				return false
			}
			s.exits[p] = true
			op = func() string { s.procs[p].Exit(nil); return "unit" }
		default:
			return false
		}
		s.c.Hit("port-step-op-" + f[2])
		th.curOp, th.path = f[2], nil
		if f[2] == "open" {
			if q, _ := strconv.Atoi(f[3]); q < len(s.ports) && s.ports[q].out != nil {
				th.curOp = "open-out"
			}
		}
		s.ctl.start(t, op)
		return s.settle(t, line)
	case "run":
		if !th.busy || len(f) != 2 {
			return false
		}
		s.c.Hit(fmt.Sprintf("port-step-release-y%d", th.site))
		th.site = 0
		th.release <- struct{}{}
		return s.settle(t, line)
	}
	return false
}

func (s *portCase) busy() (busy, idle []int) {
	for t, th := range s.ctl.threads {
		if th.busy {
			busy = append(busy, t)
		} else {
			idle = append(idle, t)
		}
	}
	return
}

func (s *portCase) drain(rng *lib.RNG) {
	for !s.wedge {
		b, _ := s.busy()
		if len(b) == 0 {
			return
		}
		t := b[0]
		if rng != nil {
			t = lib.Pick(rng, b)
		}
		if !s.do(fmt.Sprintf("run %d", t)) {
			return
		}
	}
}

func (s *portCase) finish(rng *lib.RNG) {
	s.drain(rng)
	if !s.wedge {
		s.pumps()
	}
	for p := range s.procs {
		if s.wedge {
			return
		}
		if !s.exits[p] {
			s.do(fmt.Sprintf("call 0 exit %d", p))
			s.drain(rng)
		}
	}
	if s.wedge {
		return
	}
	for q, p := range s.ports {
		if n := p.size(); n != 0 {
			s.fail("port-residue", fmt.Sprintf("every process exited and every operation returned, but port %d still maps %d processes", q, n))
		}
	}
	for i, e := range s.eps {
		if !epDone(e) {
			s.fail("endpoint-open", fmt.Sprintf("every process exited, but endpoint #%d returned by Open was never closed", i))
		}
	}
	s.pumps()
}

func runPortStepCase(c *lib.Ctx, rng *lib.RNG, sc *lib.Script, fails *[]lib.OracleFail) (string, bool) {
	s := newPortCase(c, sc, fails, rng.Range(2, 4), rng.Range(1, 3), rng.Range(1, 3))
	port.VerifSetYield(func(site int) { s.ctl.yield(site, nil) })
	defer port.VerifSetYield(nil)
	sc.Begin()
	n := rng.Range(6, c.Scale(30, 70))
	for i := 0; i < n && !s.wedge; i++ {
		b, idle := s.busy()
		if len(idle) > 0 && (len(b) == 0 || rng.Chance(2, 5)) {
			t := lib.Pick(rng, idle)
			switch rng.Weighted([]int{8, 2, 3}) {
			case 0:
				s.do(fmt.Sprintf("call %d open %d %d", t, rng.Intn(len(s.ports)), rng.Intn(len(s.procs))))
			case 1:
				s.do(fmt.Sprintf("call %d close %d", t, rng.Intn(len(s.ports))))
			default:
				s.do(fmt.Sprintf("call %d exit %d", t, rng.Intn(len(s.procs))))
			}
		} else if len(b) > 0 {
			s.do(fmt.Sprintf("run %d", lib.Pick(rng, b)))
		}
	}
	s.finish(rng)
	return strings.Join(s.trace, ";"), !s.wedge
}

func runPortCorpus(c *lib.Ctx, lines []string, sc *lib.Script, fails *[]lib.OracleFail) bool {
	s := newPortCase(c, sc, fails, 4, 3, 3)
	port.VerifSetYield(func(site int) { s.ctl.yield(site, nil) })
	defer port.VerifSetYield(nil)
	sc.Begin()
	for _, ln := range lines {
		if strings.HasPrefix(ln, "obs") {
			continue
		}
		s.do(ln)
		if s.wedge {
			break
		}
	}
	s.finish(nil)
	return !s.wedge
}

// ---------------------------------------------------------------- (c) free-running

type portOp struct {
	kind int // 0 open 1 exit 2 close
	q, p int
}

func runPortFreeCase(c *lib.Ctx, rng *lib.RNG, sc *lib.Script, fails *[]lib.OracleFail) string {
	// ports 0,1: InPorts; port 2: OutPort linked to both; port 3: a second OutPort linked to port 0
	ins := []*port.InPort{port.NewIn(), port.NewIn()}
	outs := []*port.OutPort{port.NewOut(), port.NewOut()}
	links := map[int][]int{2: {0, 1}, 3: {0}}
	relink := func() {
		outs[0].Link(ins[0])
		outs[0].Link(ins[1])
		outs[1].Link(ins[0])
	}
	relink()
	ports := []anyPort{{in: ins[0]}, {in: ins[1]}, {out: outs[0]}, {out: outs[1]}}
	nprocs, nthreads := rng.Range(2, 5), rng.Range(2, 5)
	procs := make([]*process.Process, nprocs)
	for i := range procs {
		procs[i] = process.New()
	}
	var emu sync.Mutex
	var eps []any
	var trace []string
	fail := func(class, what string) {
		if len(*fails) < 20 {
			*fails = append(*fails, lib.OracleFail{Class: class, What: what, Replay: strings.Join(trace, "\n")})
		}
	}
	sc.Begin()
	exec := func(o portOp) {
		switch o.kind {
		case 0:
			_, e := ports[o.q].open(procs[o.p])
			if e != nil {
				emu.Lock()
				eps = append(eps, e)
				emu.Unlock()
			}
		case 1:
			procs[o.p].Exit(nil)
		case 2:
			ports[o.q].close()
		}
	}
	sizes := func() string {
		var xs []string
		for _, p := range ports {
			xs = append(xs, strconv.Itoa(p.size()))
		}
		return "sizes=" + strings.Join(xs, ",")
	}
	for ph := 0; ph < 2; ph++ {
		withClose := ph == 1
		plans := make([][]portOp, nthreads)
		var all []portOp
		for t := range plans {
			n := rng.Range(2, c.Scale(8, 16))
			for i := 0; i < n; i++ {
				w := []int{8, 2, 0}
				if withClose {
					w[2] = 2
				}
				o := portOp{kind: rng.Weighted(w), q: rng.Intn(len(ports)), p: rng.Intn(nprocs)}
				plans[t] = append(plans[t], o)
				all = append(all, o)
				c.Hit("port-free-op-" + []string{"open", "exit", "close"}[o.kind])
			}
		}
		trace = append(trace, fmt.Sprintf("phase %d plans=%v", ph, plans))
		ok, pan := lib.WithTimeout(watchdog, func() {
			var wg sync.WaitGroup
			for t := range plans {
				wg.Add(1)
				go func(ops []portOp) {
					defer wg.Done()
					for _, o := range ops {
						exec(o)
					}
				}(plans[t])
			}
			wg.Wait()
		})
		if !ok || pan != nil {
			fail("wedge", fmt.Sprintf("ports free-running phase %d: did not return / panicked: %v", ph, pan))
			return ""
		}
		if !withClose {
			// the model runs the same operations sequentially (opens through an OutPort also open
			// its linked InPorts); at quiescence the sizes must agree
			for _, o := range all {
				switch o.kind {
				case 0:
					sc.Op(fmt.Sprintf("seq open %d %d", o.q, o.p), "ok")
					for _, i := range links[o.q] {
						sc.Op(fmt.Sprintf("seq open %d %d", i, o.p), "ok")
					}
				case 1:
					sc.Op(fmt.Sprintf("seq exit %d", o.p), "ok")
				}
			}
			got := sizes()
			sc.Op(fmt.Sprintf("obs %d %d", len(ports), nprocs), got)
			trace = append(trace, "quiescent "+got)
		} else {
			relink()
		}
	}
	ok, _ := lib.WithTimeout(watchdog, func() {
		for _, p := range procs {
			p.Exit(nil)
		}
	})
	if !ok {
		fail("wedge", "ports: Exit did not return")
		return ""
	}
	for q, p := range ports {
		if n := p.size(); n != 0 {
			fail("port-residue", fmt.Sprintf("free-running: every process exited, but port %d still maps %d processes", q, n))
		}
	}
	for i, e := range eps {
		if !epDone(e) {
			fail("endpoint-open", fmt.Sprintf("free-running: every process exited, but endpoint #%d returned by Open was never closed", i))
		}
	}
	return strings.Join(trace, ";")
}

// ---------------------------------------------------------------- (d) concurrent first Opens

// runPortConcurrentOpens: many rounds in which 2–3 goroutines open the same in-port for the same
// process for the first time at the same moment – through two OutPorts linked to one InPort (two
// branches of a workflow merging into one node), through plain in.Open(proc), or both. Exactly one
// endpoint may be created per (port, process); after the process has exited and the ports are
// closed no reader / writer pump goroutine may be left (goroutine profile, after a settle loop).
func runPortConcurrentOpens(c *lib.Ctx, rng *lib.RNG, fails *[]lib.OracleFail) {
	rounds := c.Scale(4000, 40000)
	const batch = 250
	base := settlePumps(0, pumpPatience(200*time.Millisecond))
	reported := 0
	fail := func(class, what, replay string) {
		if reported < 3 {
			*fails = append(*fails, lib.OracleFail{Class: class, What: what, Replay: replay})
		}
		reported++
	}
	kinds := []string{"two OutPorts linked to one InPort, out.Open(proc) x2", "plain in.Open(proc) x2..3", "out.Open(proc) and in.Open(proc)"}
	var hist [3]int
	for r := 0; r < rounds; r++ {
		in := port.NewIn()
		outs := []*port.OutPort{port.NewOut(), port.NewOut()}
		outs[0].Link(in)
		outs[1].Link(in)
		proc := process.New()
		kind := rng.Intn(3)
		k := 2
		if kind == 1 {
			k = rng.Range(2, 3)
		}
		hist[kind]++
		readers := make([]*packet.Reader, k)
		var ready atomic.Int32
		var gate atomic.Bool
		var wg sync.WaitGroup
		for i := 0; i < k; i++ {
			i := i
			wg.Add(1)
			go func() {
				defer wg.Done()
				ready.Add(1)
				for !gate.Load() {
					runtime.Gosched()
				}
				switch {
				case kind == 0, kind == 2 && i == 0:
					outs[i].Open(proc)
				default:
					readers[i] = in.Open(proc)
				}
			}()
		}
		for int(ready.Load()) < k {
			runtime.Gosched()
		}
		gate.Store(true)
		wg.Wait()
		where := fmt.Sprintf("round %d (%s, %d goroutines)", r, kinds[kind], k)
		if n := in.VerifReaders(); n != 1 {
			fail("port-residue", fmt.Sprintf("%s: the in-port maps %d readers for one running process", where, n), where)
		}
		var first *packet.Reader
		for _, rd := range readers {
			if rd == nil {
				continue
			}
			if rd == packet.ClosedReader || rd.VerifC05Done() {
				fail("endpoint-open", where+": concurrent Open of a running process returned a closed reader", where)
			}
			if first == nil {
				first = rd
			} else if rd != first {
				fail("port-residue", where+": concurrent Opens of one port and process returned different readers", where)
			}
		}
		proc.Exit(nil)
		if a, b, d := in.VerifReaders(), outs[0].VerifWriters(), outs[1].VerifWriters(); a+b+d != 0 {
			fail("port-residue", fmt.Sprintf("%s: after Exit the maps hold %d/%d/%d entries", where, a, b, d), where)
		}
		outs[0].Close()
		outs[1].Close()
		in.Close()
		if (r+1)%batch == 0 || r+1 == rounds {
			got := settlePumps(base, pumpPatience(5*time.Second))
			c.Count(fmt.Sprintf("port-concurrent-open:batch-%d", r/batch))
			if got != base {
				pumpLeaks++
				fail("pump-leak", fmt.Sprintf("concurrent first Opens, rounds %d..%d: every process exited and every port was closed, but %d reader/writer pump goroutines (pkg/packet.NewReader/NewWriter) are running above the baseline: an endpoint was created for a process and dropped without Close",
					r+1-batch, r, got-base),
					fmt.Sprintf("seed-derived rounds %d..%d of runPortConcurrentOpens; per round: in := port.NewIn(); out1.Link(in); out2.Link(in); 2-3 goroutines behind a barrier call out_i.Open(proc) / in.Open(proc); proc.Exit(nil); close ports; count goroutines with a pkg/packet.NewReader.func1 / NewWriter.func1 frame.\nDeterministic form: corpus/C05/port-03-two-openers.ops", r+1-batch, r))
				base = got
			}
		}
	}
	for i, n := range hist {
		c.Hist[fmt.Sprintf("port-concurrent-open-kind-%d", i)] += n
	}
}

// ---------------------------------------------------------------- (b) the window

func portWindow(fails *[]lib.OracleFail) {
	for kind := 0; kind < 2; kind++ {
		var pt anyPort
		if kind == 0 {
			pt = anyPort{in: port.NewIn()}
		} else {
			pt = anyPort{out: port.NewOut()}
		}
		proc := process.New()
		at := make(chan int)
		goOn := make(chan struct{})
		port.VerifSetYield(func(site int) {
			if site == 13 {
				return // this scenario parks only after the status check and before AddExitHook
			}
			at <- site
			<-goOn
		})
		type res struct {
			r string
			e any
		}
		done := make(chan res, 1)
		var log []string
		bad := func(what string) {
			*fails = append(*fails, lib.OracleFail{Class: "port-window", What: what, Replay: strings.Join(log, "\n")})
		}
		ok, _ := lib.WithTimeout(watchdog, func() {
			go func() { r, e := pt.open(proc); done <- res{r, e} }()
			s := <-at
			log = append(log, fmt.Sprintf("Open parked at site %d (status check passed), size=%d", s, pt.size()))
			proc.Exit(nil)
			log = append(log, fmt.Sprintf("Exit returned, size=%d", pt.size()))
			goOn <- struct{}{}
			s = <-at
			n := pt.size()
			log = append(log, fmt.Sprintf("Open parked at site %d (inserted, unlocked), size=%d", s, n))
			if s != 12 || n != 1 {
				bad(fmt.Sprintf("expected the transient entry for the terminated process at site 12 (site=%d size=%d)", s, n))
			}
			goOn <- struct{}{}
			r := <-done
			log = append(log, fmt.Sprintf("Open returned %q, size=%d", r.r, pt.size()))
			if pt.size() != 0 {
				bad("an Open that passed the status check before the process terminated left its entry in the port's map")
			}
			if r.e == nil || !epDone(r.e) {
				bad("the endpoint created in the window was not closed by the opening goroutine (returned " + r.r + ")")
			}
		})
		port.VerifSetYield(nil)
		if !ok {
			bad("the window scenario did not finish")
		}
	}
}

func runPorts(c *lib.Ctx, rng *lib.RNG, fails *[]lib.OracleFail) []lib.Mismatch {
	portWindow(fails)
	c.Count("port-window")

	sc := &lib.Script{}
	wedged := false
	for _, f := range c.CorpusFiles() {
		if !strings.HasSuffix(f, ".ops") || !strings.Contains(f, "/port") {
			continue
		}
		if !runPortCorpus(c, lib.ReadLines(f), sc, fails) {
			wedged = true
		}
		c.Count("corpus:" + f)
		c.Hit("corpus-port")
	}
	n := c.Scale(300, 3000)
	for i := 0; i < n && !wedged; i++ {
		key, ok := runPortStepCase(c, rng.Fork(), sc, fails)
		wedged = !ok
		if !strings.Contains(key, "run ") {
			key = ""
		}
		c.Count(key)
		if i == 0 {
			c.Sample(strings.Split(key, ";"))
		}
	}
	nf := c.Scale(300, 4000)
	for i := 0; i < nf && !wedged; i++ {
		key := runPortFreeCase(c, rng.Fork(), sc, fails)
		c.Count("port-free:" + key)
		if key == "" {
			break
		}
	}
	if !wedged {
		runPortConcurrentOpens(c, rng.Fork(), fails)
		runPortCloseCases(c, rng.Fork(), fails)
	}
	ms, err := c.RunModel("c05p", sc)
	if err != nil {
		c.Violation("model driver (ports) failed: "+err.Error(), "", false)
		return nil
	}
	return ms
}
