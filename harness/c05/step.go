package c05

// Step-controlled correspondence for process.Local at yield-point granularity.
//
// Every model thread is a real goroutine running one real operation on a real
// process.Local[int]. The verif-tagged yield hook of pkg/process (sites 1..5), the harness-owned
// initialiser (site 6) and the harness-owned parking exit hook (site 7) hand control back to
// the harness: a goroutine reaching a site reports on its own mailbox and waits for its own
// release channel. At any time at most one released goroutine is running, except goroutines
// that are blocked on a lazy initialiser's mutex held by a goroutine parked inside the
// initialiser: the harness knows this exactly (pointer identity of the *lazy passed to the hook
// at site 3) and does not wait for them; they are collected right after the holder is released.
// No comparison depends on timing; the only clock is the wedge watchdog.

import (
	"errors"
	"fmt"
	"runtime"
	"sort"
	"strconv"
	"strings"
	"sync"
	"sync/atomic"
	"time"

	"github.com/siyul-park/uniflow/pkg/process"

	"verifharness/lib"
)

const watchdog = 25 * time.Second

type arrival struct {
	returned bool
	inner    bool // result of an operation performed inside a re-entrant store hook
	site     int
	obj      any
	ret      string
}

type thread struct {
	arrive  chan arrival
	release chan struct{}
	busy    bool // an operation is in flight
	site    int  // yield site it is parked at (0 when blocked / not parked)
	lazy    any  // *lazy seen at site 3 (valid until the operation leaves fn.Do)
	blocked bool // released at site 3 while the lazy's initialiser is parked: waiting for fn.mu

	curOp   string        // kind of the operation in flight ("ash", "store", …)
	path    []string      // yield sites the operation in flight has passed (branch coverage)
	inHook  bool          // inside the re-entrant store hook called by AddStoreHook
	inInner atomic.Bool   // performing an operation inside that hook: yield points are not honoured
	inner   func() string // the operation to perform inside the hook on the next release (nil: return from the hook)
}

type ctl struct {
	mu      sync.Mutex
	gids    map[int64]int
	threads []*thread
}

func curGID() int64 {
	var buf [64]byte
	n := runtime.Stack(buf[:], false)
	s := string(buf[:n])
	s = strings.TrimPrefix(s, "goroutine ")
	if i := strings.IndexByte(s, ' '); i > 0 {
		if v, err := strconv.ParseInt(s[:i], 10, 64); err == nil {
			return v
		}
	}
	return -1
}

func (c *ctl) tid() (int, bool) {
	g := curGID()
	c.mu.Lock()
	defer c.mu.Unlock()
	t, ok := c.gids[g]
	return t, ok
}

// yield is called on the operation's goroutine at every yield site.
func (c *ctl) yield(site int, obj any) {
	t, ok := c.tid()
	if !ok {
		return // not a controlled goroutine
	}
	th := c.threads[t]
	if th.inInner.Load() {
		return // an operation performed inside a store hook runs through
	}
	th.arrive <- arrival{site: site, obj: obj}
	<-th.release
}

// start runs op on thread t's own goroutine.
func (c *ctl) start(t int, op func() string) {
	th := c.threads[t]
	th.busy = true
	ready := make(chan struct{})
	go func() {
		g := curGID()
		c.mu.Lock()
		c.gids[g] = t
		c.mu.Unlock()
		close(ready)
		r := op()
		c.mu.Lock()
		delete(c.gids, g)
		c.mu.Unlock()
		th.arrive <- arrival{returned: true, ret: r}
	}()
	<-ready
}

// await waits for thread t's next report. ok=false: the watchdog expired.
func (c *ctl) await(t int) (arrival, bool) {
	select {
	case a := <-c.threads[t].arrive:
		return a, true
	case <-time.After(watchdog):
		return arrival{}, false
	}
}

type stepCase struct {
	c     *lib.Ctx
	sc    *lib.Script
	ctl   *ctl
	l     *process.Local[int]
	procs []*process.Process
	shook []process.StoreHook[int]
	reHook process.StoreHook[int] // hook id 100: re-enters the Local / exits the process while it runs
	hmu   sync.Mutex
	log   []string // store-hook calls "h:v"
	inits []atomic.Int64
	trace []string
	fails *[]lib.OracleFail
	wedge bool

	// bookkeeping for the direct oracle
	exitStarted []bool
	delCapable  []bool // some Delete(p) / Close / Exit(p) was started
}

func newStepCase(c *lib.Ctx, sc *lib.Script, fails *[]lib.OracleFail, nthreads, nprocs int) *stepCase {
	s := &stepCase{c: c, sc: sc, fails: fails, l: process.NewLocal[int]()}
	s.ctl = &ctl{gids: map[int64]int{}}
	for i := 0; i < nthreads; i++ {
		s.ctl.threads = append(s.ctl.threads, &thread{arrive: make(chan arrival, 1), release: make(chan struct{})})
	}
	for i := 0; i < nprocs; i++ {
		s.procs = append(s.procs, process.New())
	}
	s.inits = make([]atomic.Int64, nprocs)
	s.exitStarted = make([]bool, nprocs)
	s.delCapable = make([]bool, nprocs)
	s.reHook = process.StoreFunc(func(v int) { s.reentrant(v) })
	for h := 0; h < 3; h++ {
		h := h
		s.shook = append(s.shook, process.StoreFunc(func(v int) {
			s.hmu.Lock()
			s.log = append(s.log, fmt.Sprintf("%d:%d", h, v))
			s.hmu.Unlock()
		}))
	}
	return s
}

func (s *stepCase) emit(line, out string) {
	s.sc.Op(line, out)
	s.trace = append(s.trace, line+" => "+out)
}

func (s *stepCase) fail(class, what string) {
	if len(*s.fails) < 20 {
		*s.fails = append(*s.fails, lib.OracleFail{Class: class, What: what, Replay: strings.Join(s.trace, "\n")})
	}
}

func commaInts(xs []int) string {
	if len(xs) == 0 {
		return "-"
	}
	ss := make([]string, len(xs))
	for i, x := range xs {
		ss[i] = strconv.Itoa(x)
	}
	return strings.Join(ss, ",")
}

func (s *stepCase) pidOf(p *process.Process) int {
	for i, q := range s.procs {
		if q == p {
			return i
		}
	}
	return -1
}

func (s *stepCase) keys() []int {
	var ks []int
	for _, p := range s.l.Keys() {
		ks = append(ks, s.pidOf(p))
	}
	sort.Ints(ks)
	return ks
}

// obs reads the observable state; no controlled goroutine holds l.mu while parked or blocked.
func (s *stepCase) obs() {
	ks := s.keys()
	e, lz, hk := s.l.VerifSizes()
	var in []int
	for i := range s.inits {
		in = append(in, int(s.inits[i].Load()))
	}
	s.hmu.Lock()
	lg := "-"
	if len(s.log) > 0 {
		lg = strings.Join(s.log, ",")
	}
	s.hmu.Unlock()
	s.emit(fmt.Sprintf("obs %d", len(s.procs)),
		fmt.Sprintf("keys=%s eager=%d lazy=%d hooks=%d inits=%s log=%s", commaInts(ks), e, lz, hk, commaInts(in), lg))
}

const reHookID = 100

// reentrant is the body of store hook 100. Called by AddStoreHook for a value that is already
// there (the calling thread's operation is `ash`) it parks at yield site 8 INSIDE the hook; every
// release either carries an operation to perform right here, on the same goroutine (Load / Keys /
// Store / Delete on the same Local, Exit of the process – the code must call the hook with the
// Local's lock released for these to return), or lets the hook return. Called from the fetched
// hooks of Store / LoadOrStore, or nested, it only logs.
func (s *stepCase) reentrant(v int) {
	logIt := func() {
		s.hmu.Lock()
		s.log = append(s.log, fmt.Sprintf("%d:%d", reHookID, v))
		s.hmu.Unlock()
	}
	t, ok := s.ctl.tid()
	if !ok {
		logIt()
		return
	}
	th := s.ctl.threads[t]
	if th.curOp != "ash" || th.inHook {
		logIt()
		return
	}
	th.inHook = true
	th.arrive <- arrival{site: 8}
	for {
		<-th.release
		op := th.inner
		if op == nil {
			break
		}
		th.inner = nil
		th.inInner.Store(true)
		r := op()
		th.inInner.Store(false)
		th.arrive <- arrival{inner: true, ret: r}
	}
	th.inHook = false
	logIt()
}

func goroutineDump() string {
	buf := make([]byte, 1<<20)
	n := runtime.Stack(buf, true)
	if n > 40000 {
		n = 40000
	}
	return "# goroutine dump at the time the watchdog fired\n" + string(buf[:n])
}

var errInit = errors.New("init failed")

// opFunc builds the real operation for a call line's tokens (after "call t").
func (s *stepCase) opFunc(f []string) (func() string, bool) {
	atoi := func(i int) int { v, _ := strconv.Atoi(f[i]); return v }
	need := func(n int) bool { return len(f) == n }
	pOK := func(i int) bool { v, err := strconv.Atoi(f[i]); return err == nil && v >= 0 && v < len(s.procs) }
	switch f[0] {
	case "store":
		if !need(3) || !pOK(1) {
			return nil, false
		}
		p, v := atoi(1), atoi(2)
		return func() string { s.l.Store(s.procs[p], v); return fmt.Sprintf("v %d", v) }, true
	case "load":
		if !need(2) || !pOK(1) {
			return nil, false
		}
		p := atoi(1)
		return func() string {
			v, ok := s.l.Load(s.procs[p])
			if !ok {
				return "none"
			}
			return fmt.Sprintf("v %d", v)
		}, true
	case "keys":
		if !need(2) {
			return nil, false
		}
		return func() string { return "keys " + commaInts(s.keys()) }, true
	case "los":
		if !need(4) || !pOK(1) {
			return nil, false
		}
		p, v, fl := atoi(1), atoi(2), atoi(3)
		return func() string {
			got, err := s.l.LoadOrStore(s.procs[p], func() (int, error) {
				s.ctl.yield(6, nil)
				s.inits[p].Add(1)
				if fl == 1 {
					return 0, errInit
				}
				return v, nil
			})
			if err != nil {
				return "none"
			}
			return fmt.Sprintf("v %d", got)
		}, true
	case "delete":
		if !need(2) || !pOK(1) {
			return nil, false
		}
		p := atoi(1)
		s.delCapable[p] = true
		return func() string { return strconv.FormatBool(s.l.Delete(s.procs[p])) }, true
	case "ash":
		if !need(3) || !pOK(1) || atoi(2) < 0 || (atoi(2) >= len(s.shook) && atoi(2) != reHookID) {
			return nil, false
		}
		p, h := atoi(1), atoi(2)
		if h == reHookID {
			return func() string { return strconv.FormatBool(s.l.AddStoreHook(s.procs[p], s.reHook)) }, true
		}
		return func() string { return strconv.FormatBool(s.l.AddStoreHook(s.procs[p], s.shook[h])) }, true
	case "close":
		if !need(1) {
			return nil, false
		}
		for i := range s.delCapable {
			s.delCapable[i] = true
		}
		return func() string { s.l.Close(); return "unit" }, true
	case "exit":
		if !need(2) || !pOK(1) {
			return nil, false
		}
		p := atoi(1)
		s.exitStarted[p] = true
		s.delCapable[p] = true
		return func() string { s.procs[p].Exit(nil); return "unit" }, true
	case "addhook":
		if !need(2) || !pOK(1) {
			return nil, false
		}
		p := atoi(1)
		return func() string {
			s.procs[p].AddExitHook(process.ExitFunc(func(error) { s.ctl.yield(7, nil) }))
			return "unit"
		}, true
	}
	return nil, false
}

// settle records thread t's report after it was started or released.
func (s *stepCase) settle(t int, line string) bool {
	th := s.ctl.threads[t]
	a, ok := s.ctl.await(t)
	if !ok {
		s.wedge = true
		s.emit(line, "wedged")
		s.fail("wedge", fmt.Sprintf("thread %d made no progress for %v after %q although no parked goroutine holds a mutex it needs", t, watchdog, line))
		return false
	}
	th.blocked = false
	if a.returned {
		th.busy, th.site, th.lazy = false, 0, nil
		// which branch of the method ran: the yield sites passed and the kind of result
		s.c.Hit("branch-" + th.curOp + "-" + strings.Join(th.path, ".") + "-" + strings.Fields(a.ret + " -")[0])
		s.emit(line, "ret "+a.ret)
	} else {
		th.site = a.site
		th.path = append(th.path, fmt.Sprint("y", a.site))
		if a.site == 3 {
			th.lazy = a.obj
		}
		if a.site == 4 {
			th.lazy = nil
		}
		s.emit(line, fmt.Sprintf("y%d", a.site))
	}
	s.obs()
	return true
}

// do executes one action line ("call t …" or "run t"); false when the line is not applicable.
func (s *stepCase) do(line string) bool {
	f := strings.Fields(line)
	if len(f) < 2 {
		return false
	}
	t, err := strconv.Atoi(f[1])
	if err != nil || t < 0 || t >= len(s.ctl.threads) {
		return false
	}
	th := s.ctl.threads[t]
	switch f[0] {
	case "call":
		if th.busy || len(f) < 3 {
			return false
		}
		op, ok := s.opFunc(f[2:])
		if !ok {
			return false
		}
		s.c.Hit("step-op-" + f[2])
		th.curOp = f[2]
		th.path = nil
		s.ctl.start(t, op)
		return s.settle(t, line)
	case "inner":
		// thread t is parked inside its re-entrant store hook and performs the operation there
		if !th.busy || th.site != 8 || len(f) < 3 {
			return false
		}
		switch f[2] {
		case "load", "keys", "store", "delete", "exit":
		default:
			return false
		}
		op, ok := s.opFunc(f[2:])
		if !ok {
			return false
		}
		s.c.Hit("step-inner-" + f[2])
		th.inner = op
		th.release <- struct{}{}
		a, ok := s.ctl.await(t)
		if !ok {
			s.wedge = true
			s.emit(line, "wedged")
			if len(*s.fails) < 20 {
				*s.fails = append(*s.fails, lib.OracleFail{Class: "store-hook-deadlock",
					What:   fmt.Sprintf("%q performed inside the store hook that AddStoreHook calls for a value already stored did not return within %v: the hook is not called with the Local's lock released", strings.Join(f[2:], " "), watchdog),
					Replay: strings.Join(s.trace, "\n") + "\n" + goroutineDump()})
			}
			return false
		}
		s.emit(line, "ret "+a.ret)
		s.obs()
		return true
	case "run":
		if !th.busy || th.blocked || len(f) != 2 {
			return false
		}
		from := th.site
		s.c.Hit(fmt.Sprintf("step-release-y%d", from))
		if from == 3 {
			// fn.Do() blocks iff a goroutine is parked inside this very lazy's initialiser
			for u, o := range s.ctl.threads {
				if u != t && o.busy && o.site == 6 && o.lazy == th.lazy {
					th.blocked, th.site = true, 0
					th.release <- struct{}{}
					s.emit(line, "blocked")
					s.c.Hit("step-blocked-on-lazy")
					s.obs()
					return true
				}
			}
		}
		lz := th.lazy
		th.site = 0
		th.release <- struct{}{}
		if !s.settle(t, line) {
			return false
		}
		if from == 6 {
			// the initialiser returned: everyone blocked on this lazy's mutex proceeds
			for u, o := range s.ctl.threads {
				if o.busy && o.blocked && o.lazy == lz {
					if !s.settle(u, fmt.Sprintf("run %d", u)) {
						return false
					}
				}
			}
		}
		return true
	}
	return false
}

// active lists the threads that can be released.
func (s *stepCase) releasable() []int {
	var r []int
	for t, th := range s.ctl.threads {
		if th.busy && !th.blocked {
			r = append(r, t)
		}
	}
	return r
}

func (s *stepCase) idle() []int {
	var r []int
	for t, th := range s.ctl.threads {
		if !th.busy {
			r = append(r, t)
		}
	}
	return r
}

// drain releases parked threads until every operation has returned.
func (s *stepCase) drain(rng *lib.RNG) {
	for !s.wedge {
		r := s.releasable()
		if len(r) == 0 {
			return
		}
		t := r[0]
		if rng != nil {
			t = lib.Pick(rng, r)
		}
		if !s.do(fmt.Sprintf("run %d", t)) {
			return
		}
	}
}

// finish: exit every process that is still running, then check the property's statement
// directly: nothing is left for a terminated process, and without a Delete / Close / Exit the
// initialiser of a process ran at most once.
func (s *stepCase) finish(rng *lib.RNG) {
	s.drain(rng)
	if s.wedge {
		return
	}
	initsBefore := make([]int64, len(s.procs))
	for p := range s.procs {
		initsBefore[p] = s.inits[p].Load()
		if !s.delCapable[p] && initsBefore[p] > 1 {
			s.fail("lazy-twice", fmt.Sprintf("process %d: initialiser ran %d times although no Delete/Close/Exit was ever started", p, initsBefore[p]))
		}
	}
	for p := range s.procs {
		if !s.exitStarted[p] {
			if !s.do(fmt.Sprintf("call 0 exit %d", p)) {
				return
			}
			s.drain(rng)
			if s.wedge {
				return
			}
		}
	}
	for p, pr := range s.procs {
		if _, ok := s.l.Load(pr); ok {
			s.fail("local-residue", fmt.Sprintf("process %d terminated and all operations returned, but Load still finds a value", p))
		}
	}
	if ks := s.keys(); len(ks) != 0 {
		s.fail("local-residue", fmt.Sprintf("all processes terminated and all operations returned, but Keys() = %v", ks))
	}
	if e, _, _ := s.l.VerifSizes(); e != 0 {
		s.fail("local-residue", fmt.Sprintf("all processes terminated and all operations returned, but len(eager) = %d", e))
	}
}

var stepOps = []string{"store", "load", "keys", "los", "delete", "ash", "close", "exit", "addhook"}

// genCall draws a call line for thread t.
func genCall(rng *lib.RNG, t, nprocs int) string {
	p := rng.Intn(nprocs)
	switch rng.Weighted([]int{6, 3, 1, 8, 3, 3, 1, 3, 2}) {
	case 0:
		return fmt.Sprintf("call %d store %d %d", t, p, rng.Range(1, 9))
	case 1:
		return fmt.Sprintf("call %d load %d", t, p)
	case 2:
		return fmt.Sprintf("call %d keys %d", t, nprocs)
	case 3:
		fl := 0
		if rng.Chance(1, 6) {
			fl = 1
		}
		return fmt.Sprintf("call %d los %d %d %d", t, p, rng.Range(1, 9), fl)
	case 4:
		return fmt.Sprintf("call %d delete %d", t, p)
	case 5:
		if rng.Chance(2, 5) {
			return fmt.Sprintf("call %d ash %d %d", t, p, reHookID) // the re-entrant hook
		}
		return fmt.Sprintf("call %d ash %d %d", t, p, rng.Intn(3))
	case 6:
		return fmt.Sprintf("call %d close", t)
	case 7:
		return fmt.Sprintf("call %d exit %d", t, p)
	default:
		return fmt.Sprintf("call %d addhook %d", t, p)
	}
}

// runStepCase runs one generated case; returns the evidence key.
func runStepCase(c *lib.Ctx, rng *lib.RNG, sc *lib.Script, fails *[]lib.OracleFail) (string, bool) {
	nthreads, nprocs := rng.Range(2, 4), rng.Range(1, 3)
	s := newStepCase(c, sc, fails, nthreads, nprocs)
	process.VerifSetYield(s.ctl.yield)
	defer process.VerifSetYield(nil)
	sc.Begin()
	n := rng.Range(6, c.Scale(40, 90))
	for i := 0; i < n && !s.wedge; i++ {
		idle, rel := s.idle(), s.releasable()
		if len(idle) > 0 && (len(rel) == 0 || rng.Chance(2, 5)) {
			s.do(genCall(rng, lib.Pick(rng, idle), nprocs))
		} else if len(rel) > 0 {
			t := lib.Pick(rng, rel)
			if s.ctl.threads[t].site == 8 && rng.Chance(3, 5) {
				s.do(genInner(rng, t, nprocs))
			} else {
				s.do(fmt.Sprintf("run %d", t))
			}
		}
	}
	s.finish(rng)
	return strings.Join(s.trace, ";"), !s.wedge
}

// genInner draws what thread t, parked inside its re-entrant store hook, does there.
func genInner(rng *lib.RNG, t, nprocs int) string {
	p := rng.Intn(nprocs)
	switch rng.Weighted([]int{3, 1, 3, 3, 3}) {
	case 0:
		return fmt.Sprintf("inner %d load %d", t, p)
	case 1:
		return fmt.Sprintf("inner %d keys %d", t, nprocs)
	case 2:
		return fmt.Sprintf("inner %d store %d %d", t, p, rng.Range(1, 9))
	case 3:
		return fmt.Sprintf("inner %d delete %d", t, p)
	default:
		return fmt.Sprintf("inner %d exit %d", t, p)
	}
}

// runStepCorpus replays a corpus file (action lines; `obs` lines are regenerated).
func runStepCorpus(c *lib.Ctx, lines []string, sc *lib.Script, fails *[]lib.OracleFail) bool {
	s := newStepCase(c, sc, fails, 4, 3)
	process.VerifSetYield(s.ctl.yield)
	defer process.VerifSetYield(nil)
	sc.Begin()
	for _, ln := range lines {
		if strings.HasPrefix(ln, "obs") {
			continue
		}
		s.do(ln) // lines that are not applicable in the current state are skipped
		if s.wedge {
			break
		}
	}
	s.finish(nil)
	return !s.wedge
}
