// Package c11: indexes never change the result of a query, only its cost.
//
// One history (inserts, updates, upserts, deletes and many finds; filters biased to ranges, $and/$or of ranges,
// conditions on non-leading index keys) is replayed on several real stores that differ only in their index
// configuration: the baseline has no secondary index; every other store creates and drops random single / compound /
// unique / partial indexes over {a, b, n.x} at random points of the history.
// (a) correspondence: every replay is mirrored line by line into Uniflow.Index.step (one model case per store).
// (b) property oracle (differential, independent of the model): every operation's canonical answer on every
//     configuration must equal the baseline's answer to the same operation – hence pairwise equal. A configuration
//     with a unique index is compared only up to the first call that index rejects (a unique index is *meant* to
//     change the outcome of such a call); that a rejection leaves no trace is C12's. In addition every find of every
//     configuration is compared with the reference evaluation of its filter over the SAME store's full scan
//     (`Find(nil)`), which keeps checking after such a rejection: an index that lost or kept a stale document shows.
package c11

import (
	"fmt"
	"strings"

	"verifharness/lib"
	sg "verifharness/storegen"
)

type placed struct {
	at int // before history op `at`
	op sg.Op
}

func genHistory(c *lib.Ctx, rng *lib.RNG, depth, steps int) []sg.Op {
	g := &sg.Gen{R: rng, Depth: depth, Hit: c.Hit}
	filter := func() sg.Map {
		switch rng.Weighted([]int{10, 5, 1}) {
		case 0:
			return g.RangeFilter(depth)
		case 1:
			return g.Filter(rng.Range(1, depth))
		}
		return nil
	}
	var ops []sg.Op
	for i := 0; i < rng.Range(2, 6); i++ {
		ops = append(ops, sg.Op{Kind: "ins", Docs: []sg.Map{g.Doc()}})
	}
	for len(ops) < steps {
		switch rng.Weighted([]int{5, 4, 1, 2, 12, 1}) {
		case 0:
			ops = append(ops, sg.Op{Kind: "ins", Docs: []sg.Map{g.Doc()}})
		case 1:
			ops = append(ops, sg.Op{Kind: "upd", Filter: filter(), Update: g.Update()})
		case 2:
			ops = append(ops, sg.Op{Kind: "upd", Filter: g.UpsertFilter(), Update: g.Update(), Upsert: true})
		case 3:
			ops = append(ops, sg.Op{Kind: "del", Filter: filter()})
		case 4:
			o := sg.Op{Kind: "find", Filter: filter()}
			g.FindOpts(&o)
			ops = append(ops, o)
		default:
			ops = append(ops, sg.Op{Kind: "find", Filter: g.Malformed(2)})
		}
		if k := ops[len(ops)-1].Kind; k != "find" { // read everything back after a mutation
			ops = append(ops, sg.Op{Kind: "find"})
		}
	}
	return ops
}

func genConfig(rng *lib.RNG, g *sg.Gen, n int, unique bool) []placed {
	var ps []placed
	for i := 0; i < rng.Range(1, 4); i++ {
		o := g.IndexSpec()
		if !unique {
			o.Unique = false
		}
		at := rng.Intn(n)
		if rng.Chance(1, 3) {
			at = 0
		}
		ps = append(ps, placed{at, o})
		if rng.Chance(1, 3) { // dropped (or replaced) later
			d := sg.Op{Kind: "unidx", Keys: o.Keys}
			if rng.Chance(1, 3) {
				d = g.IndexSpec()
				d.Keys = o.Keys
				if !unique {
					d.Unique = false
				}
			}
			ps = append(ps, placed{rng.Range(at, n), d})
		}
	}
	return ps
}

func describe(ps []placed) string {
	var s []string
	for _, p := range ps {
		s = append(s, fmt.Sprintf("@%d %s", p.at, p.op.Line()))
	}
	return strings.Join(s, "; ")
}

// replay runs the history on a fresh store with the index operations of cfg interleaved; it returns the canonical
// answer of every history operation (index operations excluded).
func replay(k *sg.Case, ops []sg.Op, cfg []placed) []string {
	out := make([]string, len(ops))
	for i, o := range ops {
		for _, p := range cfg {
			if p.at == i {
				r := k.Do(p.op)
				k.C.Hit("index-op:" + r.Canon(p.op))
			}
		}
		res := k.Do(o)
		out[i] = res.Canon(o)
		scanCheck(k, o, res, cfg)
	}
	return out
}

// scanCheck: whatever the index configuration and whatever a unique index rejected before, a find must return what
// the reference evaluation of its filter selects from the SAME store's full scan (`Find(nil)` has no plan: it walks
// the primary tree). This keeps checking a configuration after the point where it legitimately parts from the
// baseline (a unique index rejected a call) – where a half-applied rejected write shows: the document is in the
// primary tree but missing from the indexes created after the unique one.
func scanCheck(k *sg.Case, o sg.Op, res sg.Result, cfg []placed) {
	if o.Kind != "find" || res.Kind != "docs" {
		return
	}
	scan := sg.Exec(k.St, sg.Op{Kind: "find"})
	if scan.Kind != "docs" {
		return
	}
	ref := &sg.RefStore{Docs: scan.Docs}
	if msg := ref.Apply(o).Check(o, res); msg != "" {
		k.Fail("index-vs-full-scan", fmt.Sprintf("`%s` with indexes [%s] disagrees with the reference evaluation over the same store's full scan: %s",
			o.Line(), describe(cfg), msg))
	}
	k.C.Hit("oracle:find-vs-own-full-scan")
}

func history(c *lib.Ctx, sc *lib.Script, fails *[]lib.OracleFail, rng *lib.RNG, depth, steps, configs int) {
	ops := genHistory(c, rng, depth, steps)
	var directed []placed
	directedUnique := false
	switch rng.Weighted([]int{7, 2, 2}) {
	case 1:
		tops, tidx, tat := (&sg.Gen{R: rng, Depth: depth, Hit: c.Hit}).PartialTransition()
		ops, directed, directedUnique = tops, []placed{{tat, tidx}}, tidx.Unique
		c.Hit("history:partial-index-transition")
	case 2:
		// unique first, plain later; documents lacking the unique key (seeded change c11e)
		sops, u, p := (&sg.Gen{R: rng, Depth: depth, Hit: c.Hit}).SparseUnique()
		at := 0
		if rng.Chance(1, 3) {
			at = rng.Intn(len(sops))
		}
		uat := 0
		if rng.Chance(1, 4) {
			uat = rng.Intn(at + 1)
		}
		ops, directed, directedUnique = sops, []placed{{uat, u}, {at, p}}, true
		c.Hit("history:sparse-unique-then-plain")
	}
	// SIZE FAMILY (storegen/large.go): one history in ten (one in five at thorough) on 64–150 documents with
	// compound indexes (2–3 keys; plain, partial, unique) created before the load, over the loaded data, or later, and
	// dropped again; filters that bound the leading key by a range over ≥ 33 distinct values and the next key too,
	// `$or` lists of 17–40 alternatives, updates / deletes of dozens of documents, sort + skip/limit over large results.
	var largeFam *sg.Large
	var nload int
	if rng.Chance(1, c.Scale(10, 5)) {
		lg := &sg.Gen{R: rng, Depth: depth, Hit: c.Hit}
		largeFam = lg.NewLarge(rng.Chance(1, 3))
		ops = largeFam.Load()
		nload = len(ops)
		ops = append(ops, sg.Op{Kind: "find"})
		ops = append(ops, largeFam.Ops(rng.Range(8, 16))...)
		directed = nil
		configs = 2
		c.Hit("history:large-store")
	}
	base := sg.NewCase(c, sc, fails, false)
	want := replay(base, ops, nil)
	g := &sg.Gen{R: rng, Depth: depth}
	for n := 0; n < configs && len(*fails) == 0; n++ {
		unique := rng.Chance(1, 4)
		cfg := genConfig(rng, g, len(ops), unique)
		if directed != nil && n == 0 {
			cfg, unique = directed, directedUnique
		}
		if largeFam != nil {
			cfg, unique = nil, false
			for _, ix := range largeFam.Indexes() {
				at := lib.Pick(rng, []int{0, 0, nload, nload + 1, rng.Intn(len(ops))})
				cfg = append(cfg, placed{at, ix})
				unique = unique || ix.Unique
				if rng.Chance(1, 4) {
					cfg = append(cfg, placed{rng.Range(at, len(ops)-1), sg.Op{Kind: "unidx", Keys: ix.Keys}})
				}
			}
		}
		k := sg.NewCase(c, sc, fails, false)
		got := replay(k, ops, cfg)
		for i := range ops {
			if got[i] == want[i] {
				continue
			}
			if unique && got[i] == "err keyDuplicate" {
				c.Hit("config:unique-index-rejected-a-call")
				break // from here on the contents legitimately differ
			}
			k.Fail("index-changes-result", fmt.Sprintf("operation %d `%s`\n  without secondary indexes: %s\n  with indexes [%s]: %s",
				i, ops[i].Line(), want[i], describe(cfg), got[i]))
			break
		}
		if unique {
			c.Hit("config:with-unique")
		} else {
			c.Hit("config:non-unique")
		}
	}
}

// a corpus file: the history; lines starting with `@` are the index operations of the second store
func corpus(c *lib.Ctx, sc *lib.Script, fails *[]lib.OracleFail, path string) {
	var ops []sg.Op
	var cfg []placed
	for _, ln := range lib.ReadLines(path) {
		idx := strings.HasPrefix(ln, "@")
		o, err := sg.ParseOp(strings.TrimSpace(strings.TrimPrefix(ln, "@")))
		if err != nil {
			*fails = append(*fails, lib.OracleFail{Class: "corpus", What: path + ": " + err.Error()})
			return
		}
		if idx {
			cfg = append(cfg, placed{len(ops), o})
		} else {
			ops = append(ops, o)
		}
	}
	want := replay(sg.NewCase(c, sc, fails, false), ops, nil)
	k := sg.NewCase(c, sc, fails, false)
	got := replay(k, ops, cfg)
	for i := range ops {
		if got[i] != want[i] {
			k.Fail("index-changes-result", fmt.Sprintf("operation %d `%s`\n  without secondary indexes: %s\n  with indexes [%s]: %s",
				i, ops[i].Line(), want[i], describe(cfg), got[i]))
			break
		}
	}
	c.Hit("corpus:" + path[strings.LastIndex(path, "/")+1:])
}

func Run(c *lib.Ctx) {
	rng := lib.NewRNG(c.Seed)
	sc := &lib.Script{}
	var fails []lib.OracleFail
	for _, f := range c.CorpusFiles() {
		corpus(c, sc, &fails, f)
	}
	depth := c.Scale(3, 5)
	for i := 0; i < c.Scale(600, 8000) && len(fails) == 0; i++ {
		history(c, sc, &fails, rng.Fork(), depth, rng.Range(10, 30), c.Scale(4, 6))
	}
	if n := len(sc.Lines); n > 40 {
		for _, i := range []int{n / 3, 2 * n / 3} {
			c.Sample(map[string]string{"op": sc.Lines[i], "store": sc.Want[i]})
		}
	}
	c.Rule = "one case = one operation replayed on one index configuration; non-trivial when it returned documents, changed documents or was rejected; distinct by its line within the run"
	c.Assumptions = []string{
		"index filters are well-formed (DESIGN.md §5 C10 (v))",
		"a configuration containing a unique index is compared with the baseline only up to the first call the unique index rejects",
		"B-tree range iteration returns exactly the keys within the inclusive bounds (google/btree with a strict weak order, C14)",
	}
	c.Trusted = []string{"google/btree (modelled as a sorted association list)", "types.Map internals (C15)"}
	sg.SelfCheck(c, &fails) // the reference's own order / equality against the value layer's, once per run
	c.Assumptions = append(c.Assumptions, sg.Independence)
	ms, err := c.RunModel("c11", sc)
	if err != nil {
		c.Violation("model driver failed: "+err.Error(), "", false)
		return
	}
	c.Conclude("store.Store ≈ Uniflow.Index.step (index configurations)", ms, fails)
}
