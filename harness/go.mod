module verifharness

go 1.23.4

require (
	github.com/davecgh/go-spew v1.1.2-0.20180830191138-d8f796af33cc
	github.com/gofrs/uuid v4.4.0+incompatible
	github.com/siyul-park/uniflow v0.0.0
)

require (
	github.com/google/btree v1.1.3 // indirect
	github.com/iancoleman/strcase v0.3.0 // indirect
	github.com/pkg/errors v0.9.1 // indirect
	golang.org/x/exp v0.0.0-20250305212735-054e65f0b394 // indirect
)

replace github.com/siyul-park/uniflow => /repo
