module verifharness

go 1.23.4

require (
	github.com/davecgh/go-spew v1.1.2-0.20180830191138-d8f796af33cc
	github.com/gofrs/uuid v4.4.0+incompatible
	github.com/pkg/errors v0.9.1
	github.com/siyul-park/uniflow v0.0.0
)

require (
	github.com/gabriel-vasile/mimetype v1.4.8 // indirect
	github.com/go-playground/locales v0.14.1 // indirect
	github.com/go-playground/universal-translator v0.18.1 // indirect
	github.com/go-playground/validator/v10 v10.25.0 // indirect
	github.com/google/btree v1.1.3 // indirect
	github.com/iancoleman/strcase v0.3.0 // indirect
	github.com/leodido/go-urn v1.4.0 // indirect
	golang.org/x/crypto v0.36.0 // indirect
	golang.org/x/exp v0.0.0-20250305212735-054e65f0b394 // indirect
	golang.org/x/net v0.37.0 // indirect
	golang.org/x/sync v0.12.0 // indirect
	golang.org/x/sys v0.31.0 // indirect
	golang.org/x/text v0.23.0 // indirect
)

replace github.com/siyul-park/uniflow => /repo
