// Package storegen is shared by the harnesses of C10, C11 and C12: operations on a store and their line
// form for the model driver (lean/Uniflow/Driver/C10.lean), a runner that executes them on a real
// store.Store and canonicalises what it answers, generators over small alphabets, and a reference
// evaluator written directly from the property statements (the oracles' yardstick).
package storegen

import (
	"context"
	"errors"
	"fmt"
	"sort"
	"strconv"
	"strings"

	"github.com/siyul-park/uniflow/pkg/encoding"
	"github.com/siyul-park/uniflow/pkg/store"
	"github.com/siyul-park/uniflow/pkg/types"

	"verifharness/lib"
)

// Op is one call on the store.
type Op struct {
	Kind   string // ins | upd | del | find | idx | unidx
	Docs   []types.Map
	Filter types.Map // nil = nil filter
	Update types.Map
	Upsert bool
	Sort   types.Map // nil = unsorted
	Skip   int
	Limit  int
	Keys   []string
	Unique bool

	// How the call is SPELLED – not part of the model line (the model has one document value and no context):
	MutDocs bool // ins: the documents are handed over as MUTABLE types.Map values (repo c5fc5ad)
	DeadCtx bool // ins/upd/del: the caller's context is already cancelled (the in-memory store must not care)
}

func S(s string) types.Value { return types.NewString(s) }

func filterTok(f types.Map) string {
	if f == nil {
		return "n"
	}
	return lib.EncodeVal(f)
}

// Mode is the comparison mode of a find: exact sequence, tie classes, or sort keys only.
func (o Op) Mode() string {
	switch {
	case o.Sort == nil:
		return "seq"
	case o.Skip == 0 && o.Limit == 0:
		return "cls"
	}
	return "keys"
}

// Line is the operation in the driver's line protocol.
func (o Op) Line() string {
	b01 := func(b bool) string {
		if b {
			return "1"
		}
		return "0"
	}
	keys := func() string {
		ks := make([]string, len(o.Keys))
		for i, k := range o.Keys {
			ks[i] = lib.EncodeVal(S(k))
		}
		return strings.TrimSpace(fmt.Sprintf("%d %s", len(ks), strings.Join(ks, " ")))
	}
	switch o.Kind {
	case "ins":
		ds := make([]string, len(o.Docs))
		for i, d := range o.Docs {
			ds[i] = lib.EncodeVal(d)
		}
		return strings.TrimSpace(fmt.Sprintf("ins %d %s", len(ds), strings.Join(ds, " ")))
	case "upd":
		return fmt.Sprintf("upd %s %s %s", b01(o.Upsert), filterTok(o.Filter), lib.EncodeVal(o.Update))
	case "del":
		return "del " + filterTok(o.Filter)
	case "find":
		return fmt.Sprintf("find %s %d %d %s %s", o.Mode(), o.Skip, o.Limit, filterTok(o.Sort), filterTok(o.Filter))
	case "idx":
		return fmt.Sprintf("idx %s %s %s", b01(o.Unique), keys(), filterTok(o.Filter))
	case "unidx":
		return "unidx " + keys()
	}
	return "bad"
}

func asMap(v types.Value) (types.Map, bool) {
	if v == nil {
		return nil, true
	}
	m, ok := v.(types.Map)
	return m, ok
}

// ParseOp reads a line of the driver protocol (corpus files).
func ParseOp(line string) (Op, error) {
	f := strings.Fields(line)
	bad := fmt.Errorf("storegen: bad line %q", line)
	if len(f) == 0 {
		return Op{}, bad
	}
	vals := func(toks []string, n int) ([]types.Value, []string, error) {
		var out []types.Value
		for i := 0; i < n; i++ {
			v, rest, err := lib.DecodeVal(toks)
			if err != nil {
				return nil, nil, err
			}
			out, toks = append(out, v), rest
		}
		return out, toks, nil
	}
	keys := func(toks []string) ([]string, []string, error) {
		if len(toks) == 0 {
			return nil, nil, bad
		}
		n, err := strconv.Atoi(toks[0])
		if err != nil {
			return nil, nil, bad
		}
		vs, rest, err := vals(toks[1:], n)
		if err != nil {
			return nil, nil, err
		}
		ks := make([]string, n)
		for i, v := range vs {
			s, ok := v.(types.String)
			if !ok {
				return nil, nil, bad
			}
			ks[i] = s.String()
		}
		return ks, rest, nil
	}
	o := Op{Kind: f[0]}
	switch f[0] {
	case "ins":
		if len(f) < 2 {
			return o, bad
		}
		n, err := strconv.Atoi(f[1])
		if err != nil {
			return o, bad
		}
		vs, rest, err := vals(f[2:], n)
		if err != nil || len(rest) != 0 {
			return o, bad
		}
		for _, v := range vs {
			m, ok := v.(types.Map)
			if !ok {
				return o, bad
			}
			o.Docs = append(o.Docs, m)
		}
	case "upd":
		if len(f) < 2 {
			return o, bad
		}
		o.Upsert = f[1] == "1"
		vs, rest, err := vals(f[2:], 2)
		if err != nil || len(rest) != 0 {
			return o, bad
		}
		var ok1, ok2 bool
		o.Filter, ok1 = asMap(vs[0])
		o.Update, ok2 = vs[1].(types.Map)
		if !ok1 || !ok2 {
			return o, bad
		}
	case "del":
		vs, rest, err := vals(f[1:], 1)
		if err != nil || len(rest) != 0 {
			return o, bad
		}
		var ok bool
		if o.Filter, ok = asMap(vs[0]); !ok {
			return o, bad
		}
	case "find":
		if len(f) < 4 {
			return o, bad
		}
		var err1, err2 error
		o.Skip, err1 = strconv.Atoi(f[2])
		o.Limit, err2 = strconv.Atoi(f[3])
		vs, rest, err := vals(f[4:], 2)
		if err != nil || err1 != nil || err2 != nil || len(rest) != 0 {
			return o, bad
		}
		var ok1, ok2 bool
		o.Sort, ok1 = asMap(vs[0])
		o.Filter, ok2 = asMap(vs[1])
		if !ok1 || !ok2 || o.Mode() != f[1] {
			return o, bad
		}
	case "idx":
		if len(f) < 3 {
			return o, bad
		}
		o.Unique = f[1] == "1"
		ks, rest, err := keys(f[2:])
		if err != nil {
			return o, bad
		}
		o.Keys = ks
		vs, rest, err := vals(rest, 1)
		if err != nil || len(rest) != 0 {
			return o, bad
		}
		var ok bool
		if o.Filter, ok = asMap(vs[0]); !ok {
			return o, bad
		}
	case "unidx":
		ks, rest, err := keys(f[1:])
		if err != nil || len(rest) != 0 {
			return o, bad
		}
		o.Keys = ks
	default:
		return o, bad
	}
	return o, nil
}

// Result is what a store answered, decoded to values.
type Result struct {
	Kind string // ok | n | docs | err | panic
	N    int
	Docs []types.Map
	Err  string // error class
	Msg  string
}

// ErrClass maps an error of pkg/store to the model's class names.
func ErrClass(err error) string {
	switch {
	case errors.Is(err, store.ErrKeyMissing):
		return "keyMissing"
	case errors.Is(err, store.ErrKeyDuplicate):
		return "keyDuplicate"
	case errors.Is(err, store.ErrKeyNotFound):
		return "keyNotFound"
	case errors.Is(err, store.ErrUnsupportedOperation):
		return "unsupportedOperation"
	case errors.Is(err, store.ErrUnsupportedType), errors.Is(err, encoding.ErrUnsupportedType):
		return "unsupportedType"
	}
	return "other:" + err.Error()
}

func encDocs(ds []types.Map) []string {
	out := make([]string, len(ds))
	for i, d := range ds {
		out[i] = lib.EncodeVal(d)
	}
	return out
}

// SortKey is the wire form of the document's values of the sort fields.
func SortKey(spec, d types.Map) string {
	var ks []string
	for f := range spec.Range() {
		ks = append(ks, lib.EncodeVal(Field(d, f)))
	}
	return strings.Join(ks, " ")
}

func tie(spec, x, y types.Map) bool {
	for f := range spec.Range() {
		if RCompare(Field(x, f), Field(y, f)) != 0 {
			return false
		}
	}
	return true
}

// Classes splits a sorted result into its runs of documents that tie on the sort, each run in id order.
func Classes(spec types.Map, ds []types.Map) [][]types.Map {
	var out [][]types.Map
	for _, d := range ds {
		if n := len(out); n > 0 && tie(spec, out[n-1][0], d) {
			out[n-1] = append(out[n-1], d)
		} else {
			out = append(out, []types.Map{d})
		}
	}
	for _, c := range out {
		sort.SliceStable(c, func(i, j int) bool { return RCompare(Field(c[i], S("id")), Field(c[j], S("id"))) < 0 })
	}
	return out
}

// Canon renders a result exactly as the model driver prints the model's.
func (r Result) Canon(o Op) string {
	switch r.Kind {
	case "ok":
		return "ok"
	case "n":
		return fmt.Sprintf("n %d", r.N)
	case "err":
		return "err " + r.Err
	case "panic":
		return "panic"
	}
	switch o.Mode() {
	case "cls":
		var cs []string
		for _, c := range Classes(o.Sort, r.Docs) {
			cs = append(cs, strings.Join(encDocs(c), " | "))
		}
		return fmt.Sprintf("cls %d %s", len(r.Docs), strings.Join(cs, " || "))
	case "keys":
		ks := make([]string, len(r.Docs))
		for i, d := range r.Docs {
			ks[i] = SortKey(o.Sort, d)
		}
		return fmt.Sprintf("keys %d %s", len(r.Docs), strings.Join(ks, " | "))
	}
	return fmt.Sprintf("docs %d %s", len(r.Docs), strings.Join(encDocs(r.Docs), " | "))
}

func anyMap(m types.Map) any {
	if m == nil {
		return nil
	}
	return m
}

// Exec runs the operation on the store; panics of the implementation are caught.
func Exec(st store.Store, o Op) (res Result) {
	ctx := context.Background()
	mctx := ctx
	if o.DeadCtx {
		c, cancel := context.WithCancel(ctx)
		cancel()
		mctx = c
	}
	defer func() {
		if r := recover(); r != nil {
			res = Result{Kind: "panic", Msg: fmt.Sprint(r)}
		}
	}()
	fail := func(err error) Result { return Result{Kind: "err", Err: ErrClass(err), Msg: err.Error()} }
	switch o.Kind {
	case "ins":
		docs := make([]any, len(o.Docs))
		for i, d := range o.Docs {
			docs[i] = d
			if o.MutDocs {
				docs[i] = d.Mutable()
			}
		}
		if err := st.Insert(mctx, docs); err != nil {
			return fail(err)
		}
		return Result{Kind: "ok"}
	case "upd":
		n, err := st.Update(mctx, anyMap(o.Filter), o.Update, store.UpdateOptions{Upsert: o.Upsert})
		if err != nil {
			return fail(err)
		}
		return Result{Kind: "n", N: n}
	case "del":
		n, err := st.Delete(mctx, anyMap(o.Filter))
		if err != nil {
			return fail(err)
		}
		return Result{Kind: "n", N: n}
	case "find":
		opt := store.FindOptions{Skip: o.Skip, Limit: o.Limit}
		if o.Sort != nil {
			opt.Sort = o.Sort
		}
		cur, err := st.Find(ctx, anyMap(o.Filter), opt)
		if err != nil {
			return fail(err)
		}
		var vals []types.Value
		if err := cur.All(ctx, &vals); err != nil {
			return Result{Kind: "err", Err: "decode:" + err.Error(), Msg: err.Error()}
		}
		docs := make([]types.Map, len(vals))
		for i, v := range vals {
			m, ok := v.(types.Map)
			if !ok {
				return Result{Kind: "err", Err: "decode: not a map"}
			}
			docs[i] = m
		}
		return Result{Kind: "docs", Docs: docs}
	case "idx":
		opt := store.IndexOptions{Unique: o.Unique}
		if o.Filter != nil {
			opt.Filter = o.Filter
		}
		if err := st.Index(ctx, o.Keys, opt); err != nil {
			return fail(err)
		}
		return Result{Kind: "ok"}
	case "unidx":
		if err := st.Unindex(ctx, o.Keys); err != nil {
			return fail(err)
		}
		return Result{Kind: "ok"}
	}
	return Result{Kind: "err", Err: "bad-op"}
}
