package storegen

import (
	"math"
	"strconv"
	"fmt"
	"sort"
	"strings"

	"github.com/siyul-park/uniflow/pkg/types"

	"verifharness/lib"
)

// ---------------------------------------------------------------------------------------------
// Reference evaluation of the supported operators (DESIGN.md §5 C10, lean/Uniflow/Spec/Query.lean),
// written from the statement, not from helper.go: a map filter is the conjunction of ALL its
// entries (no early exit, so no dependence on their order); a field of a missing or non-map parent
// is absent; $exists compares presence with the truthiness of its operand; malformedness is a
// property of the filter alone.

func isOp(k string) bool { return strings.HasPrefix(k, "$") }

// Truthy is the truthiness of an $exists operand.
func Truthy(v types.Value) bool {
	switch x := v.(type) {
	case nil:
		return false
	case types.Boolean:
		return x.Bool()
	case types.Int, types.Int8, types.Int16, types.Int32, types.Int64:
		return x.(interface{ Int() int64 }).Int() != 0
	case types.Uint, types.Uint8, types.Uint16, types.Uint32, types.Uint64:
		return x.(interface{ Uint() uint64 }).Uint() != 0
	case types.Float32:
		return x.Interface().(float32) != 0
	case types.Float64:
		return x.Interface().(float64) != 0
	case types.String:
		return x.String() != ""
	}
	return true
}

// WellFormed: every key is a string; every $-key is a known operator; $and/$or hold lists of well-formed filters.
func WellFormed(f types.Value) bool {
	m, ok := f.(types.Map)
	if !ok {
		return true
	}
	for k, v := range m.Range() {
		ks, ok := k.(types.String)
		if !ok {
			return false
		}
		key := ks.String()
		switch {
		case !isOp(key):
			if !WellFormed(v) {
				return false
			}
		case key == "$and" || key == "$or":
			l, ok := v.(types.Slice)
			if !ok {
				return false
			}
			for _, sub := range l.Values() {
				if !WellFormed(sub) {
					return false
				}
			}
		case key == "$eq" || key == "$ne" || key == "$gt" || key == "$gte" || key == "$lt" || key == "$lte" || key == "$exists":
		default:
			return false
		}
	}
	return true
}

// RefMatch evaluates a well-formed filter on a field value (exists = the field is present).
func RefMatch(d types.Value, exists bool, f types.Value) bool {
	m, ok := f.(types.Map)
	if !ok {
		return REqual(d, f)
	}
	res := true
	for k, v := range m.Range() {
		key := k.(types.String).String()
		var ok bool
		switch key {
		case "$eq":
			ok = REqual(d, v)
		case "$ne":
			ok = !REqual(d, v)
		case "$gt":
			ok = RCompare(d, v) > 0
		case "$gte":
			ok = RCompare(d, v) >= 0
		case "$lt":
			ok = RCompare(d, v) < 0
		case "$lte":
			ok = RCompare(d, v) <= 0
		case "$exists":
			ok = exists == Truthy(v)
		case "$and":
			ok = true
			for _, sub := range v.(types.Slice).Values() {
				if !RefMatch(d, exists, sub) {
					ok = false
				}
			}
		case "$or":
			for _, sub := range v.(types.Slice).Values() {
				if RefMatch(d, exists, sub) {
					ok = true
				}
			}
		default:
			var child types.Value
			has := false
			if dm, isMap := d.(types.Map); isMap {
				child, has = Lookup(dm, k)
			}
			ok = RefMatch(child, has, v)
		}
		res = res && ok
	}
	return res
}

// MatchDoc: nil filter matches everything.
func MatchDoc(d types.Map, f types.Map) bool { return f == nil || RefMatch(d, true, f) }

// UpdateWellFormed: only $set / $unset, each holding a map.
func UpdateWellFormed(u types.Map) bool {
	for k, v := range u.Range() {
		ks, ok := k.(types.String)
		if !ok || (ks.String() != "$set" && ks.String() != "$unset") {
			return false
		}
		if _, ok := v.(types.Map); !ok {
			return false
		}
	}
	return true
}

type pairs [][2]types.Value

func (p pairs) find(k types.Value) int {
	for i := range p {
		if REqual(p[i][0], k) {
			return i
		}
	}
	return -1
}

func toPairs(m types.Map) pairs {
	var p pairs
	for k, v := range m.Range() {
		p = append(p, [2]types.Value{k, v})
	}
	return p
}

func (p pairs) toMap() types.Map {
	flat := make([]types.Value, 0, 2*len(p))
	for _, kv := range p {
		flat = append(flat, kv[0], kv[1])
	}
	return types.NewMap(flat...)
}

// RefPatch applies a well-formed update: the entries in the update's own order ($set: every listed field gets
// the value, $unset: every listed field is removed).
func RefPatch(d, u types.Map) types.Map {
	p := toPairs(d)
	for k, v := range u.Range() {
		for fk, fv := range v.(types.Map).Range() {
			i := p.find(fk)
			switch k.(types.String).String() {
			case "$set":
				if i >= 0 {
					p[i][1] = fv
				} else {
					p = append(p, [2]types.Value{fk, fv})
				}
			case "$unset":
				if i >= 0 {
					p = append(p[:i:i], p[i+1:]...)
				}
			}
		}
	}
	return p.toMap()
}

// SimpleUpsert reports whether the upsert document of the filter is defined by the reference: a top-level map of
// field conditions, each a non-map value, exactly {$eq: v}, a map of comparison operators without $eq, or
// (recursively) a map of such field conditions. RefUpsertDoc is then the document of the equality conditions.
func SimpleUpsert(f types.Value) bool {
	m, ok := f.(types.Map)
	if !ok {
		return true
	}
	nf, nop, hasEq := 0, 0, false
	for k, v := range m.Range() {
		ks, ok := k.(types.String)
		if !ok {
			return false
		}
		switch key := ks.String(); {
		case !isOp(key):
			nf++
			if !SimpleUpsert(v) {
				return false
			}
		case key == "$and" || key == "$or":
			return false
		default:
			nop++
			if key == "$eq" {
				hasEq = true
			}
		}
	}
	if nf > 0 && nop > 0 {
		return false
	}
	return !hasEq || nop == 1
}

// refExtract: the value a simple condition pins its field to (nil = none).
func refExtract(f types.Value) types.Value {
	m, ok := f.(types.Map)
	if !ok {
		return f
	}
	var p pairs
	for k, v := range m.Range() {
		key := k.(types.String).String()
		if key == "$eq" {
			return v
		}
		if isOp(key) {
			return nil
		}
		if c := refExtract(v); c != nil {
			p = append(p, [2]types.Value{k, c})
		}
	}
	return p.toMap()
}

// ---------------------------------------------------------------------------------------------
// Reference store: the documents in id order plus the declared indexes (only their uniqueness matters).

type RefIndex struct {
	Keys   []string
	Unique bool
	Filter types.Map
}

type RefStore struct {
	Docs    []types.Map
	Indexes []RefIndex
}

func idOf(d types.Map) types.Value { return Field(d, S("id")) }

func (r *RefStore) pos(id types.Value) int {
	for i, d := range r.Docs {
		if RCompare(idOf(d), id) == 0 {
			return i
		}
	}
	return -1
}

func (ix RefIndex) admits(d types.Map) bool { return ix.Filter == nil || RefMatch(d, true, ix.Filter) }

func (ix RefIndex) sameTuple(x, y types.Map) bool {
	for _, k := range ix.Keys {
		if RCompare(Field(x, S(k)), Field(y, S(k))) != 0 {
			return false
		}
	}
	return true
}

// conflict: a unique index would hold d and another document (other than skip) under one key.
func (r *RefStore) conflict(d types.Map, skip int) bool {
	for _, ix := range r.Indexes {
		if !ix.Unique || len(ix.Keys) == 0 || !ix.admits(d) {
			continue
		}
		for i, e := range r.Docs {
			if i != skip && ix.admits(e) && ix.sameTuple(d, e) {
				return true
			}
		}
	}
	return false
}

func (r *RefStore) insertOne(d types.Map) string {
	id := idOf(d)
	if id == nil {
		return "keyMissing"
	}
	if r.pos(id) >= 0 || r.conflict(d, -1) {
		return "keyDuplicate"
	}
	r.Docs = append(r.Docs, d)
	sort.SliceStable(r.Docs, func(i, j int) bool { return RCompare(idOf(r.Docs[i]), idOf(r.Docs[j])) < 0 })
	return ""
}

// Expect is what the reference says an operation returns. Unchecked: the reference does not define the outcome
// (upsert document of a filter outside SimpleUpsert, update that moves a document to another id).
type Expect struct {
	Kind      string // ok | n | docs | err
	N         int
	Docs      []types.Map // finds: the matching documents, sorted (stable) – before skip/limit
	Err       string      // malformed | keyMissing | keyDuplicate | keyNotFound
	Unchecked bool
}

func sameKeys(a, b []string) bool {
	if len(a) != len(b) {
		return false
	}
	for i := range a {
		if a[i] != b[i] {
			return false
		}
	}
	return true
}

// Matching returns the stored documents the (well-formed) filter lets through, in id order.
func (r *RefStore) Matching(f types.Map) []types.Map { return r.matching(f) }

func (r *RefStore) matching(f types.Map) []types.Map {
	var out []types.Map
	for _, d := range r.Docs {
		if MatchDoc(d, f) {
			out = append(out, d)
		}
	}
	return out
}

// Apply evaluates the operation on the reference store.
func (r *RefStore) Apply(o Op) Expect {
	malformed := Expect{Kind: "err", Err: "malformed"}
	switch o.Kind {
	case "ins":
		for _, d := range o.Docs {
			if e := r.insertOne(d); e != "" {
				return Expect{Kind: "err", Err: e}
			}
		}
		return Expect{Kind: "ok"}
	case "find":
		if o.Filter != nil && !WellFormed(o.Filter) {
			return malformed
		}
		ds := r.matching(o.Filter)
		if o.Sort != nil {
			sort.SliceStable(ds, func(i, j int) bool {
				for f, ord := range o.Sort.Range() {
					if c := RCompare(Field(ds[i], f), Field(ds[j], f)); c != 0 {
						return c*DirOf(ord) < 0 // a direction that decodes to 0: every pair ties, the scan order stays
					}
				}
				return false
			})
		}
		return Expect{Kind: "docs", Docs: ds}
	case "del":
		if o.Filter != nil && !WellFormed(o.Filter) {
			return malformed
		}
		var keep []types.Map
		n := 0
		for _, d := range r.Docs {
			if MatchDoc(d, o.Filter) {
				n++
			} else {
				keep = append(keep, d)
			}
		}
		r.Docs = keep
		return Expect{Kind: "n", N: n}
	case "upd":
		if o.Filter != nil && !WellFormed(o.Filter) {
			return malformed
		}
		if !UpdateWellFormed(o.Update) {
			return malformed
		}
		ds := r.matching(o.Filter)
		if o.Upsert && len(ds) == 0 {
			if o.Filter == nil || !SimpleUpsert(o.Filter) {
				return Expect{Unchecked: true}
			}
			d := RefPatch(refExtract(o.Filter).(types.Map), o.Update)
			if e := r.insertOne(d); e != "" {
				return Expect{Kind: "err", Err: e}
			}
			return Expect{Kind: "n", N: 1}
		}
		for _, d := range ds {
			nd := RefPatch(d, o.Update)
			id := idOf(nd)
			if id == nil {
				return Expect{Kind: "err", Err: "keyMissing"}
			}
			if RCompare(id, idOf(d)) != 0 {
				return Expect{Unchecked: true}
			}
			i := r.pos(id)
			if r.conflict(nd, i) {
				return Expect{Kind: "err", Err: "keyDuplicate"}
			}
			r.Docs[i] = nd
		}
		return Expect{Kind: "n", N: len(ds)}
	case "idx":
		ix := RefIndex{Keys: o.Keys, Unique: o.Unique, Filter: o.Filter}
		if ix.Unique && len(ix.Keys) > 0 {
			for i, d := range r.Docs {
				for j := i + 1; j < len(r.Docs); j++ {
					if ix.admits(d) && ix.admits(r.Docs[j]) && ix.sameTuple(d, r.Docs[j]) {
						return Expect{Kind: "err", Err: "keyDuplicate"}
					}
				}
			}
		}
		r.dropIndex(o.Keys)
		r.Indexes = append(r.Indexes, ix)
		return Expect{Kind: "ok"}
	case "unidx":
		r.dropIndex(o.Keys)
		return Expect{Kind: "ok"}
	}
	return Expect{Unchecked: true}
}

func (r *RefStore) dropIndex(keys []string) {
	var keep []RefIndex
	for _, ix := range r.Indexes {
		if !sameKeys(ix.Keys, keys) {
			keep = append(keep, ix)
		}
	}
	r.Indexes = keep
}

func coarse(class string) string {
	if class == "unsupportedType" || class == "unsupportedOperation" {
		return "malformed"
	}
	return class
}

// Check compares what the implementation answered with the reference; "" = agrees.
func (e Expect) Check(o Op, got Result) string {
	if e.Unchecked {
		return ""
	}
	if got.Kind == "panic" {
		return "the store panicked: " + got.Msg
	}
	if e.Kind == "err" || got.Kind == "err" {
		if e.Kind != got.Kind || e.Err != coarse(got.Err) {
			return fmt.Sprintf("reference: %s %s; store: %s %s %s", e.Kind, e.Err, got.Kind, got.Err, got.Msg)
		}
		return ""
	}
	if e.Kind != got.Kind {
		return fmt.Sprintf("reference: %s; store: %s", e.Kind, got.Kind)
	}
	switch e.Kind {
	case "n":
		if e.N != got.N {
			return fmt.Sprintf("reference counts %d documents, the store reports %d", e.N, got.N)
		}
	case "docs":
		return e.checkDocs(o, got.Docs)
	}
	return ""
}

func (e Expect) checkDocs(o Op, got []types.Map) string {
	all := e.Docs
	lo := min(o.Skip, len(all))
	hi := len(all)
	if o.Limit > 0 && o.Limit < len(all)-lo { // never lo+o.Limit: the options may be near math.MaxInt
		hi = lo + o.Limit
	}
	want := all[lo:hi]
	render := func(ds []types.Map) string { return strings.Join(encDocs(ds), " | ") }
	if len(want) != len(got) {
		return fmt.Sprintf("reference returns %d documents [%s], the store %d [%s]", len(want), render(want), len(got), render(got))
	}
	switch o.Mode() {
	case "seq":
		if render(want) != render(got) {
			return fmt.Sprintf("reference: [%s]; store: [%s]", render(want), render(got))
		}
	case "cls":
		a, b := Classes(o.Sort, want), Classes(o.Sort, got)
		ra, rb := make([]string, len(a)), make([]string, len(b))
		for i := range a {
			ra[i] = render(a[i])
		}
		for i := range b {
			rb[i] = render(b[i])
		}
		if strings.Join(ra, " || ") != strings.Join(rb, " || ") {
			return fmt.Sprintf("reference (tie classes): [%s]; store: [%s]", strings.Join(ra, " || "), strings.Join(rb, " || "))
		}
	case "keys":
		// the sort keys position by position, and every returned document is a distinct matching document
		seen := map[string]bool{}
		pool := map[string]bool{}
		for _, d := range all {
			pool[lib.EncodeVal(d)] = true
		}
		for i := range want {
			if SortKey(o.Sort, want[i]) != SortKey(o.Sort, got[i]) {
				return fmt.Sprintf("position %d: reference sort key %s, store %s", i, SortKey(o.Sort, want[i]), SortKey(o.Sort, got[i]))
			}
			w := lib.EncodeVal(got[i])
			if !pool[w] || seen[w] {
				return fmt.Sprintf("position %d: %s is not a (distinct) matching document", i, w)
			}
			seen[w] = true
		}
	}
	return ""
}

// DirOf is the reference reading of a sort direction: the operand decoded as a Go int the way the value codec
// does it (integers as they are, unsigned ones converted, floats truncated toward zero, strings by strconv.Atoi);
// an operand that does not decode leaves the default 1. Written from that description, not from store.go.
// (NaN, ±Inf and floats beyond int64 are implementation-defined in Go and not generated.)
func DirOf(v types.Value) int {
	switch x := v.(type) {
	case types.Int, types.Int8, types.Int16, types.Int32, types.Int64:
		return int(x.(interface{ Int() int64 }).Int())
	case types.Uint, types.Uint8, types.Uint16, types.Uint32, types.Uint64:
		return int(x.(interface{ Uint() uint64 }).Uint())
	case types.Float32:
		return int(math.Trunc(float64(x.Interface().(float32))))
	case types.Float64:
		return int(math.Trunc(x.Interface().(float64)))
	case types.String:
		if n, err := strconv.Atoi(x.String()); err == nil {
			return n
		}
	}
	return 1
}
