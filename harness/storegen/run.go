package storegen

import (
	"strings"

	"github.com/siyul-park/uniflow/pkg/store"
	"github.com/siyul-park/uniflow/pkg/types"

	"verifharness/lib"
)

// Case is one history on one real store, mirrored line by line into the model script and, when Ref is set,
// evaluated on the reference store.
type Case struct {
	C     *lib.Ctx
	Sc    *lib.Script
	St    store.Store
	Ref   *RefStore
	Trace []string
	Fails *[]lib.OracleFail
	Spell *lib.RNG // when set, Do draws the spelling of each mutating call (mutable documents, cancelled context)
}

func NewCase(c *lib.Ctx, sc *lib.Script, fails *[]lib.OracleFail, withRef bool) *Case {
	sc.Begin()
	k := &Case{C: c, Sc: sc, St: store.New(), Fails: fails}
	if withRef {
		k.Ref = &RefStore{}
	}
	return k
}

func (k *Case) Fail(class, what string) {
	k.C.Hit("oracle-fail:" + class)
	if len(*k.Fails) < 5 {
		*k.Fails = append(*k.Fails, lib.OracleFail{Class: class, What: what, Replay: strings.Join(k.Trace, "\n")})
	}
}

// Do executes the operation on the store, records the model line, and checks the answer against the reference.
func (k *Case) Do(o Op) Result {
	// spellings of the same call (Op.MutDocs, Op.DeadCtx), drawn per case when the harness asked for them
	if k.Spell != nil {
		switch o.Kind {
		case "ins":
			o.MutDocs = k.Spell.Chance(1, 4)
			o.DeadCtx = k.Spell.Chance(1, 6)
		case "upd", "del":
			o.DeadCtx = k.Spell.Chance(1, 6)
		}
		if o.MutDocs {
			k.C.Hit("spelling:mutable-documents")
		}
		if o.DeadCtx {
			k.C.Hit("spelling:cancelled-context")
		}
	}
	res := Exec(k.St, o)
	line, out := o.Line(), res.Canon(o)
	k.Sc.Op(line, out)
	note := ""
	if o.MutDocs {
		note += " [documents handed over as mutable maps]"
	}
	if o.DeadCtx {
		note += " [called with an already cancelled context]"
	}
	k.Trace = append(k.Trace, line+note+"\t=> "+out)
	k.C.Hit("op:" + o.Kind)
	k.C.Hit("result:" + res.Kind)
	if res.Kind == "err" {
		k.C.Hit("error:" + res.Err)
	}
	key := ""
	if res.Kind == "err" || (res.Kind == "docs" && len(res.Docs) > 0) || (res.Kind == "n" && res.N > 0) || res.Kind == "ok" {
		key = line
	}
	k.C.Count(key)
	if res.Kind == "panic" {
		k.Fail("panic", "the store panicked on `"+line+"`: "+res.Msg)
	}
	if k.Ref != nil {
		exp := k.Ref.Apply(o)
		if exp.Unchecked {
			k.C.Hit("oracle:outcome-not-defined-by-reference")
			k.Resync()
		} else if msg := exp.Check(o, res); msg != "" {
			k.Fail("reference", "`"+line+"`: "+msg)
			k.Resync()
		}
	}
	return res
}

// Resync makes the reference store hold what the real store holds (after an operation the reference leaves open).
func (k *Case) Resync() {
	if r := Exec(k.St, Op{Kind: "find"}); r.Kind == "docs" {
		k.Ref.Docs = append([]types.Map{}, r.Docs...)
	}
}

// Readback is Find(nil): the stored documents in id order; with a reference they must be the values last written.
func (k *Case) Readback() Result { return k.Do(Op{Kind: "find"}) }
