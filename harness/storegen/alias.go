package storegen

import "github.com/siyul-park/uniflow/pkg/types"

// Map is types.Map (alias for the harness packages).
type Map = types.Map

// Small constructors for directed scenarios written in the harness packages.
type Value = types.Value

func IntV(n int) types.Value                { return types.NewInt(n) }
func NewMap(pairs ...types.Value) types.Map { return types.NewMap(pairs...) }
func True() types.Value                     { return types.True }
