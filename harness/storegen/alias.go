package storegen

import "github.com/siyul-park/uniflow/pkg/types"

// Map is types.Map (alias for the harness packages).
type Map = types.Map
