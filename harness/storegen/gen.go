package storegen

import (
	"math"

	"github.com/siyul-park/uniflow/pkg/types"

	"verifharness/lib"
)

// Gen draws documents, filters and updates over small alphabets: keys {id, a, b, n, n.x} ("n.x" is a flat key,
// `n` usually holds a map with the field x), a dozen values spanning kinds, so that collisions, overwrites of
// existing fields and empty results are frequent.
type Gen struct {
	R     *lib.RNG
	Depth int // maximal nesting of a filter
	Hit   func(string)
}

var Fields = []string{"a", "b", "n", "n.x"}

func Ids() []types.Value {
	return []types.Value{types.NewInt(1), types.NewInt(2), types.NewInt(3), types.NewInt(4), types.NewInt(5),
		types.NewString("1"), types.NewInt64(1), types.NewInt32(1), types.NewUint(2)}
}

// Scalars is the value alphabet of the fields (ordered: nil < false/true < ints by width < float < strings < slice < map).
func Scalars() []types.Value {
	return []types.Value{
		types.NewInt(1), types.NewInt(2), types.NewInt(3), types.NewInt(2), types.NewInt(1),
		types.NewInt64(2), types.NewInt8(2), types.NewInt32(1), types.NewUint(2), types.NewFloat64(math.Float64frombits(0x4000000000000000)),
		types.NewString(""), types.NewString("a"), types.NewString("b"), types.True,
		types.NewSlice(types.NewInt(1)),
	}
}

func (g *Gen) hit(k string) {
	if g.Hit != nil {
		g.Hit(k)
	}
}

func (g *Gen) Scalar() types.Value {
	if g.R.Chance(1, 14) {
		return nil
	}
	return lib.Pick(g.R, Scalars())
}

func (g *Gen) Id() types.Value { return lib.Pick(g.R, Ids()) }

func (g *Gen) sub() types.Value {
	ps := []types.Value{}
	if g.R.Chance(5, 6) {
		ps = append(ps, S("x"), g.Scalar())
	}
	if g.R.Chance(1, 4) {
		ps = append(ps, S("y"), g.Scalar())
	}
	return types.NewMap(ps...)
}

// FieldValue draws a value for a field; `n` mostly holds a map.
func (g *Gen) FieldValue(k string) types.Value {
	if k == "n" && g.R.Chance(4, 5) {
		return g.sub()
	}
	return g.Scalar()
}

// Doc draws a document; the id is missing with small probability (the "missing id" fault).
func (g *Gen) Doc() types.Map {
	ps := []types.Value{}
	if !g.R.Chance(1, 25) {
		ps = append(ps, S("id"), g.Id())
	}
	for _, k := range Fields {
		if g.R.Chance(3, 5) {
			ps = append(ps, S(k), g.FieldValue(k))
		}
	}
	return types.NewMap(ps...)
}

var cmpOps = []string{"$eq", "$ne", "$gt", "$gte", "$lt", "$lte"}

// Cond draws a condition on one field value.
func (g *Gen) Cond(field string, depth int) types.Value {
	if depth <= 0 || g.R.Chance(1, 3) {
		g.hit("cond:equality")
		if field == "id" {
			return g.Id()
		}
		return g.FieldValue(field)
	}
	n := 1
	if g.R.Chance(1, 3) {
		n = 2
	}
	if g.R.Chance(1, 10) {
		n = 3
	}
	ps := []types.Value{}
	for i := 0; i < n; i++ {
		operand := g.Scalar()
		if field == "id" {
			operand = g.Id()
		}
		switch g.R.Weighted([]int{12, 3, 3, 2, 2}) {
		case 0:
			op := lib.Pick(g.R, cmpOps)
			if g.R.Chance(2, 3) { // ranges
				op = lib.Pick(g.R, cmpOps[2:])
			}
			g.hit("cond:" + op)
			ps = append(ps, S(op), operand)
		case 1:
			g.hit("cond:$exists")
			ps = append(ps, S("$exists"), lib.Pick(g.R, []types.Value{types.True, types.False, types.True, types.False, types.NewInt(0), types.NewInt(1), types.NewString(""), nil}))
		case 2:
			g.hit("cond:nested-field")
			sub := "x"
			if g.R.Chance(1, 4) {
				sub = "y"
			}
			ps = append(ps, S(sub), g.Cond("", depth-1))
		case 3:
			g.hit("cond:$and")
			ps = append(ps, S("$and"), g.condList(field, depth-1))
		default:
			g.hit("cond:$or")
			ps = append(ps, S("$or"), g.condList(field, depth-1))
		}
	}
	return types.NewMap(ps...)
}

func (g *Gen) condList(field string, depth int) types.Value {
	n := g.R.Range(0, 3)
	vs := make([]types.Value, n)
	for i := range vs {
		c := g.Cond(field, max(depth, 1))
		if _, ok := c.(types.Map); !ok { // a list member that is a plain value is an equality too; keep some
			if g.R.Chance(2, 3) {
				c = types.NewMap(S(lib.Pick(g.R, cmpOps)), c)
			}
		}
		vs[i] = c
	}
	return types.NewSlice(vs...)
}

func (g *Gen) key() string {
	if g.R.Chance(1, 6) {
		return "id"
	}
	return lib.Pick(g.R, Fields)
}

// Filter draws a well-formed filter document of nesting at most depth.
func (g *Gen) Filter(depth int) types.Map {
	n := g.R.Weighted([]int{1, 10, 6, 2}) // number of entries
	ps := []types.Value{}
	for i := 0; i < n; i++ {
		switch w := g.R.Weighted([]int{14, 3, 3, 1}); {
		case w == 0 || depth <= 1:
			k := g.key()
			g.hit("filter:field")
			ps = append(ps, S(k), g.Cond(k, depth-1))
		case w == 1:
			g.hit("filter:$and")
			ps = append(ps, S("$and"), g.filterList(depth-1))
		case w == 2:
			g.hit("filter:$or")
			ps = append(ps, S("$or"), g.filterList(depth-1))
		default: // an operator applied to the whole document
			g.hit("filter:top-level-operator")
			if g.R.Bool() {
				ps = append(ps, S("$exists"), lib.Pick(g.R, []types.Value{types.True, types.False}))
			} else {
				ps = append(ps, S(lib.Pick(g.R, cmpOps)), g.Scalar())
			}
		}
	}
	return types.NewMap(ps...)
}

func (g *Gen) filterList(depth int) types.Value {
	n := g.R.Range(0, 3)
	vs := make([]types.Value, n)
	for i := range vs {
		vs[i] = g.Filter(max(depth, 1))
	}
	return types.NewSlice(vs...)
}

// RangeFilter is biased to what the planner turns into bounds: ranges on a / b / n.x / id, $and / $or of ranges,
// conditions on non-leading index keys.
func (g *Gen) RangeFilter(depth int) types.Map {
	rng := func(k string) types.Value {
		ps := []types.Value{}
		for i := 0; i < g.R.Range(1, 2); i++ {
			v := types.Value(types.NewInt(g.R.Range(0, 4)))
			if k == "id" {
				v = g.Id()
			} else if g.R.Chance(1, 5) {
				v = g.Scalar()
			}
			ps = append(ps, S(lib.Pick(g.R, []string{"$gt", "$gte", "$lt", "$lte", "$eq", "$gte", "$lte"})), v)
		}
		return types.NewMap(ps...)
	}
	one := func() types.Map {
		ps := []types.Value{}
		for i := 0; i < g.R.Range(1, 2); i++ {
			k := lib.Pick(g.R, []string{"a", "b", "n.x", "a", "b", "id"})
			if g.R.Chance(1, 4) {
				ps = append(ps, S(k), g.FieldValue(k))
			} else {
				ps = append(ps, S(k), rng(k))
			}
		}
		return types.NewMap(ps...)
	}
	list := func() types.Value {
		n := g.R.Range(1, 3)
		vs := make([]types.Value, n)
		for i := range vs {
			if depth > 2 && g.R.Chance(1, 4) {
				vs[i] = g.RangeFilter(depth - 1)
			} else {
				vs[i] = one()
			}
		}
		return types.NewSlice(vs...)
	}
	switch g.R.Weighted([]int{5, 3, 4, 2, 2, 4, 4}) {
	case 6:
		// $or over a PAIR of keys that a compound index may cover: some branches bound both keys, some
		// leave the second (or the first) free – the planner's union must drop a bound that a later
		// branch does not have (seeded change c11b kept it; detection used to depend on the seed)
		g.hit("range:$or-key-pair")
		pair := lib.Pick(g.R, [][2]string{{"a", "b"}, {"b", "a"}, {"a", "n.x"}, {"id", "a"}, {"b", "n.x"}})
		n := g.R.Range(2, 3)
		vs := make([]types.Value, n)
		for i := range vs {
			ps := []types.Value{}
			switch g.R.Intn(4) {
			case 0: // both keys
				ps = append(ps, S(pair[0]), rng(pair[0]), S(pair[1]), rng(pair[1]))
			case 1: // both, first by equality
				ps = append(ps, S(pair[0]), g.FieldValue(pair[0]), S(pair[1]), rng(pair[1]))
			case 2: // first key only
				ps = append(ps, S(pair[0]), rng(pair[0]))
			default: // second key only
				ps = append(ps, S(pair[1]), rng(pair[1]))
			}
			vs[i] = types.NewMap(ps...)
		}
		return types.NewMap(S("$or"), types.NewSlice(vs...))
	case 5:
		// every branch of a top-level $or constrains the SAME key (often the always-indexed id), with
		// bounded, half-open and point branches in any order – what the planner's union has to widen
		// correctly (seeded changes c10d / c09d broke union for such lists)
		g.hit("range:$or-same-key")
		k := lib.Pick(g.R, []string{"id", "id", "a", "b", "n.x"})
		n := g.R.Range(2, 4)
		vs := make([]types.Value, n)
		for i := range vs {
			if g.R.Chance(1, 3) {
				pv := g.FieldValue(k)
				if k == "id" {
					pv = g.Id()
				}
				vs[i] = types.NewMap(S(k), pv)
			} else {
				vs[i] = types.NewMap(S(k), rng(k))
			}
		}
		return types.NewMap(S("$or"), types.NewSlice(vs...))
	case 0:
		g.hit("range:fields")
		return one()
	case 1:
		g.hit("range:$and")
		return types.NewMap(S("$and"), list())
	case 2:
		g.hit("range:$or")
		return types.NewMap(S("$or"), list())
	case 3:
		g.hit("range:field+$or")
		m := one()
		return m.Set(S("$or"), list())
	}
	g.hit("range:general")
	return g.Filter(depth)
}

// Malformed draws a filter with an unknown operator, a non-list under $and/$or or a non-string key, at a random place.
func (g *Gen) Malformed(depth int) types.Map {
	var bad func(d int) types.Map
	leaf := func() types.Map {
		switch g.R.Intn(5) {
		case 0:
			g.hit("malformed:unknown-operator")
			return types.NewMap(S(g.key()), types.NewMap(S("$foo"), g.Scalar()))
		case 1:
			g.hit("malformed:unknown-top-operator")
			return types.NewMap(S("$nor"), types.NewSlice())
		case 2:
			g.hit("malformed:$and-non-list")
			return types.NewMap(S("$and"), g.Filter(1))
		case 3:
			g.hit("malformed:$or-non-list")
			return types.NewMap(S(g.key()), types.NewMap(S("$or"), g.Scalar()))
		}
		g.hit("malformed:non-string-key")
		return types.NewMap(types.NewInt(1), g.Scalar())
	}
	bad = func(d int) types.Map {
		if d <= 1 || g.R.Chance(1, 2) {
			m := leaf()
			if g.R.Chance(1, 2) { // with a sibling condition that most documents fail
				k := g.key()
				m = m.Set(S(k), g.Cond(k, 1))
			}
			return m
		}
		op := lib.Pick(g.R, []string{"$and", "$or"})
		vs := []types.Value{}
		for i := 0; i < g.R.Range(0, 2); i++ {
			vs = append(vs, g.Filter(1))
		}
		vs = append(vs, bad(d-1))
		if g.R.Bool() {
			vs = append(vs, g.Filter(1))
		}
		return types.NewMap(S(op), types.NewSlice(vs...))
	}
	return bad(depth)
}

// Update draws an update document: $set / $unset over the field alphabet (never `id` with $set), sometimes both,
// sometimes malformed, sometimes `$unset id` (the document loses its id: must be rejected).
func (g *Gen) Update() types.Map {
	fields := func(set bool) types.Value {
		ps := []types.Value{}
		for i := 0; i < g.R.Range(1, 2); i++ {
			k := lib.Pick(g.R, Fields)
			ps = append(ps, S(k), g.FieldValue(k))
		}
		if !set && g.R.Chance(1, 12) {
			g.hit("update:$unset-id")
			ps = append(ps, S("id"), types.True)
		}
		return types.NewMap(ps...)
	}
	switch g.R.Weighted([]int{10, 4, 3, 1, 1, 1}) {
	case 0:
		g.hit("update:$set")
		return types.NewMap(S("$set"), fields(true))
	case 1:
		g.hit("update:$unset")
		return types.NewMap(S("$unset"), fields(false))
	case 2:
		g.hit("update:$set+$unset")
		return types.NewMap(S("$set"), fields(true), S("$unset"), fields(false))
	case 3:
		g.hit("update:unknown-operator")
		return types.NewMap(S("$inc"), fields(true))
	case 4:
		g.hit("update:$set-non-map")
		return types.NewMap(S("$set"), g.Scalar())
	}
	g.hit("update:empty")
	return types.NewMap()
}

// UpsertFilter draws a filter whose upsert document the reference defines (SimpleUpsert), mostly with an id.
func (g *Gen) UpsertFilter() types.Map {
	ps := []types.Value{}
	if g.R.Chance(9, 10) {
		id := g.Id()
		if g.R.Chance(1, 3) {
			ps = append(ps, S("id"), types.NewMap(S("$eq"), id))
		} else {
			ps = append(ps, S("id"), id)
		}
	}
	for i := 0; i < g.R.Range(0, 2); i++ {
		k := lib.Pick(g.R, Fields)
		switch g.R.Intn(4) {
		case 0:
			ps = append(ps, S(k), g.FieldValue(k))
		case 1:
			ps = append(ps, S(k), types.NewMap(S("$eq"), g.Scalar()))
		case 2:
			ps = append(ps, S(k), types.NewMap(S(lib.Pick(g.R, cmpOps[1:])), g.Scalar()))
		default:
			ps = append(ps, S(k), types.NewMap(S("x"), g.Scalar()))
		}
	}
	return types.NewMap(ps...)
}

// FindOpts draws sort / skip / limit.
func (g *Gen) FindOpts(o *Op) {
	if g.R.Chance(1, 2) {
		f := lib.Pick(g.R, []string{"a", "a", "b", "n.x", "id", "n"})
		ord := 1
		if g.R.Chance(1, 3) {
			ord = -1
		}
		var dir types.Value = types.NewInt(ord)
		if g.R.Chance(2, 5) {
			// the direction is whatever decodes to an int (`types.Unmarshal(o, &order)`, error ignored): other integer
			// widths, unsigned, floats (a sort specification read by encoding/json carries float64), numeric strings;
			// operands that do not decode mean ascending; operands that decode to 0 make every pair tie.
			// Added after the seeded change c10f (only signed-integer kinds were recognised as descending).
			dir = lib.Pick(g.R, SortDirections())
			g.hit("find:direction-kind:" + lib.EncodeVal(dir))
		}
		o.Sort = types.NewMap(S(f), dir)
		g.hit("find:sorted")
	}
	if g.R.Chance(1, 3) {
		o.Skip = g.R.Range(0, 3)
		o.Limit = g.R.Range(0, 3)
		g.hit("find:skip/limit")
	}
	// boundary values: "no limit" written as a huge number, a skip past every document. skip + limit must not be
	// computed in machine integers (store.Find did: the sum wrapped to a negative number and the slice expression
	// panicked – corpus/C10/07-skip-plus-huge-limit.ops).
	huge := []int{math.MaxInt, math.MaxInt - 1, 1 << 62, math.MaxInt32 + 1}
	if g.R.Chance(1, 12) {
		o.Limit = lib.Pick(g.R, huge)
		if o.Skip == 0 && g.R.Chance(2, 3) {
			o.Skip = g.R.Range(1, 3)
		}
		g.hit("find:huge-limit")
	}
	if g.R.Chance(1, 20) {
		o.Skip = lib.Pick(g.R, huge)
		g.hit("find:huge-skip")
	}
}

// SortDirections is the alphabet of sort-direction operands beyond Int(±1).
func SortDirections() []types.Value {
	return []types.Value{
		types.NewInt8(-1), types.NewInt16(2), types.NewInt32(-3), types.NewInt64(-1), types.NewInt64(math.MaxInt64), types.NewInt(0),
		types.NewUint(1), types.NewUint8(2), types.NewUint64(math.MaxUint64), types.NewUint32(0),
		types.NewFloat64(-1), types.NewFloat64(1), types.NewFloat64(-2.5), types.NewFloat64(2.5), types.NewFloat64(0),
		types.NewFloat64(-0.4), types.NewFloat64(-1), types.NewFloat64(-1),
		types.NewFloat32(-1), types.NewFloat32(2.5), types.NewFloat32(-2.5),
		types.NewString("-1"), types.NewString("-1"), types.NewString("1"), types.NewString("abc"), types.NewString("-1.5"),
		types.NewString("0"), types.NewString("+1"), types.NewString("-007"), types.NewString(""),
		types.True, types.False, nil, types.NewSlice(types.NewInt(-1)),
	}
}

// IndexSpec draws an index over {a, b, n.x}: single or compound, unique or not, partial or not.
func (g *Gen) IndexSpec() Op {
	keys := [][]string{{"a"}, {"b"}, {"n.x"}, {"a", "b"}, {"b", "a"}, {"a", "n.x"}, {"n.x", "b"}, {"a", "b", "n.x"}}
	o := Op{Kind: "idx", Keys: lib.Pick(g.R, keys), Unique: g.R.Chance(1, 4)}
	if g.R.Chance(1, 12) {
		// re-create the built-in id index (it then moves to the end of the segment's index list); added after
		// the seeded change c12b (a positional assumption about the id index) slipped past
		g.hit("index:id-recreated")
		return Op{Kind: "idx", Keys: []string{"id"}, Unique: true}
	}
	if g.R.Chance(1, 3) {
		// partial: filters an absent field satisfies ($lt, $ne, $exists false) and filters it does not
		f := lib.Pick(g.R, []string{"a", "b", "n.x"})
		conds := []types.Value{
			types.NewMap(S("$exists"), types.True), types.NewMap(S("$exists"), types.False),
			types.NewMap(S("$gt"), types.NewInt(1)), types.NewMap(S("$lt"), types.NewInt(3)),
			types.NewMap(S("$ne"), types.NewInt(2)), types.NewInt(2), types.NewMap(S("$gte"), types.NewInt(2), S("$lte"), types.NewInt(3)),
		}
		o.Filter = types.NewMap(S(f), lib.Pick(g.R, conds))
		if g.R.Chance(1, 6) {
			o.Filter = types.NewMap(S("$or"), types.NewSlice(o.Filter, types.NewMap(S("b"), types.NewInt(1))))
		}
	}
	return o
}

// SparseUnique is a directed history around a NON-partial unique index U (single or compound) and a plain index P over
// another field that is created after U: many documents lack a key of U (a unique index files them under the nil key,
// so the second such document must be rejected – without a trace), updates $unset / nil / set the keys of U, and every
// mutation is followed by finds through P (equality and range on P's key) and by a full scan. Added after the seeded
// change c11e (the pre-check of Store/Swap skipped documents lacking a unique key, so the rejected write half-happened:
// stored, but missing from every index created after U).
func (g *Gen) SparseUnique() (ops []Op, unique Op, plain Op) {
	r := g.R
	ukeys := lib.Pick(r, [][]string{{"a"}, {"b"}, {"a", "b"}, {"a", "n.x"}, {"b", "a"}})
	var rest []string
	for _, f := range []string{"a", "b", "n.x"} {
		in := false
		for _, k := range ukeys {
			in = in || k == f
		}
		if !in {
			rest = append(rest, f)
		}
	}
	pf := lib.Pick(r, rest)
	unique = Op{Kind: "idx", Keys: ukeys, Unique: true}
	plain = Op{Kind: "idx", Keys: []string{pf}}
	if r.Chance(1, 4) {
		plain.Keys = []string{pf, ukeys[0]}
	}
	iv := func(n int) types.Value { return types.NewInt(n) }
	doc := func(id int) types.Map {
		ps := []types.Value{S("id"), iv(id), S(pf), iv(r.Range(0, 2))}
		for _, k := range ukeys {
			switch r.Weighted([]int{5, 4, 1}) {
			case 0: // lacks the key
			case 1:
				ps = append(ps, S(k), iv(r.Range(0, 4)))
			default:
				ps = append(ps, S(k), nil)
			}
		}
		return types.NewMap(ps...)
	}
	probe := func() {
		v := iv(r.Range(0, 2))
		ops = append(ops, Op{Kind: "find", Filter: types.NewMap(S(pf), v)})
		if r.Bool() {
			ops = append(ops, Op{Kind: "find", Filter: types.NewMap(S(pf), types.NewMap(S(lib.Pick(r, []string{"$gte", "$lte"})), v))})
		}
		ops = append(ops, Op{Kind: "find"})
	}
	n := r.Range(3, 6)
	for id := 1; id <= n; id++ {
		ops = append(ops, Op{Kind: "ins", Docs: []types.Map{doc(id)}})
		g.hit("sparse-unique:insert")
		probe()
	}
	for i := 0; i < r.Range(4, 10); i++ {
		byID := types.NewMap(S("id"), iv(r.Range(1, n+1)))
		k := lib.Pick(r, ukeys)
		switch r.Weighted([]int{5, 2, 3, 2, 1, 2}) {
		case 0:
			ops = append(ops, Op{Kind: "upd", Filter: byID, Update: types.NewMap(S("$unset"), types.NewMap(S(k), types.True))})
			g.hit("sparse-unique:$unset-unique-key")
		case 1:
			ops = append(ops, Op{Kind: "upd", Filter: byID, Update: types.NewMap(S("$set"), types.NewMap(S(k), nil))})
			g.hit("sparse-unique:set-unique-key-nil")
		case 2:
			ops = append(ops, Op{Kind: "upd", Filter: byID, Update: types.NewMap(S("$set"), types.NewMap(S(k), iv(r.Range(0, 4))))})
			g.hit("sparse-unique:set-unique-key")
		case 3:
			ops = append(ops, Op{Kind: "upd", Filter: byID, Update: types.NewMap(S("$set"), types.NewMap(S(pf), iv(r.Range(0, 2))))})
			g.hit("sparse-unique:move-plain-key")
		case 4:
			ops = append(ops, Op{Kind: "del", Filter: byID})
			g.hit("sparse-unique:delete")
		default:
			ops = append(ops, Op{Kind: "ins", Docs: []types.Map{doc(r.Range(1, n+2))}})
			g.hit("sparse-unique:insert")
		}
		probe()
	}
	return ops, unique, plain
}

// PartialTransition is a directed history around ONE partial index whose filter looks at a field that is not an
// index key: documents are moved into and out of the index filter by updates that leave the key unchanged, and
// queried with filters that pin the filter field (so that the planner may use the partial index). Added after
// the seeded change c11a (Swap skipping re-indexing when the key values are unchanged) slipped past the
// random generator. Since the seeded changes c10g / c11g the index is unique in a third of the histories (key
// values collide across the two sides of the filter, where uniqueness does not apply), documents outside the
// filter are updated in an unrelated field and deleted by id, and new documents arrive after the index exists.
// `at` is the position (before ops[at]) at which the index is to be created.
func (g *Gen) PartialTransition() (ops []Op, idx Op, at int) {
	rng := g.R
	fields := []string{"a", "b"}
	kf := lib.Pick(rng, fields)
	ff := "a"
	if kf == "a" {
		ff = "b"
	}
	iv := func(n int) Value { return IntV(n) }
	v := rng.Range(1, 3)
	idx = Op{Kind: "idx", Keys: []string{kf}, Filter: NewMap(S(ff), iv(v)), Unique: rng.Chance(1, 3)}
	if rng.Chance(1, 4) {
		idx.Keys = []string{kf, "n.x"}
	}
	if idx.Unique {
		g.hit("transition:unique-partial")
	}
	n := rng.Range(2, 5)
	doc := func(id int) Map {
		fv := rng.Range(0, 3)
		d := NewMap(S("id"), iv(id), S(kf), iv(rng.Range(0, 2)))
		if rng.Chance(3, 4) {
			d = d.Set(S(ff), iv(fv))
		}
		return d
	}
	for id := 1; id <= n; id++ {
		ops = append(ops, Op{Kind: "ins", Docs: []Map{doc(id)}})
	}
	probe := func() {
		var f Map
		switch rng.Intn(4) {
		case 0:
			f = NewMap(S(ff), iv(v), S(kf), iv(rng.Range(0, 2)))
		case 1:
			f = NewMap(S(ff), iv(v), S(kf), NewMap(S("$gte"), iv(rng.Range(0, 2))))
		case 2:
			f = NewMap(S(ff), iv(v), S(kf), NewMap(S("$lte"), iv(rng.Range(0, 2))))
		default:
			f = NewMap(S(ff), iv(v))
		}
		ops = append(ops, Op{Kind: "find", Filter: f})
	}
	steps := rng.Range(4, 12)
	for i := 0; i < steps; i++ {
		id := rng.Range(1, n)
		byID := NewMap(S("id"), iv(id))
		switch rng.Weighted([]int{5, 3, 2, 2, 1, 2, 2, 1}) {
		case 0: // into the filter, key untouched
			ops = append(ops, Op{Kind: "upd", Filter: byID, Update: NewMap(S("$set"), NewMap(S(ff), iv(v)))})
			g.hit("transition:into-filter")
		case 1: // out of the filter, key untouched
			ops = append(ops, Op{Kind: "upd", Filter: byID, Update: NewMap(S("$set"), NewMap(S(ff), iv((v+1)%4)))})
			g.hit("transition:out-of-filter")
		case 2:
			ops = append(ops, Op{Kind: "upd", Filter: byID, Update: NewMap(S("$unset"), NewMap(S(ff), True()))})
			g.hit("transition:unset-filter-field")
		case 3: // key moves, filter field untouched
			ops = append(ops, Op{Kind: "upd", Filter: byID, Update: NewMap(S("$set"), NewMap(S(kf), iv(rng.Range(0, 2))))})
			g.hit("transition:key-moves")
		case 4: // update / delete THROUGH the partial index
			f := NewMap(S(ff), iv(v), S(kf), iv(rng.Range(0, 2)))
			if rng.Bool() {
				ops = append(ops, Op{Kind: "upd", Filter: f, Update: NewMap(S("$set"), NewMap(S("n"), iv(rng.Range(0, 3))))})
			} else {
				ops = append(ops, Op{Kind: "del", Filter: f})
			}
			g.hit("transition:mutate-through-index")
		case 5: // an unrelated field of one document, wherever it stands
			ops = append(ops, Op{Kind: "upd", Filter: byID, Update: NewMap(S("$set"), NewMap(S("n"), iv(rng.Range(0, 3))))})
			g.hit("transition:unrelated-field")
		case 6: // one document leaves by id
			ops = append(ops, Op{Kind: "del", Filter: byID})
			g.hit("transition:delete-by-id")
		default:
			n++
			ops = append(ops, Op{Kind: "ins", Docs: []Map{doc(n)}})
			g.hit("transition:insert-late")
		}
		probe()
		if rng.Chance(1, 3) {
			ops = append(ops, Op{Kind: "find"})
		}
	}
	if rng.Chance(1, 4) {
		at = rng.Intn(len(ops))
	}
	return ops, idx, at
}
