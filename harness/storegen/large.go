package storegen

import (
	"fmt"

	"github.com/siyul-park/uniflow/pkg/types"

	"verifharness/lib"
)

// Large is the SIZE FAMILY of the store checks: stores of 64–150 documents, fields with 33–80 distinct values,
// first-level index values that carry 33–60 second-level keys, batches of 20–70 documents, filters whose result
// (or whose `$or` list, or whose range of leading-key values) is large, updates/deletes that match 30–100 documents,
// sort + skip/limit over large results, indexes built over large existing data with a violating pair late in id
// order. The random histories of Gen hold a handful of documents; everything in the store that is chunked, fanned
// out, widened or cached by size is invisible to them (seeded changes c10k, c11k, c12k: thresholds at 32 / 64).
//
// Documents are small and regular so that the lines stay short: {id, a, b, n.x}, all integers (a few ids are strings,
// a few documents lack b).
//
//	id   ascending with gaps (3i + 0..2), one in 16 a string
//	a    the "hot" value 0 for 33–60 of the documents – as the leading key of a compound index it carries 33–60
//	     second-level keys – else 2 + i mod D with D in 33..80 distinct values
//	b    distinct per document (= i): key tuples (a, b) are unique, so that a unique compound index is buildable and a
//	     single violating pair can be planted late in id order
//	n.x  i mod 7 (partial-index filters, equality filters with large results, index keys with many documents each)
type Large struct {
	G      *Gen
	N      int // number of documents of the initial load
	D      int // distinct non-hot values of a
	Next   int // next fresh document number
	hot    []bool
	hots   []int // numbers of the hot documents of the load, ascending
	dup    [2]int
	hasDup bool
}

func iv(n int) types.Value { return types.NewInt(n) }

// NewLarge draws the shape of a large store. withViolation plants one pair of documents with the same (a, b) late in
// id order (for unique-index builds over violating data).
func (g *Gen) NewLarge(withViolation bool) *Large {
	l := &Large{G: g, N: g.R.Range(64, 150), D: g.R.Range(33, 80)}
	nhot := g.R.Range(33, min(60, l.N-31))
	l.hot = make([]bool, l.N)
	for picked := 0; picked < nhot; {
		if i := g.R.Intn(l.N); !l.hot[i] {
			l.hot[i] = true
			picked++
		}
	}
	for i, h := range l.hot {
		if h {
			l.hots = append(l.hots, i)
		}
	}
	if withViolation {
		// the second document of the pair repeats (a, b) of the first: two hot documents late in id order, half of the
		// time the 33rd and the 34th (a level of an index that reaches 33 keys)
		j := g.R.Range(len(l.hots)/2, len(l.hots)-2)
		if g.R.Bool() && len(l.hots) > 34 {
			j = g.R.Range(31, 33)
		}
		l.dup = [2]int{l.hots[j], l.hots[j+1]}
		l.hasDup = true
		g.hit("large:violating-pair-planted")
	}
	g.hit("large:store")
	return l
}

// IdOf is the id of document number i.
func (l *Large) IdOf(i int) types.Value {
	if i%16 == 7 {
		return types.NewString(fmt.Sprintf("k%03d", i))
	}
	return iv(3*i + i%3)
}

func (l *Large) isHot(i int) bool {
	if i < len(l.hot) {
		return l.hot[i]
	}
	return i%3 == 0
}

func (l *Large) aOf(i int) int {
	if l.isHot(i) {
		return 0
	}
	return 2 + i%l.D
}

// Doc is document number i of the family (a function of i, so that the same document can be re-drawn).
func (l *Large) Doc(i int) types.Map {
	src := i
	if l.hasDup && i == l.dup[1] {
		src = l.dup[0] // same a and b as the first of the pair
	}
	return types.NewMap(S("id"), l.IdOf(i), S("a"), iv(l.aOf(src)), S("b"), iv(src), S("n.x"), iv(i%7))
}

// Load is the initial load: the N documents in batches of 20–70 (the last batch may be shorter).
func (l *Large) Load() []Op {
	var ops []Op
	for l.Next < l.N {
		n := min(l.G.R.Range(20, 70), l.N-l.Next)
		docs := make([]types.Map, n)
		for i := range docs {
			docs[i] = l.Doc(l.Next + i)
		}
		l.Next += n
		ops = append(ops, Op{Kind: "ins", Docs: docs})
		l.G.hit("large:batch-insert")
	}
	return ops
}

// Fresh is a new document (a fresh id).
func (l *Large) Fresh() types.Map {
	l.Next++
	return l.Doc(l.Next - 1)
}

// Repeat is a fresh document that repeats a and b of document number j (a duplicate key of a unique index over a, b).
func (l *Large) Repeat(j int) types.Map {
	l.Next++
	d := l.Doc(j)
	return d.Set(S("id"), l.IdOf(l.Next-1))
}

// Hots are the numbers of the loaded documents that carry the hot value under a, in id order.
func (l *Large) Hots() []int { return l.hots }

func (l *Large) rng(op string, v int) types.Value { return types.NewMap(S(op), iv(v)) }

func (l *Large) span(lo, hi int) types.Value {
	return types.NewMap(S("$gte"), iv(lo), S("$lte"), iv(hi))
}

// Filter draws a filter with a large result, a large `$or` list, or a range over ≥ 33 leading-key values combined with
// a bound on the next key.
func (l *Large) Filter() types.Map {
	r := l.G.R
	switch r.Weighted([]int{2, 3, 3, 5, 4, 2, 3, 2}) {
	case 0:
		l.G.hit("large:filter:nil")
		return nil
	case 1:
		l.G.hit("large:filter:hot-value")
		return types.NewMap(S("a"), iv(0))
	case 2: // a range over (nearly) all values of a
		l.G.hit("large:filter:wide-range")
		return types.NewMap(S("a"), l.span(r.Range(0, 3), r.Range(l.D-3, l.D+2)))
	case 3: // … combined with a bound on the next key of a compound index
		l.G.hit("large:filter:wide-range+next-key")
		next := lib.Pick(r, []string{"b", "b", "n.x"})
		bound := l.rng(lib.Pick(r, []string{"$gte", "$lte", "$gt", "$lt"}), r.Range(0, l.N))
		if next == "n.x" {
			bound = lib.Pick(r, []types.Value{iv(r.Intn(7)), l.rng("$gte", r.Intn(7))})
		}
		return types.NewMap(S("a"), l.span(r.Range(0, 2), r.Range(l.D-2, l.D+2)), S(next), bound)
	case 4: // `$or` with 17–40 alternatives
		n := r.Range(17, 40)
		alts := make([]types.Value, n)
		for i := range alts {
			switch r.Intn(4) {
			case 0:
				alts[i] = types.NewMap(S("id"), l.IdOf(r.Intn(l.N+5)))
			case 1:
				alts[i] = types.NewMap(S("a"), iv(2+r.Intn(l.D)))
			case 2:
				alts[i] = types.NewMap(S("b"), iv(r.Intn(l.N)))
			default:
				alts[i] = types.NewMap(S("a"), iv(0), S("b"), iv(r.Intn(l.N)))
			}
		}
		l.G.hit("large:filter:$or-17..40")
		f := types.NewMap(S("$or"), types.NewSlice(alts...))
		if r.Chance(1, 3) {
			f = f.Set(S("n.x"), l.rng("$lte", r.Intn(7)))
		}
		return f
	case 5: // a range of second-level keys under one hot value (≥ 33 keys)
		l.G.hit("large:filter:hot+range-of-next-key")
		lo := r.Range(0, l.N/2)
		return types.NewMap(S("a"), iv(0), S("b"), l.span(lo, lo+r.Range(30, l.N)))
	case 6:
		l.G.hit("large:filter:un-indexed-field")
		if r.Bool() {
			return types.NewMap(S("n.x"), iv(r.Intn(7)))
		}
		return types.NewMap(S("b"), l.rng(lib.Pick(r, []string{"$gt", "$lte"}), r.Range(0, l.N)))
	}
	l.G.hit("large:filter:id-range")
	lo := r.Range(0, 3*l.N)
	return types.NewMap(S("id"), types.NewMap(S("$gte"), iv(lo), S("$lt"), iv(lo+r.Range(90, 300))))
}

// Update draws an update for many documents.
func (l *Large) Update() types.Map {
	r := l.G.R
	switch r.Weighted([]int{5, 2, 2, 2, 1}) {
	case 0:
		l.G.hit("large:update:$set-non-key")
		return types.NewMap(S("$set"), types.NewMap(S("n.x"), iv(r.Intn(9))))
	case 1: // every matching document gets the same b: under a unique index over (a, b) the batch stops early
		l.G.hit("large:update:$set-b")
		return types.NewMap(S("$set"), types.NewMap(S("b"), iv(r.Intn(l.N))))
	case 2: // documents move to another first-level value
		l.G.hit("large:update:$set-a")
		return types.NewMap(S("$set"), types.NewMap(S("a"), iv(r.Intn(l.D+2))))
	case 3:
		l.G.hit("large:update:$unset-b")
		return types.NewMap(S("$unset"), types.NewMap(S("b"), types.True))
	}
	l.G.hit("large:update:unknown-operator")
	return types.NewMap(S("$inc"), types.NewMap(S("b"), iv(1)))
}

// FindOpts draws sort + skip / limit over large results.
func (l *Large) FindOpts(o *Op) {
	r := l.G.R
	if r.Chance(2, 3) {
		dir := 1
		if r.Bool() {
			dir = -1
		}
		o.Sort = types.NewMap(S(lib.Pick(r, []string{"a", "b", "n.x", "id"})), iv(dir))
		l.G.hit("large:find:sorted")
	}
	if r.Chance(2, 3) {
		o.Skip = lib.Pick(r, []int{0, 1, 31, 32, 33, 63, 64, r.Range(0, l.N)})
		o.Limit = lib.Pick(r, []int{0, 1, 5, 32, 33, 64, r.Range(1, l.N)})
		l.G.hit("large:find:skip/limit")
	}
}

// Indexes are index declarations for a large store: compound (2–3 keys), unique, partial or plain.
func (l *Large) Indexes() []Op {
	r := l.G.R
	keys := [][]string{{"a", "b"}, {"a", "b"}, {"a", "n.x"}, {"a", "b", "n.x"}, {"n.x", "a"}, {"a"}, {"b"}, {"b", "a"}}
	var out []Op
	for i := 0; i < r.Range(1, 3); i++ {
		o := Op{Kind: "idx", Keys: lib.Pick(r, keys)}
		switch r.Weighted([]int{5, 3, 2}) {
		case 1:
			o.Unique = len(o.Keys) > 1 && (o.Keys[0] == "a" && o.Keys[1] == "b" || o.Keys[0] == "b") || r.Chance(1, 4)
			l.G.hit("large:index:unique")
		case 2:
			o.Filter = types.NewMap(S("n.x"), lib.Pick(r, []types.Value{l.rng("$lte", 4), l.rng("$gte", 2), iv(3)}))
			l.G.hit("large:index:partial")
		default:
			l.G.hit("large:index:plain")
		}
		l.G.hit(fmt.Sprintf("large:index:%d-keys", len(o.Keys)))
		out = append(out, o)
	}
	return out
}

// Ops draws the operations after the load: finds over large results, updates / deletes matching many documents,
// upserts whose "no match" decision depends on documents late in the walk, single inserts.
func (l *Large) Ops(n int) []Op {
	r := l.G.R
	var ops []Op
	for len(ops) < n {
		switch r.Weighted([]int{10, 3, 2, 2, 2, 1}) {
		case 0:
			o := Op{Kind: "find", Filter: l.Filter()}
			l.FindOpts(&o)
			ops = append(ops, o)
		case 1:
			ops = append(ops, Op{Kind: "upd", Filter: l.Filter(), Update: l.Update()})
			l.G.hit("large:update-many")
		case 2:
			f := l.Filter()
			if f == nil || r.Bool() { // never everything at once too often
				f = types.NewMap(S("a"), l.span(r.Range(2, 20), r.Range(30, l.D)))
			}
			ops = append(ops, Op{Kind: "del", Filter: f})
			l.G.hit("large:delete-many")
		case 3: // an upsert that matches only documents late in id order (or nothing)
			v := 2 + r.Intn(l.D+3)
			ops = append(ops, Op{Kind: "upd", Filter: types.NewMap(S("a"), iv(v)), Update: types.NewMap(S("$set"), types.NewMap(S("n.x"), iv(8))), Upsert: true})
			l.G.hit("large:upsert")
		case 4:
			docs := []types.Map{l.Fresh()}
			for i := 0; i < r.Range(0, 25); i++ {
				docs = append(docs, l.Fresh())
			}
			ops = append(ops, Op{Kind: "ins", Docs: docs})
		default:
			ops = append(ops, Op{Kind: "find"})
		}
	}
	return ops
}

// LoadInto runs the load on k. A batch stops at the first refused document (a unique index declared before the load and
// the planted pair): the documents after it go in one by one, so that the store stays large.
func (l *Large) LoadInto(k *Case) {
	for _, o := range l.Load() {
		res := k.Do(o)
		if res.Kind != "err" {
			continue
		}
		l.G.Hit("large:batch-stopped-at-refused-document")
		for _, d := range o.Docs {
			have := false
			for _, e := range k.Ref.Docs {
				if RCompare(Field(e, S("id")), Field(d, S("id"))) == 0 {
					have = true
					break
				}
			}
			if !have {
				k.Do(Op{Kind: "ins", Docs: []Map{d}})
			}
		}
	}
}
