package storegen

import (
	"bytes"
	"cmp"
	"encoding/binary"
	"fmt"
	"hash/fnv"
	"math"
	"sort"

	"github.com/siyul-park/uniflow/pkg/types"

	"verifharness/lib"
)

// ---------------------------------------------------------------------------------------------
// The reference's OWN order, equality and hash of values. Everything the reference decides – does a document pass a
// filter, which document comes first, do two documents share an id or a unique key, which field of a document is
// meant – goes through RCompare / REqual / Field below and never through types.Compare, types.Equal, Value.Hash or
// Map.Get: a change in the value layer must not move the reference along with the store (seeded change c10l made
// IntN.Compare numeric across widths while Equal stayed strict; a reference built on types.Compare followed it).
//
// The order is the one of the C14 model (lean/Uniflow/Model/Value.lean, `Uniflow.Value.cmp`):
//   - values of different kinds by kind rank: nil < binary < buffer < boolean < error < int < int8 < int16 < int32 <
//     int64 < uint < uint8 < uint16 < uint32 < uint64 < float32 < float64 < map < slice < string (the ranks are read
//     off the Go type exactly as the wire form lib.EncodeVal does, not off Value.Kind());
//   - within a kind by value: false < true, integers numerically, floats as cmp.Compare orders them (every NaN equal
//     to every NaN and below all numbers, -0 = +0), strings / binaries / error messages bytewise, slices
//     lexicographically (a proper prefix first), maps by their pairs sorted by key (key hash, key), pair by pair key
//     hash, key, value, then by length.
// Two values are equal iff they have the same kind and the same value (1 and int64(1) are different values).
// RHash is FNV-1a as the model's `Uniflow.Value.hash` has it; only the order of maps looks at it.
//
// SelfCheck compares all three with the value layer on the generators' alphabet once per run.

func rank(v types.Value) int {
	switch v.(type) {
	case nil:
		return 0
	case types.Binary:
		return 1
	case types.Boolean:
		return 3
	case types.Error:
		return 4
	case types.Int:
		return 5
	case types.Int8:
		return 6
	case types.Int16:
		return 7
	case types.Int32:
		return 8
	case types.Int64:
		return 9
	case types.Uint:
		return 10
	case types.Uint8:
		return 11
	case types.Uint16:
		return 12
	case types.Uint32:
		return 13
	case types.Uint64:
		return 14
	case types.Float32:
		return 15
	case types.Float64:
		return 16
	case types.Map:
		return 17
	case types.Slice:
		return 18
	case types.String:
		return 19
	}
	return 2 // buffer (never generated)
}

func signed(v types.Value) (n int64, width int, ok bool) {
	switch x := v.(type) {
	case types.Int:
		return x.Int(), 8, true
	case types.Int8:
		return x.Int(), 1, true
	case types.Int16:
		return x.Int(), 2, true
	case types.Int32:
		return x.Int(), 4, true
	case types.Int64:
		return x.Int(), 8, true
	}
	return 0, 0, false
}

func unsigned(v types.Value) (n uint64, width int, ok bool) {
	switch x := v.(type) {
	case types.Uint:
		return x.Uint(), 8, true
	case types.Uint8:
		return x.Uint(), 1, true
	case types.Uint16:
		return x.Uint(), 2, true
	case types.Uint32:
		return x.Uint(), 4, true
	case types.Uint64:
		return x.Uint(), 8, true
	}
	return 0, 0, false
}

func rawBytes(v types.Value) ([]byte, bool) {
	switch x := v.(type) {
	case types.Binary:
		return x.Bytes(), true
	case types.Error:
		return []byte(x.Error()), true
	case types.String:
		return []byte(x.String()), true
	}
	return nil, false
}

type rpair struct {
	h    uint64
	k, v types.Value
}

// rpairs: the pairs of a map in the reference's own order of keys.
func rpairs(m types.Map) []rpair {
	var ps []rpair
	for k, v := range m.Range() {
		ps = append(ps, rpair{RHash(k), k, v})
	}
	sort.SliceStable(ps, func(i, j int) bool {
		if ps[i].h != ps[j].h {
			return ps[i].h < ps[j].h
		}
		return RCompare(ps[i].k, ps[j].k) < 0
	})
	return ps
}

// RCompare is the reference's three-way comparison (-1, 0, +1).
func RCompare(x, y types.Value) int {
	if a, ok := x.(types.String); ok { // the common case (field names), without copying the bytes
		if b, ok := y.(types.String); ok {
			return cmp.Compare(a.String(), b.String()) // Go orders strings bytewise
		}
	}
	if rx, ry := rank(x), rank(y); rx != ry {
		return cmp.Compare(rx, ry)
	}
	if a, _, ok := signed(x); ok {
		b, _, _ := signed(y)
		return cmp.Compare(a, b)
	}
	if a, _, ok := unsigned(x); ok {
		b, _, _ := unsigned(y)
		return cmp.Compare(a, b)
	}
	if a, ok := rawBytes(x); ok {
		b, _ := rawBytes(y)
		return bytes.Compare(a, b)
	}
	switch a := x.(type) {
	case types.Boolean:
		p, q := 0, 0
		if a.Bool() {
			p = 1
		}
		if y.(types.Boolean).Bool() {
			q = 1
		}
		return cmp.Compare(p, q)
	case types.Float32:
		return cmp.Compare(a.Interface().(float32), y.(types.Float32).Interface().(float32))
	case types.Float64:
		return cmp.Compare(a.Interface().(float64), y.(types.Float64).Interface().(float64))
	case types.Slice:
		xs, ys := a.Values(), y.(types.Slice).Values()
		for i := 0; i < len(xs) && i < len(ys); i++ {
			if c := RCompare(xs[i], ys[i]); c != 0 {
				return c
			}
		}
		return cmp.Compare(len(xs), len(ys))
	case types.Map:
		ps, qs := rpairs(a), rpairs(y.(types.Map))
		for i := 0; i < len(ps) && i < len(qs); i++ {
			if c := cmp.Compare(ps[i].h, qs[i].h); c != 0 {
				return c
			}
			if c := RCompare(ps[i].k, qs[i].k); c != 0 {
				return c
			}
			if c := RCompare(ps[i].v, qs[i].v); c != 0 {
				return c
			}
		}
		return cmp.Compare(len(ps), len(qs))
	}
	return 0 // nil against nil (and buffers, which are not generated)
}

// REqual is the reference's equality: same kind, same value.
func REqual(x, y types.Value) bool {
	if a, ok := x.(types.String); ok {
		if b, ok := y.(types.String); ok {
			return a.String() == b.String()
		}
	}
	if rank(x) != rank(y) {
		return false
	}
	switch a := x.(type) {
	case types.Slice:
		xs, ys := a.Values(), y.(types.Slice).Values()
		if len(xs) != len(ys) {
			return false
		}
		for i := range xs {
			if !REqual(xs[i], ys[i]) {
				return false
			}
		}
		return true
	case types.Map:
		ps, qs := rpairs(a), rpairs(y.(types.Map))
		if len(ps) != len(qs) {
			return false
		}
		for i := range ps {
			if !REqual(ps[i].k, qs[i].k) || !REqual(ps[i].v, qs[i].v) {
				return false
			}
		}
		return true
	}
	return RCompare(x, y) == 0
}

func le(n uint64, width int) []byte {
	var b [8]byte
	binary.LittleEndian.PutUint64(b[:], n)
	return b[:width]
}

// RHash is FNV-1a-64 over the value's bytes (integers little endian in their width, floats by their canonical bit
// pattern, containers over the big-endian hashes of their parts); nil hashes to 0.
func RHash(v types.Value) uint64 {
	if v == nil {
		return 0
	}
	h := fnv.New64a()
	if n, w, ok := signed(v); ok {
		h.Write(le(uint64(n), w))
		return h.Sum64()
	}
	if n, w, ok := unsigned(v); ok {
		h.Write(le(n, w))
		return h.Sum64()
	}
	if b, ok := rawBytes(v); ok {
		h.Write(b)
		return h.Sum64()
	}
	var be [8]byte
	feed := func(x types.Value) {
		binary.BigEndian.PutUint64(be[:], RHash(x))
		h.Write(be[:])
	}
	switch a := v.(type) {
	case types.Boolean:
		if a.Bool() {
			h.Write([]byte{1})
		} else {
			h.Write([]byte{0})
		}
	case types.Float32:
		f := a.Interface().(float32)
		bits := math.Float32bits(f)
		switch {
		case f != f:
			bits = 0x7FC00000
		case f == 0:
			bits = 0
		}
		h.Write(le(uint64(bits), 4))
	case types.Float64:
		f := a.Interface().(float64)
		bits := math.Float64bits(f)
		switch {
		case f != f:
			bits = 0x7FF8000000000001
		case f == 0:
			bits = 0
		}
		h.Write(le(bits, 8))
	case types.Slice:
		for _, e := range a.Values() {
			feed(e)
		}
	case types.Map:
		for _, p := range rpairs(a) {
			feed(p.k)
			feed(p.v)
		}
	}
	return h.Sum64()
}

// Field is the value the map holds under the key (nil when it holds none), found by the reference's own equality.
func Field(m types.Map, key types.Value) types.Value {
	v, _ := Lookup(m, key)
	return v
}

// Lookup is Field plus presence.
func Lookup(m types.Map, key types.Value) (types.Value, bool) {
	if m == nil {
		return nil, false
	}
	for k, v := range m.Range() {
		if REqual(k, key) {
			return v, true
		}
	}
	return nil, false
}

// SelfAlphabet: every id and field value the generators draw, numerically equal integers of every width next to each
// other, the floats' special values, and containers built from them.
func SelfAlphabet() []types.Value {
	vs := []types.Value{nil, types.False, types.True}
	vs = append(vs, Ids()...)
	vs = append(vs, Scalars()...)
	for _, n := range []int{-1, 0, 1, 2, 5} {
		vs = append(vs, types.NewInt(n), types.NewInt8(int8(n)), types.NewInt16(int16(n)), types.NewInt32(int32(n)), types.NewInt64(int64(n)))
		if n >= 0 {
			vs = append(vs, types.NewUint(uint(n)), types.NewUint8(uint8(n)), types.NewUint16(uint16(n)), types.NewUint32(uint32(n)), types.NewUint64(uint64(n)))
		}
	}
	vs = append(vs, types.NewInt(math.MaxInt), types.NewInt(math.MinInt), types.NewInt8(-128), types.NewUint64(math.MaxUint64),
		types.NewFloat64(0), types.NewFloat64(math.Copysign(0, -1)), types.NewFloat64(math.NaN()), types.NewFloat64(math.Inf(-1)),
		types.NewFloat64(1), types.NewFloat64(-1.5), types.NewFloat32(1), types.NewFloat32(float32(math.NaN())), types.NewFloat32(2),
		types.NewString("1"), types.NewString("10"), types.NewString("2"), types.NewString("id"), types.NewString("ab"),
		types.NewBinary([]byte{1}), types.NewBinary(nil), types.NewError(fmt.Errorf("a")))
	scalars := append([]types.Value{}, vs...)
	vs = append(vs, types.NewSlice(), types.NewSlice(types.NewInt(1), types.NewInt(2)), types.NewSlice(types.NewInt64(1)),
		types.NewSlice(types.NewInt(1), nil), types.NewSlice(types.NewSlice(types.NewInt(1))), types.NewMap())
	for i, s := range scalars {
		if i%3 == 0 {
			vs = append(vs, types.NewMap(S("x"), s), types.NewSlice(s))
		}
		if i%7 == 0 {
			vs = append(vs, types.NewMap(S("x"), s, S("y"), scalars[(i+5)%len(scalars)]), types.NewMap(S("y"), s), types.NewMap(s, S("x")),
				types.NewMap(S("id"), s, S("a"), types.NewMap(S("x"), s)))
		}
	}
	return vs
}

func sign(n int) int { return cmp.Compare(n, 0) }

// SelfCheck compares the reference's order, equality and hash with types.Compare / types.Equal / types.HashOf on
// every pair of SelfAlphabet (and Field with Map.Get). On the tree the checks were written for they agree; a
// disagreement means either that the value layer changed under the store or that the reference drifted – both must
// be looked at, so it is an oracle failure of class `reference-self-check` (the first three disagreements are named).
func SelfCheck(c *lib.Ctx, fails *[]lib.OracleFail) {
	vs := SelfAlphabet()
	var bad []string
	note := func(format string, a ...any) {
		c.Hit("oracle-fail:reference-self-check")
		msg := fmt.Sprintf(format, a...)
		for _, b := range bad {
			if b == msg {
				return
			}
		}
		if len(bad) < 3 {
			bad = append(bad, msg)
		}
	}
	pairs := 0
	for _, x := range vs {
		if got, want := types.HashOf(x), RHash(x); got != want {
			note("types.HashOf(%s) = %d, reference hash %d", lib.EncodeVal(x), got, want)
		}
		for _, y := range vs {
			pairs++
			if got, want := sign(types.Compare(x, y)), RCompare(x, y); got != want {
				note("types.Compare(%s, %s) = %d, reference order %d", lib.EncodeVal(x), lib.EncodeVal(y), got, want)
			}
			if got, want := types.Equal(x, y), REqual(x, y); got != want {
				note("types.Equal(%s, %s) = %v, reference equality %v", lib.EncodeVal(x), lib.EncodeVal(y), got, want)
			}
			if (RCompare(x, y) == 0) != REqual(x, y) {
				note("the reference itself: order %d but equality %v on %s, %s", RCompare(x, y), REqual(x, y), lib.EncodeVal(x), lib.EncodeVal(y))
			}
			if m, ok := x.(types.Map); ok && y != nil {
				if got, want := m.Get(y), Field(m, y); !REqual(got, want) {
					note("(%s).Get(%s) = %s, reference field %s", lib.EncodeVal(x), lib.EncodeVal(y), lib.EncodeVal(got), lib.EncodeVal(want))
				}
			}
		}
	}
	c.Hit(fmt.Sprintf("reference-self-check:values:%d", len(vs)))
	c.Hit(fmt.Sprintf("reference-self-check:pairs:%d", pairs))
	if len(bad) == 0 {
		c.Hit("reference-self-check:agrees")
		return
	}
	what := "the reference's own order / equality / hash of values (storegen/refcmp.go, the order of Uniflow.Value.cmp) and the value layer disagree: "
	for i, b := range bad {
		if i > 0 {
			what += "; "
		}
		what += b
	}
	if len(*fails) < 5 {
		*fails = append(*fails, lib.OracleFail{Class: "reference-self-check", What: what,
			Replay: "# no store history: compare the two functions on the values named above\n# " + what})
	}
}

// Independence is the line the store checks put into their evidence.
const Independence = "the Go reference (storegen/ref.go) decides match, order, uniqueness, id identity and field access with its own comparison, equality and hash of values (storegen/refcmp.go: kind rank read off the Go type as the wire form does, then the value – the order of Uniflow.Value.cmp), not with types.Compare / types.Equal / Value.Hash / Map.Get; the two are compared on the generators' alphabet (incl. numerically equal integers of every width) once per run, a disagreement is an oracle failure `reference-self-check`"
