package c06

import (
	"fmt"
	"hash/fnv"
	"os"
	"runtime/pprof"
	"sort"
	"strconv"
	"strings"
	"time"

	"verifharness/lib"
)

// ------------------------------------------------------------------ generators

type universe struct {
	defs     []*SymDef
	nIds     int  // ids 1..nIds exist in the universe; nIds+1 is never inserted (dangling)
	chain    bool // chain universe: deterministic activation order, failing responders allowed
	hasFail  bool
	refusals []string // `mode refuse …` lines
	// reuse: the case re-inserts the same *Symbol objects (a node closed by an earlier removal is
	// inserted again); no lifecycle ports, because a closed node no longer answers packets
	reuse bool
}

func pickPorts(r *lib.RNG, kind int, n int, lifecycle bool) []int {
	var pool []int
	switch kind {
	case kOneToOne:
		pool = []int{pOut, pOut, pOut, pOut, pX, pInit, pBegin, pTerm, pFinal}
	case kOneToN:
		pool = []int{pOut0, pOut0, pOut1, pOut1, pX, pInit, pBegin, pTerm, pFinal}
	default:
		pool = []int{pOut, pOut, pX, pInit, pTerm}
	}
	if !lifecycle {
		var q []int
		for _, p := range pool {
			if p > pFinal {
				q = append(q, p)
			}
		}
		pool = q
	}
	seen := map[int]bool{}
	var out []int
	for tries := 0; len(out) < n && tries < 20; tries++ {
		p := lib.Pick(r, pool)
		if !seen[p] {
			seen[p] = true
			out = append(out, p)
		}
	}
	return out
}

func genGeneral(r *lib.RNG, c *lib.Ctx, flavour int, reuse bool) *universe {
	u := &universe{nIds: r.Range(2, 5), reuse: reuse}
	nDefs := r.Range(u.nIds, 7)
	for i := 0; i < nDefs; i++ {
		d := &SymDef{ID: i%u.nIds + 1}
		if r.Chance(1, 6) {
			d.NS = 1
		}
		if !r.Chance(1, 3) {
			d.Name = r.Range(1, 3)
		}
		d.Kind = []int{kNil, kOneToOne, kOneToN, kNoPorts}[r.Weighted([]int{1, 7, 2, 1})]
		np := r.Weighted([]int{2, 5, 3, 1})
		if flavour == 1 && np == 0 { // C07 flavour: more references (shared targets, cycles)
			np = 1
		}
		for _, p := range pickPorts(r, d.Kind, np, !u.reuse) {
			pd := PortDef{Port: p}
			nr := 1 + r.Weighted([]int{6, 3, 1})
			for j := 0; j < nr; j++ {
				ref := RefDef{Port: pIn}
				if r.Chance(1, 7) {
					ref.Port = pY
				}
				if r.Chance(1, 2) {
					ref.ID = r.Range(1, u.nIds+1)
					if flavour == 1 && r.Chance(1, 2) {
						ref.ID = 1 // shared target
					}
				} else {
					ref.Name = r.Range(1, 3)
				}
				pd.Refs = append(pd.Refs, ref)
			}
			d.Ports = append(d.Ports, pd)
		}
		u.defs = append(u.defs, d)
	}
	return u
}

// genChain: plain symbols 1..m, each referencing its predecessor (so that the activation order
// of any affected set is total), plus responders m+1.. that may answer with an error.
func genChain(r *lib.RNG, c *lib.Ctx) *universe {
	m := r.Range(2, 4)
	nResp := r.Range(1, 3)
	allNone := r.Chance(1, 4) // every responder answers with the packet.None singleton
	u := &universe{nIds: m + nResp, chain: true, reuse: r.Chance(3, 10)}
	if u.reuse {
		c.Hit("universe-chain-reused-objects")
		u.hasFail = true // a node closed by an earlier removal answers lifecycle flows with a dropped packet
	}
	names := make([]int, u.nIds+1)
	for k := 1; k <= u.nIds; k++ {
		if r.Chance(1, 2) {
			names[k] = k
		}
	}
	mkRef := func(k int) RefDef {
		if names[k] != 0 && r.Chance(1, 2) {
			return RefDef{Name: names[k], Port: pIn}
		}
		return RefDef{ID: k, Port: pIn}
	}
	for k := 1; k <= m; k++ {
		nv := r.Range(1, 2)
		for v := 0; v < nv; v++ {
			d := &SymDef{ID: k, Name: names[k], Kind: kOneToOne}
			if r.Chance(1, 5) {
				d.Kind = kOneToN
			}
			used := map[int]bool{}
			add := func(p int, ref RefDef) {
				for i := range d.Ports {
					if d.Ports[i].Port == p {
						d.Ports[i].Refs = append(d.Ports[i].Refs, ref)
						return
					}
				}
				d.Ports = append(d.Ports, PortDef{Port: p, Refs: []RefDef{ref}})
				used[p] = true
			}
			outP := pOut
			if d.Kind == kOneToN {
				outP = pOut0
			}
			if k > 1 {
				add(outP, mkRef(k-1))
				if k > 2 && r.Chance(1, 2) {
					add(outP, mkRef(r.Range(1, k-2)))
				}
			}
			for _, ph := range []int{pInit, pBegin, pTerm, pFinal} {
				if r.Chance(2, 5) {
					// 1–3 targets per lifecycle port (several in half of the ports when there are responders enough)
					first := r.Range(1, nResp)
					add(ph, mkRef(m+first))
					if nResp > 1 && r.Chance(1, 2) {
						for j := 1; j <= nResp; j++ {
							if j != first && r.Chance(2, 3) {
								add(ph, mkRef(m+j))
							}
						}
					}
				}
			}
			u.defs = append(u.defs, d)
		}
	}
	for k := m + 1; k <= u.nIds; k++ {
		if allNone {
			// sinks: every request is answered with the packet.None singleton (a flow to several of
			// them is a success: None is not an error)
			u.defs = append(u.defs, &SymDef{ID: k, Name: names[k], Kind: kOneToOne, Resp: respNone})
			if r.Chance(1, 3) {
				u.defs = append(u.defs, &SymDef{ID: k, Name: names[k], Kind: kOneToOne, Resp: respEmpty})
			}
			c.Hit("responders-all-answer-none")
			continue
		}
		u.defs = append(u.defs, &SymDef{ID: k, Name: names[k], Kind: kOneToOne, Resp: lib.Pick(r, []int{0, 0, respNone, respEmpty})})
		if r.Chance(2, 3) {
			// an error: plain, or wrapped (WithMessage / WithStack / a custom type with Cause())
			u.defs = append(u.defs, &SymDef{ID: k, Name: names[k], Kind: kOneToOne, Resp: lib.Pick(r, []int{0, 0, 100, 140, 180}) + k})
			u.hasFail = true
			c.Hit("responder-answers-error")
		}
		if r.Chance(1, 3) {
			// a responder that answers every request with packet.ErrDroppedPacket
			u.defs = append(u.defs, &SymDef{ID: k, Name: names[k], Kind: kOneToOne, Resp: respDropped})
			u.hasFail = true
			c.Hit("responder-answers-dropped-packet")
		}
	}
	// refusing hooks: a load / unload hook that runs before / after the observing hooks refuses a
	// symbol, once or always
	if r.Chance(5, 10) {
		nr := r.Range(1, 2)
		seen := map[string]bool{}
		for i := 0; i < nr; i++ {
			un, af, sym, once := r.Intn(2), r.Intn(2), r.Range(1, u.nIds), r.Intn(2)
			if r.Chance(1, 2) {
				un, af = 1, 0 // an unload hook that runs before the observers: the one C07 can judge
			}
			key := fmt.Sprintf("%d %d %d", un, af, sym)
			if seen[key] {
				continue
			}
			seen[key] = true
			u.refusals = append(u.refusals, fmt.Sprintf("mode refuse %d %d %d %d %d", un, af, sym, once, 40+i))
			c.Hit(fmt.Sprintf("refusing-hook-unload%d-after%d", un, af))
		}
		u.hasFail = true
	}
	return u
}

// nameFree: inserting d keeps names unique per namespace among the live symbols.
func nameFree(cur map[int]*live, d *SymDef) bool {
	if d.Name == 0 {
		return true
	}
	for id, l := range cur {
		if id != d.ID && l.def.NS == d.NS && l.def.Name == d.Name {
			return false
		}
	}
	return true
}

// ------------------------------------------------------------------ one case

type caseResult struct {
	lines     []string
	outs      []string
	fails     []lib.OracleFail
	hadErr    bool
	hadErrC07 bool
	maxLink   int
	sawU      bool
	blocked   bool
}

func replayOf(lines, outs []string) string {
	var b strings.Builder
	for i, l := range lines {
		o := ""
		if i < len(outs) {
			o = outs[i]
		}
		fmt.Fprintf(&b, "%s\t=> impl: %s\n", l, o)
	}
	return b.String()
}

type runner struct {
	w      *world
	seq    bool
	res    *caseResult
	which  string // C06 | C07 | C08 : which oracle's failures are reported by this run
	c      *lib.Ctx
	closed bool
	// sparse: the table is not read (Keys, Lookup, ports, reverse index) after an operation; the
	// state is observed only by explicit `observe` lines – an observer that looks after every step
	// hides state that is refreshed by being looked at
	sparse   bool
	lastOp   string
	diverged bool
	altBal   map[int]int // oracleC07: balance of the log up to altUpTo
	altUpTo  int
}

func (rn *runner) fail(prop, class, what string) {
	if prop != rn.which {
		return
	}
	for _, f := range rn.res.fails {
		if f.Class == class {
			return
		}
	}
	rn.res.fails = append(rn.res.fails, lib.OracleFail{Class: class, What: what})
}

// do applies one op on the implementation, records the observation, runs the oracles.
func (rn *runner) do(line string) {
	w := rn.w
	if line == "observe" {
		obs := w.observeState()
		if !rn.diverged {
			rn.res.lines = append(rn.res.lines, line)
			rn.res.outs = append(rn.res.outs, obs)
		}
		links := w.links()
		if len(links) > rn.res.maxLink {
			rn.res.maxLink = len(links)
		}
		rn.oracleC06("observe (after "+rn.lastOp+")", links)
		rn.c.Hit("observation-point")
		return
	}
	line = w.effective(line)
	rn.lastOp = line
	before := copyCur(w.cur)
	balBefore := w.balances()
	firedBefore := map[string]bool{}
	for _, r := range w.refusals {
		if r.fired {
			u, a := 0, 0
			if r.unload {
				u = 1
			}
			if r.after {
				a = 1
			}
			firedBefore[fmt.Sprintf("X%d%d:%d", u, a, r.sym)] = true
		}
	}
	ret, evs, blocked := w.apply(line)
	if blocked {
		rn.res.blocked = true
		rn.res.lines = append(rn.res.lines, line)
		rn.res.outs = append(rn.res.outs, "BLOCKED")
		rn.fail(rn.which, "blocked", "operation did not return within 5 s: "+line)
		return
	}
	after := w.cur
	errBadMu.Lock()
	for _, m := range errBad {
		rn.fail("C08", "error-identity", fmt.Sprintf("%q: %s", line, m))
	}
	errBad = nil
	errBadMu.Unlock()
	for _, m := range w.hookBad {
		rn.fail("C08", "hooks", fmt.Sprintf("%q: %s (every registered load hook runs for every activation between the init and the begin flow, in registration order; unload hooks between term and final, last registered first)", line, m))
	}
	w.hookBad = nil
	if strings.HasPrefix(line, "hook ") {
		rn.res.lines = append(rn.res.lines, line)
		rn.res.outs = append(rn.res.outs, ret)
		rn.c.Hit("op-hook-" + strings.Fields(line)[1])
		return
	}
	// Close frees unrelated symbols in map order: its events are always compared as a set
	var obs string
	if rn.sparse {
		obs = ret + " E " + showEvents(rn.seq && !strings.HasPrefix(line, "close"), evs)
	} else {
		obs = w.observe(rn.seq && !strings.HasPrefix(line, "close"), ret, evs)
	}
	if strings.HasPrefix(line, "close") && strings.HasPrefix(ret, "err") {
		// which flow fails first, and so what is left, depends on the order in which Close frees
		// unrelated symbols: only "Close failed" is compared with the model (that fact does not
		// depend on the order: every active symbol is unloaded by Close unless it aborts); the
		// oracle checks the rest on the real log
		obs = "err"
		rn.c.Hit("close-returned-error")
		// model and implementation may have freed different symbols: later observations of this case
		// are checked by the oracles only, not compared with the model
		rn.diverged = true
	}
	rn.res.lines = append(rn.res.lines, line)
	rn.res.outs = append(rn.res.outs, obs)
	if strings.HasPrefix(ret, "err") || strings.HasPrefix(ret, "PANIC") {
		rn.res.hadErr = true
		// C07 ("loaded without a matching unload" = "closure present", alternation) is about histories
		// without failures, with one exception that leaves everything as it was: the operation was
		// refused by an unload hook that runs BEFORE every observing hook, for the first symbol its
		// unload pass reached (nothing was notified before the refusal). Every other failure (a flow,
		// a load hook, an unload hook that runs after the observers, a refusal after other symbols of
		// the pass were unloaded) may leave a present symbol with a complete closure un-notified on
		// the unchanged code and is outside the property's quantifier.
		inEnvelope := false
		for _, e := range evs {
			if e.k == 'L' || e.k == 'U' || e.k == 'l' || e.k == 'u' {
				break
			}
			if e.k == 'X' {
				inEnvelope = e.tgt == 2
				break
			}
		}
		if !inEnvelope || strings.HasPrefix(ret, "PANIC") {
			rn.res.hadErrC07 = true
		} else {
			rn.c.Hit("refused-unload-inside-C07-envelope")
		}
	}
	if strings.HasPrefix(ret, "PANIC") {
		rn.fail(rn.which, "panic", ret+" at "+line)
	}
	for _, e := range evs {
		if e.k == 'U' {
			rn.res.sawU = true
		}
		rn.c.Hit("event-" + string(e.k))
	}
	// contents and wiring are checked after every operation (in a sparse case: at the observation
	// points), also after one that returned an error (C06 quantifies over histories whatever the
	// operations returned); "active = closure" only on error-free histories
	if !rn.sparse {
		links := w.links()
		if len(links) > rn.res.maxLink {
			rn.res.maxLink = len(links)
		}
		rn.oracleC06(line, links)
	}
	if !rn.res.hadErrC07 {
		rn.oracleC07(line, strings.HasPrefix(line, "close") && !rn.sparse && !strings.HasPrefix(ret, "err"))
	}
	rn.oracleC08(line, ret, evs, before, after, balBefore, firedBefore)
}

func (rn *runner) oracleC06(line string, links []string) {
	w := rn.w
	var want []int
	for id := range w.cur {
		want = append(want, id)
	}
	sort.Ints(want)
	// Keys and Lookup are read twice in a row: the second answer must be the same
	for round := 1; round <= 2; round++ {
		if got := ints(w.keys()); got != ints(want) {
			rn.fail("C06", "contents", fmt.Sprintf("after %q the table holds ids [%s] (Keys call %d), the latest inserted and not removed are [%s]", line, got, round, ints(want)))
		}
		for id := 1; id <= maxID; id++ {
			got := w.table().Lookup(idOf(id))
			if l, ok := w.cur[id]; ok {
				if got != l.sb {
					rn.fail("C06", "contents", fmt.Sprintf("after %q Lookup(%d) is not the latest inserted symbol", line, id))
				}
			} else if got != nil {
				rn.fail("C06", "contents", fmt.Sprintf("after %q Lookup(%d) yields a symbol although none is in the table under that id", line, id))
			}
		}
	}
	got := numSortJoin(append([]string{}, links...))
	exp := numSortJoin(expectedLinks(w.cur))
	if got != exp {
		rn.fail("C06", "wiring", fmt.Sprintf("after %q links are [%s], the specs of the live symbols say [%s]", line, got, exp))
	}
}

func (rn *runner) oracleC07(line string, isClose bool) {
	w := rn.w
	var want []int
	for id := range w.cur {
		if closureOK(w.cur, id) {
			want = append(want, id)
		}
	}
	sort.Ints(want)
	if got := ints(w.active()); got != ints(want) {
		rn.fail("C07", "active-vs-closure", fmt.Sprintf("after %q the symbols loaded and not unloaded are [%s], those whose reference closure is present are [%s]", line, got, ints(want)))
	}
	// alternation / unload-before-close: the events since the last check (the log only grows)
	if rn.altBal == nil {
		rn.altBal = map[int]int{}
	}
	bal := rn.altBal
	w.mu.Lock()
	log := append([]ev{}, w.log[rn.altUpTo:]...)
	rn.altUpTo = len(w.log)
	w.mu.Unlock()
	for _, e := range log {
		switch e.k {
		case 'L':
			bal[e.subj]++
			if bal[e.subj] != 1 {
				rn.fail("C07", "alternation", fmt.Sprintf("by %q symbol %d was loaded twice without an unload in between", line, e.subj))
			}
		case 'U':
			bal[e.subj]--
			if bal[e.subj] != 0 {
				rn.fail("C07", "alternation", fmt.Sprintf("by %q symbol %d was unloaded without being loaded", line, e.subj))
			}
		case 'C':
			if bal[e.subj] != 0 {
				rn.fail("C07", "unload-before-close", fmt.Sprintf("by %q the node of symbol %d was closed while the symbol was still loaded", line, e.subj))
			}
		}
	}
	if isClose {
		if a := w.active(); len(a) != 0 || len(w.keys()) != 0 {
			rn.fail("C07", "close-unloads-all", fmt.Sprintf("after Close symbols [%s] are still loaded, keys [%s]", ints(a), ints(w.keys())))
		}
	}
}

func reqToks(s int, ts []int) []string {
	var out []string
	for _, t := range ts {
		out = append(out, fmt.Sprintf("r%d:%d", s, t))
	}
	return out
}

// expectedBlock: the events of one activation (load=true) or deactivation of s, and the error
// codes if one of its flows fails (then the block ends there).
func expectedBlock(cur map[int]*live, s int, load bool, rf []*refusal, fired map[string]bool) (toks []string, abort []int) {
	l, ok := cur[s]
	if !ok {
		return nil, nil
	}
	p1, p2, mid := pInit, pBegin, "L"
	if !load {
		p1, p2, mid = pTerm, pFinal, "U"
	}
	u := 0
	if !load {
		u = 1
	}
	// the refusing hook at (unload, after) that refuses s now, if any
	refuses := func(after int) (string, int, bool) {
		for _, r := range rf {
			key := fmt.Sprintf("X%d%d:%d", u, after, s)
			if r.unload == !load && r.after == (after == 1) && r.sym == s && !(r.once && fired[key]) {
				return key, r.code, true
			}
		}
		return "", 0, false
	}
	ts, fails := flowTargets(cur, l.def, p1)
	toks = append(toks, reqToks(s, ts)...)
	if len(fails) > 0 {
		return toks, fails
	}
	if key, code, yes := refuses(0); yes {
		return append(toks, key), []int{code}
	}
	toks = append(toks, mid+strconv.Itoa(s))
	if key, code, yes := refuses(1); yes {
		return append(toks, key), []int{code}
	}
	ts, fails = flowTargets(cur, l.def, p2)
	toks = append(toks, reqToks(s, ts)...)
	return toks, fails
}

func codes(cs []int) string {
	var s []string
	for _, c := range cs {
		s = append(s, strconv.Itoa(c))
	}
	return "err:" + strings.Join(s, "+")
}

func (rn *runner) oracleC08(line, ret string, evs []ev, before, after map[int]*live, balBefore map[int]int, fired map[string]bool) {
	rf := rn.w.refusals
	// lifecycle order and error abort, block by block ('C' events are not part of C08)
	es := evs
	var bs [][]string
	for _, b := range blocksOf(es) {
		if !strings.HasPrefix(b[0], "C") {
			bs = append(bs, b)
		}
	}
	aborted := false
	invisible := false // the failing flow left no event (closed nodes only)
	abortSubj := 0
	for bi, b := range bs {
		if aborted {
			rn.fail("C08", "error-does-not-abort", fmt.Sprintf("%q: events %v follow a lifecycle flow that answered with an error", line, b))
			break
		}
		txt := strings.Join(b, " ")
		var subj int
		if strings.HasPrefix(b[0], "X") {
			fmt.Sscanf(b[0][strings.Index(b[0], ":")+1:], "%d", &subj)
		} else {
			fmt.Sscanf(strings.TrimLeft(b[0], "rLU"), "%d", &subj)
		}
		var cands [][2]interface{}
		switch {
		case strings.Contains(" "+txt, " L") || strings.Contains(" "+txt, " X0"):
			t, a := expectedBlock(after, subj, true, rf, fired)
			cands = append(cands, [2]interface{}{t, a})
		case strings.Contains(" "+txt, " U") || strings.Contains(" "+txt, " X1"):
			t, a := expectedBlock(before, subj, false, rf, fired)
			cands = append(cands, [2]interface{}{t, a})
		default: // requests only: a first flow that failed
			t, a := expectedBlock(after, subj, true, rf, fired)
			cands = append(cands, [2]interface{}{t, a})
			t, a = expectedBlock(before, subj, false, rf, fired)
			cands = append(cands, [2]interface{}{t, a})
		}
		for _, tk := range b {
			if strings.HasPrefix(tk, "X") {
				fired[tk] = true
			}
		}
		matched := false
		// a requests-only block fits the init flow or the term flow; take the candidate whose
		// events and (when it aborts) whose error both fit
		best := -1
		for ci, cd := range cands {
			t, a := cd[0].([]string), cd[1].([]int)
			if strings.Join(t, " ") != txt {
				continue
			}
			if best < 0 {
				best = ci
			}
			if len(a) == 0 || ret == codes(a) {
				best = ci
				break
			}
		}
		if best >= 0 {
			matched = true
			a := cands[best][1].([]int)
			if len(a) > 0 {
				aborted = true
				abortSubj = subj
				if ret != codes(a) {
					rn.fail("C08", "error-not-returned", fmt.Sprintf("%q: the flow of symbol %d answered %s but the operation returned %s", line, subj, codes(a), ret))
				}
				if bi != len(bs)-1 {
					rn.fail("C08", "error-does-not-abort", fmt.Sprintf("%q: blocks follow the failed flow of symbol %d", line, subj))
				}
			}
		}
		if !matched {
			var exp []string
			for _, cd := range cands {
				exp = append(exp, strings.Join(cd[0].([]string), " "))
			}
			rn.fail("C08", "lifecycle-order", fmt.Sprintf("%q: symbol %d's events were [%s], expected [%s]", line, subj, txt, strings.Join(exp, "] or [")))
		}
	}
	if !aborted && strings.HasPrefix(ret, "err") {
		// a flow that reaches closed nodes only fails without leaving an event (the nodes never see
		// the request): accept the error when some symbol's first flow is such a flow with this error
		for _, side := range []struct {
			cur  map[int]*live
			load bool
		}{{after, true}, {before, false}} {
			for sid := range side.cur {
				if !closureOK(side.cur, sid) {
					continue // only an activated symbol runs its flows
				}
				if t, a := expectedBlock(side.cur, sid, side.load, rf, fired); len(t) == 0 && len(a) > 0 && codes(a) == ret && !aborted {
					aborted = true
					invisible = true
					abortSubj = sid
				}
			}
		}
	}
	if !aborted && strings.HasPrefix(ret, "err") {
		rn.fail("C08", "error-not-returned", fmt.Sprintf("%q returned %s but no lifecycle flow answered with an error", line, ret))
		rn.fail("C07", "aborted-without-cause", fmt.Sprintf("%q returned %s although no lifecycle flow answered with an error and no hook refused: the (de)activation of a symbol whose closure is present was cut short", line, ret))
	}
	if aborted && !invisible && len(evs) > 0 && evs[len(evs)-1].k == 'C' {
		rn.fail("C08", "error-does-not-abort", fmt.Sprintf("%q: a node was closed after the lifecycle flow of symbol %d answered with an error", line, abortSubj))
	}
	if strings.HasPrefix(line, "close") && !rn.sparse {
		// what Close leaves behind (independent of the order in which it frees unrelated symbols)
		keys := rn.w.keys()
		if !aborted {
			if len(keys) != 0 {
				rn.fail("C08", "close-incomplete", fmt.Sprintf("Close ran no failing lifecycle flow but symbols [%s] are still in the table", ints(keys)))
			}
		} else {
			if !invisible && !has(keys, abortSubj) {
				rn.fail("C08", "error-does-not-abort", fmt.Sprintf("Close: symbol %d was removed although its lifecycle flow answered with an error", abortSubj))
			}
			for _, e := range evs {
				if e.k == 'C' && has(keys, e.subj) {
					rn.fail("C08", "close-incomplete", fmt.Sprintf("Close: the node of symbol %d was closed but the symbol is still in the table", e.subj))
				}
			}
			for _, k := range keys {
				if _, ok := before[k]; !ok {
					rn.fail("C08", "close-incomplete", fmt.Sprintf("Close: symbol %d appeared in the table", k))
				}
			}
		}
	}
	// dependencies first
	pos := func(k byte) map[int]int {
		m := map[int]int{}
		for i, e := range es {
			if e.k == k {
				if _, dup := m[e.subj]; dup {
					rn.fail("C08", "lifecycle-once", fmt.Sprintf("%q: symbol %d got two '%c' notifications in one operation", line, e.subj, k))
				}
				m[e.subj] = i
			}
		}
		return m
	}
	if acyclic(after) {
		lp := pos('L')
		for s, is := range lp {
			for t, it := range lp {
				if s != t && refsLive(after, s, t) && it > is {
					rn.fail("C08", "deps-first", fmt.Sprintf("%q: symbol %d references %d but was activated before it", line, s, t))
				}
			}
		}
	}
	if acyclic(before) {
		up := pos('U')
		for s, is := range up {
			for t, it := range up {
				if s != t && refsLive(before, s, t) && it < is {
					rn.fail("C08", "deps-first", fmt.Sprintf("%q: symbol %d references %d but was deactivated after it", line, s, t))
				}
			}
		}
	}
	// dependencies first, read on the whole history (error-free histories only: with a failed flow
	// "activated" is no longer what the hook log says): a symbol is activated only while every symbol
	// it references is activated, and a symbol is deactivated only while no symbol that references it
	// is still activated – also when the dependent is not notified at all in this operation.
	if !rn.res.hadErr {
		bal := map[int]int{}
		for k, v := range balBefore {
			bal[k] = v
		}
		okAfter, okBefore := acyclic(after), acyclic(before)
		for _, e := range es {
			switch e.k {
			case 'L':
				if okAfter {
					for t := range after {
						if t != e.subj && refsLive(after, e.subj, t) && bal[t] != 1 {
							rn.fail("C08", "deps-first", fmt.Sprintf("%q: symbol %d was activated while %d, which it references, was not activated", line, e.subj, t))
						}
					}
				}
				bal[e.subj]++
			case 'U':
				if okBefore {
					for s2 := range before {
						if s2 != e.subj && refsLive(before, s2, e.subj) && bal[s2] != 0 {
							rn.fail("C08", "deps-first", fmt.Sprintf("%q: symbol %d was deactivated while %d, which references it, was still activated", line, e.subj, s2))
						}
					}
				}
				bal[e.subj]--
			}
		}
	}
}

// ------------------------------------------------------------------ driving

func runLines(c *lib.Ctx, which string, lines []string) *caseResult {
	rn := &runner{w: newWorld(), res: &caseResult{}, which: which, c: c}
	for _, l := range lines {
		f := strings.Fields(l)
		if len(f) >= 3 && f[0] == "mode" && f[1] == "opts" {
			for _, x := range f[2:] {
				n, _ := strconv.Atoi(x)
				rn.w.opts = append(rn.w.opts, n)
			}
			rn.res.lines = append(rn.res.lines, l)
			rn.res.outs = append(rn.res.outs, "ok")
			continue
		}
		if len(f) == 7 && f[0] == "mode" && f[1] == "refuse" {
			n := make([]int, 5)
			for i := range n {
				n[i], _ = strconv.Atoi(f[2+i])
			}
			rn.w.refusals = append(rn.w.refusals, &refusal{unload: n[0] == 1, after: n[1] == 1, sym: n[2], once: n[3] == 1, code: n[4]})
			rn.res.lines = append(rn.res.lines, l)
			rn.res.outs = append(rn.res.outs, "ok")
			continue
		}
		if len(f) == 2 && f[0] == "mode" && f[1] == "sparse" {
			rn.sparse = true
			rn.res.lines = append(rn.res.lines, l)
			rn.res.outs = append(rn.res.outs, "ok")
			continue
		}
		if len(f) == 2 && f[0] == "mode" {
			if f[1] == "reuse" {
				rn.w.reuse = true
			} else if f[1] == "cluster" {
				rn.w.cluster = true
			} else {
				rn.seq = f[1] == "seq"
			}
			rn.res.lines = append(rn.res.lines, l)
			rn.res.outs = append(rn.res.outs, "ok")
			continue
		}
		rn.do(l)
		if rn.res.blocked {
			break
		}
	}
	if !rn.res.blocked {
		lib.WithTimeout(5e9, func() { rn.w.table().Close() })
	}
	for i := range rn.res.fails {
		rn.res.fails[i].Replay = replayOf(rn.res.lines, rn.res.outs)
	}
	rn.c.Hist["object-reinserted"] += rn.w.reused
	return rn.res
}

// genCase: a case, observed after every operation or – in 4 of 10 cases – sparsely: the table is
// read (Keys, Lookup, ports, reverse index) only by explicit `observe` lines after every 2nd–4th
// operation (one stride per case) and at the end, so that state which is refreshed by being looked
// at (a memoised key list, …) is seen after several unobserved operations.
func genCase(c *lib.Ctx, r *lib.RNG, which string) []string {
	lines := genCasePlain(c, r, which)
	// One case in four builds the one-to-one nodes of even ids as a symbol.Cluster around the node
	// (ports `in` and `out` piped to the inner node's, the way ext's block and step nodes are
	// built): the table sees the same ports, the model is unchanged (`mode cluster` is invisible to
	// it). Chosen from a hash of the case, not from the RNG: the other cases stay what they were.
	h := fnv.New32a()
	for _, l := range lines {
		h.Write([]byte(l))
	}
	if h.Sum32()%4 == 0 {
		c.Hit("case-cluster-nodes")
		lines = append([]string{lines[0], "mode cluster"}, lines[1:]...)
	}
	return lines
}

func genCasePlain(c *lib.Ctx, r *lib.RNG, which string) []string {
	if r.Chance(1, 12) {
		return genLarge(c, r, which)
	}
	ops := genCaseOps(c, r, which)
	if !r.Chance(4, 10) {
		return ops
	}
	c.Hit("case-observed-sparsely")
	stride := r.Range(2, 4)
	var out []string
	i := 0
	for i < len(ops) && strings.HasPrefix(ops[i], "mode ") {
		out = append(out, ops[i])
		i++
	}
	out = append(out, "mode sparse")
	n := 0
	for ; i < len(ops); i++ {
		out = append(out, ops[i])
		n++
		if n%stride == 0 {
			out = append(out, "observe")
		}
	}
	if out[len(out)-1] != "observe" {
		out = append(out, "observe")
	}
	return out
}

func genCaseOps(c *lib.Ctx, r *lib.RNG, which string) []string {
	var u *universe
	flavour := map[string]int{"C06": 0, "C07": 1, "C08": 2}[which]
	chainP := map[string]int{"C06": 3, "C07": 3, "C08": 5}[which]
	if r.Chance(chainP, 10) {
		u = genChain(r, c)
		c.Hit("universe-chain")
	} else {
		reuse := r.Chance(map[string]int{"C06": 4, "C07": 1, "C08": 1}[which], 10)
		u = genGeneral(r, c, flavour, reuse)
		if reuse {
			c.Hit("universe-general-reused-objects")
		} else {
			c.Hit("universe-general")
		}
	}
	lines := []string{"mode set"}
	if u.chain {
		lines[0] = "mode seq"
	}
	if u.reuse {
		lines = append(lines, "mode reuse")
	}
	lines = append(lines, u.refusals...)
	// the table is built from 2–3 TableOptions with 1–2 load and unload hooks each
	nHooks := 2 // hook ids: 1,2 for the default single option
	multi := r.Chance(map[string]int{"C06": 2, "C07": 3, "C08": 5}[which], 10)
	if multi {
		no := r.Range(2, 3)
		l := "mode opts"
		nHooks = 0
		for i := 0; i < no; i++ {
			k := r.Range(1, 2)
			l += " " + strconv.Itoa(k)
			nHooks += 2 * k
		}
		lines = append(lines, l)
		c.Hit("table-from-several-options")
	}
	// the generator's own view of what is live (names must stay unique among live symbols)
	cur := map[int]*live{}
	n := r.Range(4, c.Scale(14, 14))
	for len(lines)-1 < n {
		if multi && len(u.refusals) == 0 && r.Chance(1, 8) {
			// Add / Remove a hook on the table that already holds hooks. Load hooks have the odd ids,
			// unload hooks the even ones (creation order); ids above nHooks are fresh objects. The
			// first hook of each kind is never removed (the trace needs one notification per kind).
			kind := lib.Pick(r, []string{"addl", "rml", "addu", "rmu"})
			k := 2*r.Range(1, nHooks/2+1) + 1
			if kind == "addu" || kind == "rmu" {
				k++
			}
			lines = append(lines, fmt.Sprintf("hook %s %d", kind, k))
			continue
		}
		switch k := r.Weighted([]int{14, 5, 1}); k {
		case 0:
			var d *SymDef
			for tries := 0; tries < 8; tries++ {
				x := lib.Pick(r, u.defs)
				if nameFree(cur, x) {
					d = x
					break
				}
			}
			if d == nil {
				continue
			}
			if l, ok := cur[d.ID]; ok {
				if l.def.Name != d.Name || l.def.NS != d.NS {
					c.Hit("op-insert-rename")
				} else {
					c.Hit("op-insert-replace")
				}
			} else {
				c.Hit("op-insert-new")
			}
			// an insert whose unload phase fails leaves the old symbol; the generator cannot
			// know – it only needs `cur` for name uniqueness, so keep both possibilities safe:
			// names are fixed per id in chain universes (the only ones with failures).
			cur[d.ID] = &live{def: d}
			lines = append(lines, d.line())
			if u.hasFail && r.Chance(1, 4) {
				lines = append(lines, d.line()) // retry of a (possibly refused) operation
			}
		case 1:
			id := r.Range(1, u.nIds+1)
			if _, ok := cur[id]; ok {
				c.Hit("op-free-present")
			} else {
				c.Hit("op-free-absent")
			}
			if !u.chain {
				delete(cur, id)
			}
			lines = append(lines, fmt.Sprintf("free %d", id))
			if u.hasFail && r.Chance(1, 4) {
				lines = append(lines, fmt.Sprintf("free %d", id))
			}
		default:
			if u.chain && u.hasFail {
				// with a failing flow the point at which Close aborts depends on map order: the
				// states of model and implementation may differ afterwards, so it ends the case
				c.Hit("op-close-failing-universe")
				lines = append(lines, "close")
				return lines
			}
			c.Hit("op-close")
			if !u.chain {
				cur = map[int]*live{}
			}
			lines = append(lines, "close")
		}
	}
	// the table's final Close is part of the case (it used to be an unchecked teardown)
	if lines[len(lines)-1] != "close" && r.Chance(1, 2) {
		if u.chain && u.hasFail {
			c.Hit("op-close-failing-universe")
		} else {
			c.Hit("op-close")
		}
		lines = append(lines, "close")
	}
	return lines
}

// RunProp is the body of C06.Run / C07.Run / C08.Run.
func RunProp(c *lib.Ctx, which string) {
	if pf := os.Getenv("VERIF_CPUPROFILE"); pf != "" {
		f, _ := os.Create(pf)
		pprof.StartCPUProfile(f)
		defer pprof.StopCPUProfile()
	}
	// lib.NewRNG(seed+1) is lib.NewRNG(seed) advanced by one draw; Fork() scrambles the state so
	// that different seeds (and the three properties) get unrelated streams.
	r := lib.NewRNG(c.Seed).Fork()
	for i := byte('0'); i < which[2]; i++ {
		r = r.Fork()
	}
	sc := &lib.Script{}
	var fails []lib.OracleFail
	addFails := func(fs []lib.OracleFail) {
		for _, f := range fs {
			dup := false
			for _, g := range fails {
				if g.Class == f.Class {
					dup = true
				}
			}
			if !dup {
				fails = append(fails, f)
			}
		}
	}
	emit := func(res *caseResult) {
		sc.Begin()
		for i, l := range res.lines {
			sc.Op(l, res.outs[i])
		}
	}
	// corpus first (all three corpora: they are histories of the same table)
	for _, dir := range []string{"C06", "C07", "C08"} {
		save := c.Prop
		c.Prop = dir
		files := c.CorpusFiles()
		c.Prop = save
		for _, f := range files {
			lines := lib.ReadLines(f)
			res := runLines(c, which, lines)
			emit(res)
			addFails(res.fails)
			c.Count("corpus:" + f)
			c.Hit("corpus-case")
		}
	}
	n := c.Scale(4000, 120000)
	for i := 0; i < n; i++ {
		lines := genCase(c, r.Fork(), which)
		res := runLines(c, which, lines)
		emit(res)
		addFails(res.fails)
		key := ""
		if res.maxLink >= 1 && res.sawU && len(lines) >= 5 {
			key = strings.Join(lines, "|")
		}
		if res.hadErr {
			c.Hit("case-with-failing-flow")
		}
		c.Count(key)
		if i < 2 {
			c.Sample(map[string]any{"ops": res.lines, "observations": res.outs})
		}
	}
	var ms []lib.Mismatch
	if c.Proof.DriverBuilt {
		var err error
		t0 := time.Now()
		c.Extra["implementation_and_oracles_s"] = t0.Sub(c.Start).Seconds()
		ms, err = c.RunModel("c06", sc)
		c.Extra["model_driver_s"] = time.Since(t0).Seconds()
		nb := 0
		for _, l := range sc.Lines {
			nb += len(l) + 1
		}
		c.Extra["script_bytes"] = nb // one driver serves C06–C08
		if err != nil {
			c.Violation("model driver failed: "+err.Error(), "", false)
		}
	}
	c.Rule = "each case = one universe (≤5 ids + one never-inserted id, ≤8 symbol versions, 2 namespaces, by-id and by-name references, shared targets, self-references, cycles, dangling references; or a chain universe with responders that may fail) and one history of ≤14 Insert (new/replace/rename) / Free / Close on the real symbol.Table with real nodes; after every op keys, out-port links, the reverse-reference index, the active set and the op's events are compared with Uniflow.Table.step. In universes with failing responders a Close ends the case and, when it fails, only the fact that it failed is compared with the model (what is left depends on map order); the C08 oracle checks on the real log that the returned error is the failing flow's, that nothing runs after it and what is left in the table. Non-trivial: ≥5 lines, a link existed and an unload happened; distinct by the op lines."
	c.Assumptions = []string{
		"a *Symbol object that is inserted again after it was freed, replaced or removed by Close behaves like a fresh one (cases of the 'reused objects' universes insert the very same object again; the model's symbols are ids, so it only says what the wiring must be)",
		"the model has one load / unload notification per activation: the harness's table holds 1–5 load and unload hooks (2–3 TableOptions in a share of the cases, plus Add/Remove on the live table) and collapses the calls of one notification into one event only when they are exactly the registered hooks in registration order (unload: last registered first); anything else is an oracle failure [hooks]",
		"namespaces and names are strings containing \"/\" chosen so that two different (namespace, name) pairs have the same \"<namespace>/<name>\" text; the model keys the name index by the pair",
		"in 4 of 10 cases the table is observed sparsely (Keys / Lookup / ports / reverse index read only every 2nd–4th operation and at the end, the model stepped through every operation and compared at those points); return values and hook / node events are compared after every operation in all cases",
		"size family: about 1 case in 12 is a LARGE universe – 9–70 referrers of one target, a pipeline of 10–80 symbols with lifecycle ports on the far end leading to the near end, a tree (fan-out 3, depth 2–3), 7–40 roots with two private targets each, 34–100 independent symbols – built targets-first, referrers-first or shuffled, then replace / Free / re-Insert at the ends and in the middle, Close and re-use of the table, Close at the end; no failing flows or hooks there (events compared as sets, pass order by the C08 oracle on the real log); return values and events are compared after every operation, keys / wiring / reverse index / active set at `observe` lines (every 8 insertions while building, after every operation afterwards). Sizes beyond 64 in a third of the large cases at quick, half at thorough",
		"lifecycle ports of chain universes list 1–3 targets; responders answer with a payload, the packet.None singleton, a fresh empty packet, an error (plain, errors.WithMessage, errors.WithStack, a custom type with Cause()), or a dropped packet; the model's exec succeeds iff no responder answers an error (None is not an error). The error an operation returns is mapped back to the model's code by the IDENTITY of the error value the responder put into its types.NewError answer (each part of an errors.Join for several failing targets); same Error() text and errors.As of the custom type are cross-checked [error-identity]",
		"names are unique per namespace among live symbols (generator enforces it; it is what the runtime's unique index gives the table); each port reference has exactly one of id / name; ids are non-nil",
		"port names are canonical (no use of the alias out == out[0] of OneToManyNode); no spec names the error port",
		"lifecycle targets answer every packet (harness nodes always answer; a target that never answers blocks exec in Go and is outside the model)",
		"types.Marshal(spec) does not fail; Node.Close returns nil. What fails: lifecycle flows (a responder answers with an error, with packet.ErrDroppedPacket, or is a node that was closed before its *Symbol was inserted again – chain universes that re-use objects), and refusing hooks (`mode refuse`): one load hook registered before and one after the observing hooks, one unload hook registered after (runs first) and one before them, each refusing chosen symbols once or always; refused operations are retried",
		"refusing hooks sit before ALL or after ALL observing hooks (not between two observers); cases with refusing hooks have no Add/RemoveHook operations; failures (flows, hooks) only in chain universes, where the order of a pass is total – in general universes which symbol fails first would depend on Go map order",
		"C07 (loaded-without-unload = closure present, alternation, unload before close) is judged on histories without failures, plus operations refused by an unload hook that runs before every observing hook for the FIRST symbol of its unload pass (nothing was notified: the table must be as before). After any other failure (a flow, a load hook, an unload hook that runs after the observers, a refusal after other symbols of the pass were already unloaded) the unchanged code leaves a present symbol with a complete closure un-notified (or notified twice on the retry); the property's quantifier – sequences of Insert/Free/Close over symbol universes – does not cover failing hooks or flows, C08 states what must happen then (abort, error returned), so the generator's C07 verdict stays inside that envelope",
		"Go map iteration order: the model is run with one fixed order; only order-insensitive observations are compared (sorted sets; event blocks sorted, or in sequence for chain universes where the order is total)",
		"Table methods are atomic (they run under Table.mu; C20)",
	}
	c.Trusted = []string{"symbol.Table.VerifReferences (verif-tagged read-only accessor)", "packet/port/process layers deliver one lifecycle packet and its answer (C01-C05)"}
	name := map[string]string{"C06": "symbol.Table contents+wiring ≈ Uniflow.Table.step", "C07": "symbol.Table activation ≈ Uniflow.Table.step", "C08": "symbol.Table lifecycle order ≈ Uniflow.Table.step"}[which]
	c.Conclude(name, ms, fails)
}

func Run(c *lib.Ctx) { RunProp(c, "C06") }

// ------------------------------------------------------------------ the size family

// genLarge: a LARGE universe (the sizes a deployment reaches): many referrers of one target, a long
// pipeline, a tree, many roots with private targets, many independent symbols – built in one of
// several orders, then Insert / replace / Free in the middle and at the ends, and Close. No failing
// flows or hooks (the order inside one pass is not total: events are compared as sets, the order
// by the C08 oracle on the real log). The table is read at `observe` lines: every few insertions
// while the universe is built, after every operation afterwards.
func genLarge(c *lib.Ctx, r *lib.RNG, which string) []string {
	type node struct {
		id   int
		refs []int         // out -> in of these ids
		life map[int][]int // lifecycle port -> responder ids
	}
	var nodes []*node
	mk := func(id int, refs ...int) *node {
		n := &node{id: id, refs: refs, life: map[int][]int{}}
		nodes = append(nodes, n)
		return n
	}
	line := func(n *node) string {
		d := &SymDef{ID: n.id, Kind: kOneToOne}
		if len(n.refs) > 0 {
			pd := PortDef{Port: pOut}
			for _, t := range n.refs {
				pd.Refs = append(pd.Refs, RefDef{ID: t, Port: pIn})
			}
			d.Ports = append(d.Ports, pd)
		}
		for _, ph := range []int{pInit, pBegin, pTerm, pFinal} {
			if ts, ok := n.life[ph]; ok {
				pd := PortDef{Port: ph}
				for _, t := range ts {
					pd.Refs = append(pd.Refs, RefDef{ID: t, Port: pIn})
				}
				d.Ports = append(d.Ports, pd)
			}
		}
		return d.line()
	}
	big := r.Chance(1, c.Scale(3, 2)) // sizes beyond 64 in a third (thorough: half) of the large cases
	kind := r.Weighted([]int{3, 3, 1, 2, 2})
	var special []int // ids worth replacing / freeing: ends and middle
	switch kind {
	case 0: // n referrers of one target
		n := r.Range(9, 30)
		if big {
			n = r.Range(30, 70)
		}
		mk(1)
		for k := 2; k <= n+1; k++ {
			mk(k, 1)
		}
		special = []int{1, 2, 2 + n/2, n + 1}
		c.Hit("large-fan-in")
	case 1: // pipeline k -> k-1, lifecycle ports of the far end lead to the near end
		n := r.Range(10, 40)
		if big {
			n = r.Range(40, 80)
		}
		mk(1)
		for k := 2; k <= n; k++ {
			mk(k, k-1)
		}
		far := nodes[n-1]
		far.life[pInit] = []int{1}
		far.life[pTerm] = []int{1}
		special = []int{1, 2, n / 2, n - 1, n}
		c.Hit("large-pipeline")
	case 2: // tree, fan-out 3, children reference their parent
		depth := r.Range(2, 3)
		mk(1)
		level := []int{1}
		next := 2
		for d := 0; d < depth; d++ {
			var nl []int
			for _, p := range level {
				for j := 0; j < 3; j++ {
					mk(next, p)
					nl = append(nl, next)
					next++
				}
			}
			level = nl
		}
		special = []int{1, 2, 4, next - 1}
		c.Hit("large-tree")
	case 3: // roots with two private targets each
		nr := r.Range(7, 20)
		if big {
			nr = r.Range(20, 40)
		}
		id := 1
		for i := 0; i < nr; i++ {
			mk(id, id+1, id+2)
			mk(id + 1)
			mk(id + 2)
			special = append(special, id)
			id += 3
		}
		special = []int{1, 2, 3 * (nr / 2), 3*nr - 2}
		c.Hit("large-roots-with-private-targets")
	default: // independent symbols
		n := r.Range(34, 60)
		if big {
			n = r.Range(60, 100)
		}
		for k := 1; k <= n; k++ {
			mk(k)
		}
		special = []int{1, n / 2, n}
		c.Hit("large-independent")
	}
	byID := map[int]*node{}
	for _, n := range nodes {
		byID[n.id] = n
	}
	lines := []string{"mode set", "mode sparse"}
	// build: targets first, referrers first, or shuffled
	order := make([]*node, len(nodes))
	copy(order, nodes)
	switch r.Intn(3) {
	case 1:
		for i, j := 0, len(order)-1; i < j; i, j = i+1, j-1 {
			order[i], order[j] = order[j], order[i]
		}
	case 2:
		for i := len(order) - 1; i > 0; i-- {
			j := r.Intn(i + 1)
			order[i], order[j] = order[j], order[i]
		}
	}
	for i, n := range order {
		lines = append(lines, line(n))
		if (i+1)%8 == 0 {
			lines = append(lines, "observe")
		}
	}
	lines = append(lines, "observe")
	// operations at the ends and in the middle, each observed
	op := func(l string) { lines = append(lines, l, "observe") }
	nops := r.Range(3, 7)
	for i := 0; i < nops; i++ {
		id := lib.Pick(r, special)
		if _, ok := byID[id]; !ok {
			continue
		}
		switch r.Intn(4) {
		case 0, 1: // replace by the same definition (unloads and reloads everything that reaches it)
			op(line(byID[id]))
		case 2:
			op(fmt.Sprintf("free %d", id))
			if r.Chance(2, 3) {
				op(line(byID[id]))
			}
		default:
			op("close")
			// the same table again: part of the universe, in order
			for j, n := range nodes {
				if j%2 == 0 || r.Chance(1, 2) {
					lines = append(lines, line(n))
				}
			}
			lines = append(lines, "observe")
		}
	}
	op("close")
	return lines
}
