// Package c06: the symbol table (C06 wiring, C07 activation, C08 order) – shared engine.
//
// The real symbol.Table is driven with real nodes (node.OneToOneNode, node.OneToManyNode,
// a node without ports, and symbols without a node) over generated universes and histories of
// Insert / Free / Close; after every operation the canonical observation (keys, out-port links,
// reverse-reference index, active set, the operation's event log) is compared with the Lean
// model `Uniflow.Table.step`, and the property oracles check the statements directly on the
// implementation's behaviour.
package c06

import (
	"errors"
	"fmt"
	pkgerrors "github.com/pkg/errors"
	"sort"
	"strconv"
	"strings"
	"sync"
	"time"

	"github.com/gofrs/uuid"
	"github.com/siyul-park/uniflow/pkg/node"
	"github.com/siyul-park/uniflow/pkg/packet"
	"github.com/siyul-park/uniflow/pkg/port"
	"github.com/siyul-park/uniflow/pkg/process"
	"github.com/siyul-park/uniflow/pkg/spec"
	"github.com/siyul-park/uniflow/pkg/symbol"
	"github.com/siyul-park/uniflow/pkg/types"

	"verifharness/lib"
)

// ------------------------------------------------------------------ vocabulary

// port codes shared with the driver
const (
	pInit = 1 + iota
	pBegin
	pTerm
	pFinal
	pIn
	pOut
	pOut0
	pOut1
	pError
	pX // an out-port name no node has
	pY // an in-port name no node has
)

var portName = map[int]string{pInit: node.PortInit, pBegin: node.PortBegin, pTerm: node.PortTerm, pFinal: node.PortFinal,
	pIn: node.PortIn, pOut: node.PortOut, pOut0: "out[0]", pOut1: "out[1]", pError: node.PortError, pX: "x", pY: "y"}
var portCode = func() map[string]int {
	m := map[string]int{}
	for k, v := range portName {
		m[v] = k
	}
	return m
}()

const (
	kNil      = 0 // Symbol.Node == nil
	kOneToOne = 1
	kOneToN   = 2
	kNoPorts  = 3 // a node whose In/Out are always nil
)

func insOf(kind int) []int {
	switch kind {
	case kOneToOne, kOneToN:
		return []int{pIn}
	}
	return nil
}
func outsOf(kind int) []int {
	switch kind {
	case kOneToOne:
		return []int{pOut, pError}
	case kOneToN:
		return []int{pOut0, pOut1, pError}
	}
	return nil
}

// Namespaces and names contain "/" in such a way that two different (namespace, name) pairs give
// the same "<namespace>/<name>" string: ("t", "a/n") and ("t/a", "n"). The table must key its name
// index by the pair (the model does); the codes on the wire are unchanged.
func nsName(c int) string { return [...]string{"t", "t/a"}[c] }

var symNames = []string{"", "a/n", "n", "m", "a/m", "k"}

func symName(c int) string {
	if c >= 0 && c < len(symNames) {
		return symNames[c]
	}
	return "n" + strconv.Itoa(c)
}

func symNameCode(s string) int {
	for i, n := range symNames {
		if n == s {
			return i
		}
	}
	if len(s) > 1 {
		k, _ := strconv.Atoi(s[1:])
		return k
	}
	return 0
}

var idTable = func() []uuid.UUID {
	t := make([]uuid.UUID, 256)
	for c := 1; c < len(t); c++ {
		t[c] = uuid.FromStringOrNil(fmt.Sprintf("00000000-0000-4000-8000-%012d", c))
	}
	return t
}()

func idOf(c int) uuid.UUID {
	if c <= 0 {
		return uuid.Nil
	}
	if c < len(idTable) {
		return idTable[c]
	}
	return uuid.FromStringOrNil(fmt.Sprintf("00000000-0000-4000-8000-%012d", c))
}

type RefDef struct{ ID, Name, Port int }
type PortDef struct {
	Port int
	Refs []RefDef
}
type SymDef struct {
	ID, NS, Name, Kind, Resp int
	Ports                    []PortDef
}

// refsFrom: does the definition's spec name any target for out-port p?
func (d *SymDef) refsFrom(p int) bool {
	for _, pd := range d.Ports {
		if pd.Port == p && len(pd.Refs) > 0 {
			return true
		}
	}
	return false
}

func (d *SymDef) line() string {
	var b strings.Builder
	hn := 1
	if d.Kind == kNil {
		hn = 0
	}
	fmt.Fprintf(&b, "ins %d %d %d %d %d", d.ID, d.NS, d.Name, hn, d.Resp)
	ins, outs := insOf(d.Kind), outsOf(d.Kind)
	fmt.Fprintf(&b, " %d", len(ins))
	for _, i := range ins {
		fmt.Fprintf(&b, " %d", i)
	}
	fmt.Fprintf(&b, " %d", len(outs))
	for _, o := range outs {
		fmt.Fprintf(&b, " %d", o)
	}
	fmt.Fprintf(&b, " %d", len(d.Ports))
	for _, p := range d.Ports {
		fmt.Fprintf(&b, " %d %d", p.Port, len(p.Refs))
		for _, r := range p.Refs {
			fmt.Fprintf(&b, " %d %d %d", r.ID, r.Name, r.Port)
		}
	}
	return b.String()
}

func parseIns(f []string) (*SymDef, error) {
	var n []int
	for _, t := range f {
		v, err := strconv.Atoi(t)
		if err != nil {
			return nil, err
		}
		n = append(n, v)
	}
	pos := 0
	next := func() int {
		if pos >= len(n) {
			pos++
			return -1
		}
		pos++
		return n[pos-1]
	}
	d := &SymDef{ID: next(), NS: next(), Name: next()}
	hn := next()
	d.Resp = next()
	ni := next()
	var ins []int
	for i := 0; i < ni; i++ {
		ins = append(ins, next())
	}
	no := next()
	var outs []int
	for i := 0; i < no; i++ {
		outs = append(outs, next())
	}
	switch {
	case hn == 0:
		d.Kind = kNil
	case ni == 0:
		d.Kind = kNoPorts
	case no == 2:
		d.Kind = kOneToOne
	default:
		d.Kind = kOneToN
	}
	np := next()
	for i := 0; i < np; i++ {
		p := PortDef{Port: next()}
		nr := next()
		for j := 0; j < nr; j++ {
			p.Refs = append(p.Refs, RefDef{next(), next(), next()})
		}
		d.Ports = append(d.Ports, p)
	}
	if pos != len(n) {
		return nil, fmt.Errorf("bad ins line")
	}
	return d, nil
}

// ------------------------------------------------------------------ the implementation under test

type ev struct {
	k    byte // 'L' load hook, 'U' unload hook, 'C' Node.Close, 'r' request reached a node
	subj int  // symbol id code (for 'r': the sender)
	tgt  int  // 'r': receiving symbol
}

type noPorts struct{ onClose func() }

func (n *noPorts) In(string) *port.InPort   { return nil }
func (n *noPorts) Out(string) *port.OutPort { return nil }
func (n *noPorts) Close() error             { n.onClose(); return nil }

type closeLog struct {
	node.Node
	onClose func()
}

func (n *closeLog) Close() error { n.onClose(); return n.Node.Close() }

type live struct {
	def *SymDef
	sb  *symbol.Symbol
}

type world struct {
	tbl     *symbol.Table
	mu      sync.Mutex
	log     []ev
	inReg   map[*port.InPort]string // every in-port ever created -> "id.port" or "dead"
	inLive  map[*port.InPort]*symbol.Symbol
	cur     map[int]*live // harness's own record: what a correct table contains
	idKey   map[string]int
	reuse   bool // re-insert the same *Symbol object for the same definition
	cluster bool // one-to-one nodes of even ids are built as a symbol.Cluster around the node
	pool    map[string]*symbol.Symbol
	reused  int

	// hooks: the table is built from `opts` TableOptions (hooks per option); every hook has a small
	// id and records its calls; wantL / wantU are the hooks the table must hold, in registration order
	opts    []int
	lhooks  map[int]symbol.LoadHook
	uhooks  map[int]symbol.UnloadHook
	wantL   []int
	wantU   []int
	nextH   int
	hookBad []string

	closedObj map[*symbol.Symbol]bool // objects whose node has been closed
	balMap    map[int]int             // load/unload balance of the log up to balUpTo
	balUpTo   int
	alias     map[string]string // rewritten `ins` line -> pool key of the original definition

	// refusing hooks (`mode refuse u a sym once code`): u = unload hook, a = runs after the
	// observing hooks, refuses symbol sym (once / always) with error E<code>
	refusals []*refusal
}

type refusal struct {
	unload, after bool
	sym           int
	once          bool
	code          int
	fired         bool
}

const respDropped = 63 // a responder with this Resp answers packet.ErrDroppedPacket
// respClosed: the symbol's node had been closed before this insertion (the same *Symbol object was
// inserted before and freed / replaced / closed): its in-port answers every packet with
// packet.ErrDroppedPacket and the node never sees the request.
const respClosed = 62

// refuse: the refusing hook at position (unload, after) is called for sb.
func (w *world) refuse(unload, after bool, sb *symbol.Symbol) error {
	c := w.code(sb.ID())
	for _, r := range w.refusals {
		if r.unload == unload && r.after == after && r.sym == c && !(r.once && r.fired) {
			r.fired = true
			t := 0
			if unload {
				t += 2
			}
			if after {
				t++
			}
			w.mu.Lock()
			w.log = append(w.log, ev{k: 'X', subj: c, tgt: t})
			w.mu.Unlock()
			return errOf(r.code)
		}
	}
	return nil
}

// errs: the error a failing responder k answers with. Built once (responders answer from their
// own goroutines, two failing targets of one flow concurrently: no lazy initialisation here).
// Answer styles of a responder (the Resp field of its definition):
//
//	0        a payload ("ok")              200  the packet.None singleton (how sinks answer)
//	1..64    errors.New("E<k>")            201  a fresh empty packet, packet.New(nil)
//	100+k    errors.WithMessage(E<k>, "init of a")     140+k  errors.WithStack(E<k>)
//	180+k    a custom error type with a Cause() method and a field naming the symbol (k <= 19)
//
// The model's error code is the Resp value; the harness maps the RETURNED error back to a code by the
// identity of the error value the responder put into its types.NewError answer.
const (
	respNone  = 200
	respEmpty = 201
)

// symbolError: a custom error type with a Cause() method.
type symbolError struct {
	Symbol int
	cause  error
}

func (e *symbolError) Error() string { return fmt.Sprintf("symbol %d: %v", e.Symbol, e.cause) }
func (e *symbolError) Cause() error  { return e.cause }
func (e *symbolError) Unwrap() error { return e.cause }

// errs: the error value a failing responder with Resp = code answers with. Built once (responders
// answer from their own goroutines: no lazy initialisation here).
var errs = func() map[int]error {
	m := map[int]error{}
	for k := 0; k <= 64; k++ {
		m[k] = errors.New("E" + strconv.Itoa(k))
	}
	for k := 1; k <= 39; k++ {
		m[100+k] = pkgerrors.WithMessage(m[k], "init of a")
		m[140+k] = pkgerrors.WithStack(m[k])
	}
	for k := 1; k <= 19; k++ {
		m[180+k] = &symbolError{Symbol: k, cause: m[k]}
	}
	return m
}()

var errCode = func() map[error]int {
	m := map[error]int{}
	for c, e := range errs {
		m[e] = c
	}
	return m
}()

func errOf(k int) error {
	if e, ok := errs[k]; ok {
		return e
	}
	return errors.New("E" + strconv.Itoa(k))
}

// maxID: ids 1..maxID may occur in a case (the size family uses up to ~125 symbols).
const maxID = 130

var idCode = func() map[uuid.UUID]int {
	m := map[uuid.UUID]int{}
	for k := 1; k <= maxID; k++ {
		m[idOf(k)] = k
	}
	return m
}()

func newWorld() *world {
	w := &world{inReg: map[*port.InPort]string{}, inLive: map[*port.InPort]*symbol.Symbol{}, cur: map[int]*live{}, idKey: map[string]int{}}
	for k := 1; k <= maxID; k++ {
		v, _ := types.Marshal(idOf(k))
		w.idKey[fmt.Sprint(types.InterfaceOf(v))] = k
	}
	w.lhooks, w.uhooks = map[int]symbol.LoadHook{}, map[int]symbol.UnloadHook{}
	return w
}

func (w *world) newLoadHook() int {
	w.nextH++
	k := w.nextH
	w.lhooks[k] = symbol.LoadFunc(func(sb *symbol.Symbol) error {
		w.rawHook('l', sb, k)
		return nil
	})
	return k
}

func (w *world) newUnloadHook() int {
	w.nextH++
	k := w.nextH
	w.uhooks[k] = symbol.UnloadFunc(func(sb *symbol.Symbol) error {
		w.rawHook('u', sb, k)
		return nil
	})
	return k
}

// table builds the table on first use: from one TableOption with one load and one unload hook, or –
// `mode opts n1 n2 …` – from several options carrying n_i load and n_i unload hooks each.
func (w *world) table() *symbol.Table {
	if w.tbl != nil {
		return w.tbl
	}
	opts := w.opts
	if len(opts) == 0 {
		opts = []int{1}
	}
	var tos []symbol.TableOption
	for _, n := range opts {
		var to symbol.TableOption
		for i := 0; i < n; i++ {
			l, u := w.newLoadHook(), w.newUnloadHook()
			to.LoadHooks = append(to.LoadHooks, w.lhooks[l])
			to.UnloadHooks = append(to.UnloadHooks, w.uhooks[u])
			w.wantL = append(w.wantL, l)
			w.wantU = append(w.wantU, u)
		}
		tos = append(tos, to)
	}
	if len(w.refusals) > 0 {
		// LoadHooks.Load runs in registration order, UnloadHooks.Unload in reverse: the hooks of the
		// first option run before the observing load hooks and AFTER the observing unload hooks
		first := symbol.TableOption{
			LoadHooks:   []symbol.LoadHook{symbol.LoadFunc(func(sb *symbol.Symbol) error { return w.refuse(false, false, sb) })},
			UnloadHooks: []symbol.UnloadHook{symbol.UnloadFunc(func(sb *symbol.Symbol) error { return w.refuse(true, true, sb) })},
		}
		last := symbol.TableOption{
			LoadHooks:   []symbol.LoadHook{symbol.LoadFunc(func(sb *symbol.Symbol) error { return w.refuse(false, true, sb) })},
			UnloadHooks: []symbol.UnloadHook{symbol.UnloadFunc(func(sb *symbol.Symbol) error { return w.refuse(true, false, sb) })},
		}
		tos = append(append([]symbol.TableOption{first}, tos...), last)
	}
	w.tbl = symbol.NewTable(tos...)
	return w.tbl
}

func (w *world) code(id uuid.UUID) int {
	if k, ok := idCode[id]; ok {
		return k
	}
	return -1
}

// rawHook records one call of hook h ('l' load, 'u' unload); collapseHooks turns the calls of one
// notification into a single 'L' / 'U' event when they are the expected hooks in the expected order.
func (w *world) rawHook(k byte, sb *symbol.Symbol, h int) {
	c := w.code(sb.ID())
	if c < 0 {
		return // an inner symbol of a cluster: not of the universe
	}
	w.mu.Lock()
	w.log = append(w.log, ev{k: k, subj: c, tgt: h})
	w.mu.Unlock()
}

func intsEq(a, b []int) bool {
	if len(a) != len(b) {
		return false
	}
	for i := range a {
		if a[i] != b[i] {
			return false
		}
	}
	return true
}

// collapseHooks rewrites w.log[start:]: a maximal run of 'l' calls for one symbol becomes 'L' when
// the hooks called are exactly wantL in registration order; a run of 'u' calls becomes 'U' when they
// are wantU in REVERSE registration order (UnloadHooks run last-registered first). Anything else is
// left as it is (and reported): a notification with a missing, extra or misplaced hook.
func (w *world) collapseHooks(start int) {
	w.mu.Lock()
	defer w.mu.Unlock()
	old := w.log[start:]
	var out []ev
	for i := 0; i < len(old); {
		e := old[i]
		if e.k != 'l' && e.k != 'u' {
			out = append(out, e)
			i++
			continue
		}
		j := i
		var hs []int
		for j < len(old) && old[j].k == e.k && old[j].subj == e.subj {
			hs = append(hs, old[j].tgt)
			j++
		}
		want := w.wantL
		big := byte('L')
		if e.k == 'u' {
			big = 'U'
			want = make([]int, len(w.wantU))
			for x, h := range w.wantU {
				want[len(w.wantU)-1-x] = h
			}
		}
		// one notification may be followed directly by another one of the same symbol only across a
		// close/flow, so a run is one notification; split it if it is a whole multiple of `want`
		if len(want) > 0 && len(hs)%len(want) == 0 {
			ok := true
			for x := range hs {
				if hs[x] != want[x%len(want)] {
					ok = false
				}
			}
			if ok {
				for x := 0; x < len(hs)/len(want); x++ {
					out = append(out, ev{k: big, subj: e.subj})
				}
				i = j
				continue
			}
		}
		w.hookBad = append(w.hookBad, fmt.Sprintf("symbol %d: hooks called %v, registered %v (%c)", e.subj, hs, want, big))
		out = append(out, old[i:j]...)
		i = j
	}
	w.log = append(w.log[:start], out...)
}

// hookOp: `hook addl k | rml k | addu k | rmu k` – Add/Remove a load / unload hook on the live table
// (k names a hook object: a known one, or a fresh one). Answers what the table returned; the
// expected answer (true iff the hook was absent / present) is checked by the oracle.
func (w *world) hookOp(f []string) string {
	if len(f) != 2 {
		return "bad-op"
	}
	k, err := strconv.Atoi(f[1])
	if err != nil {
		return "bad-op"
	}
	t := w.table()
	idx := func(xs []int) int {
		for i, x := range xs {
			if x == k {
				return i
			}
		}
		return -1
	}
	var got, want bool
	switch f[0] {
	case "addl":
		if _, ok := w.lhooks[k]; !ok {
			h := symbol.LoadFunc(func(sb *symbol.Symbol) error { w.rawHook('l', sb, k); return nil })
			w.lhooks[k] = h
		}
		want = idx(w.wantL) < 0
		got = t.AddLoadHook(w.lhooks[k])
		if want {
			w.wantL = append(w.wantL, k)
		}
	case "rml":
		if _, ok := w.lhooks[k]; !ok {
			w.lhooks[k] = symbol.LoadFunc(func(sb *symbol.Symbol) error { w.rawHook('l', sb, k); return nil })
		}
		i := idx(w.wantL)
		want = i >= 0
		got = t.RemoveLoadHook(w.lhooks[k])
		if want {
			w.wantL = append(append([]int{}, w.wantL[:i]...), w.wantL[i+1:]...)
		}
	case "addu":
		if _, ok := w.uhooks[k]; !ok {
			w.uhooks[k] = symbol.UnloadFunc(func(sb *symbol.Symbol) error { w.rawHook('u', sb, k); return nil })
		}
		want = idx(w.wantU) < 0
		got = t.AddUnloadHook(w.uhooks[k])
		if want {
			w.wantU = append(w.wantU, k)
		}
	case "rmu":
		if _, ok := w.uhooks[k]; !ok {
			w.uhooks[k] = symbol.UnloadFunc(func(sb *symbol.Symbol) error { w.rawHook('u', sb, k); return nil })
		}
		i := idx(w.wantU)
		want = i >= 0
		got = t.RemoveUnloadHook(w.uhooks[k])
		if want {
			w.wantU = append(append([]int{}, w.wantU[:i]...), w.wantU[i+1:]...)
		}
	default:
		return "bad-op"
	}
	if got != want {
		w.hookBad = append(w.hookBad, fmt.Sprintf("hook %s %d answered %v, expected %v", f[0], k, got, want))
	}
	return "ok"
}

// obtain returns the symbol object for a definition: a fresh one, or – in a case that re-uses
// objects – the very *Symbol built for the same definition earlier (whether it is still in the
// table, was freed, replaced or removed by Close).
func (w *world) obtain(d *SymDef) *symbol.Symbol {
	if !w.reuse {
		return w.build(d)
	}
	if w.pool == nil {
		w.pool = map[string]*symbol.Symbol{}
	}
	key := d.line()
	if k, ok := w.alias[key]; ok {
		key = k // a line rewritten by `effective`: the object of the original definition
	}
	if sb, ok := w.pool[key]; ok {
		w.reused++
		return sb
	}
	sb := w.build(d)
	w.pool[key] = sb
	return sb
}

// effective rewrites an `ins` line of a case that re-uses objects: when the object it is going to
// insert has a node that is closed already, or will be closed by this very Insert (the object is the
// table's current symbol of that id), the definition the model gets says so (Resp = respClosed).
func (w *world) effective(line string) string {
	f := strings.Fields(line)
	if !w.reuse || len(f) == 0 || f[0] != "ins" {
		return line
	}
	d, err := parseIns(f[1:])
	if err != nil || (d.Kind != kOneToOne && d.Kind != kOneToN) || d.Resp == respClosed {
		return line
	}
	key := d.line()
	sb, ok := w.pool[key]
	if !ok {
		return line
	}
	w.mu.Lock()
	closed := w.closedObj[sb]
	w.mu.Unlock()
	if l, live := w.cur[d.ID]; closed || (live && l.sb == sb) {
		d.Resp = respClosed
		if w.alias == nil {
			w.alias = map[string]string{}
		}
		w.alias[d.line()] = key
		return d.line()
	}
	return line
}

func (w *world) build(d *SymDef) *symbol.Symbol {
	ports := map[string][]spec.Port{}
	for _, p := range d.Ports {
		var rs []spec.Port
		for _, r := range p.Refs {
			rs = append(rs, spec.Port{ID: idOf(r.ID), Name: symName(r.Name), Port: portName[r.Port]})
		}
		ports[portName[p.Port]] = rs
	}
	meta := &spec.Meta{ID: idOf(d.ID), Kind: "verif", Namespace: nsName(d.NS), Name: symName(d.Name), Ports: ports}
	sb := &symbol.Symbol{Spec: meta}
	me := d.ID
	answer := func(in *packet.Packet) *packet.Packet {
		if d.Resp == respClosed {
			// stands for a closed node (a replayed case): answers like one, unseen
			return packet.New(packet.ErrDroppedPacket)
		}
		from := -1
		if v := types.Lookup(in.Payload(), "id"); v != nil {
			if k, ok := w.idKey[fmt.Sprint(types.InterfaceOf(v))]; ok {
				from = k
			}
		}
		w.mu.Lock()
		w.log = append(w.log, ev{k: 'r', subj: from, tgt: me})
		w.mu.Unlock()
		if d.Resp == respDropped {
			return packet.New(packet.ErrDroppedPacket)
		}
		if d.Resp == respNone {
			return packet.None
		}
		if d.Resp == respEmpty {
			return packet.New(nil)
		}
		if d.Resp != 0 {
			return packet.New(types.NewError(errOf(d.Resp)))
		}
		return packet.New(types.NewString("ok"))
	}
	onClose := func() {
		w.mu.Lock()
		w.log = append(w.log, ev{k: 'C', subj: me})
		if w.closedObj == nil {
			w.closedObj = map[*symbol.Symbol]bool{}
		}
		w.closedObj[sb] = true
		w.mu.Unlock()
	}
	switch d.Kind {
	case kNil:
	case kOneToOne:
		// the answer leaves through the (never linked) error port, so it comes straight back
		n := node.NewOneToOneNode(func(_ *process.Process, in *packet.Packet) (*packet.Packet, *packet.Packet) {
			return nil, answer(in)
		})
		if w.cluster && d.ID%2 == 0 && !d.refsFrom(pError) {
			// the same node behind a cluster's pipes: `in` feeds the inner node's `in`, its `out`
			// feeds the cluster's `out`; `error` is not exported (the answer leaves through the
			// inner node's unlinked error port and comes straight back, as without the cluster).
			// closeLog hides the cluster's Load/Unload: the inner symbol is never loaded.
			inner := &symbol.Symbol{Spec: &spec.Meta{ID: uuid.Must(uuid.NewV7()), Kind: "inner", Namespace: nsName(d.NS), Name: "$0"}, Node: n}
			cl := symbol.NewCluster([]*symbol.Symbol{inner})
			cl.Inbound(portName[pIn], spec.Port{Name: "$0", Port: portName[pIn]})
			cl.Outbound(portName[pOut], spec.Port{Name: "$0", Port: portName[pOut]})
			sb.Node = &closeLog{Node: cl, onClose: onClose}
		} else {
			sb.Node = &closeLog{Node: n, onClose: onClose}
		}
	case kOneToN:
		n := node.NewOneToManyNode(func(_ *process.Process, in *packet.Packet) ([]*packet.Packet, *packet.Packet) {
			return nil, answer(in)
		})
		sb.Node = &closeLog{Node: n, onClose: onClose}
	case kNoPorts:
		sb.Node = &noPorts{onClose: onClose}
	}
	if sb.Node != nil {
		for _, i := range insOf(d.Kind) {
			if in := sb.Node.In(portName[i]); in != nil {
				w.inReg[in] = fmt.Sprintf("%d.%d", d.ID, i)
				w.inLive[in] = sb
			}
		}
	}
	return sb
}

// errBad: what the error-identity oracle found wrong with returned errors (reported by the runner).
var errBadMu sync.Mutex
var errBad []string

// showErr maps the error an operation returned to the codes of the responders' error values: the
// returned error (or each part of an errors.Join) must BE the value a responder answered with.
func showErr(err error) string {
	if err == nil {
		return "ok"
	}
	parts := []error{err}
	if j, ok := err.(interface{ Unwrap() []error }); ok {
		parts = j.Unwrap()
	}
	var cs []string
	for _, e := range parts {
		if c, ok := errCode[e]; ok {
			// identity holds; cross-check what a caller would rely on
			want := errs[c]
			var se *symbolError
			if e.Error() != want.Error() || (c > 180 && c < 200 && !errors.As(e, &se)) {
				errBadMu.Lock()
				errBad = append(errBad, fmt.Sprintf("returned error %q is not usable as the responder's error %q", e.Error(), want.Error()))
				errBadMu.Unlock()
			}
			cs = append(cs, strconv.Itoa(c))
			continue
		}
		if e == packet.ErrDroppedPacket.Unwrap() || e.Error() == packet.ErrDroppedPacket.Error() {
			cs = append(cs, strconv.Itoa(respDropped))
			continue
		}
		// not a value any responder answered with: say which base error it leads to, if any
		found := false
		for k := 0; k <= 64; k++ {
			if errors.Is(e, errs[k]) || e.Error() == errs[k].Error() {
				cs = append(cs, "?cause-of-E"+strconv.Itoa(k))
				found = true
				break
			}
		}
		if !found {
			cs = append(cs, "?"+strings.ReplaceAll(e.Error(), "\n", "|"))
		}
	}
	return "err:" + strings.Join(cs, "+")
}

// apply runs one op line on the real table (with watchdog) and returns ret and the op's events.
func (w *world) apply(line string) (ret string, evs []ev, blocked bool) {
	f := strings.Fields(line)
	w.mu.Lock()
	start := len(w.log)
	w.mu.Unlock()
	var sbNew *symbol.Symbol
	var dNew *SymDef
	ok, p := lib.WithTimeout(5*time.Second, func() {
		switch f[0] {
		case "ins":
			d, err := parseIns(f[1:])
			if err != nil {
				ret = "bad-op"
				return
			}
			dNew = d
			sbNew = w.obtain(d)
			ret = showErr(w.table().Insert(sbNew))
		case "free":
			k, _ := strconv.Atoi(f[1])
			b, err := w.table().Free(idOf(k))
			ret = showErr(err)
			if err == nil {
				if b {
					ret = "ok1"
				} else {
					ret = "ok0"
				}
			}
		case "close":
			ret = showErr(w.table().Close())
		case "hook":
			ret = w.hookOp(f[1:])
		default:
			ret = "bad-op"
		}
	})
	if !ok {
		return "BLOCKED", nil, true
	}
	if p != nil {
		ret = fmt.Sprintf("PANIC:%v", p)
	}
	// let responder goroutines that already answered finish appending (they log before answering,
	// and exec waits for the answer, so the log is complete here)
	w.collapseHooks(start)
	w.mu.Lock()
	evs = append(evs, w.log[start:]...)
	w.mu.Unlock()
	// harness's own record of what a correct table holds, kept WITHOUT asking the table (the C06
	// oracle compares the table with it also after operations that returned an error):
	//   Insert: the old symbol is freed first; only that phase's unload pass can fail, and only if
	//           the old symbol has a node – in which case its success shows as the Close of the old
	//           node in the operation's events. If the free phase went through, the new symbol IS in
	//           the table, whatever its load pass returned (C06.wiring_exact / C08.error_aborts_insert).
	//   Free:   an error means the unload pass failed: nothing is removed.
	//   Close:  frees one symbol after the other until a free fails: the symbols whose node was closed
	//           are gone; symbols without a node leave no trace in the events, for them (only) the
	//           table is asked.
	isOK := strings.HasPrefix(ret, "ok")
	closed := map[int]bool{}
	for _, e := range evs {
		if e.k == 'C' {
			closed[e.subj] = true
		}
	}
	switch f[0] {
	case "ins":
		if dNew == nil {
			break
		}
		old, had := w.cur[dNew.ID]
		if isOK || !had || old.def.Kind == kNil || closed[dNew.ID] {
			w.cur[dNew.ID] = &live{def: dNew, sb: sbNew}
		}
	case "free":
		k, _ := strconv.Atoi(f[1])
		if isOK {
			delete(w.cur, k)
		}
	case "close":
		for k, l := range w.cur {
			if isOK || closed[k] || (l.def.Kind == kNil && w.table().Lookup(idOf(k)) == nil) {
				delete(w.cur, k)
			}
		}
	}
	return ret, evs, false
}

// ------------------------------------------------------------------ canonical observation

func sortedJoin(xs []string) string {
	sort.Strings(xs)
	return strings.Join(xs, ",")
}

func numKeyLess(a, b string) bool {
	as, bs := strings.Split(a, "."), strings.Split(b, ".")
	for i := 0; i < len(as) && i < len(bs); i++ {
		x, _ := strconv.Atoi(as[i])
		y, _ := strconv.Atoi(bs[i])
		if x != y {
			return x < y
		}
	}
	return len(as) < len(bs)
}

func numSortJoin(xs []string) string {
	sort.Slice(xs, func(i, j int) bool { return numKeyLess(xs[i], xs[j]) })
	return strings.Join(xs, ",")
}

func (w *world) keys() []int {
	var ks []int
	for _, id := range w.table().Keys() {
		ks = append(ks, w.code(id))
	}
	sort.Ints(ks)
	return ks
}

// links lists every link of every out-port the table has touched on every live symbol.
func (w *world) links() []string {
	var out []string
	for _, id := range w.table().Keys() {
		sb := w.table().Lookup(id)
		if sb == nil {
			continue
		}
		for name, op := range sb.Outs() {
			for _, in := range op.Links() {
				dst, ok := w.inReg[in]
				if !ok {
					dst = "0.0"
				} else if owner := w.inLive[in]; w.table().Lookup(owner.ID()) != owner {
					dst = "999." + dst // a link into a removed / replaced symbol's port
				}
				out = append(out, fmt.Sprintf("%d.%d.%s", w.code(id), portCode[name], dst))
			}
		}
	}
	return out
}

func (w *world) refs() []string {
	var out []string
	for t, m := range w.table().VerifReferences() {
		for i, l := range m {
			for _, e := range l {
				nm := symNameCode(e.Name)
				out = append(out, fmt.Sprintf("%d.%d.%d.%d.%d", w.code(t), portCode[i], w.code(e.ID), portCode[e.Port], nm))
			}
		}
	}
	return out
}

// balances: loads minus unloads per symbol over the whole log so far.
// balances: loads minus unloads per symbol over the whole log so far. The log only grows (and an
// operation's raw hook calls are collapsed before anybody reads it), so the counts are kept
// incrementally: only the events appended since the last call are read.
func (w *world) balances() map[int]int {
	w.mu.Lock()
	if w.balMap == nil {
		w.balMap = map[int]int{}
	}
	for _, e := range w.log[w.balUpTo:] {
		switch e.k {
		case 'L':
			w.balMap[e.subj]++
		case 'U':
			w.balMap[e.subj]--
		}
	}
	w.balUpTo = len(w.log)
	bal := make(map[int]int, len(w.balMap))
	for k, v := range w.balMap {
		bal[k] = v
	}
	w.mu.Unlock()
	return bal
}

func (w *world) active() []int {
	var a []int
	for k, v := range w.balances() {
		if v > 0 {
			a = append(a, k)
		}
	}
	sort.Ints(a)
	return a
}

// blocksOf groups consecutive events with the same subject; requests of one flow are sorted.
func blocksOf(evs []ev) [][]string {
	var toks [][2]string // subject, text
	i := 0
	for i < len(evs) {
		e := evs[i]
		if e.k == 'r' {
			j := i
			var ts []int
			for j < len(evs) && evs[j].k == 'r' && evs[j].subj == e.subj {
				ts = append(ts, evs[j].tgt)
				j++
			}
			sort.Ints(ts)
			for _, t := range ts {
				toks = append(toks, [2]string{strconv.Itoa(e.subj), fmt.Sprintf("r%d:%d", e.subj, t)})
			}
			i = j
			continue
		}
		subj := strconv.Itoa(e.subj)
		if e.k == 'C' {
			subj = "" // a close is a block of its own
		}
		if e.k == 'X' {
			toks = append(toks, [2]string{subj, fmt.Sprintf("X%d%d:%d", e.tgt/2, e.tgt%2, e.subj)})
			i++
			continue
		}
		toks = append(toks, [2]string{subj, fmt.Sprintf("%c%d", e.k, e.subj)})
		i++
	}
	var bs [][]string
	prev := ""
	for _, t := range toks {
		if len(bs) > 0 && t[0] == prev && t[0] != "" {
			bs[len(bs)-1] = append(bs[len(bs)-1], t[1])
		} else {
			bs = append(bs, []string{t[1]})
		}
		prev = t[0]
	}
	return bs
}

func showEvents(seq bool, evs []ev) string {
	var bs []string
	for _, b := range blocksOf(evs) {
		bs = append(bs, strings.Join(b, " "))
	}
	if !seq {
		sort.Strings(bs)
	}
	return strings.Join(bs, ";")
}

func ints(xs []int) string {
	var s []string
	for _, x := range xs {
		s = append(s, strconv.Itoa(x))
	}
	return strings.Join(s, ",")
}

// observeState: keys, links, reverse index, active set – everything that is READ from the table.
func (w *world) observeState() string {
	return fmt.Sprintf("K %s L %s R %s A %s", ints(w.keys()), numSortJoin(w.links()), numSortJoin(w.refs()), ints(w.active()))
}

func (w *world) observe(seq bool, ret string, evs []ev) string {
	return fmt.Sprintf("%s K %s L %s R %s A %s E %s", ret, ints(w.keys()), numSortJoin(w.links()), numSortJoin(w.refs()),
		ints(w.active()), showEvents(seq, evs))
}

// ------------------------------------------------------------------ property oracles (independent of the model)

// resolveRef: the live symbol a reference of `from` names (by id, or by name in from's namespace), or nil.
func resolveRef(cur map[int]*live, from *SymDef, r RefDef) *SymDef {
	if r.ID != 0 {
		if l, ok := cur[r.ID]; ok {
			return l.def
		}
		return nil
	}
	for _, l := range cur {
		if l.def.NS == from.NS && l.def.Name != 0 && l.def.Name == r.Name {
			return l.def
		}
	}
	return nil
}

func has(xs []int, x int) bool {
	for _, y := range xs {
		if x == y {
			return true
		}
	}
	return false
}

// expectedLinks computes the wiring straight from the specs of the live symbols.
func expectedLinks(cur map[int]*live) []string {
	set := map[string]bool{}
	for _, s := range cur {
		for _, p := range s.def.Ports {
			if !has(outsOf(s.def.Kind), p.Port) {
				continue
			}
			for _, r := range p.Refs {
				t := resolveRef(cur, s.def, r)
				if t != nil && t.NS == s.def.NS && has(insOf(t.Kind), r.Port) {
					set[fmt.Sprintf("%d.%d.%d.%d", s.def.ID, p.Port, t.ID, r.Port)] = true
				}
			}
		}
	}
	var out []string
	for k := range set {
		out = append(out, k)
	}
	return out
}

// closureOK: every symbol reachable from id through port references is present, in the same
// namespace as its referrer, and has a node.
func closureOK(cur map[int]*live, id int) bool {
	seen := map[int]bool{}
	var visit func(d *SymDef) bool
	visit = func(d *SymDef) bool {
		if seen[d.ID] {
			return true
		}
		seen[d.ID] = true
		if d.Kind == kNil {
			return false
		}
		for _, p := range d.Ports {
			for _, r := range p.Refs {
				t := resolveRef(cur, d, r)
				if t == nil || t.NS != d.NS {
					return false
				}
				if !visit(t) {
					return false
				}
			}
		}
		return true
	}
	l, ok := cur[id]
	return ok && visit(l.def)
}

// refsLive: s references t (resolved among the live symbols, same namespace).
func refsLive(cur map[int]*live, s, t int) bool {
	ls, ok := cur[s]
	if !ok {
		return false
	}
	for _, p := range ls.def.Ports {
		for _, r := range p.Refs {
			if d := resolveRef(cur, ls.def, r); d != nil && d.ID == t && d.NS == ls.def.NS {
				return true
			}
		}
	}
	return false
}

func acyclic(cur map[int]*live) bool {
	state := map[int]int{}
	var visit func(id int) bool
	visit = func(id int) bool {
		switch state[id] {
		case 1:
			return false
		case 2:
			return true
		}
		state[id] = 1
		// the live same-namespace targets of id's references (as refsLive, without the n² scan)
		if l, ok := cur[id]; ok {
			for _, p := range l.def.Ports {
				for _, r := range p.Refs {
					if d := resolveRef(cur, l.def, r); d != nil && d.NS == l.def.NS && !visit(d.ID) {
						return false
					}
				}
			}
		}
		state[id] = 2
		return true
	}
	for id := range cur {
		if !visit(id) {
			return false
		}
	}
	return true
}

// flowTargets: the symbols whose node receives the lifecycle packet of phase port `ph` of d.
func flowTargets(cur map[int]*live, d *SymDef, ph int) (ts []int, fails []int) {
	seen := map[int]bool{}
	for _, p := range d.Ports {
		if p.Port != ph {
			continue
		}
		for _, r := range p.Refs {
			t := resolveRef(cur, d, r)
			if t != nil && t.NS == d.NS && has(insOf(t.Kind), r.Port) && !seen[t.ID] {
				seen[t.ID] = true
				if t.Resp == respClosed {
					// a closed node: not seen by the node, answered with a dropped packet
					fails = append(fails, respDropped)
					continue
				}
				ts = append(ts, t.ID)
				if t.Resp != 0 && t.Resp < respNone {
					fails = append(fails, t.Resp)
				}
			}
		}
	}
	sort.Ints(ts)
	return
}

func copyCur(cur map[int]*live) map[int]*live {
	m := map[int]*live{}
	for k, v := range cur {
		m[k] = v
	}
	return m
}
