// Package c13: watchers see each matching successful mutation exactly once, in order.
//
// Correspondence: a real store with up to 4 watchers (filters the harness can evaluate itself),
// random histories of insert / batch insert / update / delete / upsert (including rejected
// ones) interleaved with consumer reads, closes and context cancellations, against
// Uniflow.Stream.step. Oracle: the harness's own per-watcher FIFO of owed events; plus a
// free-running run with consumers that never read while writers work (writer latency recorded).
package c13

import (
	"context"
	"fmt"
	"sort"
	"strings"
	"time"

	"github.com/siyul-park/uniflow/pkg/store"

	"verifharness/lib"
)

type wfilter struct {
	kind int // 0 all, 1 k == v, 2 n > x, 3 o exists, 4 o does not exist
	v    int
}

func (f wfilter) build() any {
	switch f.kind {
	case 1:
		return map[string]any{"k": f.v}
	case 2:
		return map[string]any{"n": map[string]any{"$gt": f.v}}
	case 3:
		return map[string]any{"o": map[string]any{"$exists": true}}
	case 4:
		return map[string]any{"o": map[string]any{"$exists": false}}
	}
	return nil
}

func (f wfilter) match(d doc) bool {
	switch f.kind {
	case 1:
		return d.k == f.v
	case 2:
		return d.nGreater(f.v)
	case 3:
		return d.o != 0 // present, with null or with a value
	case 4:
		return d.o == 0
	}
	return true
}

func (f wfilter) String() string {
	switch f.kind {
	case 1:
		return fmt.Sprintf("k==%d", f.v)
	case 2:
		return fmt.Sprintf("n>%d", f.v)
	case 3:
		return "o-exists"
	case 4:
		return "o-absent"
	}
	return "all"
}

// o: 0 = field "o" absent, 1 = present with an explicit null, 2 = present with the value "x"
// (a present null must count as existing for $exists – seeded change c13d broke exactly that)
// nk: 0 = "n" holds the int n, 1 = "n" holds the string "s", 2 = "n" absent. A range operator orders values of
// different kinds by their kind (a string is above every int, an absent field below every operand): a document
// whose "n" is of another kind than the watcher's operand is matched like any other (seeded change c13j made
// that comparison an error, which the filter check at Watch cannot foresee – the mutation took effect, the
// writer was told it failed and the later watchers were not notified).
type doc struct{ id, k, n, o, nk int }

func (d doc) nGreater(x int) bool {
	switch d.nk {
	case 1:
		return true
	case 2:
		return false
	}
	return d.n > x
}

func drawNK(rng *lib.RNG) int {
	switch {
	case rng.Chance(1, 5):
		return 1
	case rng.Chance(1, 10):
		return 2
	}
	return 0
}

func (d doc) m() map[string]any {
	m := map[string]any{"id": d.id, "k": d.k, "n": d.n}
	switch d.nk {
	case 1:
		m["n"] = "s"
	case 2:
		delete(m, "n")
	}
	switch d.o {
	case 1:
		m["o"] = nil
	case 2:
		m["o"] = "x"
	}
	return m
}

type ev struct{ id, op int }

type watcher struct {
	id     int
	f      wfilter
	strm   store.Stream
	cancel context.CancelFunc
	closed bool
	ended  bool
	owed   []ev // oracle: events owed and not yet read
}

var opNames = []string{"insert", "update", "delete"}

func readEvent(s store.Stream) (ev, error) {
	var e struct {
		OP string `json:"op"`
		ID int    `json:"id"`
	}
	if err := s.Decode(&e); err != nil {
		return ev{}, err
	}
	for i, n := range opNames {
		if n == e.OP {
			return ev{e.ID, i}, nil
		}
	}
	return ev{}, fmt.Errorf("unknown op %q", e.OP)
}

// next reads one event with the given patience; ok=false when Next returned false.
func next(s store.Stream, patience time.Duration) (e ev, ok bool, err error) {
	ctx, cancel := context.WithTimeout(context.Background(), patience)
	defer cancel()
	if !s.Next(ctx) {
		return ev{}, false, nil
	}
	e, err = readEvent(s)
	return e, true, err
}

type run struct {
	c     *lib.Ctx
	sc    *lib.Script
	st    store.Store
	ws    []*watcher
	docs  map[int]doc
	fails *[]lib.OracleFail
	trace []string

	bad     []store.Stream // watchers with a malformed filter that Watch accepted
	cancels []context.CancelFunc
}

func (r *run) op(line, out string) {
	r.sc.Op(line, out)
	r.trace = append(r.trace, line+" => "+out)
}

func (r *run) fail(class, what string) {
	if len(*r.fails) < 20 {
		*r.fails = append(*r.fails, lib.OracleFail{Class: class, What: what, Replay: strings.Join(r.trace, "\n")})
	}
}

// emitDoc records one per-document mutation step: real outcome `accepted`, watchers matched.
func (r *run) emitDoc(d doc, op int, accepted bool) {
	var ms []string
	for _, w := range r.ws {
		if w.f.match(d) {
			ms = append(ms, fmt.Sprint(w.id))
			if accepted && !w.closed {
				w.owed = append(w.owed, ev{d.id, op})
			}
		}
	}
	acc := 0
	if accepted {
		acc = 1
	}
	r.op(strings.TrimSpace(fmt.Sprintf("doc %d %d %d %d %s", d.id, op, acc, len(ms), strings.Join(ms, " "))), "ok")
}

func (r *run) sortedIDs(pred func(doc) bool) []int {
	var ids []int
	for id, d := range r.docs {
		if pred(d) {
			ids = append(ids, id)
		}
	}
	sort.Ints(ids)
	return ids
}

func oneCase(c *lib.Ctx, rng *lib.RNG, sc *lib.Script, fails *[]lib.OracleFail) (key string) {
	r := &run{c: c, sc: sc, st: store.New(), docs: map[int]doc{}, fails: fails}
	ctx := context.Background()
	nops := rng.Range(6, c.Scale(26, 60))
	// The WRITER's context: the in-memory store ignores it for the mutation itself, so it must not decide whether
	// the watchers hear of a mutation that succeeded either (seeded changes c12h / c13h threaded it into
	// stream.Emit). One mutation in five is called with an already cancelled context.
	dead, cancelDead := context.WithCancel(ctx)
	cancelDead()
	wctx := func() context.Context {
		if rng.Chance(1, 5) {
			c.Hit("writer-context-cancelled")
			return dead
		}
		return ctx
	}
	polls := 0
	kinds := map[string]bool{}
	// one case in eight is CROWDED: 33–40 watchers are opened on the store before anything else happens (one runtime
	// per namespace on a shared store gets there), every other case has at most four. (Seeded change c13k: the
	// watchers that match a mutation were collected in a uint32 bit set – the 33rd registered watcher heard nothing.)
	maxW, pre := 4, 0
	if rng.Chance(1, 8) {
		maxW, pre = 42, rng.Range(33, 40)
		c.Hit("case-crowded-watchers")
	}
	for i := 0; i < nops+pre; i++ {
		choice := rng.Weighted([]int{3, 6, 2, 4, 3, 5, 2, 1})
		if i < pre {
			choice = 0
		}
		switch choice {
		case 0: // watch
			if len(r.ws) >= maxW {
				continue
			}
			if rng.Chance(1, 8) {
				// A watcher whose filter is malformed (unsupported operator, at the top or under a field, nested in
				// $or). Whether Watch refuses it or registers a watcher that can never match is not what the
				// statement fixes; what it fixes is that every later mutation still succeeds or fails on its own
				// merits and is announced to the other watchers – the outcome oracles below see to that (repo
				// 7f54b88: such a watcher made every later Insert/Update/Delete return an error after it had
				// taken effect). Not a model operation.
				bad := lib.Pick(rng, []any{
					map[string]any{"k": map[string]any{"$foo": 1}},
					map[string]any{"$foo": 1},
					map[string]any{"$or": []any{map[string]any{"k": 1}, map[string]any{"n": map[string]any{"$regex": "x"}}}},
					map[string]any{"n": map[string]any{"$gt": 1, "$bar": 2}},
				})
				bctx, bcancel := context.WithCancel(ctx)
				if s, err := r.st.Watch(bctx, bad); err == nil {
					r.bad = append(r.bad, s)
					c.Hit("op-watch-malformed-accepted")
				} else {
					c.Hit("op-watch-malformed-refused")
				}
				r.cancels = append(r.cancels, bcancel)
				continue
			}
			f := wfilter{kind: rng.Intn(5), v: rng.Intn(3)}
			w := &watcher{id: len(r.ws) + 1, f: f}
			wctx := ctx
			if rng.Bool() {
				wctx, w.cancel = context.WithCancel(ctx)
			}
			s, err := r.st.Watch(wctx, f.build())
			if err != nil {
				r.fail("watch-error", err.Error())
				continue
			}
			w.strm = s
			r.ws = append(r.ws, w)
			r.op(fmt.Sprintf("watch %d", w.id), "ok")
			c.Hit("op-watch-" + f.String()[:1])
		case 1: // insert one (maybe duplicate id)
			d := doc{id: rng.Intn(6), k: rng.Intn(3), n: rng.Intn(4), o: rng.Intn(3), nk: drawNK(rng)}
			err := r.st.Insert(wctx(), []any{d.m()})
			_, dup := r.docs[d.id]
			if (err != nil) != dup {
				r.fail("insert-outcome", fmt.Sprintf("insert %+v: err=%v, duplicate=%v", d, err, dup))
			}
			if err == nil {
				r.docs[d.id] = d
				kinds["ins"] = true
			} else {
				kinds["rej"] = true
				c.Hit("rejected-insert")
			}
			r.emitDoc(d, 0, err == nil)
			c.Hit("op-insert")
		case 2: // batch insert, stops at the first rejected document
			n := rng.Range(2, 3)
			var batch []any
			var ds []doc
			for j := 0; j < n; j++ {
				d := doc{id: rng.Intn(7), k: rng.Intn(3), n: rng.Intn(4), o: rng.Intn(3), nk: drawNK(rng)}
				ds = append(ds, d)
				batch = append(batch, d.m())
			}
			err := r.st.Insert(wctx(), batch)
			stopped := false
			for _, d := range ds {
				if stopped {
					break
				}
				if _, dup := r.docs[d.id]; dup {
					r.emitDoc(d, 0, false)
					stopped = true
					kinds["rej"] = true
					continue
				}
				r.docs[d.id] = d
				r.emitDoc(d, 0, true)
			}
			if (err != nil) != stopped {
				r.fail("insert-outcome", fmt.Sprintf("batch insert %+v: err=%v, harness expected rejection=%v", ds, err, stopped))
			}
			c.Hit("op-batch-insert")
		case 3: // update by k == v: set n (new documents are matched against the watchers)
			v, nv := rng.Intn(3), rng.Intn(4)
			upsert := rng.Chance(1, 4)
			ids := r.sortedIDs(func(d doc) bool { return d.k == v })
			var opts []store.UpdateOptions
			if upsert {
				opts = append(opts, store.UpdateOptions{Upsert: true})
			}
			filter := map[string]any{"k": v}
			upID := 100 + rng.Intn(3)
			if upsert {
				filter["id"] = upID // upsert creates {id: upID, k: v, n: nv}
				ids = r.sortedIDs(func(d doc) bool { return d.k == v && d.id == upID })
			}
			// the update may also set "o" to null / to a value, or unset it (not together with upsert)
			oMode := 0
			if !upsert {
				oMode = rng.Intn(4)
			}
			set := map[string]any{"n": nv}
			upd := map[string]any{"$set": set}
			switch oMode {
			case 1:
				set["o"] = nil
			case 2:
				set["o"] = "x"
			case 3:
				upd["$unset"] = map[string]any{"o": 1}
			}
			n, err := r.st.Update(wctx(), filter, upd, opts...)
			if _, exists := r.docs[upID]; upsert && len(ids) == 0 && exists {
				// the id exists with another k: the upsert's insert is a duplicate and must be rejected
				if err == nil {
					r.fail("upsert-outcome", fmt.Sprintf("upsert onto existing id %d succeeded", upID))
				}
				r.emitDoc(doc{id: upID, k: v, n: nv}, 0, false)
				kinds["rej"] = true
				c.Hit("rejected-upsert")
				continue
			}
			if err != nil {
				r.fail("update-error", err.Error())
				continue
			}
			if upsert && len(ids) == 0 {
				d := doc{id: upID, k: v, n: nv}
				r.docs[upID] = d
				r.emitDoc(d, 0, true)
				if n != 1 {
					r.fail("update-count", fmt.Sprintf("upsert reported %d", n))
				}
				c.Hit("op-upsert")
				kinds["ups"] = true
				continue
			}
			if n != len(ids) {
				r.fail("update-count", fmt.Sprintf("update k==%d reported %d, expected %d", v, n, len(ids)))
			}
			for _, id := range ids {
				d := r.docs[id]
				d.n, d.nk = nv, 0
				switch oMode {
				case 1:
					d.o = 1
				case 2:
					d.o = 2
				case 3:
					d.o = 0
				}
				r.docs[id] = d
				r.emitDoc(d, 1, true)
				kinds["upd"] = true
			}
			c.Hit("op-update")
		case 4: // delete by n > x
			x := rng.Intn(4)
			ids := r.sortedIDs(func(d doc) bool { return d.nGreater(x) })
			n, err := r.st.Delete(wctx(), map[string]any{"n": map[string]any{"$gt": x}})
			if err != nil {
				r.fail("delete-error", err.Error())
				continue
			}
			if n != len(ids) {
				r.fail("delete-count", fmt.Sprintf("delete n>%d reported %d, expected %d", x, n, len(ids)))
			}
			for _, id := range ids {
				r.emitDoc(r.docs[id], 2, true)
				delete(r.docs, id)
				kinds["del"] = true
			}
			c.Hit("op-delete")
		case 5: // consumer reads once
			if len(r.ws) == 0 {
				continue
			}
			w := lib.Pick(rng, r.ws)
			if w.ended {
				_, ok, _ := next(w.strm, 2*time.Second)
				out := "closed"
				if ok {
					out = "ev-after-end"
					r.fail("event-after-end", fmt.Sprintf("watcher %d delivered an event after its stream had ended", w.id))
				}
				r.op(fmt.Sprintf("next %d", w.id), out)
				continue
			}
			if w.closed {
				continue
			}
			if len(w.owed) > 0 && rng.Chance(1, 4) {
				// a poll with a context that has ALREADY ended: Next may hand out the pending event or
				// return false – but it must not consume an event it does not hand out (seeded change c13f
				// dropped it); no model step unless an event is delivered
				dead, cancel := context.WithCancel(context.Background())
				cancel()
				c.Hit("op-next-ended-context")
				if w.strm.Next(dead) {
					e, err := readEvent(w.strm)
					if err != nil {
						r.fail("event-decode", err.Error())
					} else if e != w.owed[0] {
						r.fail("event-wrong", fmt.Sprintf("watcher %d (%s): a poll with an ended context got %v, owed %v", w.id, w.f, e, w.owed[0]))
					}
					w.owed = w.owed[1:]
					r.op(fmt.Sprintf("next %d", w.id), fmt.Sprintf("ev %d %d", e.id, e.op))
					kinds["read"] = true
					continue
				}
				r.trace = append(r.trace, fmt.Sprintf("# next %d with an ended context => false (nothing may be consumed)", w.id))
			}
			if len(w.owed) > 0 {
				e, ok, err := next(w.strm, 10*time.Second)
				switch {
				case err != nil:
					r.fail("event-decode", err.Error())
				case !ok:
					r.fail("event-lost", fmt.Sprintf("watcher %d (%s): owed %v but Next returned false", w.id, w.f, w.owed[0]))
					r.op(fmt.Sprintf("next %d", w.id), "none")
				default:
					if e != w.owed[0] {
						r.fail("event-wrong", fmt.Sprintf("watcher %d (%s): got %v, owed %v", w.id, w.f, e, w.owed[0]))
					}
					w.owed = w.owed[1:]
					r.op(fmt.Sprintf("next %d", w.id), fmt.Sprintf("ev %d %d", e.id, e.op))
					kinds["read"] = true
				}
				c.Hit("op-next-owed")
			} else if polls < 3 {
				polls++
				e, ok, _ := next(w.strm, 25*time.Millisecond)
				out := "none"
				if ok {
					out = fmt.Sprintf("ev %d %d", e.id, e.op)
					r.fail("event-spurious", fmt.Sprintf("watcher %d (%s): unexpected event %v", w.id, w.f, e))
				}
				r.op(fmt.Sprintf("next %d", w.id), out)
				c.Hit("op-next-empty")
			}
		case 6, 7: // close or cancel, then drain
			var open []*watcher
			for _, w := range r.ws {
				if !w.closed {
					open = append(open, w)
				}
			}
			if len(open) == 0 {
				continue
			}
			w := lib.Pick(rng, open)
			if w.cancel != nil && rng.Bool() {
				w.cancel()
				if d, ok := w.strm.(interface{ Done() <-chan struct{} }); ok {
					select {
					case <-d.Done():
					case <-time.After(10 * time.Second):
						r.fail("cancel-ignored", fmt.Sprintf("watcher %d: stream not closed 10s after its context was cancelled", w.id))
					}
				}
				c.Hit("op-cancel")
			} else {
				ok, _ := lib.WithTimeout(10*time.Second, func() { _ = w.strm.Close(ctx) })
				if !ok {
					r.fail("close-blocked", fmt.Sprintf("watcher %d: Close did not return", w.id))
				}
				c.Hit("op-close")
			}
			w.closed = true
			kinds["close"] = true
			r.op(fmt.Sprintf("close %d", w.id), "ok")
			// drain: whatever still arrives must be the owed events, in order; then the end
			for {
				e, ok, err := next(w.strm, 10*time.Second)
				if err != nil {
					r.fail("event-decode", err.Error())
					break
				}
				if !ok {
					break
				}
				if len(w.owed) == 0 || e != w.owed[0] {
					r.fail("event-wrong-after-close", fmt.Sprintf("watcher %d: got %v after close, owed %v", w.id, e, w.owed))
					r.op(fmt.Sprintf("next %d", w.id), fmt.Sprintf("ev %d %d", e.id, e.op))
					break
				}
				w.owed = w.owed[1:]
				r.op(fmt.Sprintf("next %d", w.id), fmt.Sprintf("ev %d %d", e.id, e.op))
				c.Hit("delivered-after-close")
			}
			w.ended = true
			w.owed = nil
			r.op(fmt.Sprintf("exit %d", w.id), "ok")
			r.op(fmt.Sprintf("next %d", w.id), "closed")
		}
	}
	// final drain of the open watchers: everything owed must arrive
	lost := 0
	for _, w := range r.ws {
		if w.closed {
			continue
		}
		for len(w.owed) > 0 {
			patience := 10 * time.Second
			if lost > 0 {
				patience = 200 * time.Millisecond // the case has failed already: do not wait long for every further watcher
			}
			e, ok, err := next(w.strm, patience)
			if err != nil || !ok {
				lost++
				r.fail("event-lost", fmt.Sprintf("watcher %d (%s): %d owed events never arrived (first %v)", w.id, w.f, len(w.owed), w.owed[0]))
				break
			}
			if e != w.owed[0] {
				r.fail("event-wrong", fmt.Sprintf("watcher %d (%s): got %v, owed %v", w.id, w.f, e, w.owed[0]))
			}
			w.owed = w.owed[1:]
			r.op(fmt.Sprintf("next %d", w.id), fmt.Sprintf("ev %d %d", e.id, e.op))
		}
		_ = w.strm.Close(ctx)
	}
	for _, b := range r.bad {
		_ = b.Close(ctx)
	}
	for _, cf := range r.cancels {
		cf()
	}
	if len(r.ws) > 0 && len(kinds) >= 3 {
		key = strings.Join(r.trace, ";")
	}
	if c.Evaluations < 2 {
		c.Sample(r.trace)
	}
	return key
}

// stalled: consumers never read while writers work; afterwards everything must be there, in order.
func stalled(c *lib.Ctx, rng *lib.RNG, fails *[]lib.OracleFail) {
	st := store.New()
	ctx := context.Background()
	nW := 3
	var ss []store.Stream
	for i := 0; i < nW; i++ {
		s, err := st.Watch(ctx, nil)
		if err != nil {
			*fails = append(*fails, lib.OracleFail{Class: "watch-error", What: err.Error()})
			return
		}
		ss = append(ss, s)
	}
	n := c.Scale(300, 3000)
	var want []ev
	var worst time.Duration
	for i := 0; i < n; i++ {
		t0 := time.Now()
		ok, _ := lib.WithTimeout(20*time.Second, func() { _ = st.Insert(ctx, []any{doc{id: i, k: i % 3, n: i % 4}.m()}) })
		if !ok {
			*fails = append(*fails, lib.OracleFail{Class: "writer-blocked", What: fmt.Sprintf("insert %d blocked for 20s with %d stalled consumers", i, nW)})
			return
		}
		if d := time.Since(t0); d > worst {
			worst = d
		}
		want = append(want, ev{i, 0})
	}
	c.Extra["stalled_consumers_worst_writer_latency_ms"] = float64(worst.Microseconds()) / 1000
	c.Extra["stalled_consumers_events"] = n * nW
	// closing one stream must not disturb the others
	_ = ss[0].Close(ctx)
	for wi := 1; wi < nW; wi++ {
		for i := 0; i < n; i++ {
			e, ok, err := next(ss[wi], 10*time.Second)
			if err != nil || !ok || e != want[i] {
				*fails = append(*fails, lib.OracleFail{Class: "event-lost", What: fmt.Sprintf("stalled consumer %d: event %d = %v ok=%v err=%v, want %v", wi, i, e, ok, err, want[i])})
				return
			}
		}
		_ = ss[wi].Close(ctx)
	}
	c.Count(fmt.Sprintf("stalled-%d", n))
}

// busy: consumers read (Next, Decode) on their own goroutines WHILE the writer works – every event is decoded
// at the moment later mutations emit; afterwards every consumer has every event, in order. (Seeded change c13m:
// Decode held the stream's lock and Emit skipped a stream whose lock was busy – an event emitted while the
// consumer decoded an earlier one was lost.)
func busy(c *lib.Ctx, rng *lib.RNG, fails *[]lib.OracleFail) {
	st := store.New()
	ctx := context.Background()
	nW := 3
	n := c.Scale(4000, 30000)
	type got struct {
		evs []ev
		err string
	}
	res := make([]chan got, nW)
	var ss []store.Stream
	for i := 0; i < nW; i++ {
		s, err := st.Watch(ctx, nil)
		if err != nil {
			*fails = append(*fails, lib.OracleFail{Class: "watch-error", What: err.Error()})
			return
		}
		ss = append(ss, s)
		res[i] = make(chan got, 1)
		go func(s store.Stream, out chan got) {
			var g got
			for len(g.evs) < n {
				e, ok, err := next(s, 10*time.Second)
				if err != nil {
					g.err = err.Error()
					break
				}
				if !ok {
					g.err = fmt.Sprintf("Next returned false after %d events (10 s without an event)", len(g.evs))
					break
				}
				g.evs = append(g.evs, e)
			}
			out <- g
		}(s, res[i])
	}
	for i := 0; i < n; i++ {
		ok, _ := lib.WithTimeout(20*time.Second, func() { _ = st.Insert(ctx, []any{doc{id: i, k: i % 3, n: i % 4}.m()}) })
		if !ok {
			*fails = append(*fails, lib.OracleFail{Class: "writer-blocked", What: fmt.Sprintf("insert %d blocked for 20s with %d reading consumers", i, nW)})
			return
		}
	}
	for wi := 0; wi < nW; wi++ {
		select {
		case g := <-res[wi]:
			if len(g.evs) != n {
				first := -1
				for i, e := range g.evs {
					if e != (ev{i, 0}) {
						first = i
						break
					}
				}
				if first < 0 {
					first = len(g.evs)
				}
				*fails = append(*fails, lib.OracleFail{Class: "event-lost", What: fmt.Sprintf("consumer %d reading while the writer made %d inserts: %d events received, the first missing one is the insert of id %d (%s)", wi, n, len(g.evs), first, g.err),
					Replay: fmt.Sprintf("3 watchers with nil filter, each consumed by its own goroutine (Next, Decode in a loop); one writer inserts ids 0..%d one by one", n-1)})
				return
			}
			for i, e := range g.evs {
				if e != (ev{i, 0}) {
					*fails = append(*fails, lib.OracleFail{Class: "event-wrong", What: fmt.Sprintf("consumer %d reading while the writer works: event %d is %v, owed %v", wi, i, e, ev{i, 0})})
					return
				}
			}
		case <-time.After(60 * time.Second):
			*fails = append(*fails, lib.OracleFail{Class: "event-lost", What: fmt.Sprintf("consumer %d did not finish", wi)})
			return
		}
		_ = ss[wi].Close(ctx)
	}
	c.Extra["busy_consumers_events"] = n * nW
	c.Count(fmt.Sprintf("busy-%d", n))
}

func Run(c *lib.Ctx) {
	c.Rule = "random histories (≤26 ops quick / ≤60 thorough) of watch (filters all | k==v | n>x | o exists | o does not exist, documents with \"o\" absent / null / set and \"n\" an int / a string / absent) / insert / batch insert with duplicates / update / upsert / delete / consumer read / close / cancel on a real store with ≤4 watchers (33–42 in one case in eight), compared line by line with Uniflow.Stream.step and with the harness's own owed-event FIFOs; non-trivial = at least one watcher and ≥3 different operation kinds took effect, distinct by full trace"
	c.Assumptions = []string{
		"filter matching and acceptance of a document by the segment are inputs of the model (they are C10/C12's subject); the harness evaluates the five watcher filter shapes itself",
		"after Close the Go pump may deliver or discard buffered events (select is random): the harness feeds the model exactly the events that were still delivered, the model checks they are the oldest queued ones in order",
		"absence of an event is observed with a 25 ms poll (can only miss a spurious event, never raise a false alarm); owed events are awaited for 10 s",
	}
	rng := lib.NewRNG(c.Seed)
	sc := &lib.Script{}
	var fails []lib.OracleFail
	n := c.Scale(120, 1500)
	for i := 0; i < n; i++ {
		sc.Begin()
		key := oneCase(c, rng.Fork(), sc, &fails)
		c.Count(key)
	}
	stalled(c, rng.Fork(), &fails)
	busy(c, rng.Fork(), &fails)
	var ms []lib.Mismatch
	if c.Proof.DriverBuilt {
		var err error
		ms, err = c.RunModel("c13", sc)
		if err != nil {
			c.Violation("model driver failed: "+err.Error(), "", false)
		}
	}
	c.Conclude("store.Watch/emit/stream ≈ Uniflow.Stream.step", ms, fails)
}
