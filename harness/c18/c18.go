// Package c18: environment binding substitutes exactly what is referenced and nothing else.
//
// (a) correspondence: (*Meta).IsBound, (*Meta).Bind, (*Unstructured).Build and template.Execute
//
//	of the real tree on generated specs / value sets / documents, against
//	Uniflow.Bind.{isBound,bind,build} and Uniflow.Template.run. text/template itself is
//	trusted: for every string occurring in a case the harness records what the real
//	text/template did with it (Parse ok?, Execute on each data value) and the model receives
//	that table as its `TextTemplate` parameter; what is compared is the structural walk,
//	the variable selection and the error/panic behaviour.
//
// (b) property oracle, independent of the model: a reference selection + reference
//
//	substitution written directly in Go, "plain document comes back deeply equal",
//	"no panic", "missing variable ⇒ error".
package c18

import (
	"bytes"
	"encoding/hex"
	"errors"
	"fmt"
	"reflect"
	"sort"
	"strconv"
	"strings"
	"text/template"

	"github.com/gofrs/uuid"
	"github.com/siyul-park/uniflow/pkg/encoding"
	"github.com/siyul-park/uniflow/pkg/spec"
	utemplate "github.com/siyul-park/uniflow/pkg/template"
	"github.com/siyul-park/uniflow/pkg/value"

	"verifharness/lib"
)

// ------------------------------------------------------------------ documents on the wire

// non-string, non-bool scalars are opaque to the walk; on the wire they are pool indices
var scalars = []any{int(0), int(42), int64(-7), float64(1.5), uint8(200), float64(0), int32(3), float32(2.5), int64(1) << 40}

func scalarIndex(v any) int {
	for i, s := range scalars {
		if reflect.TypeOf(s) == reflect.TypeOf(v) && s == v {
			return i
		}
	}
	return -1
}

func hx(s string) string { return "x" + hex.EncodeToString([]byte(s)) }

func enc(v any, out *[]string) {
	switch x := untype(v).(type) {
	case nil:
		*out = append(*out, "n")
	case bool:
		if x {
			*out = append(*out, "t")
		} else {
			*out = append(*out, "f")
		}
	case string:
		*out = append(*out, "s", hx(x))
	case []any:
		*out = append(*out, "l", strconv.Itoa(len(x)))
		for _, e := range x {
			enc(e, out)
		}
	case map[string]any:
		*out = append(*out, "m", strconv.Itoa(len(x)))
		for _, k := range sortedKeys(x) {
			*out = append(*out, hx(k))
			enc(x[k], out)
		}
	default:
		if i := scalarIndex(v); i >= 0 {
			*out = append(*out, "i", strconv.Itoa(i))
		} else {
			*out = append(*out, fmt.Sprintf("?%T", v))
		}
	}
}

func encS(v any) string {
	var out []string
	enc(v, &out)
	return strings.Join(out, " ")
}

func sortedKeys[T any](m map[string]T) []string {
	ks := make([]string, 0, len(m))
	for k := range m {
		ks = append(ks, k)
	}
	sort.Strings(ks)
	return ks
}

func unhx(t string) (string, bool) {
	if !strings.HasPrefix(t, "x") {
		return "", false
	}
	b, err := hex.DecodeString(t[1:])
	return string(b), err == nil
}

// dec parses one Doc from tokens (corpus files).
func dec(ts []string) (any, []string, bool) {
	if len(ts) == 0 {
		return nil, nil, false
	}
	switch ts[0] {
	case "n":
		return nil, ts[1:], true
	case "t":
		return true, ts[1:], true
	case "f":
		return false, ts[1:], true
	case "i":
		if len(ts) < 2 {
			return nil, nil, false
		}
		i, err := strconv.Atoi(ts[1])
		if err != nil || i < 0 || i >= len(scalars) {
			return nil, nil, false
		}
		return scalars[i], ts[2:], true
	case "s":
		if len(ts) < 2 {
			return nil, nil, false
		}
		s, ok := unhx(ts[1])
		return s, ts[2:], ok
	case "l":
		if len(ts) < 2 {
			return nil, nil, false
		}
		k, err := strconv.Atoi(ts[1])
		if err != nil {
			return nil, nil, false
		}
		r := ts[2:]
		l := make([]any, 0, k)
		for i := 0; i < k; i++ {
			var e any
			var ok bool
			if e, r, ok = dec(r); !ok {
				return nil, nil, false
			}
			l = append(l, e)
		}
		return l, r, true
	case "m":
		if len(ts) < 2 {
			return nil, nil, false
		}
		k, err := strconv.Atoi(ts[1])
		if err != nil {
			return nil, nil, false
		}
		r := ts[2:]
		m := map[string]any{}
		for i := 0; i < k; i++ {
			if len(r) == 0 {
				return nil, nil, false
			}
			key, ok := unhx(r[0])
			if !ok {
				return nil, nil, false
			}
			var e any
			if e, r, ok = dec(r[1:]); !ok {
				return nil, nil, false
			}
			m[key] = e
		}
		return m, r, true
	}
	return nil, nil, false
}

// norm gives the canonical Go form of a JSON-like value: nil containers become empty ones
// (the only canonicalisation the property allows).
func norm(v any) any {
	switch x := untype(v).(type) {
	case []any:
		l := make([]any, len(x))
		for i, e := range x {
			l[i] = norm(e)
		}
		return l
	case map[string]any:
		m := make(map[string]any, len(x))
		for k, e := range x {
			m[k] = norm(e)
		}
		return m
	}
	return v
}

func clone(v any) any {
	switch x := v.(type) {
	case []any:
		if x == nil {
			return []any(nil)
		}
		l := make([]any, len(x))
		for i, e := range x {
			l[i] = clone(e)
		}
		return l
	case map[string]any:
		if x == nil {
			return map[string]any(nil)
		}
		m := make(map[string]any, len(x))
		for k, e := range x {
			m[k] = clone(e)
		}
		return m
	}
	return v
}

// strs collects every string (leaves and map keys) of a document.
func strs(v any, into map[string]bool) {
	switch x := untype(v).(type) {
	case string:
		into[x] = true
	case []any:
		for _, e := range x {
			strs(e, into)
		}
	case map[string]any:
		for k, e := range x {
			into[k] = true
			strs(e, into)
		}
	}
}

func hasNull(v any) bool {
	switch x := untype(v).(type) {
	case nil:
		return true
	case []any:
		for _, e := range x {
			if hasNull(e) {
				return true
			}
		}
	case map[string]any:
		for _, e := range x {
			if hasNull(e) {
				return true
			}
		}
	}
	return false
}

func isPlain(v any) bool {
	m := map[string]bool{}
	strs(v, m)
	for s := range m {
		if strings.Contains(s, "{{") {
			return false
		}
	}
	return true
}

// ------------------------------------------------------------------ trusted text/template

// render is what the real text/template does with one string on one data value.
func render(s string, dot any) (parsed bool, out string, ok bool) {
	t, err := template.New("").Parse(s)
	if err != nil {
		return false, "", false
	}
	var buf bytes.Buffer
	if err := t.Execute(&buf, dot); err != nil {
		return true, "", false
	}
	return true, buf.String(), true
}

var errTemplate = errors.New("template")

// refSubst is the reference substitution of the property statement: a string with a template
// action becomes its rendering, everything else (incl. strings without `{{`) is left as it is.
// collide reports that two keys of one map rendered to the same text (result order-dependent).
func refSubst(v any, dot any, collide *bool) (any, error) {
	switch x := untype(v).(type) {
	case string:
		if !strings.Contains(x, "{{") {
			return x, nil
		}
		_, out, ok := render(x, dot)
		if !ok {
			return nil, errTemplate
		}
		return out, nil
	case []any:
		l := make([]any, 0, len(x))
		for _, e := range x {
			r, err := refSubst(e, dot, collide)
			if err != nil {
				return nil, err
			}
			l = append(l, r)
		}
		return l, nil
	case map[string]any:
		m := make(map[string]any, len(x))
		for _, k := range sortedKeys(x) {
			rk, err := refSubst(k, dot, collide)
			if err != nil {
				return nil, err
			}
			rv, err := refSubst(x[k], dot, collide)
			if err != nil {
				return nil, err
			}
			if _, dup := m[rk.(string)]; dup {
				*collide = true
			}
			m[rk.(string)] = rv
		}
		return m, nil
	}
	return v, nil
}

// ------------------------------------------------------------------ cases

var ids = func() []uuid.UUID {
	out := []uuid.UUID{uuid.Nil}
	for i := 1; i <= 5; i++ {
		out = append(out, uuid.Must(uuid.FromString(fmt.Sprintf("0190a000-0000-7000-8000-00000000000%d", i))))
	}
	return out
}()

func idNum(u uuid.UUID) int {
	for i, x := range ids {
		if x == u {
			return i
		}
	}
	return 99
}

type gval struct {
	id       int
	ns, name string
	data     any
}

type gentry struct {
	key  string
	id   int
	name string
	data any
}

type tcase struct {
	ns     string
	vals   []gval
	env    []gentry       // sorted by key
	fields map[string]any // nil = nil Fields map
	raw    []rawTmpl      // direct template.Execute probes
}

type rawTmpl struct{ doc, dot any }

func (tc *tcase) valsLine() string {
	out := []string{strconv.Itoa(len(tc.vals))}
	for _, v := range tc.vals {
		out = append(out, strconv.Itoa(v.id), hx(v.ns), hx(v.name))
		enc(v.data, &out)
	}
	return strings.Join(out, " ")
}

func envTokens(es []gentry) []string {
	out := []string{strconv.Itoa(len(es))}
	for _, e := range es {
		out = append(out, hx(e.key), strconv.Itoa(e.id), hx(e.name))
		enc(e.data, &out)
	}
	return out
}

func fieldsTokens(f map[string]any) []string {
	if f == nil {
		return []string{"N"}
	}
	out := []string{"F", strconv.Itoa(len(f))}
	for _, k := range sortedKeys(f) {
		out = append(out, hx(k))
		enc(f[k], &out)
	}
	return out
}

func (tc *tcase) specLine() string {
	out := append([]string{hx(tc.ns)}, envTokens(tc.env)...)
	out = append(out, fieldsTokens(tc.fields)...)
	return strings.Join(out, " ")
}

func noHit(string) {}

// mkSpec builds a fresh spec of the case in spelling sp (only ≥ 0: with that env entry alone);
// nil when the spelling does not exist for this case (spDecoded and the codec changes the document).
func (tc *tcase) mkSpec(only int, sp int, hit func(string)) *spec.Unstructured {
	s := sp
	if sp == spDecoded {
		s = spAny
	}
	u := &spec.Unstructured{Meta: spec.Meta{Namespace: tc.ns}}
	if len(tc.env) > 0 {
		u.Env = map[string]spec.Value{}
	}
	for i, e := range tc.env {
		if only >= 0 && i != only {
			continue
		}
		u.Env[e.key] = spec.Value{ID: ids[e.id], Name: e.name, Data: spell(e.data, s, hit)}
	}
	u.Fields = spellFields(tc.fields, s, hit)
	if sp == spDecoded {
		return decodedSpec(u)
	}
	return u
}

func (tc *tcase) mkVals() []*value.Value {
	var out []*value.Value
	for _, v := range tc.vals {
		out = append(out, &value.Value{ID: ids[v.id], Namespace: v.ns, Name: v.name, Data: clone(v.data)})
	}
	return out
}

func errClass(err error) string {
	if errors.Is(err, encoding.ErrUnsupportedValue) {
		return "unsupported"
	}
	return "template"
}

func envFromSpec(u *spec.Unstructured) []gentry {
	var out []gentry
	for _, k := range sortedKeys(u.Env) {
		v := u.Env[k]
		out = append(out, gentry{key: k, id: idNum(v.ID), name: v.Name, data: v.Data})
	}
	return out
}

// ------------------------------------------------------------------ reference selection (oracle)

func (v gval) identified() bool   { return v.id != 0 || v.name != "" }
func (e gentry) identified() bool { return e.id != 0 || e.name != "" }

// refSelect: an entry naming an id and/or a name gets the first value with that id / that name in
// the spec's namespace; an anonymous entry gets the first anonymous value.
func refSelect(ns string, e gentry, vals []gval) int {
	for i, v := range vals {
		if e.identified() {
			if (e.id == 0 || e.id == v.id) && (e.name == "" || e.name == v.name) && (ns == "" || ns == v.ns) {
				return i
			}
		} else if !v.identified() {
			return i
		}
	}
	return -1
}

// ------------------------------------------------------------------ one case on both sides

type runner struct {
	c     *lib.Ctx
	sc    *lib.Script
	fails []lib.OracleFail
	sp    int // the spelling being run (for messages)
	// second-use steps (seconduse.go)
	noBuild bool   // real() stops after Bind
	step    string // what is being run, for messages
	reuseNo int    // reusespec.go: rotates the decode routes
	// replayCase: the case whose lines reproduce a failure found on a spec derived from it
	replayCase *tcase
}

func (r *runner) fail(class, what string, tc *tcase) {
	if len(r.fails) < 40 {
		if r.sp != spAny {
			what = "[documents spelled `" + spellNames[r.sp] + "`] " + what
		}
		if r.step != "" {
			what = "[" + r.step + "] " + what
		}
		if r.replayCase != nil {
			tc = r.replayCase
		}
		r.fails = append(r.fails, lib.OracleFail{Class: class, What: what,
			Replay: "vals " + tc.valsLine() + "\nspec " + tc.specLine() + "\n# (corpus format: put these two lines in corpus/C18/<name>.ops; every case runs in the spellings any, typed, array, decoded, then in the second-use chains of seconduse.go and the re-used spec variable chains of reusespec.go)"})
	}
}

// obs: what the real Bind and Build did with one spelling of the case.
type obs struct {
	u                     *spec.Unstructured
	bindOut, buildOut     string
	bindErr, buildErr     error
	bindPanic, buildPanic string
	envDot                map[string]any
}

func (r *runner) real(tc *tcase, u *spec.Unstructured, vals []*value.Value) *obs {
	c := r.c
	o := &obs{u: u}
	o.bindPanic = lib.Safe(func() { o.bindErr = u.Bind(vals...) })
	switch {
	case o.bindPanic != "":
		o.bindOut = "panic"
		c.Hit("bind-panic")
		r.fail("panic", "Bind panicked: "+o.bindPanic, tc)
	case o.bindErr != nil:
		// the class of every failing entry, each bound on its own (Env is a Go map: which failing
		// entry Bind meets first is unspecified)
		set := map[string]bool{}
		for i := range tc.env {
			var e1 error
			u1 := tc.mkSpec(i, r.sp, noHit)
			if u1 == nil {
				continue
			}
			if p := lib.Safe(func() { e1 = u1.Bind(tc.mkVals()...) }); p != "" {
				set["panic"] = true
			} else if e1 != nil {
				set[errClass(e1)] = true
			}
		}
		cls := strings.Join(sortedKeys(set), "|")
		if set[errClass(o.bindErr)] {
			o.bindOut = "err " + cls
		} else {
			o.bindOut = "err " + errClass(o.bindErr) + " not-among " + cls
		}
		c.Hit("bind-err-" + errClass(o.bindErr))
	default:
		o.bindOut = "ok " + strings.Join(envTokens(envFromSpec(u)), " ")
		c.Hit("bind-ok")
	}
	if o.bindOut[:2] == "ok" {
		if r.noBuild {
			return o
		}
		o.envDot = map[string]any{}
		for k, v := range u.Env {
			o.envDot[k] = clone(v.Data)
		}
		o.buildPanic = lib.Safe(func() { o.buildErr = u.Build() })
		switch {
		case o.buildPanic != "":
			o.buildOut = "panic"
			c.Hit("build-panic")
			r.fail("panic", "Build panicked: "+o.buildPanic, tc)
		case o.buildErr != nil:
			o.buildOut = "err " + errClass(o.buildErr)
			c.Hit("build-err-" + errClass(o.buildErr))
		default:
			o.buildOut = "ok " + strings.Join(fieldsTokens(u.Fields), " ")
			c.Hit("build-ok")
		}
	}
	return o
}

// table: the text/template table of one case as the model is told it – the data values (`dot` lines, index =
// position) and, for every known string, what text/template does with it on every data value (`render` rows).
// Later steps of a case add data values and strings; complete() sends what is still missing.
type table struct {
	r     *runner
	tc    *tcase
	dots  []any
	known map[string]bool
	done  map[string]int // string → number of dots its rows cover already
}

func (t *table) addDot(d any) {
	t.dots = append(t.dots, d)
	l := encS(d)
	t.r.sc.Op("dot "+l, "ok "+l)
}

func (t *table) addStrs(v any) { strs(v, t.known) }

func (t *table) complete() {
	r, tc := t.r, t.tc
	for _, s := range sortedKeys(t.known) {
		from, seen := t.done[s]
		if seen && from == len(t.dots) {
			continue
		}
		row := []string{"render", hx(s), "", strconv.Itoa(len(t.dots) - from)}
		parsed := false
		for i := from; i < len(t.dots); i++ {
			p, out, ok := render(s, t.dots[i])
			parsed = p
			if ok {
				row = append(row, strconv.Itoa(i), "o", hx(out))
				if !strings.Contains(s, "{{") && out != s {
					r.fail("text-template-assumption", fmt.Sprintf("text/template rendered the action-free string %q as %q", s, out), tc)
				}
			} else {
				row = append(row, strconv.Itoa(i), "e")
				if !strings.Contains(s, "{{") {
					r.fail("text-template-assumption", fmt.Sprintf("text/template failed on the action-free string %q", s), tc)
				}
			}
		}
		if from == len(t.dots) {
			parsed, _, _ = render(s, nil)
		}
		row[2] = "0"
		if parsed {
			row[2] = "1"
		}
		r.sc.Op(strings.Join(row, " "), "ok")
		t.done[s] = len(t.dots)
	}
}

func (r *runner) run(tc *tcase) {
	c, sc := r.c, r.sc
	sc.Begin()
	sort.Slice(tc.env, func(i, j int) bool { return tc.env[i].key < tc.env[j].key })
	vl, sl := tc.valsLine(), tc.specLine()
	sc.Op("vals "+vl, "ok "+vl)
	sc.Op("spec "+sl, "ok "+sl)

	// ---- real calls first
	r.sp = spAny
	vals := tc.mkVals()
	u := tc.mkSpec(-1, spAny, noHit)

	type ib struct {
		idx []int
		out string
	}
	var ibs []ib
	rr := lib.NewRNG(int64(len(vl)*7919 + len(sl)))
	for k := 0; k < 3 && len(tc.vals) > 0; k++ {
		var idx []int
		var sub []*value.Value
		for j := range tc.vals {
			if rr.Chance(1, 2) {
				idx = append(idx, j)
				sub = append(sub, vals[j])
			}
		}
		var got bool
		if p := lib.Safe(func() { got = u.IsBound(sub...) }); p != "" {
			ibs = append(ibs, ib{idx, "panic"})
			r.fail("panic", "IsBound panicked: "+p, tc)
		} else {
			ibs = append(ibs, ib{idx, strconv.FormatBool(got)})
		}
	}

	o0 := r.real(tc, u, vals)
	bindOut, buildOut, envDot := o0.bindOut, o0.buildOut, o0.envDot

	// ---- text/template table: every string of the case on every data value of the case
	var dots []any
	for _, v := range tc.vals {
		dots = append(dots, v.data)
	}
	if envDot != nil {
		dots = append(dots, envDot)
	}
	for _, rt := range tc.raw {
		dots = append(dots, rt.dot)
	}
	all := map[string]bool{}
	for _, e := range tc.env {
		strs(e.data, all)
	}
	if tc.fields != nil {
		strs(tc.fields, all)
	}
	for _, rt := range tc.raw {
		strs(rt.doc, all)
	}
	tb := &table{r: r, tc: tc, known: all, done: map[string]int{}}
	for _, d := range dots {
		tb.addDot(d)
	}
	tb.complete()

	// ---- the compared operations
	for _, b := range ibs {
		toks := []string{"isbound", strconv.Itoa(len(b.idx))}
		for _, i := range b.idx {
			toks = append(toks, strconv.Itoa(i))
		}
		sc.Op(strings.Join(toks, " "), b.out)
		c.Hit("isbound-" + b.out)
	}
	sc.Op("bind", bindOut)
	if buildOut != "" {
		sc.Op("build", buildOut)
	}
	base := len(tc.vals)
	if envDot != nil {
		base++
	}
	hit := func(h string) { c.Hit(h) }
	fieldStrs := map[string]bool{}
	if tc.fields != nil {
		strs(tc.fields, fieldStrs)
	}
	// every spelling of the same abstract case: the any-only one above, then the typed ones. The model
	// gets the same abstract spec again and is compared with what the typed run did; the reference
	// substitution of the oracle is evaluated on the abstract documents as well.
	for sp := spAny; sp < nSpellings; sp++ {
		r.sp = sp
		o := o0
		if sp != spAny {
			o = nil
			us := tc.mkSpec(-1, sp, hit)
			switch {
			case us == nil:
				c.Hit("spelling-" + spellNames[sp] + "-unavailable")
			case !specTyped(us):
				c.Hit("spelling-" + spellNames[sp] + "-same-as-any")
			default:
				c.Hit("spelling-" + spellNames[sp] + "-run")
				o = r.real(tc, us, tc.mkVals())
				sc.Op("spec "+sl, "ok "+sl)
				sc.Op("bind", o.bindOut)
				if o.buildOut != "" {
					// text/template itself may tell the spellings of its data apart (a missing key of a
					// map[string]string renders "", of a map[string]any "<no value>"); the model's
					// TextTemplate table is indexed by the abstract data, so Build is compared with the
					// model only when both spellings of the environment render every string alike (the
					// oracle below renders with the real, typed environment in every case).
					agree := true
					for str := range fieldStrs {
						p1, o1, k1 := render(str, o.envDot)
						p2, o2, k2 := render(str, envDot)
						if p1 != p2 || o1 != o2 || k1 != k2 {
							agree = false
						}
					}
					if agree {
						sc.Op("build", o.buildOut)
					} else {
						c.Hit("spelling-renders-differently")
					}
				}
			}
		}
		if o != nil {
			// ---- property oracle on Bind / Build (independent of the model)
			r.oracle(tc, o, tc.mkSpec(-1, sp, noHit))
		}
		for i, rt := range tc.raw {
			var doc any
			if sp == spDecoded {
				var ok bool
				if doc, ok = decodedDoc(rt.doc); !ok {
					continue
				}
			} else {
				doc = spell(rt.doc, sp, hit)
			}
			if sp != spAny && !anyTyped(doc) {
				continue
			}
			in0 := doc
			if sp != spDecoded {
				in0 = spell(rt.doc, sp, noHit)
			} else {
				in0, _ = decodedDoc(rt.doc)
			}
			var got any
			var err error
			out := ""
			if p := lib.Safe(func() { got, err = utemplate.Execute(doc, clone(rt.dot)) }); p != "" {
				out = "panic"
				r.fail("panic", "template.Execute panicked: "+p, tc)
			} else if err != nil {
				out = "err template"
			} else {
				out = "ok " + encS(got)
			}
			c.Hit("tmpl-" + out[:2])
			sc.Op(fmt.Sprintf("tmpl %d %s", base+i, encS(rt.doc)), out)
			// oracle on the raw walk
			collide := false
			want, werr := refSubst(rt.doc, rt.dot, &collide)
			if out != "panic" && !collide {
				if (werr != nil) != (err != nil) {
					r.fail("substitution", fmt.Sprintf("template.Execute(%s) error=%v, reference substitution error=%v", encS(rt.doc), err, werr), tc)
				} else if err == nil && !reflect.DeepEqual(norm(got), norm(want)) {
					r.fail("substitution", fmt.Sprintf("template.Execute(%s) = %s, reference substitution = %s", encS(rt.doc), encS(got), encS(want)), tc)
				}
				if isPlain(rt.doc) && (err != nil || !reflect.DeepEqual(norm(got), norm(rt.doc))) {
					r.fail("plain-changed", fmt.Sprintf("action-free document %s came back as %s (err %v)", encS(rt.doc), encS(got), err), tc)
				} else if isPlain(rt.doc) && !sameSpelling(got, in0) {
					r.fail("plain-changed", fmt.Sprintf("action-free document %s of Go type %T came back as a %T", encS(rt.doc), in0, got), tc)
				}
			}
		}
	}
	r.sp = spAny

	// ---- second use: one value list for several specs, Bind twice, Bind again with more values
	r.secondUse(tc, tb)
	r.reusedSpecVar(tc, tb)

	// ---- evidence
	for _, e := range tc.env {
		switch {
		case e.id != 0 && e.name != "":
			c.Hit("entry-by-id+name")
		case e.id != 0:
			c.Hit("entry-by-id")
		case e.name != "":
			c.Hit("entry-by-name")
		default:
			c.Hit("entry-anonymous")
		}
		if refSelect(tc.ns, e, tc.vals) < 0 {
			c.Hit("entry-without-value")
		}
		if hasNull(e.data) {
			c.Hit("null-in-env-data")
		}
	}
	if tc.fields == nil {
		c.Hit("fields-nil")
	} else {
		if hasNull(tc.fields) {
			c.Hit("null-in-fields")
		}
		if isPlain(tc.fields) {
			c.Hit("fields-plain")
		} else {
			c.Hit("fields-templated")
		}
	}
	key := ""
	if len(tc.env) > 0 || len(tc.raw) > 0 {
		key = vl + "|" + sl
		for _, rt := range tc.raw {
			key += "|" + encS(rt.doc) + "@" + encS(rt.dot)
		}
	}
	c.Count(key)
	if len(tc.env) > 1 && tc.fields != nil && len(tc.vals) > 1 {
		c.Sample(map[string]any{"vals": vl, "spec": sl, "bind": bindOut, "build": buildOut})
	}
}

func specTyped(u *spec.Unstructured) bool {
	for _, v := range u.Env {
		if anyTyped(v.Data) {
			return true
		}
	}
	for _, v := range u.Fields {
		if anyTyped(v) {
			return true
		}
	}
	return false
}

// oracle judges one run o of the case; in0 is a fresh copy of the spec as it was handed to the run.
func (r *runner) oracle(tc *tcase, o *obs, in0 *spec.Unstructured) {
	u, bindPanic, bindErr, envDot, buildPanic, buildErr := o.u, o.bindPanic, o.bindErr, o.envDot, o.buildPanic, o.buildErr
	if bindPanic != "" {
		return
	}
	// expected environment after Bind
	want := map[string]gentry{}
	missing, tmplFail, collide := false, false, false
	for _, e := range tc.env {
		j := refSelect(tc.ns, e, tc.vals)
		switch {
		case j >= 0:
			d, err := refSubst(e.data, tc.vals[j].data, &collide)
			if err != nil {
				tmplFail = true
			}
			want[e.key] = gentry{key: e.key, id: tc.vals[j].id, name: tc.vals[j].name, data: d}
		case e.identified():
			missing = true
		default:
			want[e.key] = e
		}
	}
	if collide {
		r.c.Hit("oracle-skipped-key-collision")
		return
	}
	if missing && bindErr == nil {
		r.fail("missing-accepted", "an env entry names a variable that does not exist, yet Bind returned no error", tc)
		return
	}
	if missing && !tmplFail && !errors.Is(bindErr, encoding.ErrUnsupportedValue) {
		r.fail("missing-accepted", fmt.Sprintf("missing variable reported as %v instead of ErrUnsupportedValue", bindErr), tc)
		return
	}
	if !missing && !tmplFail && bindErr != nil {
		r.fail("bind-mismatch", fmt.Sprintf("every entry has its variable and renders, yet Bind failed: %v", bindErr), tc)
		return
	}
	if (missing || tmplFail) && bindErr != nil {
		return
	}
	if tmplFail && bindErr == nil {
		// which value was chosen differs from the reference, or a failing template was accepted
		r.fail("bind-mismatch", "the reference binding fails to render, Bind succeeded", tc)
		return
	}
	for _, g := range envFromSpec(u) {
		w := want[g.key]
		if g.id != w.id || g.name != w.name || !reflect.DeepEqual(norm(g.data), norm(w.data)) {
			class := "bind-mismatch"
			for _, e := range tc.env {
				if e.key == g.key && !e.identified() && (g.id != 0 || g.name != "") {
					class = "anonymous-entry-bound-to-identified-value"
				}
			}
			r.fail(class, fmt.Sprintf("env %q: bound to id=%d name=%q data=%s, reference: id=%d name=%q data=%s",
				g.key, g.id, g.name, encS(g.data), w.id, w.name, encS(w.data)), tc)
			return
		}
		if in0 != nil && isPlain(g.data) && isPlain(in0.Env[g.key].Data) && !sameSpelling(g.data, in0.Env[g.key].Data) {
			r.fail("plain-changed", fmt.Sprintf("env %q: action-free data %s of Go type %T came back as a %T", g.key, encS(g.data), in0.Env[g.key].Data, g.data), tc)
			return
		}
	}
	// Build
	if buildPanic != "" {
		return
	}
	var wantFields any = tc.fields
	var werr error
	if len(envDot) > 0 {
		var f any = map[string]any{}
		if tc.fields != nil {
			f = tc.fields
		}
		wantFields, werr = refSubst(f, envDot, &collide)
	}
	if collide {
		r.c.Hit("oracle-skipped-key-collision")
		return
	}
	if (werr != nil) != (buildErr != nil) {
		r.fail("substitution", fmt.Sprintf("Build error=%v, reference substitution error=%v", buildErr, werr), tc)
		return
	}
	if buildErr == nil {
		var got, wantN any = u.Fields, wantFields
		if u.Fields != nil {
			got = norm(u.Fields)
		}
		if m, ok := wantFields.(map[string]any); ok && m != nil {
			wantN = norm(m)
		}
		if !(u.Fields == nil && tc.fields == nil && len(envDot) == 0) && !reflect.DeepEqual(got, wantN) {
			r.fail("substitution", fmt.Sprintf("Build produced %s, reference substitution %s", strings.Join(fieldsTokens(u.Fields), " "), encS(wantFields)), tc)
			return
		}
	}
	if tc.fields != nil && isPlain(tc.fields) {
		if buildErr != nil || !reflect.DeepEqual(norm(u.Fields), norm(tc.fields)) {
			r.fail("plain-changed", fmt.Sprintf("action-free fields came back as %s (err %v)", strings.Join(fieldsTokens(u.Fields), " "), buildErr), tc)
		} else if in0 != nil && !sameSpelling(u.Fields, in0.Fields) {
			r.fail("plain-changed", fmt.Sprintf("action-free fields %s came back with other Go types: %#v, was %#v", strings.Join(fieldsTokens(u.Fields), " "), u.Fields, in0.Fields), tc)
		}
	}
}

// ------------------------------------------------------------------ generators

var nss = []string{"ns1", "ns1", "ns1", "ns2", ""}
var names = []string{"", "a", "b", "c"}
var envKeys = []string{"A", "B", "C"}

func genValData(r *lib.RNG, j int, depth int) any {
	switch r.Weighted([]int{6, 2, 1, 1, 1}) {
	case 0:
		m := map[string]any{"p": fmt.Sprintf("pv%d", j)}
		if r.Chance(2, 3) {
			m["q"] = map[string]any{"r": fmt.Sprintf("rv%d", j)}
		}
		if r.Chance(1, 3) {
			m["n"] = lib.Pick(r, scalars)
		}
		if r.Chance(1, 5) {
			m["z"] = nil
		}
		if r.Chance(1, 5) {
			m["l"] = []any{"x", lib.Pick(r, scalars)}
		}
		return m
	case 1:
		return fmt.Sprintf("sv%d", j)
	case 2:
		return lib.Pick(r, scalars)
	case 3:
		return nil
	default:
		return []any{fmt.Sprintf("e%d", j), lib.Pick(r, scalars)}
	}
}

var entryTmpls = []string{"{{ . }}", "{{ .p }}", "{{ .q.r }}", "v-{{ .p }}-w", "{{.p}}{{.n}}", "{{ .nokey }}", "{{ if .p }}y{{ else }}n{{ end }}", "{{ .p.x }}"}
var fieldTmpls = []string{"{{ .A }}", "{{.B}}", "pre {{ .A }} post", "{{ .A.p }}", "{{ .C.q.r }}", "{{ .Z }}", "{{ if .A }}yes{{ else }}no{{ end }}",
	"{{- .A -}}", "  {{- .B }}", "{{ .A }}{{ .B }}", "{{ .B.p }}/{{ .C }}", "{{ \"{{\" }}", "{{ .A.p.x }}", "{{ len .A }}", "{{ printf \"%v\" .C }}"}
var badTmpls = []string{"{{ .A", "{{ end }}", "{{ .A | nofunc }}", "{{"}
var plains = []string{"", "plain", "a b", "{ single", "}}", "x{y}z", " ", "{ {", "100%", "tab\there", "ünï"}

func genStr(r *lib.RNG, tmpls []string, pTmpl, pBad int) string {
	k := r.Intn(100)
	switch {
	case k < pBad:
		return lib.Pick(r, badTmpls)
	case k < pBad+pTmpl:
		return lib.Pick(r, tmpls)
	}
	return lib.Pick(r, plains)
}

// wideDocs: set by genCase for one case in ten – lists of 20–60 elements and maps of 8–40 keys appear among the
// containers (a router with a few dozen routes, a header list, an allow-list): every other document has at most
// three entries per container. (Seeded change c18k: a nesting guard whose depth counter leaked one unit per scalar
// leaf refused every document of more than about thirty leaves.)
var wideDocs bool

func wideN(r *lib.RNG, small int) int {
	if wideDocs && r.Chance(1, 3) {
		return r.Range(20, 60)
	}
	return small
}

// genDoc: JSON-like document, depth ≤ 4, with nulls, empty and nil containers, scalars.
func genDoc(r *lib.RNG, depth int, tmpls []string, pTmpl, pBad int) any {
	w := []int{5, 2, 2, 2, 3, 3, 3}
	if depth <= 0 {
		w[4], w[5], w[6] = 0, 0, 0
	}
	switch r.Weighted(w) {
	case 6:
		return genStrContainer(r, tmpls, pTmpl, pBad)
	case 0:
		return genStr(r, tmpls, pTmpl, pBad)
	case 1:
		return nil
	case 2:
		return r.Bool()
	case 3:
		return lib.Pick(r, scalars)
	case 4:
		n := wideN(r, r.Intn(4))
		if n == 0 && r.Bool() {
			return []any(nil)
		}
		l := make([]any, 0, n)
		for i := 0; i < n; i++ {
			d := depth - 1
			if n > 3 {
				d = min(d, 1) // a long list holds small elements
			}
			l = append(l, genDoc(r, d, tmpls, pTmpl, pBad))
		}
		return l
	default:
		return genMap(r, depth, tmpls, pTmpl, pBad)
	}
}

// genStrContainer: containers that have a typed Go spelling (all leaves strings): a list of strings,
// a list of string lists, a map of strings, a map of string lists, a list of string maps.
func genStrContainer(r *lib.RNG, tmpls []string, pTmpl, pBad int) any {
	sl := func() any {
		n := wideN(r, r.Intn(4))
		l := make([]any, 0, n)
		for i := 0; i < n; i++ {
			l = append(l, genStr(r, tmpls, pTmpl, pBad))
		}
		return l
	}
	sm := func(val func() any) any {
		m := map[string]any{}
		n := r.Range(1, 3)
		for i := 0; i < n; i++ {
			k := lib.Pick(r, []string{"a", "b", "c", "key", "", "k k"})
			if pTmpl > 0 && r.Chance(1, 6) {
				k = fmt.Sprintf("t%d-%s", i, lib.Pick(r, tmpls))
			}
			m[k] = val()
		}
		return m
	}
	str := func() any { return genStr(r, tmpls, pTmpl, pBad) }
	switch r.Weighted([]int{4, 2, 3, 2, 1}) {
	case 0:
		return sl()
	case 1:
		n := r.Range(1, 3)
		l := make([]any, 0, n)
		for i := 0; i < n; i++ {
			l = append(l, sl())
		}
		return l
	case 2:
		return sm(str)
	case 3:
		return sm(sl)
	default:
		n := r.Range(1, 2)
		l := make([]any, 0, n)
		for i := 0; i < n; i++ {
			l = append(l, sm(str))
		}
		return l
	}
}

func genMap(r *lib.RNG, depth int, tmpls []string, pTmpl, pBad int) map[string]any {
	n := r.Intn(4)
	if wideDocs && r.Chance(1, 3) {
		n = r.Range(8, 40)
	}
	if n == 0 && r.Bool() {
		return map[string]any(nil)
	}
	m := map[string]any{}
	for i := 0; i < n; i++ {
		// plain keys never start with 't'; templated keys carry a per-entry prefix, so rendered keys cannot collide
		k := lib.Pick(r, []string{"a", "b", "c", "key", "", "k k"})
		if n > 3 {
			k = fmt.Sprintf("f%02d", i)
			depth = min(depth, 2)
		}
		if pTmpl > 0 && r.Chance(1, 8) {
			k = fmt.Sprintf("t%d-%s", i, lib.Pick(r, tmpls))
		} else if pBad > 0 && r.Chance(1, 60) {
			k = "t{{ .A"
		}
		m[k] = genDoc(r, depth-1, tmpls, pTmpl, pBad)
	}
	return m
}

func genCase(r *lib.RNG) *tcase {
	tc := &tcase{ns: lib.Pick(r, nss)}
	wideDocs = r.Chance(1, 10)
	defer func() { wideDocs = false }()
	nv := r.Intn(5)
	for j := 0; j < nv; j++ {
		v := gval{ns: lib.Pick(r, nss), data: genValData(r, j, 2)}
		switch r.Intn(5) {
		case 0: // anonymous (the process environment the runtime appends)
			if r.Bool() {
				v.ns = ""
			}
		case 1:
			v.id = r.Range(1, 3)
		case 2:
			v.name = names[r.Range(1, 3)]
		default:
			v.id, v.name = r.Range(1, 3), names[r.Intn(4)]
		}
		if r.Chance(2, 3) {
			v.ns = tc.ns
		}
		tc.vals = append(tc.vals, v)
	}
	ne := r.Weighted([]int{1, 4, 4, 2})
	keys := append([]string{}, envKeys...)
	plainCase := r.Chance(1, 4)
	pT, pB := 55, 3
	if plainCase {
		pT, pB = 0, 0
	}
	for i := 0; i < ne; i++ {
		e := gentry{key: keys[i]}
		switch r.Weighted([]int{5, 1, 1, 1, 10}) {
		case 0:
			// anonymous
		case 1:
			e.id = r.Range(1, 4)
		case 2:
			e.name = names[r.Range(1, 3)]
		case 3:
			e.id, e.name = r.Range(1, 3), names[r.Range(1, 3)]
		default: // aim at an existing value
			if len(tc.vals) > 0 {
				v := lib.Pick(r, tc.vals)
				if r.Bool() {
					e.id = v.id
				}
				if r.Bool() || e.id == 0 {
					e.name = v.name
				}
			}
		}
		switch r.Weighted([]int{6, 2, 1, 1}) {
		case 0:
			e.data = genStr(r, entryTmpls, 75, 2)
		case 1:
			e.data = genDoc(r, 2, entryTmpls, 50, 2)
		case 2:
			e.data = nil
		default:
			e.data = lib.Pick(r, scalars)
		}
		tc.env = append(tc.env, e)
	}
	if !r.Chance(1, 10) {
		tc.fields = genMap(r, 4, fieldTmpls, pT, pB)
		if tc.fields == nil && r.Bool() {
			tc.fields = map[string]any{}
		}
	}
	if r.Chance(1, 3) {
		dot := map[string]any{"A": genValData(r, 7, 1), "B": "bee"}
		if r.Chance(1, 4) {
			dot = nil
		}
		var d any = dot
		if dot == nil {
			d = lib.Pick(r, []any{nil, "str", 42})
		}
		tc.raw = append(tc.raw, rawTmpl{doc: genDoc(r, 3, fieldTmpls, pT, pB), dot: d})
	}
	return tc
}

// selectionSweep enumerates the small scope of Bind's variable selection exhaustively.
func selectionSweep() []*tcase {
	type iv struct {
		id       int
		name, ns string
	}
	var opts []iv
	for id := 0; id <= 2; id++ {
		for _, nm := range []string{"", "a"} {
			for _, ns := range []string{"", "ns1", "ns2"} {
				opts = append(opts, iv{id, nm, ns})
			}
		}
	}
	var lists [][]iv
	lists = append(lists, nil)
	for _, a := range opts {
		lists = append(lists, []iv{a})
		for _, b := range opts {
			lists = append(lists, []iv{a, b})
		}
	}
	var out []*tcase
	for eid := 0; eid <= 2; eid++ {
		for _, enm := range []string{"", "a", "b"} {
			for _, sns := range []string{"", "ns1"} {
				for _, l := range lists {
					tc := &tcase{ns: sns, fields: map[string]any{"f": "{{ .A }}", "n": nil}}
					for j, v := range l {
						tc.vals = append(tc.vals, gval{id: v.id, name: v.name, ns: v.ns, data: map[string]any{"p": fmt.Sprintf("pv%d", j)}})
					}
					tc.env = []gentry{{key: "A", id: eid, name: enm, data: "{{ .p }}"}}
					out = append(out, tc)
				}
			}
		}
	}
	return out
}

// ------------------------------------------------------------------ corpus

// A corpus file holds cases of two lines each: `vals …` then `spec …` (the wire format).
func parseCorpus(lines []string) ([]*tcase, error) {
	var out []*tcase
	var cur *tcase
	for _, ln := range lines {
		ts := strings.Fields(ln)
		switch ts[0] {
		case "vals":
			cur = &tcase{}
			n, err := strconv.Atoi(ts[1])
			if err != nil {
				return nil, fmt.Errorf("bad vals line %q", ln)
			}
			r := ts[2:]
			for i := 0; i < n; i++ {
				if len(r) < 3 {
					return nil, fmt.Errorf("bad vals line %q", ln)
				}
				id, err := strconv.Atoi(r[0])
				ns, ok1 := unhx(r[1])
				name, ok2 := unhx(r[2])
				d, rest, ok3 := dec(r[3:])
				if err != nil || !ok1 || !ok2 || !ok3 || id < 0 || id >= len(ids) {
					return nil, fmt.Errorf("bad vals line %q", ln)
				}
				cur.vals = append(cur.vals, gval{id: id, ns: ns, name: name, data: d})
				r = rest
			}
		case "spec":
			if cur == nil {
				return nil, fmt.Errorf("spec before vals: %q", ln)
			}
			ns, ok := unhx(ts[1])
			n, err := strconv.Atoi(ts[2])
			if !ok || err != nil {
				return nil, fmt.Errorf("bad spec line %q", ln)
			}
			cur.ns = ns
			r := ts[3:]
			for i := 0; i < n; i++ {
				if len(r) < 3 {
					return nil, fmt.Errorf("bad spec line %q", ln)
				}
				key, ok1 := unhx(r[0])
				id, err := strconv.Atoi(r[1])
				name, ok2 := unhx(r[2])
				d, rest, ok3 := dec(r[3:])
				if err != nil || !ok1 || !ok2 || !ok3 || id < 0 || id >= len(ids) {
					return nil, fmt.Errorf("bad spec line %q", ln)
				}
				cur.env = append(cur.env, gentry{key: key, id: id, name: name, data: d})
				r = rest
			}
			if len(r) == 1 && r[0] == "N" {
				// nil fields
			} else if len(r) >= 2 && r[0] == "F" {
				d, rest, ok := dec(append([]string{"m"}, r[1:]...))
				if !ok || len(rest) != 0 {
					return nil, fmt.Errorf("bad fields in %q", ln)
				}
				cur.fields = d.(map[string]any)
			} else {
				return nil, fmt.Errorf("bad fields in %q", ln)
			}
			out = append(out, cur)
			cur = nil
		default:
			return nil, fmt.Errorf("unknown corpus line %q", ln)
		}
	}
	return out, nil
}

// ------------------------------------------------------------------ entry point

func Run(c *lib.Ctx) {
	c.Rule = "one case = a value set (≤4 values: anonymous / id / name / id+name, namespaces ns1, ns2, \"\"), a spec (namespace, ≤3 env entries by id / name / id+name / anonymous / missing with string, nested, null or scalar data, fields = nil or a JSON-like map of depth ≤4 with nulls, empty and nil containers, scalars, plain and templated strings and keys, occasional malformed templates) and sometimes a direct template.Execute probe; each case in four Go spellings of its documents (any / typed / array / decoded), then as second use: the spec in the namespaces ns1 → ns2 → \"\" and ns2 → ns1 → \"\" bound and built from ONE shared value slice, and Bind, Bind again, Build, Bind with two more values on one spec; IsBound (3 value subsets), Bind, Build and Execute run on the real code and on the Lean model; a case is non-trivial when it has an environment or a probe, distinct by its full text"
	c.Assumptions = []string{
		"text/template is trusted and enters the model as the parameter TextTemplate; the theorems assume only `plain s → parse s ∧ exec s dot = s` (checked on every action-free string of every case by the harness)",
		"Go's unspecified map iteration order (Meta.Env, reflect MapKeys, mapNode.children) is a parameter of the model; compared observations are order-free (keys sorted, error classes of all failing entries); cases where two templated keys of one map render to the same text are generated only without collisions",
		"documents are JSON-like (nil, bool, numbers, string, lists, string-keyed maps); numbers are opaque to the walk; nil and empty containers are identified (the code returns the empty container for both)",
		"re-used spec variable: the models take every decode target as fresh. From every case the documents FULL, MID (without the last env entry) and LESS (also without the first field, name and annotations) are decoded in the chains FULL→LESS, LESS→FULL, FULL→MID→LESS into ONE spec.Spec variable (types.Unmarshal(doc, &sp); store cursor.Decode(&sp); a []spec.Spec of length 1), each bound and built before the next arrives; the spec of every document is judged by the reference selection/substitution, compared with the model on the document's abstract spec and with the same document decoded into a fresh variable (one route per chain, rotating from case to case; thorough tier: every 16th case all nine)",
		"second use: Bind is handed one caller-owned slice for several specs (as runtime.load does); after every Bind the slice must hold the same pointers to unchanged values, and every Bind/Build of a chain is compared with the model run on that spec alone (the model has no shared state) and judged by the reference selection/substitution; a re-Bind takes the bound spec as its input; after a failed Bind the chain stops (which entries were bound before the failure is unspecified: Env is a Go map)",
		"Go spellings: every case runs with its documents (Fields values, env Data, probe documents) spelled four ways: []any / map[string]any only; typed containers ([]string, [][]string, map[string]string, map[string][]string, []map[string]string wherever all leaves are strings); the same with [N]string arrays; and as types.Unmarshal of the encoded spec yields them (all-string lists come back as []string, all-string maps as map[string]string). The model and the reference substitution see the abstract document; a typed run is compared with the model on the same abstract spec (Build only when text/template renders every string of the fields alike on both spellings of the environment: a missing key of a map[string]string renders \"\", of a map[string]any \"<no value>\"); an action-free document must also come back with the Go types it had",
	}
	c.Trusted = []string{"text/template (Parse/Execute of each string, recorded by the harness from the real library)"}
	rn := &runner{c: c, sc: &lib.Script{}}
	for _, f := range c.CorpusFiles() {
		cases, err := parseCorpus(lib.ReadLines(f))
		if err != nil {
			c.Violation("unreadable corpus file "+f+": "+err.Error(), "", false)
			continue
		}
		for _, tc := range cases {
			rn.run(tc)
			c.Hit("corpus-case")
		}
	}
	// lib.NewRNG(k+1) is lib.NewRNG(k) shifted by one draw; seed a second generator with the first
	// one's (mixed) output so that different VERIF_SEEDs give unrelated runs.
	r := lib.NewRNG(int64(lib.NewRNG(c.Seed).Uint64()))
	var ms []lib.Mismatch
	flush := func() {
		if c.Proof.DriverBuilt && rn.sc.Cases() > 0 {
			m, err := c.RunModel("c18", rn.sc)
			if err != nil {
				c.Violation("model driver failed: "+err.Error(), "", false)
			}
			ms = append(ms, m...)
		}
		rn.sc = &lib.Script{}
	}
	flush() // corpus
	// exhaustive small scope for the variable selection: every entry (id, name) × spec namespace ×
	// every list of ≤2 values over (id, name, namespace); labelled as correspondence + search
	for _, tc := range selectionSweep() {
		rn.run(tc)
		c.Hit("selection-sweep-case")
		if rn.sc.Cases() >= 4000 {
			flush()
		}
	}
	flush()
	n := c.Scale(4000, 200000)
	for i := 0; i < n; i++ {
		rn.run(genCase(r.Fork()))
		if rn.sc.Cases() >= 4000 {
			flush()
		}
	}
	flush()
	c.Conclude("IsBound/Bind/Build/template.Execute ≈ Uniflow.Bind / Uniflow.Template", ms, rn.fails)
}
