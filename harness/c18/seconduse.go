package c18

import (
	"fmt"
	"strings"

	"github.com/siyul-park/uniflow/pkg/spec"
	"github.com/siyul-park/uniflow/pkg/value"
)

// Second use. The runtime binds every loaded spec from ONE list of values (`unstructured.Bind(values...)` in a
// loop); a Bind that edits the list it was handed, or a spec that remembers something from an earlier Bind, is
// invisible when every Bind gets a fresh list and every spec is bound once. After the single-use runs of a case:
//
//   (1) shared list: the case's spec in the namespaces ns1 → ns2 → "" and ns2 → ns1 → "" (same env, same fields),
//       each chain bound and built from one shared value slice. After every Bind the slice must hold the same
//       pointers to unchanged values; every Bind/Build is compared with the model run for that spec (the model
//       has no shared state) and judged by the reference selection/substitution.
//   (2) the case's spec: Bind, Bind again from the same slice (the bound spec is the input of the second Bind),
//       Build, then Bind once more with more values (one put in front, one appended); the same comparisons.
//
// A failure's replay is the case itself: the chains are a function of the case.

type valSnap struct {
	ptr  *value.Value
	text string
}

func snapshot(vals []*value.Value) []valSnap {
	out := make([]valSnap, len(vals))
	for i, v := range vals {
		out[i] = valSnap{v, valText(v)}
	}
	return out
}

func valText(v *value.Value) string {
	if v == nil {
		return "<nil>"
	}
	return fmt.Sprintf("id=%d ns=%q name=%q data=%s", idNum(v.ID), v.Namespace, v.Name, encS(v.Data))
}

// callerList: the slice the caller handed to Bind still holds what the caller put there.
func (r *runner) callerList(tc *tcase, vals []*value.Value, snap []valSnap) bool {
	for i, s := range snap {
		switch {
		case vals[i] != s.ptr:
			r.fail("caller-value-list-changed", fmt.Sprintf("after Bind(values...) the caller's slice holds at index %d the value {%s}, the caller had put {%s} there", i, valText(vals[i]), s.text), tc)
			return false
		case valText(vals[i]) != s.text:
			r.fail("caller-value-list-changed", fmt.Sprintf("after Bind(values...) value %d of the caller's slice is {%s}, it was {%s}", i, valText(vals[i]), s.text), tc)
			return false
		}
	}
	return true
}

// state: the abstract case that describes spec u now (env and fields as they are after the steps so far).
func state(tc *tcase, u *spec.Unstructured, vals []gval) *tcase {
	st := &tcase{ns: tc.ns, vals: vals, env: envFromSpec(u)}
	for i := range st.env {
		st.env[i].data = norm(st.env[i].data)
	}
	if u.Fields != nil {
		st.fields = norm(u.Fields).(map[string]any)
	}
	return st
}

// one step on the real spec u (described by st) with the value slice vals, compared with the model and judged.
func (r *runner) useStep(st *tcase, tb *table, u *spec.Unstructured, vals []*value.Value, build bool) *obs {
	return r.useStepIn(st, tb, u, st.mkSpec(-1, spAny, noHit), vals, build)
}

// useStepIn: in0 = a fresh copy of u as it is handed in (for the "keeps its Go types" clause).
func (r *runner) useStepIn(st *tcase, tb *table, u, in0 *spec.Unstructured, vals []*value.Value, build bool) *obs {
	sc := r.sc
	snap := snapshot(vals)
	r.noBuild = !build
	o := r.real(st, u, vals)
	r.noBuild = false
	r.callerList(st, vals, snap)
	// model: the same abstract spec, bound (and built) on its own
	sl := st.specLine()
	sc.Op("spec "+sl, "ok "+sl)
	for _, e := range st.env {
		tb.addStrs(e.data)
	}
	if st.fields != nil {
		tb.addStrs(st.fields)
	}
	if o.envDot != nil {
		tb.addDot(o.envDot)
	}
	tb.complete()
	sc.Op("bind", o.bindOut)
	if o.buildOut != "" {
		sc.Op("build", o.buildOut)
	}
	r.oracle(st, o, in0)
	return o
}

func (r *runner) secondUse(tc *tcase, tb *table) {
	c := r.c
	defer func() { r.step = "" }()
	if len(tc.env) == 0 {
		return
	}
	// (1) one shared value slice, specs of different namespaces
	for _, chain := range [][]string{{"ns1", "ns2", ""}, {"ns2", "ns1", ""}} {
		shared := tc.mkVals()
		for k, ns := range chain {
			r.step = fmt.Sprintf("ONE value slice for the specs of namespaces %s: spec %d", strings.Join(quoteAll(chain), " → "), k+1)
			st := &tcase{ns: ns, vals: tc.vals, env: tc.env, fields: tc.fields}
			r.useStep(st, tb, st.mkSpec(-1, spAny, noHit), shared, true)
			c.Hit("second-use-shared-list-bind")
		}
	}
	// (2) Bind, Bind again, Build, Bind with more values
	shared := tc.mkVals()
	u := tc.mkSpec(-1, spAny, noHit)
	r.step = "Bind, Bind, Build, Bind with more values: first Bind"
	o := r.useStep(&tcase{ns: tc.ns, vals: tc.vals, env: tc.env, fields: tc.fields}, tb, u, shared, false)
	if o.bindOut[:2] != "ok" {
		// a failed Bind may have bound some entries already (Env is a Go map: which ones is unspecified)
		c.Hit("second-use-rebind-skipped(first Bind failed)")
		return
	}
	r.step = "Bind, Bind, Build, Bind with more values: second Bind of the bound spec from the same slice"
	o = r.useStep(state(tc, u, tc.vals), tb, u, shared, true)
	c.Hit("second-use-bind-twice")
	if o.bindOut[:2] != "ok" || o.buildOut[:2] != "ok" {
		return
	}
	// more values: a twin of the first value in front (same id and name, other data), an anonymous one appended
	more := append([]gval{}, tc.vals...)
	if len(tc.vals) > 0 {
		twin := tc.vals[0]
		twin.data = map[string]any{"p": "twin", "q": map[string]any{"r": "twin-r"}}
		more = append([]gval{twin}, more...)
	}
	more = append(more, gval{ns: tc.ns, data: "late"})
	st := state(tc, u, more)
	vl := st.valsLine()
	r.sc.Op("vals "+vl, "ok "+vl)
	for _, v := range more[len(more)-1:] {
		tb.addDot(v.data)
	}
	if len(tc.vals) > 0 {
		tb.addDot(more[0].data)
	}
	r.step = "Bind, Bind, Build, Bind with more values: Bind of the built spec with two more values"
	r.useStep(st, tb, u, st.mkVals(), true)
	c.Hit("second-use-bind-more-values")
	// the model's value list is the case's again for whatever follows
	vl = tc.valsLine()
	r.sc.Op("vals "+vl, "ok "+vl)
}

func quoteAll(l []string) []string {
	out := make([]string, len(l))
	for i, s := range l {
		out[i] = fmt.Sprintf("%q", s)
	}
	return out
}
