package c18

import (
	"reflect"

	"github.com/siyul-park/uniflow/pkg/spec"
	"github.com/siyul-park/uniflow/pkg/types"
)

// Go spellings of one abstract (JSON-like) document. The abstract document of a case is built from
// nil / bool / numbers / string / []any / map[string]any; the same document can reach the real code
// spelled with typed containers: a Go caller writes []string{...}, and types.Unmarshal of a stored
// spec produces []string / map[string]string for all-string lists and maps. Every case runs in each
// spelling; the model and the reference substitution always see the abstract document.
const (
	spAny     = iota // []any, map[string]any only
	spTyped          // most specific typed containers: []string, [][]string, map[string]string, map[string][]string, []map[string]string
	spArray          // like spTyped, a non-empty all-string list is an array [N]string
	spDecoded        // whatever types.Unmarshal(types.Marshal(spec)) yields
	nSpellings
)

var spellNames = []string{"any", "typed", "array", "decoded"}

func allStrings(l []any) bool {
	for _, e := range l {
		if _, ok := e.(string); !ok {
			return false
		}
	}
	return true
}

func strList(l []any) []string {
	if l == nil {
		return nil
	}
	out := make([]string, len(l))
	for i, e := range l {
		out[i] = e.(string)
	}
	return out
}

func strMap(m map[string]any) (map[string]string, bool) {
	out := make(map[string]string, len(m))
	for k, e := range m {
		s, ok := e.(string)
		if !ok {
			return nil, false
		}
		out[k] = s
	}
	if m == nil {
		return nil, true
	}
	return out, true
}

// spell returns a fresh copy of the abstract document v in spelling sp (spAny, spTyped, spArray).
func spell(v any, sp int, hit func(string)) any {
	switch x := v.(type) {
	case []any:
		if sp == spAny {
			break
		}
		if allStrings(x) {
			if sp == spArray && len(x) > 0 {
				a := reflect.New(reflect.ArrayOf(len(x), reflect.TypeOf(""))).Elem()
				for i, e := range x {
					a.Index(i).SetString(e.(string))
				}
				hit("spelled-[N]string")
				return a.Interface()
			}
			hit("spelled-[]string")
			return strList(x)
		}
		if len(x) > 0 {
			ll, ok := make([][]string, len(x)), true
			for i, e := range x {
				l, isL := e.([]any)
				if !isL || !allStrings(l) {
					ok = false
					break
				}
				ll[i] = strList(l)
			}
			if ok {
				hit("spelled-[][]string")
				return ll
			}
			lm, ok := make([]map[string]string, len(x)), true
			for i, e := range x {
				m, isM := e.(map[string]any)
				if !isM {
					ok = false
					break
				}
				if lm[i], ok = strMap(m); !ok {
					break
				}
			}
			if ok {
				hit("spelled-[]map[string]string")
				return lm
			}
		}
	case map[string]any:
		if sp == spAny {
			break
		}
		if m, ok := strMap(x); ok {
			hit("spelled-map[string]string")
			return m
		}
		ml, ok := make(map[string][]string, len(x)), true
		for k, e := range x {
			l, isL := e.([]any)
			if !isL || !allStrings(l) {
				ok = false
				break
			}
			ml[k] = strList(l)
		}
		if ok {
			hit("spelled-map[string][]string")
			return ml
		}
	}
	switch x := v.(type) {
	case []any:
		if x == nil {
			return []any(nil)
		}
		l := make([]any, len(x))
		for i, e := range x {
			l[i] = spell(e, sp, hit)
		}
		return l
	case map[string]any:
		if x == nil {
			return map[string]any(nil)
		}
		m := make(map[string]any, len(x))
		for k, e := range x {
			m[k] = spell(e, sp, hit)
		}
		return m
	}
	return v
}

// spellFields: Unstructured.Fields is a map[string]any by its Go type; only what is inside is spelled.
func spellFields(f map[string]any, sp int, hit func(string)) map[string]any {
	if f == nil {
		return nil
	}
	m := make(map[string]any, len(f))
	for k, e := range f {
		m[k] = spell(e, sp, hit)
	}
	return m
}

// untype turns one level of a typed container into its abstract form ([]any / map[string]any).
func untype(v any) any {
	switch v.(type) {
	case nil, bool, string, []any, map[string]any:
		return v
	}
	rv := reflect.ValueOf(v)
	switch rv.Kind() {
	case reflect.Slice, reflect.Array:
		if rv.Kind() == reflect.Slice && rv.IsNil() {
			return []any(nil)
		}
		l := make([]any, rv.Len())
		for i := range l {
			l[i] = rv.Index(i).Interface()
		}
		return l
	case reflect.Map:
		if rv.Type().Key().Kind() != reflect.String {
			return v
		}
		if rv.IsNil() {
			return map[string]any(nil)
		}
		m := make(map[string]any, rv.Len())
		it := rv.MapRange()
		for it.Next() {
			m[it.Key().String()] = it.Value().Interface()
		}
		return m
	}
	return v
}

func isTyped(v any) bool {
	switch v.(type) {
	case nil, bool, string, []any, map[string]any:
		return false
	}
	k := reflect.ValueOf(v).Kind()
	return k == reflect.Slice || k == reflect.Array || k == reflect.Map
}

// anyTyped: does the spelled document contain a typed container at all?
func anyTyped(v any) bool {
	if isTyped(v) {
		return true
	}
	switch x := v.(type) {
	case []any:
		for _, e := range x {
			if anyTyped(e) {
				return true
			}
		}
	case map[string]any:
		for _, e := range x {
			if anyTyped(e) {
				return true
			}
		}
	}
	return false
}

// sameSpelling: equal values with equal Go types at every level (a nil and an empty container of the
// same type are identified, as everywhere in this check).
func sameSpelling(a, b any) bool {
	if a == nil || b == nil {
		return a == nil && b == nil
	}
	ra, rb := reflect.ValueOf(a), reflect.ValueOf(b)
	if ra.Type() != rb.Type() {
		return false
	}
	switch ra.Kind() {
	case reflect.Slice, reflect.Array:
		if ra.Len() != rb.Len() {
			return false
		}
		for i := 0; i < ra.Len(); i++ {
			if !sameSpelling(ra.Index(i).Interface(), rb.Index(i).Interface()) {
				return false
			}
		}
		return true
	case reflect.Map:
		if ra.Len() != rb.Len() {
			return false
		}
		it := ra.MapRange()
		for it.Next() {
			o := rb.MapIndex(it.Key())
			if !o.IsValid() || !sameSpelling(it.Value().Interface(), o.Interface()) {
				return false
			}
		}
		return true
	}
	return reflect.DeepEqual(a, b)
}

// decodedSpec: the spec as the runtime obtains it, types.Unmarshal of the encoded document. nil when
// the codec does not give the same abstract spec back (C16's business, not this check's).
func decodedSpec(u *spec.Unstructured) (out *spec.Unstructured) {
	defer func() {
		if recover() != nil {
			out = nil
		}
	}()
	doc, err := types.Marshal(u)
	if err != nil {
		return nil
	}
	d := &spec.Unstructured{}
	if err := types.Unmarshal(doc, d); err != nil {
		return nil
	}
	if d.Namespace != u.Namespace || len(d.Env) != len(u.Env) || (u.Fields == nil) != (d.Fields == nil) && len(u.Fields)+len(d.Fields) > 0 {
		return nil
	}
	for k, v := range u.Env {
		w, ok := d.Env[k]
		if !ok || w.ID != v.ID || w.Name != v.Name || !reflect.DeepEqual(norm(w.Data), norm(v.Data)) {
			return nil
		}
	}
	var a, b any = map[string]any{}, map[string]any{}
	if u.Fields != nil {
		a = u.Fields
	}
	if d.Fields != nil {
		b = d.Fields
	}
	if !reflect.DeepEqual(norm(a), norm(b)) {
		return nil
	}
	if u.Fields == nil {
		d.Fields = nil
	}
	return d
}

// decodedDoc: one document through the codec (for the direct template.Execute probes).
func decodedDoc(v any) (out any, ok bool) {
	defer func() {
		if recover() != nil {
			ok = false
		}
	}()
	doc, err := types.Marshal(v)
	if err != nil {
		return nil, false
	}
	var d any
	if err := types.Unmarshal(doc, &d); err != nil {
		return nil, false
	}
	return d, reflect.DeepEqual(norm(d), norm(v))
}
