package c18

import (
	"context"
	"fmt"
	"strings"

	"github.com/siyul-park/uniflow/pkg/spec"
	"github.com/siyul-park/uniflow/pkg/store"
	"github.com/siyul-park/uniflow/pkg/types"

	"verifharness/lib"
)

// Re-used spec variable (added after seeded change c18l, "a layer below": the decoder pkg/spec registers for a
// `spec.Spec` target decoded INTO the *Unstructured the variable already held; the lower decoders work in place,
// so a second document was merged into the first spec – fields and env entries the new document does not have
// survived, already substituted / bound – and Bind then demanded variables the document never names, or Build
// returned fields the document does not contain).
//
// The loaders read spec after spec into one variable (`var sp spec.Spec; for cursor.Next(ctx) { cursor.Decode(&sp);
// sp.Bind(vals...); sp.Build() }`). From every case three documents are derived: FULL (the case's spec, plus a
// name and annotations), LESS (without its last env entry, its first field, name and annotations) and MID
// (without the env entry only). The chains FULL→LESS, LESS→FULL, FULL→MID→LESS are decoded document after
// document – each one bound and built before the next arrives – into ONE variable by three routes:
//   unmarshal : `var sp spec.Spec; types.Unmarshal(doc, &sp)`
//   cursor    : the documents inserted into a store, `cursor.Decode(&sp)` at every position of the cursor
//   slice     : `specs := []spec.Spec{…}` of length 1, `types.Unmarshal(types.NewSlice(doc), &specs)`
// After the LAST document the variable's spec is bound and built and judged like any spec of that document: by the
// reference selection/substitution (classes bind-mismatch / substitution / missing-accepted), against the model run
// on the document's abstract spec, and against the same document decoded into a FRESH variable (same Bind and Build
// outcome, same final document, same name / annotations). A spec handed out by an earlier decode – when it is another
// object than the one the variable holds now – must not change when the variable receives the next document (class
// earlier-spec-changed).
// The models take every decode target as fresh; a failure's replay is the case.

func specDoc(tc *tcase, name string, ann map[string]string) (doc types.Value, ok bool) {
	defer func() {
		if recover() != nil {
			ok = false
		}
	}()
	u := tc.mkSpec(-1, spAny, noHit)
	u.Kind = "verif"
	u.Name = name
	u.Annotations = ann
	d, err := types.Marshal(u)
	return d, err == nil
}

func unstructuredOf(sp spec.Spec) *spec.Unstructured {
	u, _ := sp.(*spec.Unstructured)
	return u
}

// settle: a decoded spec without fields has an empty, non-nil Fields map; the abstract case says nil.
func settle(tc *tcase, u *spec.Unstructured) {
	if tc.fields == nil && len(u.Fields) == 0 {
		u.Fields = nil
	}
}

func metaText(u *spec.Unstructured) string {
	return fmt.Sprintf("kind=%q namespace=%q name=%q annotations=%v ports=%v env-keys=%v", u.Kind, u.Namespace, u.Name, u.Annotations, u.Ports, sortedKeys(u.Env))
}

func finalDoc(u *spec.Unstructured) string {
	d, err := types.Marshal(u)
	if err != nil {
		return "ERR " + err.Error()
	}
	return fmt.Sprint(d.Interface())
}

func (r *runner) reusedSpecVar(tc *tcase, tb *table) {
	c := r.c
	r.replayCase = tc // the chains are a function of the case: its two lines are the replay
	defer func() { r.step, r.replayCase = "", nil }()
	if len(tc.env) == 0 && len(tc.fields) == 0 {
		return
	}
	full := &tcase{ns: tc.ns, vals: tc.vals, env: tc.env, fields: tc.fields}
	mid := &tcase{ns: tc.ns, vals: tc.vals, env: tc.env, fields: tc.fields}
	if len(tc.env) > 0 {
		mid.env = tc.env[:len(tc.env)-1]
	}
	less := &tcase{ns: tc.ns, vals: tc.vals, env: mid.env, fields: tc.fields}
	if len(tc.fields) > 0 {
		less.fields = map[string]any{}
		for i, k := range sortedKeys(tc.fields) {
			if i > 0 {
				less.fields[k] = tc.fields[k]
			}
		}
	}
	mk := func(t *tcase, name string, ann map[string]string) (variant, bool) {
		d, ok := specDoc(t, name, ann)
		if !ok {
			return variant{}, false
		}
		// the codec must give the abstract spec back (C16's business otherwise)
		var f spec.Spec
		if err := types.Unmarshal(d, &f); err != nil || unstructuredOf(f) == nil {
			return variant{}, false
		}
		fu := unstructuredOf(f)
		got := state(t, fu, t.vals)
		if got.specLine() != (&tcase{ns: t.ns, env: normEnv(t.env), fields: normFields(t.fields)}).specLine() && !(t.fields == nil && len(fu.Fields) == 0) {
			return variant{}, false
		}
		return variant{t, d}, true
	}
	vFull, ok1 := mk(full, "first", map[string]string{"owner": "a"})
	vMid, ok2 := mk(mid, "second", nil)
	vLess, ok3 := mk(less, "", nil)
	if !ok1 || !ok2 || !ok3 {
		c.Hit("reused-spec-var-skipped(codec changes the document)")
		return
	}
	chains := [][]variant{{vFull, vLess}, {vLess, vFull}, {vFull, vMid, vLess}}
	names := []string{"FULL → LESS", "LESS → FULL", "FULL → MID → LESS"}
	r.reuseNo++
	all := c.Scale(0, 1) == 1 && r.reuseNo%16 == 0 // thorough tier: every 16th case runs all nine
	for ci, chain := range chains {
		for ri, route := range []string{"unmarshal", "cursor", "slice"} {
			if !all && (r.reuseNo+ci)%3 != ri {
				continue // one route per chain, rotating from case to case
			}
			r.step = fmt.Sprintf("ONE spec.Spec variable receiving the documents %s (route %s; LESS = without the last env entry, the first field, name and annotations)", names[ci], route)
			r.reuseChain(tc, tb, route, chain)
			c.Hit("reused-spec-var-" + route)
		}
	}
}

// variant: one document of a chain and the abstract case it encodes.
type variant struct {
	tc  *tcase
	doc types.Value
}

func normEnv(es []gentry) []gentry {
	out := append([]gentry{}, es...)
	for i := range out {
		out[i].data = norm(out[i].data)
	}
	return out
}

func normFields(f map[string]any) map[string]any {
	if f == nil {
		return nil
	}
	return norm(f).(map[string]any)
}

func (r *runner) reuseChain(tc *tcase, tb *table, route string, chain []variant) {
	ctx := context.Background()
	var sp spec.Spec
	specs := []spec.Spec{nil}
	var earlier []*spec.Unstructured
	var earlierDoc []string
	decode := func(i int) (u *spec.Unstructured, err error) {
		switch route {
		case "unmarshal":
			err = types.Unmarshal(chain[i].doc, &sp)
			return unstructuredOf(sp), err
		case "slice":
			err = types.Unmarshal(types.NewSlice(chain[i].doc), &specs)
			if err == nil && len(specs) == 1 {
				return unstructuredOf(specs[0]), nil
			}
			return nil, err
		}
		return nil, nil
	}
	var cur store.Cursor
	if route == "cursor" {
		st := store.New()
		var docs []any
		for i, d := range chain {
			// the store wants an id; the position in the chain keeps the documents apart and in order
			m, ok := d.doc.(types.Map)
			if !ok {
				return
			}
			docs = append(docs, m.Set(types.NewString("id"), types.NewString(ids[i+1].String())))
		}
		if err := st.Insert(ctx, docs); err != nil {
			r.c.Hit("reused-spec-var-cursor-skipped(insert: " + strings.SplitN(err.Error(), ":", 2)[0] + ")")
			return
		}
		var err error
		if cur, err = st.Find(ctx, nil, store.FindOptions{Sort: map[string]int{"id": 1}}); err != nil {
			r.c.Hit("reused-spec-var-cursor-skipped(find)")
			return
		}
	}
	for i := range chain {
		var u *spec.Unstructured
		var err error
		p := ""
		if route == "cursor" {
			if !cur.Next(ctx) {
				r.c.Hit("reused-spec-var-cursor-skipped(short cursor)")
				return
			}
			p = lib.Safe(func() { err = cur.Decode(&sp) })
			u = unstructuredOf(sp)
		} else {
			p = lib.Safe(func() { u, err = decode(i) })
		}
		st := chain[i].tc
		if p != "" {
			r.fail("panic", fmt.Sprintf("decoding document %d into the variable panicked: %s", i+1, p), st)
			return
		}
		if err != nil || u == nil {
			r.fail("substitution", fmt.Sprintf("decoding document %d into the variable failed: %v", i+1, err), st)
			return
		}
		// specs handed out earlier are other objects and keep their content
		for j, e := range earlier {
			if e == u {
				// the variable's object was used again: allowed as such (encoding/json does it), the result is judged below
				r.c.Hit("reused-spec-var-same-object")
				continue
			}
			if d := finalDoc(e); d != earlierDoc[j] {
				r.fail("earlier-spec-changed", fmt.Sprintf("the spec decoded from document %d is %s after document %d was decoded, it was %s", j+1, d, i+1, earlierDoc[j]), st)
				return
			}
		}
		if route == "cursor" {
			// ids differ per position: compare with the id set aside
			u.ID = ids[0]
		}
		settle(st, u)
		// the control: the same document into a fresh variable
		var fresh spec.Spec
		if route == "cursor" {
			err = cur.Decode(&fresh)
		} else {
			err = types.Unmarshal(chain[i].doc, &fresh)
		}
		fu := unstructuredOf(fresh)
		if err != nil || fu == nil {
			return
		}
		fu.ID = u.ID
		settle(st, fu)
		if a, b := metaText(u), metaText(fu); a != b {
			r.fail("substitution", fmt.Sprintf("document %d decoded into the variable: %s; into a fresh variable: %s", i+1, a, b), st)
		}
		in0 := unstructuredOf(fresh)
		var in0c spec.Spec
		if route == "cursor" {
			_ = cur.Decode(&in0c)
		} else {
			_ = types.Unmarshal(chain[i].doc, &in0c)
		}
		if x := unstructuredOf(in0c); x != nil {
			settle(st, x)
			in0 = x
		}
		// bind + build the variable's spec: model, reference oracle
		o := r.useStepIn(st, tb, u, in0, st.mkVals(), true)
		of := r.real(st, fu, st.mkVals())
		if o.bindOut != of.bindOut {
			r.fail("bind-mismatch", fmt.Sprintf("document %d: Bind of the variable's spec gives %s, of the same document decoded into a fresh variable %s", i+1, o.bindOut, of.bindOut), st)
			return
		}
		if o.buildOut != of.buildOut {
			r.fail("substitution", fmt.Sprintf("document %d: Build of the variable's spec gives %s, of the same document decoded into a fresh variable %s", i+1, o.buildOut, of.buildOut), st)
			return
		}
		if a, b := finalDoc(u), finalDoc(fu); a != b && o.bindOut[:2] == "ok" {
			r.fail("substitution", fmt.Sprintf("document %d: after Bind and Build the variable's spec is %s, the same document decoded into a fresh variable gives %s", i+1, a, b), st)
			return
		}
		earlier = append(earlier, u)
		earlierDoc = append(earlierDoc, finalDoc(u))
	}
}
