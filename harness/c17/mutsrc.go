package c17

// Mutable sources (added after two mutation agents and a probe found that decoding a *mutable* map
// destroyed it: the fixed pool and the C16 generator only ever built immutable maps).
//
// The property: "decoding a given value into a given Go type always produces the same result … regardless
// of what was decoded earlier". A decode is therefore not allowed to change its source: if it did, the
// second decode of the same value would see another value. For every (source builder, target type) of a
// fixed pool – sources with a mutable map at the top, inside a slice, as a map value, nested in another
// mutable map – the harness
//   * takes a snapshot of the source (a deep copy built from immutable maps),
//   * decodes the source twice into fresh targets of the same type,
//   * decodes the snapshot once,
// and requires: Equal(source, snapshot) still holds after each decode (class decode-mutates-source), the
// second result equals the first (class second-decode-differs) and both equal the snapshot's result
// (class mutable-source-decodes-differently).
//
// corpus/C17/*.ops lines `mutsrc <source> <target>` name pairs of this pool; they are run first.

import (
	"fmt"
	"os"
	"reflect"
	"sort"
	"strings"

	"github.com/siyul-park/uniflow/pkg/types"

	"verifharness/lib"
)

type mInline struct {
	A    int            `json:"a"`
	Rest map[string]any `json:",inline"`
}

type mInner struct {
	A int `json:"a"`
}

type mInlineStruct struct {
	Inner mInner         `json:",inline"`
	B     string         `json:"b,omitempty"`
	Rest  map[string]any `json:",inline"`
}

type mNested struct {
	K  map[string]int `json:"k"`
	AB *ab            `json:"ab,omitempty"`
}

func s(x string) types.Value { return types.NewString(x) }

// the sources: every function builds a fresh value; "mut" marks where a mutable map sits
var mutSources = map[string]func() types.Value{
	"mutAB":   func() types.Value { return types.NewMap(s("a"), types.NewInt(1), s("b"), s("x")).Mutable() },
	"mutInts": func() types.Value { return types.NewMap(s("a"), types.NewInt(1), s("b"), types.NewInt(2)).Mutable() },
	"mutABextra": func() types.Value {
		return types.NewMap(s("a"), types.NewInt(1), s("b"), s("x"), s("c"), types.True).Mutable()
	},
	"mutEmpty": func() types.Value { return types.NewMap().Mutable() },
	"slice[mut]": func() types.Value {
		return types.NewSlice(types.NewMap(s("a"), types.NewInt(1), s("b"), types.NewInt(2)).Mutable(), types.NewMap(s("a"), types.NewInt(3)).Mutable())
	},
	"map{k:mut}": func() types.Value {
		return types.NewMap(s("k"), types.NewMap(s("a"), types.NewInt(1), s("b"), types.NewInt(2)).Mutable())
	},
	"mut{k:mut}": func() types.Value {
		return types.NewMap(s("k"), types.NewMap(s("a"), types.NewInt(1)).Mutable(), s("ab"), types.NewMap(s("a"), types.NewInt(7), s("b"), s("y")).Mutable()).Mutable()
	},
	"mut{a,k:mut}": func() types.Value {
		return types.NewMap(s("a"), types.NewInt(1), s("k"), types.NewMap(s("z"), types.NewInt(9)).Mutable()).Mutable()
	},
	"built-by-Set": func() types.Value {
		return types.NewMapWithSize(2).Set(s("a"), types.NewInt(1)).Set(s("b"), types.NewInt(2))
	},
	// WIDE sources, immutable and mutable: documents of 9–70 keys of which the target struct consumes a few – every
	// other source of this pool (and of the registry pool) has at most three keys (seeded change c17k: above eight
	// buckets the struct decoder's working copy shared the source's bucket table and deleted the consumed keys
	// from the SOURCE; the first decode was right, the second one of the same Value saw a document without them)
	"wide9":        func() types.Value { return wide(9) },
	"wide9mut":     func() types.Value { return wide(9).(types.Map).Mutable() },
	"wide16":       func() types.Value { return wide(16) },
	"wide40":       func() types.Value { return wide(40) },
	"wide40mut":    func() types.Value { return wide(40).(types.Map).Mutable() },
	"wide70":       func() types.Value { return wide(70) },
	"map{k:wide}":  func() types.Value { return types.NewMap(s("k"), wide(12), s("ab"), wide(33)) },
	"slice[wide]":  func() types.Value { return types.NewSlice(wide(9), wide(33).(types.Map).Mutable()) },
	"wide{k:wide}": func() types.Value { return wide(20).(types.Map).Set(s("k"), wide(10)).Set(s("ab"), wide(11)) },
}

// wide builds an immutable document with n keys: a, b (the fields of the struct targets) and extra_i.
func wide(n int) types.Value {
	ps := []types.Value{s("a"), types.NewInt(1), s("b"), s("x")}
	for i := 2; i < n; i++ {
		ps = append(ps, s(fmt.Sprintf("extra_%d", i)), types.NewInt(i))
	}
	return types.NewMap(ps...)
}

var mutTargets = map[string]reflect.Type{
	"map[string]int":            reflect.TypeOf(map[string]int(nil)),
	"map[string]any":            reflect.TypeOf(map[string]any(nil)),
	"any":                       reflect.TypeOf((*any)(nil)).Elem(),
	"struct":                    reflect.TypeOf(ab{}),
	"*struct":                   reflect.TypeOf((*ab)(nil)),
	"inline-map":                reflect.TypeOf(mInline{}),
	"inline-struct+map":         reflect.TypeOf(mInlineStruct{}),
	"nested":                    reflect.TypeOf(mNested{}),
	"[]any":                     reflect.TypeOf([]any(nil)),
	"[]map[string]int":          reflect.TypeOf([]map[string]int(nil)),
	"[]struct":                  reflect.TypeOf([]mInline(nil)),
	"map[string]map[string]int": reflect.TypeOf(map[string]map[string]int(nil)),
	"map[string]struct":         reflect.TypeOf(map[string]mInline(nil)),
}

// snapshot: a deep copy in which every map is a fresh immutable one
func snapshot(v types.Value) types.Value {
	switch x := v.(type) {
	case types.Map:
		var pairs []types.Value
		for k, e := range x.Range() {
			pairs = append(pairs, snapshot(k), snapshot(e))
		}
		return types.NewMap(pairs...)
	case types.Slice:
		var es []types.Value
		for _, e := range x.Values() {
			es = append(es, snapshot(e))
		}
		return types.NewSlice(es...)
	}
	return v
}

func decodeInto(src types.Value, typ reflect.Type) (res string) {
	defer func() {
		if r := recover(); r != nil {
			res = fmt.Sprintf("PANIC: %v", r)
		}
	}()
	tgt := reflect.New(typ)
	if err := types.Unmarshal(src, tgt.Interface()); err != nil {
		return "ERR " + err.Error()
	}
	return "OK " + dump.Sdump(tgt.Elem().Interface())
}

func oneLine(s string) string { return strings.Join(strings.Fields(s), " ") }

func mutPair(c *lib.Ctx, sn, tn string, add func(class, what, replay string)) {
	build, ok1 := mutSources[sn]
	typ, ok2 := mutTargets[tn]
	if !ok1 || !ok2 {
		add("harness", "unknown mutsrc pair "+sn+" "+tn, "")
		return
	}
	src := build()
	snap := snapshot(src)
	replay := "mutsrc " + sn + " " + tn
	want := decodeInto(snap, typ)
	first := decodeInto(src, typ)
	c.Count("mutsrc:" + sn + "→" + tn)
	c.Hit("mutable-source-" + strings.SplitN(first, " ", 2)[0])
	if !types.Equal(src, snap) {
		add("decode-mutates-source", fmt.Sprintf("%s decoded into %s: the source is %s after the decode, it was %s", sn, tn, lib.EncodeVal(src), lib.EncodeVal(snap)), replay)
	}
	second := decodeInto(src, typ)
	if second != first {
		add("second-decode-differs", fmt.Sprintf("%s decoded twice into %s: first %q, second %q", sn, tn, oneLine(first), oneLine(second)), replay)
	}
	if first != want {
		add("mutable-source-decodes-differently", fmt.Sprintf("%s into %s: %q, an immutable copy of the same value gives %q", sn, tn, oneLine(first), oneLine(want)), replay)
	}
	if !types.Equal(src, snap) {
		add("decode-mutates-source", fmt.Sprintf("%s decoded twice into %s: the source is %s afterwards, it was %s", sn, tn, lib.EncodeVal(src), lib.EncodeVal(snap)), replay)
	}
}

func mutableSources(c *lib.Ctx) []lib.OracleFail {
	var fails []lib.OracleFail
	seen := map[string]bool{}
	perClass := map[string]int{}
	add := func(class, what, replay string) {
		if os.Getenv("VERIF_DEBUG") != "" {
			fmt.Fprintf(os.Stderr, "MUTSRC [%s] %s\n", class, replay)
		}
		if !seen[class+what] && perClass[class] < 3 {
			seen[class+what] = true
			perClass[class]++
			fails = append(fails, lib.OracleFail{Class: class, What: what, Replay: replay})
		}
	}
	for _, f := range c.CorpusFiles() {
		for _, ln := range lib.ReadLines(f) {
			fs := strings.Fields(ln)
			if len(fs) == 3 && fs[0] == "mutsrc" {
				c.Hit("corpus")
				mutPair(c, fs[1], fs[2], add)
			}
		}
	}
	var sns, tns []string
	for k := range mutSources {
		sns = append(sns, k)
	}
	for k := range mutTargets {
		tns = append(tns, k)
	}
	sort.Strings(sns)
	sort.Strings(tns)
	for _, sn := range sns {
		for _, tn := range tns {
			mutPair(c, sn, tn, add)
		}
	}
	return fails
}
