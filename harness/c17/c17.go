// Package c17: decoding is a pure function of the value and the target type.
//
// (a) correspondence: the real encoding.DecoderGroup driven with table-defined decoders,
//
//	against Uniflow.Group.decode on the same tables and decode sequences;
//
// (b) property oracle on the real codec registry: every (value, type) pair decoded cold,
//
//	after random warm-up histories, and from many goroutines at once.
package c17

import (
	"errors"
	"fmt"
	"math"
	"reflect"
	"strings"
	"sync"
	"time"
	"unsafe"

	"github.com/davecgh/go-spew/spew"
	"github.com/gofrs/uuid"
	"github.com/siyul-park/uniflow/pkg/encoding"
	"github.com/siyul-park/uniflow/pkg/types"

	"verifharness/lib"
)

type s0 struct{ V int }
type s1 struct{ V int }
type s2 struct{ V int }

func mkSrc(t, v int) any {
	switch t {
	case 0:
		return s0{v}
	case 1:
		return s1{v}
	default:
		return s2{v}
	}
}

func srcVal(s any) int {
	switch x := s.(type) {
	case s0:
		return x.V
	case s1:
		return x.V
	case s2:
		return x.V
	}
	return -1
}

func srcTy(s any) int {
	switch s.(type) {
	case s0:
		return 0
	case s1:
		return 1
	}
	return 2
}

type otherErr struct{ k int }

func (e otherErr) Error() string { return fmt.Sprintf("e%d", e.k) }

func genTable(r *lib.RNG, c *lib.Ctx) (d, t, v int, tbl []string) {
	d, t, v = r.Intn(5), r.Range(1, 3), r.Range(1, 4)
	if d == 0 && r.Chance(3, 4) {
		d = 2
	}
	mode := r.Intn(4) // 0,1: coherent by type; 2: single taker per type; 3: arbitrary
	c.Hit(fmt.Sprintf("table-mode-%d", mode))
	tbl = make([]string, d*t*v)
	for j := 0; j < d; j++ {
		for ty := 0; ty < t; ty++ {
			takes := r.Chance(1, 2)
			for x := 0; x < v; x++ {
				cell := "u"
				switch mode {
				case 0, 1:
					if takes {
						if r.Chance(2, 3) {
							cell = fmt.Sprintf("o%d", j*100+x)
						} else {
							cell = fmt.Sprintf("e%d", j*10+x)
						}
					}
				case 2:
					if d > 0 && j == (ty*7+3)%d {
						switch r.Intn(3) {
						case 0:
							cell = fmt.Sprintf("o%d", j*100+x)
						case 1:
							cell = fmt.Sprintf("e%d", j*10+x)
						}
					}
				default:
					switch r.Intn(3) {
					case 0:
						cell = fmt.Sprintf("o%d", j*100+x)
					case 1:
						cell = fmt.Sprintf("e%d", j*10+x)
					}
				}
				tbl[(j*t+ty)*v+x] = cell
			}
		}
	}
	return
}

func buildGroup(d, t, v int, tbl []string) *encoding.DecoderGroup[any, *int] {
	g := encoding.NewDecoderGroup[any, *int]()
	for j := 0; j < d; j++ {
		j := j
		g.Add(encoding.DecodeFunc(func(src any, tgt *int) error {
			cell := tbl[(j*t+srcTy(src))*v+srcVal(src)]
			var k int
			fmt.Sscanf(cell[1:], "%d", &k)
			switch cell[0] {
			case 'o':
				*tgt = k
				return nil
			case 'e':
				return otherErr{k}
			}
			return fmt.Errorf("wrapped: %w", encoding.ErrUnsupportedType)
		}))
	}
	return g
}

func showGo(err error, tgt int) string {
	switch {
	case err == nil && tgt < 0:
		return "nil"
	case err == nil:
		return fmt.Sprintf("o%d", tgt)
	case errors.Is(err, encoding.ErrUnsupportedType):
		return "u"
	default:
		return err.Error()
	}
}

func correspondence(c *lib.Ctx, r *lib.RNG) []lib.Mismatch {
	sc := &lib.Script{}
	n := c.Scale(400, 6000)
	for i := 0; i < n; i++ {
		sc.Begin()
		d, t, v, tbl := genTable(r, c)
		g := buildGroup(d, t, v, tbl)
		sc.Op(fmt.Sprintf("new %d %d %d %s", d, t, v, strings.Join(tbl, " ")), "ok")
		steps := r.Range(2, c.Scale(14, 30))
		var trace []string
		kinds := map[string]bool{}
		for k := 0; k < steps; k++ {
			ty, x := r.Intn(t), r.Intn(v)
			tgt := -1
			err := g.Decode(mkSrc(ty, x), &tgt)
			out := showGo(err, tgt)
			kinds[out[:1]] = true
			c.Hit("result-" + out[:1])
			sc.Op(fmt.Sprintf("dec %d %d", ty, x), out)
			trace = append(trace, fmt.Sprintf("dec %d %d=>%s", ty, x, out))
		}
		key := ""
		if len(kinds) >= 2 {
			key = fmt.Sprintf("%d/%d/%d/%s/%s", d, t, v, strings.Join(tbl, ""), strings.Join(trace, ";"))
		}
		c.Count(key)
		if i < 2 {
			c.Sample(map[string]any{"decoders": d, "types": t, "values": v, "table": strings.Join(tbl, " "), "trace": trace})
		}
	}
	ms, err := c.RunModel("c17", sc)
	if err != nil {
		c.Violation("model driver failed: "+err.Error(), "", false)
		return nil
	}
	return ms
}

// ------------------------------------------------------------------ assembler correspondence

var asmTargets = []reflect.Type{reflect.TypeOf((*int64)(nil)), reflect.TypeOf((*uint64)(nil)), reflect.TypeOf((*float64)(nil))}

func asmTarget(tt int) any {
	switch tt {
	case 0:
		x := int64(-1)
		return &x
	case 1:
		x := ^uint64(0)
		return &x
	default:
		x := float64(-1)
		return &x
	}
}

func asmCorrespondence(c *lib.Ctx, r *lib.RNG) []lib.Mismatch {
	sc := &lib.Script{}
	n := c.Scale(300, 4000)
	for i := 0; i < n; i++ {
		sc.Begin()
		C, TT, T, V := r.Range(0, 4), r.Range(1, 3), r.Range(1, 2), r.Range(1, 3)
		bits := make([]string, C*TT)
		tbl := make([]string, C*TT*T*V)
		coherent := r.Chance(3, 4)
		for j := 0; j < C; j++ {
			for tt := 0; tt < TT; tt++ {
				bits[j*TT+tt] = "0"
				if r.Chance(3, 5) {
					bits[j*TT+tt] = "1"
				}
				for t := 0; t < T; t++ {
					takes := r.Chance(2, 3)
					for v := 0; v < V; v++ {
						cell := "u"
						if takes || (!coherent && r.Bool()) {
							if r.Chance(2, 3) {
								cell = fmt.Sprintf("o%d", (j*10+tt)*100+t*10+v)
							} else {
								cell = fmt.Sprintf("e%d", j*100+tt*10+v)
							}
						}
						tbl[((j*TT+tt)*T+t)*V+v] = cell
					}
				}
			}
		}
		asm := encoding.NewDecodeAssembler[any, any]()
		for j := 0; j < C; j++ {
			j := j
			asm.Add(encoding.DecodeCompilerFunc[any](func(typ reflect.Type) (encoding.Decoder[any, unsafe.Pointer], error) {
				for tt := 0; tt < TT; tt++ {
					if typ == asmTargets[tt] && bits[j*TT+tt] == "1" {
						tt := tt
						return encoding.DecodeFunc(func(src any, tgt unsafe.Pointer) error {
							cell := tbl[((j*TT+tt)*T+srcTy(src))*V+srcVal(src)]
							var k int
							fmt.Sscanf(cell[1:], "%d", &k)
							switch cell[0] {
							case 'o':
								*(*int64)(tgt) = int64(k) // all three targets are 8 bytes wide
								return nil
							case 'e':
								return otherErr{k}
							}
							return fmt.Errorf("wrapped: %w", encoding.ErrUnsupportedType)
						}), nil
					}
				}
				return nil, fmt.Errorf("wrapped: %w", encoding.ErrUnsupportedType)
			}))
		}
		sc.Op(strings.TrimSpace(fmt.Sprintf("asm %d %d %d %d %s %s", C, TT, T, V, strings.Join(bits, " "), strings.Join(tbl, " "))), "ok")
		steps := r.Range(3, c.Scale(16, 30))
		kinds := map[string]bool{}
		var trace []string
		for k := 0; k < steps; k++ {
			tt, t, v := r.Intn(TT), r.Intn(T), r.Intn(V)
			tgt := asmTarget(tt)
			err := asm.Decode(mkSrc(t, v), tgt)
			out := ""
			switch {
			case err == nil:
				out = fmt.Sprintf("o%d", *(*int64)(reflect.ValueOf(tgt).UnsafePointer()))
			case errors.Is(err, encoding.ErrUnsupportedType):
				out = "u"
			default:
				out = err.Error()
			}
			kinds[out[:1]] = true
			c.Hit("asm-result-" + out[:1])
			sc.Op(fmt.Sprintf("adec %d %d %d", tt, t, v), out)
			trace = append(trace, fmt.Sprintf("adec %d %d %d=>%s", tt, t, v, out))
		}
		key := ""
		if len(kinds) >= 2 {
			key = "asm/" + strings.Join(bits, "") + "/" + strings.Join(tbl, "") + "/" + strings.Join(trace, ";")
		}
		c.Count(key)
		if i == 0 {
			c.Sample(map[string]any{"assembler": fmt.Sprintf("%d compilers × %d targets", C, TT), "compiles": strings.Join(bits, ""), "table": strings.Join(tbl, " "), "trace": trace})
		}
	}
	ms, err := c.RunModel("c17", sc)
	if err != nil {
		c.Violation("model driver failed: "+err.Error(), "", false)
		return nil
	}
	return ms
}

// ------------------------------------------------------------------ real registry oracle

type pair struct {
	name string
	val  func() types.Value
	typ  reflect.Type
}

type ab struct {
	A int    `json:"a"`
	B string `json:"b"`
}

// Targets that bring their own unmarshalling (the alternative spelling of a plain target): the JSON form of the
// source, its text, its bytes. Seeded change c17h gave the JSON decoder ONE scratch buffer per compiled decoder,
// which concurrent decodes into the same such type then shared.
type jsonT struct{ Raw string }

func (j *jsonT) UnmarshalJSON(b []byte) error { j.Raw = string(b); return nil }

type textT struct{ Txt string }

func (t *textT) UnmarshalText(b []byte) error { t.Txt = string(b); return nil }

type binT struct{ Bin string }

func (t *binT) UnmarshalBinary(b []byte) error { t.Bin = fmt.Sprintf("%x", b); return nil }

type withJSON struct {
	J jsonT `json:"j"`
	N int   `json:"n"`
}

func pool() []pair {
	vals := map[string]func() types.Value{
		"str7":      func() types.Value { return types.NewString("7") },
		"strB64":    func() types.Value { return types.NewString("aGVsbG8=") },
		"strAbc":    func() types.Value { return types.NewString("abc") },
		"str1.5":    func() types.Value { return types.NewString("1.5") },
		"strTrue":   func() types.Value { return types.NewString("true") },
		"strTime":   func() types.Value { return types.NewString("2024-11-16T12:00:00Z") },
		"strDur":    func() types.Value { return types.NewString("1.5s") },
		"strUUID":   func() types.Value { return types.NewString("6ba7b810-9dad-11d1-80b4-00c04fd430c8") },
		"strEmpty":  func() types.Value { return types.NewString("") },
		"int64_7":   func() types.Value { return types.NewInt64(7) },
		"int_0":     func() types.Value { return types.NewInt(0) },
		"int8_-3":   func() types.Value { return types.NewInt8(-3) },
		"int32_big": func() types.Value { return types.NewInt32(1 << 30) },
		"uint8":     func() types.Value { return types.NewUint8(200) },
		"uint64max": func() types.Value { return types.NewUint64(^uint64(0)) },
		"f64":       func() types.Value { return types.NewFloat64(1.5) },
		"f32":       func() types.Value { return types.NewFloat32(-2.25) },
		// special floats: not-a-number, the infinities, and ordinary epoch-millisecond magnitudes (seeded change
		// c17m: a NaN decoded into time.Time once made every later float of that width fail for that target)
		"f64NaN":    func() types.Value { return types.NewFloat64(math.NaN()) },
		"f64Inf":    func() types.Value { return types.NewFloat64(math.Inf(1)) },
		"f64NegInf": func() types.Value { return types.NewFloat64(math.Inf(-1)) },
		"f64ms":     func() types.Value { return types.NewFloat64(1700000000000) },
		"f32NaN":    func() types.Value { return types.NewFloat32(float32(math.NaN())) },
		"f32ms":     func() types.Value { return types.NewFloat32(1.7e9) },
		"true":      func() types.Value { return types.True },
		"false":     func() types.Value { return types.False },
		"bin":       func() types.Value { return types.NewBinary([]byte{1, 2, 3, 4}) },
		"bin16":     func() types.Value { return types.NewBinary([]byte("0123456789abcdef")) },
		"nil":       func() types.Value { return nil },
		"err":       func() types.Value { return types.NewError(errors.New("boom")) },
		"slInts":    func() types.Value { return types.NewSlice(types.NewInt(1), types.NewInt64(2), types.NewUint8(3)) },
		"slStrs":    func() types.Value { return types.NewSlice(types.NewString("7"), types.NewString("abc")) },
		"slMixed":   func() types.Value { return types.NewSlice(types.NewString("x"), types.NewInt(1), types.True) },
		"slEmpty":   func() types.Value { return types.NewSlice() },
		"mapAB": func() types.Value {
			return types.NewMap(types.NewString("a"), types.NewInt(1), types.NewString("b"), types.NewString("x"))
		},
		"mapBad": func() types.Value {
			return types.NewMap(types.NewString("a"), types.NewString("zz"), types.NewString("b"), types.NewInt(3))
		},
		"mapInts":  func() types.Value { return types.NewMap(types.NewString("k"), types.NewInt(5)) },
		"mapEmpty": func() types.Value { return types.NewMap() },
		// values that make a decode FAIL after it has written part of a composite target, and shorter /
		// sparser values of the same shape that would show leftovers (seeded c17e: scratch cells pooled
		// per decoder were put back dirty on the error returns)
		"mapSlBad": func() types.Value {
			return types.NewMap(types.NewString("k"), types.NewSlice(types.NewInt(1), types.NewInt(2), types.NewString("x")))
		},
		"mapSl1": func() types.Value { return types.NewMap(types.NewString("k"), types.NewSlice(types.NewInt(7))) },
		"mapStBad": func() types.Value {
			return types.NewMap(types.NewString("k"), types.NewMap(types.NewString("a"), types.NewInt(1), types.NewString("b"), types.NewSlice()))
		},
		"mapStB": func() types.Value {
			return types.NewMap(types.NewString("k"), types.NewMap(types.NewString("b"), types.NewString("y")))
		},
		"mapMapBad": func() types.Value {
			return types.NewMap(types.NewString("k"), types.NewMap(types.NewString("p"), types.NewInt(1), types.NewString("q"), types.NewString("zz")))
		},
		"mapMapR": func() types.Value {
			return types.NewMap(types.NewString("k"), types.NewMap(types.NewString("r"), types.NewInt(3)))
		},
		"slSlBad": func() types.Value {
			return types.NewSlice(types.NewSlice(types.NewInt(1), types.NewInt(2), types.NewString("x")))
		},
		"slSl1": func() types.Value { return types.NewSlice(types.NewSlice(types.NewInt(7))) },
	}
	typs := map[string]reflect.Type{
		"any": reflect.TypeOf((*any)(nil)), "string": reflect.TypeOf((*string)(nil)), "bytes": reflect.TypeOf((*[]byte)(nil)),
		"arr4": reflect.TypeOf((*[4]byte)(nil)), "arr16": reflect.TypeOf((*[16]byte)(nil)),
		"int": reflect.TypeOf((*int)(nil)), "int8": reflect.TypeOf((*int8)(nil)), "int16": reflect.TypeOf((*int16)(nil)), "int32": reflect.TypeOf((*int32)(nil)), "int64": reflect.TypeOf((*int64)(nil)),
		"uint": reflect.TypeOf((*uint)(nil)), "uint8": reflect.TypeOf((*uint8)(nil)), "uint16": reflect.TypeOf((*uint16)(nil)), "uint32": reflect.TypeOf((*uint32)(nil)), "uint64": reflect.TypeOf((*uint64)(nil)),
		"f32": reflect.TypeOf((*float32)(nil)), "f64": reflect.TypeOf((*float64)(nil)), "bool": reflect.TypeOf((*bool)(nil)),
		"time": reflect.TypeOf((*time.Time)(nil)), "dur": reflect.TypeOf((*time.Duration)(nil)), "uuid": reflect.TypeOf((*uuid.UUID)(nil)),
		"[]any": reflect.TypeOf((*[]any)(nil)), "[]int": reflect.TypeOf((*[]int)(nil)), "[]string": reflect.TypeOf((*[]string)(nil)), "[][]byte": reflect.TypeOf((*[][]byte)(nil)),
		"[2]int":         reflect.TypeOf((*[2]int)(nil)),
		"map[string]any": reflect.TypeOf((*map[string]any)(nil)), "map[string]int": reflect.TypeOf((*map[string]int)(nil)), "map[string][]byte": reflect.TypeOf((*map[string][]byte)(nil)),
		"struct": reflect.TypeOf((*ab)(nil)), "*int": reflect.TypeOf((**int)(nil)), "*[]byte": reflect.TypeOf((**[]byte)(nil)), "error": reflect.TypeOf((*error)(nil)),
		"value": reflect.TypeOf((*types.Value)(nil)),
		// the other targets of the Value family: the source is stored as it is when it is assignable and the
		// decode is DECLINED otherwise – a declined decode into one of them says nothing about the next one
		// (seeded change c17j: the shortcut decoder remembered declined SOURCE types for all its targets)
		"vMap": reflect.TypeOf((*types.Map)(nil)), "vString": reflect.TypeOf((*types.String)(nil)), "vSlice": reflect.TypeOf((*types.Slice)(nil)),
		"vBinary": reflect.TypeOf((*types.Binary)(nil)), "vInt": reflect.TypeOf((*types.Int)(nil)), "vError": reflect.TypeOf((*types.Error)(nil)),
		"map[string][]int": reflect.TypeOf((*map[string][]int)(nil)), "map[string]struct": reflect.TypeOf((*map[string]ab)(nil)),
		"map[string]map[string]int": reflect.TypeOf((*map[string]map[string]int)(nil)), "map[string]*struct": reflect.TypeOf((*map[string]*ab)(nil)),
		"[][]int": reflect.TypeOf((*[][]int)(nil)),
		"jsonT":   reflect.TypeOf((*jsonT)(nil)), "textT": reflect.TypeOf((*textT)(nil)), "binT": reflect.TypeOf((*binT)(nil)),
		"[]jsonT": reflect.TypeOf((*[]jsonT)(nil)), "map[string]jsonT": reflect.TypeOf((*map[string]jsonT)(nil)),
	}
	var out []pair
	for vn, v := range vals {
		for tn, t := range typs {
			out = append(out, pair{name: vn + "→" + tn, val: v, typ: t})
		}
	}
	// deterministic order
	for i := 1; i < len(out); i++ {
		for j := i; j > 0 && out[j-1].name > out[j].name; j-- {
			out[j-1], out[j] = out[j], out[j-1]
		}
	}
	return out
}

var dump = spew.ConfigState{Indent: " ", DisablePointerAddresses: true, DisableCapacities: true, SortKeys: true, SpewKeys: true}

func decodeOnce(dec *encoding.DecodeAssembler[types.Value, any], p pair) (res string) {
	defer func() {
		if r := recover(); r != nil {
			res = fmt.Sprintf("PANIC: %v", r)
		}
	}()
	tgt := reflect.New(p.typ.Elem())
	err := dec.Decode(p.val(), tgt.Interface())
	if err != nil {
		return "ERR " + err.Error()
	}
	return "OK " + dump.Sdump(tgt.Elem().Interface())
}

func oracle(c *lib.Ctx, r *lib.RNG) []lib.OracleFail {
	if types.Decoder.Len() != types.VerifNewDecoder().Len() {
		return []lib.OracleFail{{Class: "hook-drift", What: "types.VerifNewDecoder no longer mirrors types.Decoder (compiler count differs)"}}
	}
	ps := pool()
	cold := make([]string, len(ps))
	okN, errN := 0, 0
	for i, p := range ps {
		cold[i] = decodeOnce(types.VerifNewDecoder(), p)
		if strings.HasPrefix(cold[i], "OK") {
			okN++
		} else {
			errN++
		}
	}
	c.Extra["registry_pairs"] = len(ps)
	c.Extra["registry_pairs_ok_cold"] = okN
	c.Extra["registry_pairs_err_cold"] = errN
	var fails []lib.OracleFail
	seen := map[string]bool{}
	add := func(class, what, replay string) {
		if !seen[what] {
			seen[what] = true
			fails = append(fails, lib.OracleFail{Class: class, What: what, Replay: replay})
		}
	}
	// warmed: random histories on a fresh assembler, each target checked against cold
	rounds := c.Scale(60, 1500)
	for k := 0; k < rounds; k++ {
		dec := types.VerifNewDecoder()
		var hist []string
		n := r.Range(1, 25)
		// bias the warm-up to pairs sharing value kind or target type with the probe
		probe := r.Intn(len(ps))
		for j := 0; j < n; j++ {
			w := r.Intn(len(ps))
			if r.Chance(2, 3) {
				for tries := 0; tries < 20; tries++ {
					w = r.Intn(len(ps))
					if ps[w].typ == ps[probe].typ {
						break
					}
				}
			}
			got := decodeOnce(dec, ps[w])
			hist = append(hist, ps[w].name)
			c.Count("")
			if got != cold[w] {
				add("history-dependent-decode", fmt.Sprintf("%s: cold=%q, after %d earlier decodes=%q", ps[w].name, cold[w], j, got),
					"warm-up history: "+strings.Join(hist, " ; "))
			}
		}
		got := decodeOnce(dec, ps[probe])
		c.Count("warm:" + ps[probe].name + "|" + strings.Join(hist, ";"))
		if got != cold[probe] {
			add("history-dependent-decode", fmt.Sprintf("%s: cold=%q, warmed=%q", ps[probe].name, cold[probe], got),
				"warm-up history: "+strings.Join(hist, " ; ")+"\nprobe: "+ps[probe].name)
		}
	}
	// failed compiles: target types no compiler supports (channels, funcs, structs holding them) decoded
	// MANY times on one fresh assembler, then pairs of the pool whose type that assembler sees for the first
	// time – seeded change c17f leaked one unit of a compile-depth budget per failed compile, so that a cold
	// type answered "unsupported type" after ~30 failures
	{
		type withChan struct {
			A int      `json:"a"`
			C chan int `json:"c"`
		}
		bad := []reflect.Type{reflect.TypeOf((*chan int)(nil)), reflect.TypeOf((*func())(nil)), reflect.TypeOf((*withChan)(nil)),
			reflect.TypeOf((*map[string]chan int)(nil)), reflect.TypeOf((*[]func())(nil))}
		for k := 0; k < c.Scale(6, 60); k++ {
			dec := types.VerifNewDecoder()
			n := r.Range(20, 80)
			for j := 0; j < n; j++ {
				bt := lib.Pick(r, bad)
				_ = decodeOnce(dec, pair{name: "bad", val: func() types.Value { return types.NewMap(types.NewString("a"), types.NewInt(1)) }, typ: bt})
			}
			for j := 0; j < 40; j++ {
				w := r.Intn(len(ps))
				got := decodeOnce(dec, ps[w])
				c.Count("")
				if got != cold[w] {
					add("history-dependent-decode", fmt.Sprintf("%s: cold=%q, after %d failed decodes into unsupported target types=%q", ps[w].name, cold[w], n, got),
						fmt.Sprintf("fresh assembler; %d decodes of {a:1} into chan/func/struct-with-chan targets (all fail); then %s", n, ps[w].name))
				}
			}
			c.Hit("oracle-failed-compiles")
		}
	}
	// concurrent: many goroutines on one fresh assembler
	crounds := c.Scale(4, 40)
	for k := 0; k < crounds; k++ {
		dec := types.VerifNewDecoder()
		var wg sync.WaitGroup
		var mu sync.Mutex
		for g := 0; g < 16; g++ {
			rr := r.Fork()
			wg.Add(1)
			go func() {
				defer wg.Done()
				for j := 0; j < 200; j++ {
					w := rr.Intn(len(ps))
					got := decodeOnce(dec, ps[w])
					if got != cold[w] {
						mu.Lock()
						add("history-dependent-decode", fmt.Sprintf("%s (concurrent): cold=%q, got=%q", ps[w].name, cold[w], got), "16 goroutines × 200 random decodes on one fresh assembler")
						mu.Unlock()
					}
				}
			}()
		}
		wg.Wait()
		c.Evaluations += 16 * 200
	}
	// concurrent, ONE target type at a time: every goroutine decodes random values into the same type, so that
	// whatever a compiled decoder of that type keeps between calls is shared by all of them at once
	byType := map[reflect.Type][]int{}
	var hot []reflect.Type
	for w, p := range ps {
		if _, ok := byType[p.typ]; !ok {
			hot = append(hot, p.typ)
		}
		byType[p.typ] = append(byType[p.typ], w)
	}
	for k := 0; k < c.Scale(len(hot), 4*len(hot)); k++ {
		t := hot[k%len(hot)]
		ws := byType[t]
		dec := types.VerifNewDecoder()
		var wg sync.WaitGroup
		var mu sync.Mutex
		said := false
		for g := 0; g < 12; g++ {
			rr := r.Fork()
			wg.Add(1)
			go func() {
				defer wg.Done()
				for j := 0; j < 120; j++ {
					w := ws[rr.Intn(len(ws))]
					got := decodeOnce(dec, ps[w])
					if got != cold[w] {
						mu.Lock()
						if !said {
							said = true
							add("history-dependent-decode", fmt.Sprintf("%s (concurrent, one target type): cold=%q, got=%q", ps[w].name, cold[w], got), fmt.Sprintf("12 goroutines × 120 random decodes into %v on one fresh assembler", t))
						}
						mu.Unlock()
					}
				}
			}()
		}
		wg.Wait()
		c.Evaluations += 12 * 120
	}
	c.Hit("oracle-concurrent-one-type")
	c.Hit("oracle-warm-rounds")
	return fails
}

func Run(c *lib.Ctx) {
	c.Rule = "correspondence: random decoder tables (≤4 decoders × ≤3 source types × ≤4 values; coherent-by-type, single-taker and arbitrary tables) with random decode sequences run on the real encoding.DecoderGroup and on the Lean model; a case is non-trivial when its trace shows ≥2 different result classes, distinct by table+trace. oracle: every (value,type) pair of a fixed pool decoded cold vs after random warm-up histories vs concurrently on the real registry; distinct by probe+history. cross-process oracle: the harness re-executes itself as fresh child processes which perform the same encodes and decodes through the process-global registries (a struct family with equal tags on differently named fields, untagged and inline fields, plus the fixed pool) in different random orders (every third one: all encodes first); every decode result must be the same in all processes. mutable sources: a fixed pool of sources with a mutable map (top level, in a slice, as a map value, nested) × target types, each decoded twice with the source compared against a snapshot before/after. re-used targets: every ordered pair and random 3–4-sequences of a fixed pool of sources (binaries, number lists, scalars, documents holding them) decoded into ONE variable of each target type ([]byte, *[]byte, struct with []byte/slice/map/pointer/any fields, []int, [][]byte, map[string][]byte, map[string]any, []any, any …), after which every source object must equal its snapshot and decode cold into fresh targets of 10 probe types; storage: every (source, target) pair decoded into a fresh target, the result overwritten, the source compared with its snapshot"
	c.Assumptions = []string{
		"the target's previous content is not part of the observable result: the model takes every decode target as a fresh zero value. What a decode leaves in a PRE-FILLED variable (the slice, pointer, map and struct decoders work in place by design) is not judged; the re-used-target family judges only that the sources are unchanged afterwards and still decode cold into fresh targets",
		"decoders of the real registry satisfy the Coherent hypothesis of C17.group_pure; this is checked empirically by the cold/warm/concurrent oracle, not proved from the Go source",
		"sync.Map and sync.RWMutex behave atomically (C20)",
	}
	c.Trusted = []string{"types.VerifNewDecoder mirrors the init() registration order of pkg/types (count checked at run time)"}
	r := lib.NewRNG(c.Seed)
	var ms []lib.Mismatch
	if c.Proof.DriverBuilt {
		ms = correspondence(c, r.Fork())
		ms = append(ms, asmCorrespondence(c, r.Fork())...)
	}
	fails := oracle(c, r.Fork())
	fails = append(fails, mutableSources(c)...)
	fails = append(fails, reusedTargets(c, r.Fork())...)
	fails = append(fails, crossProcess(c, r.Fork())...)
	c.Conclude("DecoderGroup.Decode ≈ Uniflow.Group.decode", ms, fails)
}
