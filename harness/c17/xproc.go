package c17

// Cross-process order differential (added after seeded change c17c, a process-global cache keyed too
// coarsely, was missed: a cold decoder and a warmed decoder built in ONE process both see the same
// poisoned global and agree with each other).
//
// The property: decoding (value, type) is a pure function – "regardless of what was encoded or decoded
// earlier in the process, in which order". So the harness re-executes itself as child processes; each
// child performs the SAME set of actions (encodes of Go values and decodes of (value,type) pairs through
// the package-level types.Marshal / types.Unmarshal, i.e. the process-global registries) in its own
// random order and prints one result per action index. All children must agree on every decode result.
// A disagreement is a failing input: the two orders are the replay.

import (
	"bufio"
	"bytes"
	"fmt"
	"os"
	"os/exec"
	"reflect"
	"sort"
	"strconv"
	"strings"
	"time"

	"github.com/siyul-park/uniflow/pkg/types"

	"verifharness/lib"
)

// struct family: same tags on differently named fields, same names with different types, untagged
// fields, inline structs and inline maps – everything a cache keyed by "part of the field" could confuse.
type xA struct {
	Foo int `json:",omitempty"`
}
type xB struct {
	Bar int `json:",omitempty"`
}
type xC struct {
	Foo string `json:"foo,omitempty"`
	Baz []int  `json:",omitempty"`
}
type xD struct {
	Bar string `json:"foo,omitempty"`
	Qux []int  `json:",omitempty"`
}
type xE struct {
	Rest map[string]any `json:",inline"`
	Foo  int            `json:"foo"`
}
type xF struct {
	More map[string]any `json:",inline"`
	Bar  int            `json:"bar"`
}
type xG struct {
	Inner xA `json:",inline"`
	Name  string
}
type xH struct {
	Inner xB `json:",inline"`
	Name  int
}
type xI struct {
	FooBar int  `json:",omitempty"`
	Hidden int  `json:"-"`
	Ptr    *int `json:",omitempty"`
}
type xJ struct {
	Hidden int  `json:",omitempty"`
	FooBar int  `json:"-"`
	Ptr    *xA  `json:",omitempty"`
	Any    any  `json:",omitempty"`
	Flag   bool `json:",omitempty"`
}

type xaction struct {
	name string
	run  func() string
}

func xactions() []xaction {
	s := types.NewString
	i := func(n int) types.Value { return types.NewInt(n) }
	docs := map[string]types.Value{
		"foo7":    types.NewMap(s("foo"), i(7)),
		"bar7":    types.NewMap(s("bar"), i(7)),
		"fooS":    types.NewMap(s("foo"), s("x"), s("baz"), types.NewSlice(i(1), i(2)), s("qux"), types.NewSlice(i(3))),
		"mixed":   types.NewMap(s("foo"), i(1), s("bar"), i(2), s("name"), s("n"), s("extra"), types.True),
		"nameInt": types.NewMap(s("foo"), i(1), s("bar"), i(2), s("name"), i(5)),
		"fb":      types.NewMap(s("foo_bar"), i(3), s("hidden"), i(4), s("ptr"), i(9), s("flag"), types.True, s("any"), s("a")),
		"ptrMap":  types.NewMap(s("hidden"), i(1), s("ptr"), types.NewMap(s("foo"), i(8))),
		"empty":   types.NewMap(),
	}
	targets := map[string]reflect.Type{
		"xA": reflect.TypeOf(xA{}), "xB": reflect.TypeOf(xB{}), "xC": reflect.TypeOf(xC{}), "xD": reflect.TypeOf(xD{}),
		"xE": reflect.TypeOf(xE{}), "xF": reflect.TypeOf(xF{}), "xG": reflect.TypeOf(xG{}), "xH": reflect.TypeOf(xH{}),
		"xI": reflect.TypeOf(xI{}), "xJ": reflect.TypeOf(xJ{}),
		"map[string]xA": reflect.TypeOf(map[string]xA{}), "[]xB": reflect.TypeOf([]xB{}),
	}
	var out []xaction
	for dn, d := range docs {
		for tn, t := range targets {
			d, t := d, t
			out = append(out, xaction{name: "dec " + dn + "→" + tn, run: func() (res string) {
				defer func() {
					if r := recover(); r != nil {
						res = fmt.Sprintf("PANIC: %v", r)
					}
				}()
				tgt := reflect.New(t)
				if err := types.Unmarshal(d, tgt.Interface()); err != nil {
					return "ERR " + err.Error()
				}
				return "OK " + dump.Sdump(tgt.Elem().Interface())
			}})
		}
	}
	nine := 9
	gos := map[string]any{
		"xA": xA{Foo: 1}, "xB": xB{Bar: 2}, "xC": xC{Foo: "f", Baz: []int{1}}, "xD": xD{Bar: "b", Qux: []int{2}},
		"xE": xE{Rest: map[string]any{"r": 1}, Foo: 3}, "xF": xF{More: map[string]any{"m": 2}, Bar: 4},
		"xG": xG{Inner: xA{Foo: 5}, Name: "g"}, "xH": xH{Inner: xB{Bar: 6}, Name: 7},
		"xI": xI{FooBar: 1, Hidden: 2, Ptr: &nine}, "xJ": xJ{Hidden: 3, FooBar: 4, Ptr: &xA{Foo: 1}, Any: "a", Flag: true},
	}
	for gn, g := range gos {
		g := g
		out = append(out, xaction{name: "enc " + gn, run: func() (res string) {
			defer func() {
				if r := recover(); r != nil {
					res = fmt.Sprintf("PANIC: %v", r)
				}
			}()
			v, err := types.Marshal(g)
			if err != nil {
				return "ERR " + err.Error()
			}
			return "OK " + lib.EncodeVal(v)
		}})
	}
	// the fixed pool of the in-process oracle, through the process-global decoder
	for _, p := range pool() {
		p := p
		out = append(out, xaction{name: "dec " + p.name, run: func() (res string) {
			defer func() {
				if r := recover(); r != nil {
					res = fmt.Sprintf("PANIC: %v", r)
				}
			}()
			tgt := reflect.New(p.typ.Elem())
			if err := types.Unmarshal(p.val(), tgt.Interface()); err != nil {
				return "ERR " + err.Error()
			}
			return "OK " + dump.Sdump(tgt.Elem().Interface())
		}})
	}
	sort.Slice(out, func(a, b int) bool { return out[a].name < out[b].name })
	return out
}

func xorder(seed int64, n int) []int {
	r := lib.NewRNG(seed)
	o := make([]int, n)
	for i := range o {
		o[i] = i
	}
	if seed == 0 { // child 0: the canonical order
		return o
	}
	for i := n - 1; i > 0; i-- {
		j := r.Intn(i + 1)
		o[i], o[j] = o[j], o[i]
	}
	if seed%3 == 1 { // every third child: all encodes first (an earlier ENCODE poisons a later decode)
		acts := xactions()
		sort.SliceStable(o, func(a, b int) bool {
			return strings.HasPrefix(acts[o[a]].name, "enc") && !strings.HasPrefix(acts[o[b]].name, "enc")
		})
	}
	return o
}

func init() {
	s := os.Getenv("VERIF_C17_CHILD")
	if s == "" {
		return
	}
	seed, _ := strconv.ParseInt(s, 10, 64)
	acts := xactions()
	w := bufio.NewWriter(os.Stdout)
	for _, k := range xorder(seed, len(acts)) {
		res := acts[k].run()
		fmt.Fprintf(w, "%d\t%s\n", k, strings.ReplaceAll(strings.ReplaceAll(res, "\n", "\\n"), "\t", " "))
	}
	w.Flush()
	os.Exit(0)
}

func crossProcess(c *lib.Ctx, r *lib.RNG) []lib.OracleFail {
	exe, err := os.Executable()
	if err != nil {
		return []lib.OracleFail{{Class: "xproc-unavailable", What: "os.Executable: " + err.Error()}}
	}
	acts := xactions()
	children := c.Scale(6, 48)
	type outcome struct {
		seed int64
		res  []string
	}
	var outs []outcome
	var fails []lib.OracleFail
	for k := 0; k < children; k++ {
		seed := int64(0)
		if k > 0 {
			seed = int64(r.Uint64()>>2) | 1
			if k%3 == 1 {
				seed = seed - seed%3 + 1
			}
		}
		cmd := exec.Command(exe)
		cmd.Env = append(os.Environ(), "VERIF_C17_CHILD="+strconv.FormatInt(seed, 10))
		var ob, eb bytes.Buffer
		cmd.Stdout, cmd.Stderr = &ob, &eb
		done := make(chan error, 1)
		if err := cmd.Start(); err != nil {
			return []lib.OracleFail{{Class: "xproc-unavailable", What: "start child: " + err.Error()}}
		}
		go func() { done <- cmd.Wait() }()
		select {
		case err = <-done:
		case <-time.After(120 * time.Second):
			cmd.Process.Kill()
			err = fmt.Errorf("timeout")
		}
		if err != nil {
			fails = append(fails, lib.OracleFail{Class: "child-crashed", What: fmt.Sprintf("child with order seed %d: %v", seed, err),
				Replay: "VERIF_C17_CHILD=" + strconv.FormatInt(seed, 10) + " " + exe + "\n" + tail(eb.String(), 4000)})
			continue
		}
		res := make([]string, len(acts))
		for _, ln := range strings.Split(ob.String(), "\n") {
			if tab := strings.IndexByte(ln, '\t'); tab > 0 {
				if idx, e := strconv.Atoi(ln[:tab]); e == nil && idx < len(res) {
					res[idx] = ln[tab+1:]
				}
			}
		}
		outs = append(outs, outcome{seed, res})
		c.Evaluations += len(acts)
		c.Count(fmt.Sprintf("xproc-order:%d", seed))
	}
	c.Extra["xproc_children"] = len(outs)
	c.Extra["xproc_actions"] = len(acts)
	if len(outs) < 2 {
		return fails
	}
	seen := map[int]bool{}
	for _, o := range outs[1:] {
		for k := range acts {
			if strings.HasPrefix(acts[k].name, "dec") && o.res[k] != outs[0].res[k] && !seen[k] {
				seen[k] = true
				nameOrder := func(seed int64) string {
					var b strings.Builder
					for _, j := range xorder(seed, len(acts)) {
						b.WriteString(acts[j].name)
						b.WriteString("\n")
						if j == k {
							break
						}
					}
					return b.String()
				}
				fails = append(fails, lib.OracleFail{Class: "order-dependent-decode",
					What:   fmt.Sprintf("%s: in the canonical order (fresh process) = %q, in a fresh process with order seed %d = %q", acts[k].name, outs[0].res[k], o.seed, o.res[k]),
					Replay: fmt.Sprintf("two fresh processes, same actions, different order.\n# order A (canonical) up to the action:\n%s# order B (seed %d) up to the action:\n%s", nameOrder(0), o.seed, nameOrder(o.seed))})
			}
		}
	}
	c.Hit("oracle-xproc")
	return fails
}

func tail(s string, n int) string {
	if len(s) > n {
		return s[len(s)-n:]
	}
	return s
}
