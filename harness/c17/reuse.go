package c17

// Re-used targets and storage sharing (added after seeded change c17l, "a layer below": the Binary decoder
// handed the Binary's own byte array to an empty `[]byte` target; the slice decoder – by design – decodes into an
// existing slice IN PLACE, so the next decode into that variable rewrote the source Binary, and from then on
// the same Binary decoded into anything gave another result. Every other family of this check decodes into
// fresh targets and builds a fresh source per decode, so it could not see that).
//
// (1) `reuse <target> <source> <source> …` : 2–4 sources of a fixed pool decoded, one after the other, into
//     ONE variable of the target type ([]byte, *[]byte, a struct with []byte / slice / map / pointer / any
//     fields, []int, [][]byte, map[string][]byte, map[string]any, []any, any). What such a decode leaves in the
//     pre-filled variable is NOT judged: the property speaks of the result for (value, target TYPE), a
//     pre-filled target is another input (the slice, pointer, map and struct decoders do work in place by
//     design). Judged afterwards, for every source object of the sequence:
//       * it still equals its snapshot                                   (class decode-mutates-source)
//       * decoded into FRESH targets of the probe types it gives the cold result of a freshly built equal
//         value                                                          (class history-dependent-decode)
// (2) `noshare <source> <target>` : the direct statement "a decoded []byte, slice or map shares no storage
//     with its source": decode into a fresh target, overwrite everything reachable in the result (every byte
//     flipped, every element and map entry replaced), then the source must still equal its snapshot and decode
//     cold                                                               (class result-shares-storage-with-source).
//     One exception, reported as an observation and counted (`bytes-in-any-alias-the-binary`): a []byte
//     reached through an `any` IS the Binary's array on the unchanged tree (Binary.Interface does not copy).
//
// corpus/C17/*.ops lines `reuse …` / `noshare …` are run first; every failure's replay is such a line.

import (
	"fmt"
	"os"
	"reflect"
	"sort"
	"strings"

	"github.com/siyul-park/uniflow/pkg/encoding"
	"github.com/siyul-park/uniflow/pkg/types"

	"verifharness/lib"
)

type rStruct struct {
	B  []byte         `json:"b"`
	L  []int          `json:"l"`
	M  map[string]int `json:"m"`
	P  *int           `json:"p"`
	PB *[]byte        `json:"pb"`
	A  any            `json:"a"`
	BB [][]byte       `json:"bb"`
}

func bin(b ...byte) types.Value { return types.NewBinary(b) }

func ints(xs ...int) types.Value {
	var es []types.Value
	for _, x := range xs {
		es = append(es, types.NewInt(x))
	}
	return types.NewSlice(es...)
}

var reuseSources = map[string]func() types.Value{
	"bin1":     func() types.Value { return bin(9) },
	"bin4":     func() types.Value { return bin(1, 2, 3, 4) },
	"bin16":    func() types.Value { return types.NewBinary([]byte("0123456789abcdef")) },
	"binEmpty": func() types.Value { return types.NewBinary([]byte{}) },
	"ints3":    func() types.Value { return ints(10, 20, 30) },
	"ints1":    func() types.Value { return ints(77) },
	"ints6":    func() types.Value { return ints(6, 5, 4, 3, 2, 1) },
	"u8s":      func() types.Value { return types.NewSlice(types.NewUint8(7), types.NewUint8(8)) },
	"floats":   func() types.Value { return types.NewSlice(types.NewFloat64(2), types.NewFloat64(3)) },
	"slEmpty":  func() types.Value { return types.NewSlice() },
	"int200":   func() types.Value { return types.NewInt(200) },
	"uint5":    func() types.Value { return types.NewUint8(5) },
	"f64_2":    func() types.Value { return types.NewFloat64(2) },
	"strB64":   func() types.Value { return types.NewString("aGVsbG8=") },
	"strAbc":   func() types.Value { return types.NewString("abc") },
	"nil":      func() types.Value { return nil },
	"slBins":   func() types.Value { return types.NewSlice(bin(1, 2), bin(3, 4, 5)) },
	"slBinInt": func() types.Value { return types.NewSlice(ints(8, 9), types.NewInt(6)) },
	"mapBins":  func() types.Value { return types.NewMap(s("k"), bin(1, 2, 3), s("j"), bin(4)) },
	"mapInts":  func() types.Value { return types.NewMap(s("k"), ints(9, 9), s("j"), types.NewInt(6)) },
	"mapK1":    func() types.Value { return types.NewMap(s("k"), types.NewInt(1)) },
	"st{b:bin}": func() types.Value {
		return types.NewMap(s("b"), bin(1, 2, 3, 4), s("pb"), bin(5, 6), s("a"), bin(7, 8), s("bb"), types.NewSlice(bin(9, 9)))
	},
	"st{b:ints}": func() types.Value {
		return types.NewMap(s("b"), ints(40, 50, 60), s("pb"), ints(70), s("a"), ints(1), s("bb"), types.NewSlice(ints(2, 3)))
	},
	"st{b:int}": func() types.Value { return types.NewMap(s("b"), types.NewInt(99), s("pb"), types.NewUint8(98), s("bb"), ints(97)) },
	"st{l,m,p}": func() types.Value {
		return types.NewMap(s("l"), ints(1, 2, 3), s("m"), types.NewMap(s("x"), types.NewInt(1), s("y"), types.NewInt(2)), s("p"), types.NewInt(5))
	},
	"st{l1,m1}":  func() types.Value { return types.NewMap(s("l"), ints(9), s("m"), types.NewMap(s("z"), types.NewInt(3))) },
	"st{}":       func() types.Value { return types.NewMap() },
	"st{b:bin}m": func() types.Value { return types.NewMap(s("b"), bin(1, 2, 3, 4), s("a"), bin(7, 8)).Mutable() },
}

var reuseTargets = map[string]reflect.Type{
	"[]byte":            reflect.TypeOf([]byte(nil)),
	"*[]byte":           reflect.TypeOf((*[]byte)(nil)),
	"struct":            reflect.TypeOf(rStruct{}),
	"*struct":           reflect.TypeOf((*rStruct)(nil)),
	"[]int":             reflect.TypeOf([]int(nil)),
	"[][]byte":          reflect.TypeOf([][]byte(nil)),
	"map[string][]byte": reflect.TypeOf(map[string][]byte(nil)),
	"map[string]any":    reflect.TypeOf(map[string]any(nil)),
	"[]any":             reflect.TypeOf([]any(nil)),
	"any":               reflect.TypeOf((*any)(nil)).Elem(),
	"[4]byte":           reflect.TypeOf([4]byte{}),
	"string":            reflect.TypeOf(""),
}

// the fresh-target probes of the post-check
var reuseProbes = []string{"[]byte", "any", "string", "[4]byte", "[]int", "struct", "map[string]any", "[][]byte", "map[string][]byte", "[]any"}

func sortedNames[T any](m map[string]T) []string {
	var out []string
	for k := range m {
		out = append(out, k)
	}
	sort.Strings(out)
	return out
}

// show: a rendering of a Value that reads its storage (no cached hash involved)
func show(v types.Value) string {
	if v == nil {
		return "nil"
	}
	return lib.EncodeVal(v)
}

func decodeTo(dec *encoding.DecodeAssembler[types.Value, any], src types.Value, tgt reflect.Value) (res string) {
	defer func() {
		if r := recover(); r != nil {
			res = fmt.Sprintf("PANIC: %v", r)
		}
	}()
	if err := dec.Decode(src, tgt.Interface()); err != nil {
		return "ERR " + err.Error()
	}
	return "OK " + dump.Sdump(tgt.Elem().Interface())
}

type reuser struct {
	c    *lib.Ctx
	add  func(class, what, replay string)
	cold map[string]string // source|probe → cold result
}

func (u *reuser) coldOf(sn, pn string) string {
	k := sn + "|" + pn
	if r, ok := u.cold[k]; ok {
		return r
	}
	r := decodeTo(types.VerifNewDecoder(), reuseSources[sn](), reflect.New(reuseTargets[pn]))
	u.cold[k] = r
	return r
}

// after: the source objects still are what they were and still decode cold.
func (u *reuser) after(names []string, objs []types.Value, class, did, replay string) bool {
	ok := true
	for i, sn := range names {
		snap := reuseSources[sn]()
		if !types.Equal(objs[i], snap) || !types.Equal(snap, objs[i]) || show(objs[i]) != show(snap) {
			u.add(class, fmt.Sprintf("%s: the source %s is %s afterwards, it was %s", did, sn, show(objs[i]), show(snap)), replay)
			ok = false
			continue
		}
		for _, pn := range reuseProbes {
			got := decodeTo(types.VerifNewDecoder(), objs[i], reflect.New(reuseTargets[pn]))
			u.c.Count("")
			if want := u.coldOf(sn, pn); got != want {
				c := class
				if c == "decode-mutates-source" {
					c = "history-dependent-decode"
				}
				u.add(c, fmt.Sprintf("%s: %s decoded into a fresh %s gives %q, cold %q", did, sn, pn, oneLine(got), oneLine(want)), replay)
				ok = false
				break
			}
		}
	}
	return ok
}

// reuse: the sources decoded one after the other into ONE variable of the target type.
func (u *reuser) reuse(tn string, names []string) {
	typ, ok := reuseTargets[tn]
	if !ok {
		u.add("harness", "unknown reuse target "+tn, "")
		return
	}
	replay := "reuse " + tn + " " + strings.Join(names, " ")
	objs := make([]types.Value, len(names))
	for i, sn := range names {
		b, ok := reuseSources[sn]
		if !ok {
			u.add("harness", "unknown reuse source "+sn, "")
			return
		}
		objs[i] = b()
	}
	dec := types.VerifNewDecoder()
	tgt := reflect.New(typ)
	var outs []string
	for i := range names {
		out := decodeTo(dec, objs[i], tgt)
		outs = append(outs, strings.SplitN(out, " ", 2)[0])
		if strings.HasPrefix(out, "PANIC") {
			// not this property's business (totality is C16's); on the unchanged tree a Binary SHORTER than a
			// [n]byte target panics in reflect ("cannot convert slice with length 1 to array with length 4")
			u.c.Hit("reuse-decode-panicked(observation)")
		}
	}
	u.c.Hit("reuse-" + tn)
	key := "reuse:" + tn + ":" + strings.Join(names, ",")
	u.c.Count(key)
	u.after(names, objs, "decode-mutates-source", fmt.Sprintf("after %s decoded in this order into ONE %s variable (%s)", strings.Join(names, ", "), tn, strings.Join(outs, ", ")), replay)
}

// scribble overwrites everything reachable in a decoded result; reports whether it met a []byte inside an `any`.
func scribble(v reflect.Value, inAny bool, skipAnyBytes bool) (anyBytes bool) {
	switch v.Kind() {
	case reflect.Interface:
		if v.IsNil() {
			return false
		}
		e := v.Elem()
		if e.Kind() == reflect.Slice || e.Kind() == reflect.Map || e.Kind() == reflect.Pointer {
			return scribble(e, true, skipAnyBytes)
		}
	case reflect.Pointer:
		if !v.IsNil() {
			return scribble(v.Elem(), inAny, skipAnyBytes)
		}
	case reflect.Slice:
		if v.Type().Elem().Kind() == reflect.Uint8 {
			if inAny && v.Len() > 0 {
				anyBytes = true
				if skipAnyBytes {
					return
				}
			}
			for i := 0; i < v.Len(); i++ {
				v.Index(i).SetUint(uint64(^uint8(v.Index(i).Uint())))
			}
			return
		}
		for i := 0; i < v.Len(); i++ {
			if scribble(v.Index(i), inAny, skipAnyBytes) {
				anyBytes = true
			}
		}
		for i := 0; i < v.Len(); i++ {
			if k := v.Type().Elem().Kind(); k != reflect.Interface || !skipAnyBytes {
				v.Index(i).Set(reflect.Zero(v.Type().Elem()))
			}
		}
	case reflect.Array:
		for i := 0; i < v.Len(); i++ {
			if scribble(v.Index(i), inAny, skipAnyBytes) {
				anyBytes = true
			}
		}
	case reflect.Map:
		for _, k := range v.MapKeys() {
			e := reflect.New(v.Type().Elem()).Elem()
			e.Set(v.MapIndex(k))
			if scribble(e, inAny, skipAnyBytes) {
				anyBytes = true
			}
			v.SetMapIndex(k, reflect.Value{})
		}
	case reflect.Struct:
		for i := 0; i < v.NumField(); i++ {
			if v.Field(i).CanSet() && scribble(v.Field(i), inAny, skipAnyBytes) {
				anyBytes = true
			}
		}
	}
	return
}

// noshare: writing into a decoded result does not reach the source.
func (u *reuser) noshare(sn, tn string) {
	b, ok1 := reuseSources[sn]
	typ, ok2 := reuseTargets[tn]
	if !ok1 || !ok2 {
		u.add("harness", "unknown noshare pair "+sn+" "+tn, "")
		return
	}
	replay := "noshare " + sn + " " + tn
	obj := b()
	tgt := reflect.New(typ)
	out := decodeTo(types.VerifNewDecoder(), obj, tgt)
	u.c.Count("noshare:" + sn + "→" + tn)
	if !strings.HasPrefix(out, "OK") {
		return
	}
	anyBytes := false
	if p := lib.Safe(func() { anyBytes = scribble(tgt.Elem(), false, true) }); p != "" {
		u.add("harness", "scribble panicked: "+p, replay)
		return
	}
	if anyBytes {
		u.c.Hit("bytes-in-any-alias-the-binary(observation, not overwritten)")
	}
	u.c.Hit("noshare-checked")
	u.after([]string{sn}, []types.Value{obj}, "result-shares-storage-with-source", fmt.Sprintf("after %s was decoded into a fresh %s and everything in the RESULT was overwritten", sn, tn), replay)
}

func reusedTargets(c *lib.Ctx, r *lib.RNG) []lib.OracleFail {
	var fails []lib.OracleFail
	seen := map[string]bool{}
	perClass := map[string]int{}
	add := func(class, what, replay string) {
		if os.Getenv("VERIF_DEBUG") != "" {
			fmt.Fprintf(os.Stderr, "REUSE [%s] %s\n", class, replay)
		}
		if !seen[class+what] && perClass[class] < 3 {
			seen[class+what] = true
			perClass[class]++
			fails = append(fails, lib.OracleFail{Class: class, What: what, Replay: replay})
		}
	}
	u := &reuser{c: c, add: add, cold: map[string]string{}}
	for _, f := range c.CorpusFiles() {
		for _, ln := range lib.ReadLines(f) {
			fs := strings.Fields(ln)
			switch {
			case len(fs) >= 3 && fs[0] == "reuse":
				c.Hit("corpus")
				u.reuse(fs[1], fs[2:])
			case len(fs) == 3 && fs[0] == "noshare":
				c.Hit("corpus")
				u.noshare(fs[1], fs[2])
			}
		}
	}
	sns, tns := sortedNames(reuseSources), sortedNames(reuseTargets)
	// the direct statement, every pair
	for _, sn := range sns {
		for _, tn := range tns {
			u.noshare(sn, tn)
		}
	}
	// every ordered pair of sources into every target (the post-check is the third decode, into fresh targets)
	// (quick tier: only pairs whose first decode fills the variable, i.e. succeeds cold; a failed first decode is
	// covered by the random sequences and by the thorough tier)
	all := c.Scale(0, 1) == 1
	for _, tn := range tns {
		for _, a := range sns {
			if !all && !strings.HasPrefix(decodeTo(types.VerifNewDecoder(), reuseSources[a](), reflect.New(reuseTargets[tn])), "OK") {
				continue
			}
			for _, b := range sns {
				u.reuse(tn, []string{a, b})
			}
		}
	}
	// random sequences of 3–4
	n := c.Scale(600, 20000)
	for i := 0; i < n; i++ {
		tn := lib.Pick(r, tns)
		k := r.Range(3, 4)
		var names []string
		for j := 0; j < k; j++ {
			names = append(names, lib.Pick(r, sns))
		}
		u.reuse(tn, names)
	}
	return fails
}
