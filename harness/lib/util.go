package lib

import (
	"fmt"
	"os"
	"path/filepath"
	"sort"
	"strings"
	"time"
)

// CorpusFiles returns corpus/<Prop>/* in name order (minimised past failures, run first).
func (c *Ctx) CorpusFiles() []string {
	fs, _ := filepath.Glob(filepath.Join(c.VerifDir, "corpus", c.Prop, "*"))
	sort.Strings(fs)
	return fs
}

// ReadLines reads a corpus file, dropping blank lines and '#' comments.
func ReadLines(path string) []string {
	b, err := os.ReadFile(path)
	if err != nil {
		return nil
	}
	var out []string
	for _, l := range strings.Split(string(b), "\n") {
		l = strings.TrimSpace(l)
		if l == "" || strings.HasPrefix(l, "#") {
			continue
		}
		out = append(out, l)
	}
	return out
}

// WithTimeout runs f in a goroutine; ok=false when it did not return within d (the goroutine
// is then leaked – only for watchdogs on code that may deadlock). A panic in f is returned.
func WithTimeout(d time.Duration, f func()) (ok bool, panicked any) {
	done := make(chan any, 1)
	go func() {
		defer func() { done <- recover() }()
		f()
	}()
	select {
	case p := <-done:
		return true, p
	case <-time.After(d):
		return false, nil
	}
}

// Safe runs f and returns a recovered panic as a string ("" when none).
func Safe(f func()) (p string) {
	defer func() {
		if r := recover(); r != nil {
			p = fmt.Sprint(r)
		}
	}()
	f()
	return ""
}
