package lib

import (
	"fmt"
	"os"
	"strings"
)

// OracleFail is a concrete input / history on which the implementation itself breaks the
// property (found by the property oracle, independent of the model).
type OracleFail struct {
	Class  string // class predicate name used by known_findings.txt
	What   string
	Replay string
}

// Conclude turns the three kinds of breakage into the verdict lines (DESIGN.md §4):
//   - an oracle failure outside every listed class is a VIOLATION with its replay;
//   - otherwise a correspondence break or a broken proof obligation is a VIOLATION that
//     names what no longer checks and ends with no-failing-input-found.
func (c *Ctx) Conclude(corrName string, ms []Mismatch, fails []OracleFail) {
	reported := 0
	fmt.Fprintf(os.Stderr, "[%s] correspondence %q: %d differing cases; oracle failures: %d\n", c.Prop, corrName, len(ms), len(fails))
	for _, f := range fails {
		if c.Known(f.Class) {
			continue
		}
		if reported < 3 {
			c.Violation("property oracle failed on the implementation ["+f.Class+"]: "+f.What, f.Replay, true)
		}
		reported++
	}
	if reported > 0 {
		return
	}
	if len(ms) > 0 {
		m := ms[0]
		c.Violation(fmt.Sprintf("correspondence %s no longer checks (%d differing cases); the property oracle found no failing input", corrName, len(ms)),
			m.Replay(), false)
		return
	}
	if !c.Proof.PropsBuilt || !c.Proof.AuditOK {
		what := "proof obligations of lean/Uniflow/Props/" + c.Prop + ".lean no longer check: " + strings.Join(c.Proof.Broken, ", ")
		c.Violation(what+"; the property oracle found no failing input", c.Proof.Log, false)
	}
}
