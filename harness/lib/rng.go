package lib

// RNG is a splitmix64 generator: every random choice of a run derives from one seed so
// that a disagreement replays exactly.
type RNG struct{ s uint64 }

func NewRNG(seed int64) *RNG {
	// mix the seed through the splitmix finaliser so that consecutive seeds give unrelated
	// streams (a plain multiple of the increment would make seed k+1 the stream of seed k
	// shifted by one draw)
	z := uint64(seed) + 0x632BE59BD9B4E019
	z = (z ^ (z >> 30)) * 0xBF58476D1CE4E5B9
	z = (z ^ (z >> 27)) * 0x94D049BB133111EB
	return &RNG{s: z ^ (z >> 31)}
}

func (r *RNG) Uint64() uint64 {
	r.s += 0x9E3779B97F4A7C15
	z := r.s
	z = (z ^ (z >> 30)) * 0xBF58476D1CE4E5B9
	z = (z ^ (z >> 27)) * 0x94D049BB133111EB
	return z ^ (z >> 31)
}

// Intn returns a value in [0,n).
func (r *RNG) Intn(n int) int {
	if n <= 0 {
		return 0
	}
	return int(r.Uint64() % uint64(n))
}

// Range returns a value in [lo,hi].
func (r *RNG) Range(lo, hi int) int { return lo + r.Intn(hi-lo+1) }

func (r *RNG) Bool() bool { return r.Uint64()&1 == 1 }

// Chance is true with probability num/den.
func (r *RNG) Chance(num, den int) bool { return r.Intn(den) < num }

// Fork derives an independent generator (for per-case seeds).
func (r *RNG) Fork() *RNG { return &RNG{s: r.Uint64()} }

func Pick[T any](r *RNG, xs []T) T { return xs[r.Intn(len(xs))] }

// Weighted picks index i with probability w[i]/sum(w).
func (r *RNG) Weighted(w []int) int {
	t := 0
	for _, x := range w {
		t += x
	}
	k := r.Intn(t)
	for i, x := range w {
		if k < x {
			return i
		}
		k -= x
	}
	return len(w) - 1
}
