package lib

import (
	"bufio"
	"bytes"
	"encoding/json"
	"fmt"
	"os"
	"os/exec"
	"path/filepath"
	"sort"
	"strconv"
	"strings"
	"sync/atomic"
	"time"
)

// Ctx is one run of one property's check.
type Ctx struct {
	Prop     string
	Tier     string // quick | thorough
	Seed     int64
	VerifDir string
	Start    time.Time
	Level    string

	Proof ProofStatus

	// coverage counters (measured by the run)
	Evaluations int
	nontrivial  map[string]struct{}
	Rule        string
	Samples     []any
	Hist        map[string]int // generator distribution: operations / branches / error kinds hit
	Extra       map[string]any
	Assumptions []string
	Trusted     []string

	Findings       []Finding
	violations     int
	knownSeen      map[string]bool
	replayN        int
	driverReported bool
}

// ProofStatus is what bin/check established before the harness ran.
type ProofStatus struct {
	PropsBuilt  bool       `json:"props_built"`  // lake build Uniflow.Props.Cnn succeeded
	DriverBuilt bool       `json:"driver_built"` // lake build drv succeeded
	AuditOK     bool       `json:"audit_ok"`     // axioms within the allowed set, no sorry etc.
	Theorems    []TheoremA `json:"theorems"`
	Log         string     `json:"log"` // tail of the failing build output
	CheckerCmd  string     `json:"checker_cmd"`
	GrepClean   bool       `json:"grep_clean"`
	Broken      []string   `json:"broken"` // names of theorems / modules that no longer check
}

type TheoremA struct {
	Name   string   `json:"name"`
	Axioms []string `json:"axioms"`
	OK     bool     `json:"ok"`
}

func NewCtx(prop, tier string, seed int64, verifDir string) *Ctx {
	c := &Ctx{Prop: prop, Tier: tier, Seed: seed, VerifDir: verifDir, Start: time.Now(), Level: "proof",
		nontrivial: map[string]struct{}{}, Hist: map[string]int{}, Extra: map[string]any{}, knownSeen: map[string]bool{}}
	c.Findings = LoadFindings(filepath.Join(verifDir, "known_findings.txt"), prop)
	if p := os.Getenv("VERIF_PROOF_STATUS"); p != "" {
		if b, err := os.ReadFile(p); err == nil {
			_ = json.Unmarshal(b, &c.Proof)
		}
	}
	go stallMonitor()
	return c
}

// ---------------------------------------------------------------- stall monitor
//
// Many oracles are watchdogs ("the operation returned within 5 s"). Their premise is that wall-clock
// time is time the process could use. When the whole sandbox is frozen for a while (a snapshot being
// taken, the machine suspended) or the process is starved, that premise is false and a watchdog can
// expire on code that is not blocked at all – this happened once in a background sweep, at the very
// moment a sandbox snapshot was requested. A goroutine therefore wakes every 20 ms and records the
// largest delay it observed. A run that reports a violation AND observed a scheduling gap of a second
// or more exits with StallExit instead of 1; bin/check then repeats the run once (same seed) and
// reports what the repetition says. A real violation is reported again; nothing is suppressed when
// the repetition stalls too.

const StallExit = 75

var stallMaxGapMs atomic.Int64

func stallMonitor() {
	const tick = 20 * time.Millisecond
	last := time.Now()
	for {
		time.Sleep(tick)
		now := time.Now()
		if gap := now.Sub(last) - tick; gap.Milliseconds() > stallMaxGapMs.Load() {
			stallMaxGapMs.Store(gap.Milliseconds())
		}
		last = now
	}
}

// StallMaxGapMs is the largest scheduling delay (ms) the monitor observed so far in this process.
func StallMaxGapMs() int64 { return stallMaxGapMs.Load() }

func (c *Ctx) Thorough() bool { return c.Tier == "thorough" }

// Scale picks a size by tier.
func (c *Ctx) Scale(quick, thorough int) int {
	if c.Thorough() {
		return thorough
	}
	return quick
}

// Count records one evaluated case; key != "" marks it non-trivial and identifies it for
// the distinct count.
func (c *Ctx) Count(key string) {
	c.Evaluations++
	if key != "" {
		c.nontrivial[key] = struct{}{}
	}
}

func (c *Ctx) Hit(k string) { c.Hist[k]++ }

func (c *Ctx) Sample(s any) {
	if len(c.Samples) < 6 {
		c.Samples = append(c.Samples, s)
	}
}

// ---------------------------------------------------------------- findings

// Finding is one line of /verif/known_findings.txt:
//
//	known: property=C01 class=<class> <what fails>
//	fixed: property=C17 <commit> <what failed>
type Finding struct {
	Fixed bool
	Prop  string
	Class string
	What  string
}

func LoadFindings(path, prop string) []Finding {
	b, err := os.ReadFile(path)
	if err != nil {
		return nil
	}
	var out []Finding
	for _, ln := range strings.Split(string(b), "\n") {
		ln = strings.TrimSpace(ln)
		if strings.HasPrefix(ln, "known:") {
			f := strings.Fields(strings.TrimPrefix(ln, "known:"))
			if len(f) >= 2 && f[0] == "property="+prop && strings.HasPrefix(f[1], "class=") {
				out = append(out, Finding{Prop: prop, Class: strings.TrimPrefix(f[1], "class="), What: strings.Join(f[2:], " ")})
			}
		}
	}
	return out
}

// Known reports whether a failure of class `class` is a listed finding; if so it prints the
// KNOWN-FINDING line (once per class per run) and the failure is not a violation.
func (c *Ctx) Known(class string) bool {
	for _, f := range c.Findings {
		if f.Class == class {
			if !c.knownSeen[class] {
				c.knownSeen[class] = true
				fmt.Printf("KNOWN-FINDING: property=%s %s: %s\n", c.Prop, class, f.What)
			}
			return true
		}
	}
	return false
}

// ---------------------------------------------------------------- violations

// Violation writes a replay file and prints the VIOLATION line. `found` says whether a
// concrete failing input was found on the implementation.
func (c *Ctx) Violation(what string, replay string, found bool) {
	c.violations++
	c.replayN++
	dir := filepath.Join(c.VerifDir, "replay")
	_ = os.MkdirAll(dir, 0o755)
	path := filepath.Join(dir, fmt.Sprintf("%s-%d-%d.txt", c.Prop, c.Seed, c.replayN))
	body := fmt.Sprintf("# property=%s tier=%s seed=%d\n# %s\n%s\n", c.Prop, c.Tier, c.Seed, what, replay)
	_ = os.WriteFile(path, []byte(body), 0o644)
	if found {
		fmt.Printf("VIOLATION property=%s replay=%s\n", c.Prop, path)
	} else {
		fmt.Printf("VIOLATION property=%s replay=%s no-failing-input-found\n", c.Prop, path)
	}
	fmt.Fprintf(os.Stderr, "  -> %s\n", what)
}

func (c *Ctx) Violations() int { return c.violations }

// ---------------------------------------------------------------- model driver

// Script is a batch of operation lines for the Lean model driver together with what the
// implementation answered for each line.
type Script struct {
	Lines []string
	Want  []string
	Case  []int // case number of each line
	ncase int
}

// Begin starts a new case (resets the model state).
func (s *Script) Begin() int {
	s.ncase++
	s.Lines = append(s.Lines, "reset")
	s.Want = append(s.Want, "ok")
	s.Case = append(s.Case, s.ncase)
	return s.ncase
}

func (s *Script) Op(line, implOut string) {
	s.Lines = append(s.Lines, line)
	s.Want = append(s.Want, implOut)
	s.Case = append(s.Case, s.ncase)
}

func (s *Script) Cases() int { return s.ncase }

// Mismatch is the first line of a case on which model and implementation differ.
type Mismatch struct {
	Case  int
	Line  int
	Op    string
	Impl  string
	Model string
	Lines []string // the case's lines up to and including the differing one
	Impls []string
}

func (m Mismatch) Replay() string {
	var b strings.Builder
	for i, l := range m.Lines {
		fmt.Fprintf(&b, "%s\t=> impl: %s\n", l, m.Impls[i])
	}
	fmt.Fprintf(&b, "# first difference at: %s\n# implementation: %s\n# model:          %s\n", m.Op, m.Impl, m.Model)
	return b.String()
}

// DriverExe is driverFor for harnesses that talk to the model driver themselves.
func (c *Ctx) DriverExe(handler string) (string, error) { return c.driverFor(handler) }

// driverFor maps a handler id (c01, c01s, c05p …) to its executable via lean/drvmap.txt and
// checks that the executable was built from the current sources by this run's bin/build.
func (c *Ctx) driverFor(handler string) (string, error) {
	b, err := os.ReadFile(filepath.Join(c.VerifDir, "lean/drvmap.txt"))
	if err != nil {
		return "", err
	}
	for _, ln := range strings.Split(string(b), "\n") {
		f := strings.Fields(ln)
		if len(f) == 2 && f[0] == handler {
			st, err := os.ReadFile(filepath.Join(c.VerifDir, ".build", f[1]+".status"))
			if err != nil || strings.TrimSpace(string(st)) != "0" {
				return "", fmt.Errorf("model driver %s (handler %s) does not build from the current sources", f[1], handler)
			}
			return filepath.Join(c.VerifDir, "lean/.lake/build/bin", f[1]), nil
		}
	}
	return "", fmt.Errorf("no model driver registered for handler %s", handler)
}

// RunModel pipes the script through `drv <prop>` and returns the first mismatch of every
// differing case.
func (c *Ctx) RunModel(handler string, s *Script) ([]Mismatch, error) {
	if len(s.Lines) == 0 {
		return nil, nil
	}
	exe, derr := c.driverFor(handler)
	if derr != nil {
		if !c.driverReported {
			c.driverReported = true
			c.Violation("the model cannot be run, so the correspondence can no longer be checked: "+derr.Error(), "", false)
		}
		return nil, nil
	}
	cmd := exec.Command(exe, handler)
	cmd.Stdin = strings.NewReader(strings.Join(s.Lines, "\n") + "\n")
	var out, errb bytes.Buffer
	cmd.Stdout = &out
	cmd.Stderr = &errb
	if err := cmd.Run(); err != nil {
		return nil, fmt.Errorf("model driver: %v: %s", err, errb.String())
	}
	var got []string
	sc := bufio.NewScanner(&out)
	sc.Buffer(make([]byte, 1<<20), 1<<28)
	for sc.Scan() {
		got = append(got, sc.Text())
	}
	if len(got) != len(s.Lines) {
		return nil, fmt.Errorf("model driver answered %d lines for %d operations", len(got), len(s.Lines))
	}
	var ms []Mismatch
	seen := map[int]bool{}
	caseStart := map[int]int{}
	for i := range s.Lines {
		if _, ok := caseStart[s.Case[i]]; !ok {
			caseStart[s.Case[i]] = i
		}
		if got[i] != s.Want[i] && !seen[s.Case[i]] {
			seen[s.Case[i]] = true
			st := caseStart[s.Case[i]]
			ms = append(ms, Mismatch{Case: s.Case[i], Line: i, Op: s.Lines[i], Impl: s.Want[i], Model: got[i],
				Lines: append([]string{}, s.Lines[st:i+1]...), Impls: append([]string{}, s.Want[st:i+1]...)})
		}
	}
	return ms, nil
}

// ---------------------------------------------------------------- evidence

// Finish writes evidence/<prop>.json and returns the process exit code.
func (c *Ctx) Finish() int {
	cov := map[string]any{}
	ob, dis := 0, 0
	var thNames []string
	for _, t := range c.Proof.Theorems {
		ob++
		if t.OK && c.Proof.PropsBuilt {
			dis++
		}
		thNames = append(thNames, t.Name+" : "+strings.Join(t.Axioms, ","))
	}
	if c.Level == "proof" {
		cov["obligations"] = ob
		cov["discharged"] = dis
		cov["checker_cmd"] = c.Proof.CheckerCmd
		cov["theorems"] = thNames
	}
	tb := append([]string{"Lean 4.33.0 kernel", "axioms: propext, Classical.choice, Quot.sound only (checked by #print axioms on every property theorem)",
		"correspondence harness (generators, canonicalisers) and the verif-tagged hooks"}, c.Trusted...)
	cov["trusted_base"] = tb
	cov["evaluations"] = c.Evaluations
	cov["distinct_nontrivial"] = len(c.nontrivial)
	cov["rule"] = c.Rule
	if len(c.Samples) == 0 {
		c.Samples = []any{"(no case generated)"}
	}
	cov["samples"] = c.Samples
	keys := make([]string, 0, len(c.Hist))
	for k := range c.Hist {
		keys = append(keys, k)
	}
	sort.Strings(keys)
	dist := map[string]int{}
	for _, k := range keys {
		dist[k] = c.Hist[k]
	}
	cov["distribution"] = dist
	cov["explanation"] = fmt.Sprintf("%d theorems of lean/Uniflow/Props/%s.lean re-checked by lake build (axiom audit per theorem); "+
		"model tied to /repo's working tree by differential execution of %d cases (model driver vs implementation)", ob, c.Prop, c.Evaluations)
	for k, v := range c.Extra {
		cov[k] = v
	}
	cov["stall_max_gap_ms"] = stallMaxGapMs.Load()
	ev := map[string]any{
		"property_id": c.Prop,
		"tier":        c.Tier,
		"seed":        c.Seed,
		"level":       c.Level,
		"coverage":    cov,
		"assumptions": c.Assumptions,
		"wall_s":      time.Since(c.Start).Seconds(),
		"violations":  c.violations,
	}
	b, _ := json.MarshalIndent(ev, "", " ")
	dir := filepath.Join(c.VerifDir, "evidence")
	_ = os.MkdirAll(dir, 0o755)
	_ = os.WriteFile(filepath.Join(dir, c.Prop+".json"), append(b, '\n'), 0o644)
	if c.violations > 0 {
		if g := stallMaxGapMs.Load(); g >= 1000 && os.Getenv("VERIF_NO_STALL_RETRY") == "" {
			fmt.Printf("STALLED property=%s: this process was not scheduled for %d ms at some point of the run, so its watchdog verdicts are not reliable; the run is repeated once\n", c.Prop, g)
			return StallExit
		}
		return 1
	}
	fmt.Printf("OK property=%s tier=%s seed=%d cases=%d distinct_nontrivial=%d theorems=%d/%d wall=%.1fs\n",
		c.Prop, c.Tier, c.Seed, c.Evaluations, len(c.nontrivial), dis, ob, time.Since(c.Start).Seconds())
	return 0
}

func Itoa(i int) string { return strconv.Itoa(i) }
