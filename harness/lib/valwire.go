package lib

// Wire format for uniflow values (DESIGN.md §3 "Wire format"), shared by every harness that
// sends values to the Lean model (lean/Uniflow/Model/Value.lean: parseVal / printVal).
//
// One value = a sequence of space separated tokens in prefix notation:
//
//	n                      nil (the Go nil Value)
//	bin <hex>              Binary            (hex of the bytes, "-" for the empty byte string)
//	true | false           Boolean
//	e <hex>                Error             (hex of err.Error())
//	i <d> | i8 | i16 | i32 | i64 <d>         Int, Int8 … Int64 (decimal, may be negative)
//	u <d> | u8 | u16 | u32 | u64 <d>         Uint, Uint8 … Uint64 (decimal)
//	f32 <d> | f64 <d>      Float32 / Float64 as the IEEE-754 bit pattern (decimal of math.Float*bits)
//	s <hex>                String            (hex of the raw bytes, "-" for "")
//	l <n> v_1 … v_n        Slice
//	m <n> k_1 v_1 … k_n v_n   Map, pairs in uniflow's Range order (ascending key hash, then
//	                          the bucket's own order, which is ascending Compare of the keys)
//
// Buffers (io.Reader with identity semantics) have no wire form: EncodeVal yields the token
// "buf", which the model's parser rejects.

import (
	"encoding/hex"
	"errors"
	"fmt"
	"math"
	"strconv"
	"strings"

	"github.com/siyul-park/uniflow/pkg/types"
)

func hexTok(b []byte) string {
	if len(b) == 0 {
		return "-"
	}
	return hex.EncodeToString(b)
}

func unhexTok(s string) ([]byte, error) {
	if s == "-" {
		return []byte{}, nil
	}
	return hex.DecodeString(s)
}

// EncodeVal renders v in the wire format.
func EncodeVal(v types.Value) string {
	var b strings.Builder
	encodeVal(&b, v)
	return b.String()
}

func encodeVal(b *strings.Builder, v types.Value) {
	if b.Len() > 0 {
		b.WriteByte(' ')
	}
	switch x := v.(type) {
	case nil:
		b.WriteString("n")
	case types.Binary:
		b.WriteString("bin " + hexTok(x.Bytes()))
	case types.Boolean:
		if x.Bool() {
			b.WriteString("true")
		} else {
			b.WriteString("false")
		}
	case types.Error:
		b.WriteString("e " + hexTok([]byte(x.Error())))
	case types.Int:
		b.WriteString("i " + strconv.FormatInt(x.Int(), 10))
	case types.Int8:
		b.WriteString("i8 " + strconv.FormatInt(x.Int(), 10))
	case types.Int16:
		b.WriteString("i16 " + strconv.FormatInt(x.Int(), 10))
	case types.Int32:
		b.WriteString("i32 " + strconv.FormatInt(x.Int(), 10))
	case types.Int64:
		b.WriteString("i64 " + strconv.FormatInt(x.Int(), 10))
	case types.Uint:
		b.WriteString("u " + strconv.FormatUint(x.Uint(), 10))
	case types.Uint8:
		b.WriteString("u8 " + strconv.FormatUint(x.Uint(), 10))
	case types.Uint16:
		b.WriteString("u16 " + strconv.FormatUint(x.Uint(), 10))
	case types.Uint32:
		b.WriteString("u32 " + strconv.FormatUint(x.Uint(), 10))
	case types.Uint64:
		b.WriteString("u64 " + strconv.FormatUint(x.Uint(), 10))
	case types.Float32:
		b.WriteString("f32 " + strconv.FormatUint(uint64(math.Float32bits(x.Interface().(float32))), 10))
	case types.Float64:
		b.WriteString("f64 " + strconv.FormatUint(math.Float64bits(x.Interface().(float64)), 10))
	case types.String:
		b.WriteString("s " + hexTok([]byte(x.String())))
	case types.Slice:
		b.WriteString("l " + strconv.Itoa(x.Len()))
		for _, e := range x.Values() {
			encodeVal(b, e)
		}
	case types.Map:
		b.WriteString("m " + strconv.Itoa(x.Len()))
		for k, e := range x.Range() {
			encodeVal(b, k)
			encodeVal(b, e)
		}
	default:
		b.WriteString("buf")
	}
}

// DecodeVal parses one value from the front of toks and returns the remaining tokens.
// Maps are built with types.NewMap (immutable view).
func DecodeVal(toks []string) (types.Value, []string, error) {
	if len(toks) == 0 {
		return nil, nil, errors.New("valwire: unexpected end of input")
	}
	t, rest := toks[0], toks[1:]
	arg := func() (string, error) {
		if len(rest) == 0 {
			return "", fmt.Errorf("valwire: %s needs an argument", t)
		}
		a := rest[0]
		rest = rest[1:]
		return a, nil
	}
	switch t {
	case "n":
		return nil, rest, nil
	case "true":
		return types.True, rest, nil
	case "false":
		return types.False, rest, nil
	case "bin", "e", "s":
		a, err := arg()
		if err != nil {
			return nil, nil, err
		}
		raw, err := unhexTok(a)
		if err != nil {
			return nil, nil, err
		}
		switch t {
		case "bin":
			return types.NewBinary(raw), rest, nil
		case "e":
			return types.NewError(errors.New(string(raw))), rest, nil
		}
		return types.NewString(string(raw)), rest, nil
	case "i", "i8", "i16", "i32", "i64":
		a, err := arg()
		if err != nil {
			return nil, nil, err
		}
		bits := map[string]int{"i": 64, "i8": 8, "i16": 16, "i32": 32, "i64": 64}[t]
		x, err := strconv.ParseInt(a, 10, bits)
		if err != nil {
			return nil, nil, err
		}
		switch t {
		case "i":
			return types.NewInt(int(x)), rest, nil
		case "i8":
			return types.NewInt8(int8(x)), rest, nil
		case "i16":
			return types.NewInt16(int16(x)), rest, nil
		case "i32":
			return types.NewInt32(int32(x)), rest, nil
		}
		return types.NewInt64(x), rest, nil
	case "u", "u8", "u16", "u32", "u64":
		a, err := arg()
		if err != nil {
			return nil, nil, err
		}
		bits := map[string]int{"u": 64, "u8": 8, "u16": 16, "u32": 32, "u64": 64}[t]
		x, err := strconv.ParseUint(a, 10, bits)
		if err != nil {
			return nil, nil, err
		}
		switch t {
		case "u":
			return types.NewUint(uint(x)), rest, nil
		case "u8":
			return types.NewUint8(uint8(x)), rest, nil
		case "u16":
			return types.NewUint16(uint16(x)), rest, nil
		case "u32":
			return types.NewUint32(uint32(x)), rest, nil
		}
		return types.NewUint64(x), rest, nil
	case "f32":
		a, err := arg()
		if err != nil {
			return nil, nil, err
		}
		x, err := strconv.ParseUint(a, 10, 32)
		if err != nil {
			return nil, nil, err
		}
		return types.NewFloat32(math.Float32frombits(uint32(x))), rest, nil
	case "f64":
		a, err := arg()
		if err != nil {
			return nil, nil, err
		}
		x, err := strconv.ParseUint(a, 10, 64)
		if err != nil {
			return nil, nil, err
		}
		return types.NewFloat64(math.Float64frombits(x)), rest, nil
	case "l", "m":
		a, err := arg()
		if err != nil {
			return nil, nil, err
		}
		n, err := strconv.Atoi(a)
		if err != nil || n < 0 {
			return nil, nil, fmt.Errorf("valwire: bad length %q", a)
		}
		if t == "m" {
			n *= 2
		}
		elems := make([]types.Value, 0, n)
		for i := 0; i < n; i++ {
			var e types.Value
			e, rest, err = DecodeVal(rest)
			if err != nil {
				return nil, nil, err
			}
			elems = append(elems, e)
		}
		if t == "l" {
			return types.NewSlice(elems...), rest, nil
		}
		return types.NewMap(elems...), rest, nil
	}
	return nil, nil, fmt.Errorf("valwire: unknown token %q", t)
}

// DecodeValString parses a complete wire string holding exactly one value.
func DecodeValString(s string) (types.Value, error) {
	v, rest, err := DecodeVal(strings.Fields(s))
	if err != nil {
		return nil, err
	}
	if len(rest) != 0 {
		return nil, fmt.Errorf("valwire: %d trailing tokens", len(rest))
	}
	return v, nil
}
