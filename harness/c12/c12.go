// Package c12: rejected store mutations change nothing; ids and unique keys stay unique.
//
// (a) correspondence: histories mixing valid and failing mutations (duplicate id, duplicate key of a unique – also
//     compound and partial – index, missing id, $unset of the id, unknown update operator, non-map $set, unique index
//     created over conflicting data, re-creation of an index with the same keys) on a real store.Store against
//     Uniflow.Index.step; after EVERY call the store is observed through every access path: Find(nil) and Find by
//     each field and each value present (these use an index whenever one exists on the field, the id index always).
// (b) property oracle, independent of the model:
//     * snapshot: after a rejected single-document call the whole observation equals the one before it;
//     * reference: every outcome and every observation equals the reference store's (storegen/ref.go; a rejected
//       document leaves it untouched, a batch stops at its first rejected document);
//     * access paths agree: Find by a field returns exactly the documents of Find(nil) holding that value;
//     * uniqueness: the ids of Find(nil) are pairwise distinct, and so are the key tuples of the documents admitted
//       by each unique index currently declared.
package c12

import (
	"context"
	"fmt"
	"strings"

	"github.com/siyul-park/uniflow/pkg/types"

	"verifharness/lib"
	sg "verifharness/storegen"
)

var obsFields = []string{"id", "a", "b", "n.x"}

// observe reads the store through every access path and returns the canonical observation.
func observe(k *sg.Case) string { return observeSome(k, nil, 0, nil) }

// observeSome is observe for large stores: per field at most `limit` of the stored values are probed (drawn with rng),
// plus the values of `focus` (documents the last call touched) and a value no document holds. limit = 0: all values.
func observeSome(k *sg.Case, rng *lib.RNG, limit int, focus []types.Map) string {
	all := k.Readback()
	var out []string
	out = append(out, all.Canon(sg.Op{Kind: "find"}))
	if all.Kind != "docs" {
		return strings.Join(out, "\n")
	}
	// uniqueness of ids
	for i := range all.Docs {
		for j := i + 1; j < len(all.Docs); j++ {
			if sg.RCompare(sg.Field(all.Docs[i], sg.S("id")), sg.Field(all.Docs[j], sg.S("id"))) == 0 {
				k.Fail("duplicate-id", "two stored documents share the id "+lib.EncodeVal(sg.Field(all.Docs[i], sg.S("id"))))
			}
		}
	}
	// uniqueness of the keys of every declared unique index
	for _, ix := range k.Ref.Indexes {
		if !ix.Unique || len(ix.Keys) == 0 {
			continue
		}
		seen := map[string]bool{}
		for _, d := range all.Docs {
			if ix.Filter != nil && !sg.RefMatch(d, true, ix.Filter) {
				continue
			}
			var t []string
			for _, key := range ix.Keys {
				t = append(t, lib.EncodeVal(sg.Field(d, sg.S(key))))
			}
			tk := strings.Join(t, " , ")
			if seen[tk] {
				k.Fail("duplicate-unique-key", fmt.Sprintf("two stored documents share the key (%s) of the unique index %v", tk, ix.Keys))
			}
			seen[tk] = true
		}
	}
	for _, f := range obsFields {
		vals := map[string]types.Value{}
		for _, d := range all.Docs {
			v := sg.Field(d, sg.S(f))
			vals[lib.EncodeVal(v)] = v
		}
		vals[lib.EncodeVal(types.NewInt(9))] = types.NewInt(9) // a value no document holds
		keys := make([]string, 0, len(vals))
		for w := range vals {
			keys = append(keys, w)
		}
		sortStrings(keys)
		if limit > 0 && len(keys) > limit {
			keep := map[string]bool{lib.EncodeVal(types.NewInt(9)): true, lib.EncodeVal(types.NewInt(0)): true}
			for _, d := range focus {
				keep[lib.EncodeVal(sg.Field(d, sg.S(f)))] = true
			}
			for i := 0; i < limit; i++ {
				keep[keys[rng.Intn(len(keys))]] = true
			}
			var some []string
			for _, w := range keys {
				if keep[w] {
					some = append(some, w)
				}
			}
			keys = some
		}
		for _, w := range keys {
			v := vals[w]
			var cond types.Value = v
			if v == nil || isMap(v) {
				cond = types.NewMap(sg.S("$eq"), v) // a nil or map operand must be wrapped to mean equality
			}
			o := sg.Op{Kind: "find", Filter: types.NewMap(sg.S(f), cond)}
			r := k.Do(o)
			if limit == 0 { // sampled probes differ from call to call: they are checked (below, and against the reference) but not part of the observation
				out = append(out, o.Line()+" => "+r.Canon(o))
			}
			if r.Kind != "docs" {
				continue
			}
			// the access paths agree
			var want []string
			for _, d := range all.Docs {
				if sg.REqual(sg.Field(d, sg.S(f)), v) {
					want = append(want, lib.EncodeVal(d))
				}
			}
			var got []string
			for _, d := range r.Docs {
				got = append(got, lib.EncodeVal(d))
			}
			if strings.Join(want, " | ") != strings.Join(got, " | ") {
				k.Fail("access-paths-disagree", fmt.Sprintf("Find({%s: %s}) = [%s] but Find(nil) holds [%s] with that value", f, w, strings.Join(got, " | "), strings.Join(want, " | ")))
			}
		}
	}
	return strings.Join(out, "\n")
}

func isMap(v types.Value) bool { _, ok := v.(types.Map); return ok }

func sortStrings(xs []string) {
	for i := 1; i < len(xs); i++ {
		for j := i; j > 0 && xs[j] < xs[j-1]; j-- {
			xs[j], xs[j-1] = xs[j-1], xs[j]
		}
	}
}

func history(c *lib.Ctx, sc *lib.Script, fails *[]lib.OracleFail, rng *lib.RNG, steps int) {
	g := &sg.Gen{R: rng, Depth: 2, Hit: c.Hit}
	k := sg.NewCase(c, sc, fails, true)
	k.Spell = rng.Fork()
	// SIZE FAMILY (storegen/large.go): one history in ten (one in five at thorough) on 64–150 documents around a
	// compound unique index whose hot first-level value carries 33–60 second-level keys.
	if rng.Chance(1, c.Scale(10, 5)) {
		large(c, k, g, rng)
		return
	}
	prev := observe(k)
	existing := func() (types.Map, bool) {
		if len(k.Ref.Docs) == 0 {
			return nil, false
		}
		return lib.Pick(rng, k.Ref.Docs), true
	}
	// a directed prefix: a non-partial unique index first, a plain index after it, documents lacking the unique key,
	// $unset / nil updates of it (seeded change c11e: a rejected write that half-happens shows through the later index)
	var script []sg.Op
	if rng.Chance(1, 5) {
		sops, u, p := g.SparseUnique()
		script = append(script, u, p)
		for _, o := range sops {
			if o.Kind != "find" { // the observation after every call reads through every access path anyway
				script = append(script, o)
			}
		}
		if len(script) > 24 {
			script = script[:24]
		}
		steps = max(steps, len(script))
		c.Hit("history:sparse-unique-then-plain")
	}
	// One history in six gets a watcher at a random point – nobody reads it – and half of those watchers carry a
	// malformed filter (not a model operation: a watcher must never change what a mutation does or reports; repo
	// 7f54b88: a malformed one made every later call return an error AFTER the document was stored or removed).
	watchAt := -1
	if rng.Chance(1, 6) {
		watchAt = rng.Intn(steps)
	}
	wctx, wcancel := context.WithCancel(context.Background())
	defer wcancel()
	for s := 0; s < steps && len(*fails) == 0; s++ {
		if s == watchAt {
			var f any
			if rng.Bool() {
				f = lib.Pick(rng, []any{
					map[string]any{"a": map[string]any{"$foo": 1}},
					map[string]any{"$bar": 1},
					map[string]any{"$and": []any{map[string]any{"b": map[string]any{"$gt": 0, "$regex": "x"}}}},
				})
				c.Hit("watcher:malformed-filter")
			} else {
				f = lib.Pick(rng, []any{nil, map[string]any{"a": 1}, map[string]any{"b": map[string]any{"$exists": false}}})
				c.Hit("watcher:well-formed-filter")
			}
			_, _ = k.St.Watch(wctx, f)
		}
		var o sg.Op
		single := true
		if len(script) > 0 {
			o, script = script[0], script[1:]
			goto run
		}
		switch rng.Weighted([]int{8, 3, 6, 3, 2, 5, 1, 1}) {
		case 0: // insert (ids collide often; sometimes no id)
			o = sg.Op{Kind: "ins", Docs: []sg.Map{g.Doc()}}
		case 1: // insert a document that repeats the key fields of a stored one under a fresh or stale id
			d := g.Doc()
			if e, ok := existing(); ok {
				for _, f := range []string{"a", "b", "n.x"} {
					if rng.Chance(2, 3) {
						if v := sg.Field(e, sg.S(f)); v != nil {
							d = d.Set(sg.S(f), v)
						} else {
							d = d.Delete(sg.S(f))
						}
					}
				}
				c.Hit("fault:repeat-key-fields")
			}
			o = sg.Op{Kind: "ins", Docs: []sg.Map{d}}
		case 2: // update one document by id
			o = sg.Op{Kind: "upd", Filter: types.NewMap(sg.S("id"), g.Id()), Update: g.Update()}
			if e, ok := existing(); ok && rng.Chance(1, 2) { // make it collide with a stored document's key fields
				f := lib.Pick(rng, []string{"a", "b", "n.x"})
				if v := sg.Field(e, sg.S(f)); v != nil {
					o.Update = types.NewMap(sg.S("$set"), types.NewMap(sg.S(f), v))
					c.Hit("fault:update-to-stored-key")
				}
			}
		case 3: // update several documents (a batch stops at the first rejected document)
			o = sg.Op{Kind: "upd", Filter: g.RangeFilter(2), Update: g.Update()}
			single = false
		case 4:
			o = sg.Op{Kind: "upd", Filter: g.UpsertFilter(), Update: g.Update(), Upsert: true}
		case 5:
			o = g.IndexSpec()
			if rng.Chance(1, 2) {
				o.Unique = true
			}
			// second declaration over keys that already carry an index: same uniqueness mostly, another (or no)
			// filter – the existing data must be checked against the NEW declaration (seeded change c12i: an
			// "equivalent index already exists" early return that compared keys, uniqueness and filter nil-ness only)
			if n := len(k.Ref.Indexes); n > 0 && rng.Chance(1, 3) {
				ix := k.Ref.Indexes[rng.Intn(n)]
				if len(ix.Keys) > 0 && !(len(ix.Keys) == 1 && ix.Keys[0] == "id") {
					o.Keys = ix.Keys
					if rng.Chance(3, 4) {
						o.Unique = ix.Unique
					}
					for try := 0; try < 4; try++ {
						f := g.IndexSpec().Filter
						if ix.Filter != nil && f == nil && rng.Chance(1, 2) {
							continue // keep it partial more often than not
						}
						o.Filter = f
						if (f == nil) != (ix.Filter == nil) || (f != nil && !sg.REqual(f, ix.Filter)) {
							break
						}
					}
					c.Hit("index:redeclared-over-existing-keys")
				}
			}
		case 6:
			o = sg.Op{Kind: "unidx", Keys: g.IndexSpec().Keys}
		default:
			o = sg.Op{Kind: "del", Filter: g.RangeFilter(2)}
			if rng.Chance(1, 2) {
				o.Filter = types.NewMap(sg.S("id"), g.Id())
			}
			single = false
		}
	run:
		if o.Kind == "ins" && rng.Chance(1, 6) { // a batch whose later document may be rejected
			o.Docs = append(o.Docs, g.Doc())
			single = false
		}
		if o.Kind == "upd" { // one document is the unit of atomicity: a batch may keep the documents before the rejected one
			single = (o.Filter == nil || sg.WellFormed(o.Filter)) && len(k.Ref.Matching(o.Filter)) <= 1
		}
		res := k.Do(o)
		now := observe(k)
		if res.Kind == "err" {
			c.Hit("rejected:" + o.Kind + ":" + res.Err)
			if single {
				c.Hit("rejected-single-document-call")
			}
			if single && now != prev {
				k.Fail("rejected-call-changed-the-store", "`"+o.Line()+"` was rejected ("+res.Err+") but the observation changed\n-- before:\n"+prev+"\n-- after:\n"+now)
			}
		}
		prev = now
	}
}

// large: a compound unique index over (a, b) – declared before the load, or built over the loaded documents (with a
// violating pair planted late in id order it must be refused without a trace) –, documents that repeat the key of a
// stored one under a fresh id (the 33rd, 34th … second-level key of the hot value among them), updates that give many
// documents the same key (the batch stops at the first refused document), deletes of dozens of documents, further
// index declarations over the large data. After every call: Find(nil) and finds by sampled values of every field
// (through whatever index exists), compared with the reference store; after a refused single-document call the
// observation must be the one before it.
func large(c *lib.Ctx, k *sg.Case, g *sg.Gen, rng *lib.RNG) {
	planted := rng.Chance(2, 3)
	l := g.NewLarge(planted)
	c.Hit("history:large-store")
	uniq := sg.Op{Kind: "idx", Keys: []string{"a", "b"}, Unique: true}
	switch rng.Intn(5) {
	case 0:
		uniq.Keys = []string{"a", "b", "n.x"}
	case 1:
		uniq.Filter = types.NewMap(sg.S("n.x"), types.NewMap(sg.S("$lte"), types.NewInt(5)))
	}
	before := rng.Bool()
	step := func(o sg.Op, single bool, prev string, focus []types.Map) string {
		res := k.Do(o)
		now := observeSome(k, rng, 3, focus)
		if res.Kind == "err" {
			c.Hit("rejected:" + o.Kind + ":" + res.Err)
			if single && now != prev {
				k.Fail("rejected-call-changed-the-store", "`"+o.Line()+"` was rejected ("+res.Err+") but the observation changed")
			}
		}
		return now
	}
	prev := observeSome(k, rng, 3, nil)
	if before {
		prev = step(uniq, true, prev, nil)
		c.Hit("large:unique-index-before-load")
	}
	l.LoadInto(k)
	prev = observeSome(k, rng, 3, nil)
	c.Hit(fmt.Sprintf("large:documents-after-load:%d0s", len(k.Ref.Docs)/10))
	if !before {
		prev = step(uniq, true, prev, nil) // refused when the pair is planted
		c.Hit("large:unique-index-over-loaded-data")
	}
	hots := l.Hots()
	for s := 0; s < rng.Range(8, 14) && len(*k.Fails) == 0; s++ {
		switch rng.Weighted([]int{6, 2, 3, 2, 2, 1, 2}) {
		case 0: // a fresh document with the key of a stored hot one: around the 33rd second-level key, or anywhere
			j := hots[rng.Intn(len(hots))]
			if rng.Bool() && len(hots) > 36 {
				j = hots[rng.Range(28, 36)]
			}
			d := l.Repeat(j)
			prev = step(sg.Op{Kind: "ins", Docs: []sg.Map{d}}, true, prev, []types.Map{d})
			c.Hit("large:insert-repeating-a-stored-key")
		case 1:
			d := l.Fresh()
			prev = step(sg.Op{Kind: "ins", Docs: []sg.Map{d}}, true, prev, []types.Map{d})
		case 2: // many documents, same new key part
			prev = step(sg.Op{Kind: "upd", Filter: l.Filter(), Update: l.Update()}, false, prev, nil)
		case 3: // one document takes the key of another hot one
			i, j := hots[rng.Intn(len(hots))], hots[rng.Intn(len(hots))]
			o := sg.Op{Kind: "upd", Filter: types.NewMap(sg.S("id"), l.IdOf(i)),
				Update: types.NewMap(sg.S("$set"), types.NewMap(sg.S("b"), types.NewInt(j)))}
			prev = step(o, true, prev, []types.Map{l.Doc(i), l.Doc(j)})
			c.Hit("large:update-to-a-stored-key")
		case 4:
			prev = step(sg.Op{Kind: "del", Filter: l.Filter()}, false, prev, nil)
		case 5:
			prev = step(sg.Op{Kind: "unidx", Keys: uniq.Keys}, true, prev, nil)
		default: // (re-)declared over the large data: the unique one again, or another compound index
			o := uniq
			if rng.Bool() {
				o = l.Indexes()[0]
			}
			prev = step(o, true, prev, nil)
			c.Hit("large:index-declared-over-large-data")
		}
	}
}

func corpus(c *lib.Ctx, sc *lib.Script, fails *[]lib.OracleFail, path string) {
	k := sg.NewCase(c, sc, fails, true)
	prev := observe(k)
	for _, ln := range lib.ReadLines(path) {
		o, err := sg.ParseOp(ln)
		if err != nil {
			k.Fail("corpus", path+": "+err.Error())
			return
		}
		if o.Kind == "find" {
			k.Do(o)
			continue
		}
		single := len(o.Docs) <= 1 && o.Kind != "del"
		if o.Kind == "upd" {
			single = (o.Filter == nil || sg.WellFormed(o.Filter)) && len(k.Ref.Matching(o.Filter)) <= 1
		}
		res := k.Do(o)
		now := observe(k)
		if res.Kind == "err" && single && now != prev {
			k.Fail("rejected-call-changed-the-store", "`"+o.Line()+"` was rejected ("+res.Err+") but the observation changed\n-- before:\n"+prev+"\n-- after:\n"+now)
		}
		prev = now
	}
	c.Hit("corpus:" + path[strings.LastIndex(path, "/")+1:])
}

func Run(c *lib.Ctx) {
	rng := lib.NewRNG(c.Seed)
	sc := &lib.Script{}
	var fails []lib.OracleFail
	for _, f := range c.CorpusFiles() {
		corpus(c, sc, &fails, f)
	}
	for i := 0; i < c.Scale(400, 5000) && len(fails) == 0; i++ {
		history(c, sc, &fails, rng.Fork(), rng.Range(8, 30))
	}
	if n := len(sc.Lines); n > 40 {
		for _, i := range []int{n / 3, 2 * n / 3} {
			c.Sample(map[string]string{"op": sc.Lines[i], "store": sc.Want[i]})
		}
	}
	c.Rule = "one case = one call on the store (mutation, index operation or one of the observation finds after it); non-trivial when it returned documents, changed documents or was rejected; distinct by its line within the run"
	c.Assumptions = []string{
		"a multi-document Insert/Update is the sequence of its per-document steps and stops at the first rejected document; only that document is required to leave no trace (DESIGN.md §5 C10 (iii))",
		"index filters are well-formed (DESIGN.md §5 C10 (v)); $set never moves a document to another id ((iv))",
		"each store method is one atomic step (it holds the store's write lock throughout)",
	}
	c.Trusted = []string{"google/btree (modelled as a sorted association list)", "types.Map internals (C15)"}
	sg.SelfCheck(c, &fails) // the reference's own order / equality against the value layer's, once per run
	c.Assumptions = append(c.Assumptions, sg.Independence)
	ms, err := c.RunModel("c12", sc)
	if err != nil {
		c.Violation("model driver failed: "+err.Error(), "", false)
		return
	}
	c.Conclude("store.Store ≈ Uniflow.Index.step (failing mutations, unique indexes)", ms, fails)
}
