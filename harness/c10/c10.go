// Package c10: store results equal a reference evaluation of the supported operators.
//
// (a) correspondence: random histories (≤ 30 operations) of Insert / Update / upsert / Delete / Find (sort, skip,
//     limit) with filters from the operator grammar to depth 3 (quick) / 5 (thorough) plus a separate stream of
//     malformed filters and updates, on a real store.Store, against Uniflow.Index.step driven by the same lines;
//     after every mutation the whole store is read back (Find(nil)).
// (b) property oracle, independent of the model: the reference evaluator of storegen/ref.go (written from the
//     statement: conjunction of all entries, absent parents, $exists = presence, static malformedness, per-document
//     atomic updates in id order) applied to a reference store; every outcome is compared – exact sequence for
//     unsorted finds, sequence of tie classes for sorted finds, sort keys + membership when skip/limit cut a sorted
//     find, counts, error class.
package c10

import (
	"fmt"
	"strings"

	"verifharness/lib"
	sg "verifharness/storegen"
)

func history(c *lib.Ctx, sc *lib.Script, fails *[]lib.OracleFail, rng *lib.RNG, depth, steps int) {
	g := &sg.Gen{R: rng, Depth: depth, Hit: c.Hit}
	k := sg.NewCase(c, sc, fails, true)
	k.Spell = rng.Fork()
	// The statement quantifies over histories of inserts, updates, deletes and finds on a store – whatever indexes
	// that store has (C10.find_eq_ref / store_refines_unique are stated for histories with index operations). One
	// history in eight is therefore the directed family around a partial index whose filter looks at a non-key
	// field (seeded change c10g: an update that moves a document across the index filter without touching a key),
	// and one in five of the others has a few random index declarations in it.
	if rng.Chance(1, 8) {
		ops, idx, at := g.PartialTransition()
		for i, o := range ops {
			if len(*fails) != 0 {
				return
			}
			if i == at {
				k.Do(idx)
			}
			k.Do(o)
			if o.Kind != "find" {
				k.Readback()
			}
		}
		c.Hit("history:partial-index-transition")
		return
	}
	// SIZE FAMILY (storegen/large.go): one history in ten (one in five at thorough) runs on a store of 64–150
	// documents – batches of 20–70, finds over large results with sort/skip/limit, `$or` lists of 17–40 alternatives,
	// updates and deletes matching dozens of documents, upserts whose "no match" decision needs the whole walk; a third
	// of them with compound indexes, some built over the loaded data.
	if rng.Chance(1, c.Scale(10, 5)) {
		large(c, k, g, rng)
		return
	}
	indexed := rng.Chance(1, 5)
	if indexed {
		c.Hit("history:with-index-declarations")
	}
	// start from a few documents so that early finds are not all empty
	for i := 0; i < rng.Range(0, 4); i++ {
		k.Do(sg.Op{Kind: "ins", Docs: []sg.Map{g.Doc()}})
	}
	for s := 0; s < steps && len(*fails) == 0; s++ {
		if indexed && rng.Chance(1, 6) {
			k.Do(g.IndexSpec())
		}
		filter := func() sg.Map {
			switch rng.Weighted([]int{12, 3, 1, 1}) {
			case 0:
				return g.Filter(rng.Range(1, depth))
			case 1:
				return g.RangeFilter(depth)
			case 2:
				c.Hit("filter:nil")
				return nil
			}
			c.Hit("filter:malformed")
			return g.Malformed(rng.Range(1, depth))
		}
		mutated := true
		switch rng.Weighted([]int{5, 5, 2, 2, 9}) {
		case 0:
			docs := []sg.Map{g.Doc()}
			if rng.Chance(1, 4) {
				docs = append(docs, g.Doc())
			}
			k.Do(sg.Op{Kind: "ins", Docs: docs})
		case 1:
			k.Do(sg.Op{Kind: "upd", Filter: filter(), Update: g.Update()})
		case 2:
			// upsert filters come from the language the reference defines an upsert document for (SimpleUpsert);
			// outside it `extract` depends on the order of the filter's keys and panics on operator-only
			// $and/$or branches (types.Cast of a nil value) – an observation like DESIGN.md §7 rows 27/28.
			f := g.UpsertFilter()
			k.Do(sg.Op{Kind: "upd", Filter: f, Update: g.Update(), Upsert: true})
		case 3:
			k.Do(sg.Op{Kind: "del", Filter: filter()})
		default:
			o := sg.Op{Kind: "find", Filter: filter()}
			g.FindOpts(&o)
			k.Do(o)
			mutated = false
		}
		if mutated {
			k.Readback()
		}
	}
}

func large(c *lib.Ctx, k *sg.Case, g *sg.Gen, rng *lib.RNG) {
	l := g.NewLarge(rng.Chance(1, 4))
	c.Hit("history:large-store")
	var idxs []sg.Op
	if rng.Chance(1, 3) {
		idxs = l.Indexes()
		c.Hit("history:large-store-with-indexes")
	}
	before := rng.Bool()
	if before {
		for _, ix := range idxs {
			k.Do(ix)
		}
	}
	l.LoadInto(k)
	stored := k.Readback()
	c.Hit(fmt.Sprintf("large:documents-after-load:%d0s", len(stored.Docs)/10))
	if !before {
		for _, ix := range idxs { // built over the loaded documents (a unique one may be refused: violating pair)
			k.Do(ix)
		}
	}
	for _, o := range l.Ops(rng.Range(8, 16)) {
		if len(*k.Fails) != 0 {
			return
		}
		res := k.Do(o)
		switch {
		case res.Kind == "docs":
			c.Hit(fmt.Sprintf("large:find-result:%s", bucket(len(res.Docs))))
		case res.Kind == "n" && o.Kind == "upd":
			c.Hit(fmt.Sprintf("large:updated:%s", bucket(res.N)))
		case res.Kind == "n" && o.Kind == "del":
			c.Hit(fmt.Sprintf("large:deleted:%s", bucket(res.N)))
		}
		if o.Kind != "find" && rng.Chance(2, 3) {
			k.Readback()
		}
	}
}

func bucket(n int) string {
	switch {
	case n == 0:
		return "0"
	case n < 30:
		return "1-29"
	case n < 64:
		return "30-63"
	case n < 100:
		return "64-99"
	}
	return "100+"
}

func corpus(c *lib.Ctx, sc *lib.Script, fails *[]lib.OracleFail, path string) {
	k := sg.NewCase(c, sc, fails, true)
	for _, ln := range lib.ReadLines(path) {
		o, err := sg.ParseOp(ln)
		if err != nil {
			k.Fail("corpus", path+": "+err.Error())
			return
		}
		k.Do(o)
	}
	c.Hit("corpus:" + path[strings.LastIndex(path, "/")+1:])
}

func Run(c *lib.Ctx) {
	rng := lib.NewRNG(c.Seed)
	sc := &lib.Script{}
	var fails []lib.OracleFail
	for _, f := range c.CorpusFiles() {
		corpus(c, sc, &fails, f)
	}
	depth := c.Scale(3, 5)
	for i := 0; i < c.Scale(2500, 40000) && len(fails) == 0; i++ {
		history(c, sc, &fails, rng.Fork(), depth, rng.Range(8, 30))
	}
	if len(sc.Lines) > 40 {
		for _, i := range []int{len(sc.Lines) / 3, 2 * len(sc.Lines) / 3} {
			c.Sample(map[string]string{"op": sc.Lines[i], "store": sc.Want[i]})
		}
	}
	c.Rule = "one case = one operation of a history; non-trivial when it returned documents, changed documents or was rejected; distinct by its line within the run"
	c.Assumptions = []string{
		"readings of DESIGN.md §5 C10 (i)–(v): Mongo semantics for the operator subset, errors are static, a batch is the sequence of its per-document steps, $set never moves a document to another id, index/watcher filters are well formed",
		"the upsert document is defined by the reference only for filters made of field conditions that are a value, {$eq: v}, comparison-only maps or nested such maps (SimpleUpsert); other upsert filters are compared model-vs-code only",
		"each store method is one atomic step (it holds the store's write lock throughout)",
	}
	c.Trusted = []string{"google/btree (modelled as a sorted association list)", "types.Map internals (C15)", "slices.SortFunc (any permutation that sorts; the model sorts stably)"}
	sg.SelfCheck(c, &fails) // the reference's own order / equality against the value layer's, once per run
	c.Assumptions = append(c.Assumptions, sg.Independence)
	ms, err := c.RunModel("c10", sc)
	if err != nil {
		c.Violation("model driver failed: "+err.Error(), "", false)
		return
	}
	c.Conclude("store.Store ≈ Uniflow.Index.step (Insert/Update/Delete/Find)", ms, fails)
}
