// Command verif runs one property's check against /repo's current working tree.
package main

import (
	"flag"
	"fmt"
	"os"
	"strconv"

	"verifharness/c13"
	"verifharness/c17"
	"verifharness/lib"
)

var props = map[string]func(*lib.Ctx){
	"C13": c13.Run,
	"C17": c17.Run,
}

func main() {
	prop := flag.String("prop", "", "property id")
	tier := flag.String("tier", "quick", "quick|thorough")
	dir := flag.String("dir", "/verif", "verif directory")
	flag.Parse()
	seed := int64(1)
	if s := os.Getenv("VERIF_SEED"); s != "" {
		if v, err := strconv.ParseInt(s, 10, 64); err == nil {
			seed = v
		}
	}
	run, ok := props[*prop]
	if !ok {
		fmt.Fprintf(os.Stderr, "unknown property %q\n", *prop)
		os.Exit(2)
	}
	c := lib.NewCtx(*prop, *tier, seed, *dir)
	run(c)
	os.Exit(c.Finish())
}
