// Package c14: value equality, ordering and hashing obey their algebraic laws.
//
// (a) correspondence: types.Equal / types.Compare / types.HashOf on pools of real uniflow
//
//	values (all ordered pairs of a pool) against Uniflow.Value.equal / cmp / hash of the Lean
//	model on the wire encoding of the same values (harness/lib/valwire.go); every value is
//	also echoed through the model's parser and printer.
//
// (b) property oracle, independent of the model: the laws of the statement evaluated directly
//
//	on the implementation's answers – reflexivity, symmetry, transitivity of Equal,
//	Compare(a,b) = -Compare(b,a), transitivity of Compare<=0, Equal => Compare = 0,
//	Equal => equal hashes – over all pairs and triples of the pool, plus stability: the
//	three functions are evaluated again on the *same objects* after other values have been
//	derived from them and mutated.
package c14

import (
	"bytes"
	"encoding/json"
	"errors"
	"fmt"
	"math"
	"strings"

	"github.com/siyul-park/uniflow/pkg/types"

	"verifharness/lib"
)

type item struct {
	v    types.Value
	wire string // "" for values without wire form (buffers): oracle only
	tag  string
}

func mk(tag string, v types.Value) item {
	w := lib.EncodeVal(v)
	if strings.Contains(w, "buf") {
		w = ""
	}
	return item{v: v, wire: w, tag: tag}
}

func f64(bits uint64) types.Value { return types.NewFloat64(math.Float64frombits(bits)) }
func f32(bits uint32) types.Value { return types.NewFloat32(math.Float32frombits(bits)) }
func str(s string) types.Value    { return types.NewString(s) }
func bin(s string) types.Value    { return types.NewBinary([]byte(s)) }
func errv(s string) types.Value   { return types.NewError(errors.New(s)) }

// wrapErr is an error with its own message that unwraps to another error.
type wrapErr struct {
	inner error
	msg   string
}

func (w wrapErr) Error() string { return w.msg }
func (w wrapErr) Unwrap() error { return w.inner }

// mutMap builds a *mutableMap holding the pairs (the mutable view of the same content).
func mutMap(pairs ...types.Value) types.Map {
	m := types.NewMapWithSize(len(pairs) / 2)
	for i := 0; i+1 < len(pairs); i += 2 {
		m.Set(pairs[i], pairs[i+1])
	}
	return m
}

const le1x8 = "\x01\x00\x00\x00\x00\x00\x00\x00"
const le1x4 = "\x01\x00\x00\x00"

// scalars is the catalogue of boundary scalars; every pool draws from it.
func scalars() []item {
	var xs []item
	add := func(tag string, v types.Value) { xs = append(xs, mk(tag, v)) }
	add("nil", nil)
	add("bool", types.True)
	add("bool", types.False)
	for _, v := range []int{0, 1, -1, math.MinInt, math.MaxInt, 255, 256} {
		add("int", types.NewInt(v))
	}
	for _, v := range []int8{0, 1, -1, math.MinInt8, math.MaxInt8} {
		add("int8", types.NewInt8(v))
	}
	for _, v := range []int16{0, 1, -1, math.MinInt16, math.MaxInt16} {
		add("int16", types.NewInt16(v))
	}
	for _, v := range []int32{0, 1, -1, math.MinInt32, math.MaxInt32} {
		add("int32", types.NewInt32(v))
	}
	for _, v := range []int64{0, 1, -1, math.MinInt64, math.MaxInt64, 1 << 32} {
		add("int64", types.NewInt64(v))
	}
	for _, v := range []uint{0, 1, math.MaxUint, 1 << 63} {
		add("uint", types.NewUint(v))
	}
	for _, v := range []uint8{0, 1, math.MaxUint8} {
		add("uint8", types.NewUint8(v))
	}
	for _, v := range []uint16{0, 1, math.MaxUint16} {
		add("uint16", types.NewUint16(v))
	}
	for _, v := range []uint32{0, 1, math.MaxUint32} {
		add("uint32", types.NewUint32(v))
	}
	for _, v := range []uint64{0, 1, math.MaxUint64, 1 << 63} {
		add("uint64", types.NewUint64(v))
	}
	// float64: ±0, ±1, NaNs with different payloads and signs, ±Inf, subnormals, extremes
	for _, b := range []uint64{0, 1 << 63, 0x3FF0000000000000, 0xBFF0000000000000,
		0x7FF8000000000001, 0x7FF8000000000000, 0x7FF0000000000001, 0xFFF8000000000000, 0xFFFFFFFFFFFFFFFF,
		0x7FF0000000000000, 0xFFF0000000000000, 1, 0x000FFFFFFFFFFFFF, 0x8000000000000001,
		0x0010000000000000, 0x7FEFFFFFFFFFFFFF, 0xFFEFFFFFFFFFFFFF, 0x4000000000000000} {
		add("f64", f64(b))
	}
	for _, b := range []uint32{0, 1 << 31, 0x3F800000, 0xBF800000,
		0x7FC00000, 0x7FC00001, 0x7F800001, 0xFFC00000, 0xFFFFFFFF,
		0x7F800000, 0xFF800000, 1, 0x007FFFFF, 0x80000001, 0x00800000, 0x7F7FFFFF, 0xFF7FFFFF} {
		add("f32", f32(b))
	}
	for _, s := range []string{"", "a", "b", "ab", "a\x00", "\x00", "\xff", "\x01", le1x4, le1x8, "héllo", "\x7f\x80"} {
		add("string", str(s))
		add("binary", bin(s))
	}
	for _, s := range []string{"", "a", "boom", "\x01", le1x8} {
		add("error", errv(s))
	}
	// errors that WRAP another error of the pool (different Go error values, related by errors.Is /
	// Unwrap, with the same or a different message): Equal/Compare/Hash must go by the message only.
	// (added after the seeded change c14b – an errors.Is fast path in Error.Equal – slipped past)
	base := errors.New("boom")
	add("error", types.NewError(base))
	add("error", types.NewError(fmt.Errorf("ctx: %w", base)))
	add("error", types.NewError(fmt.Errorf("%w", base)))
	add("error", types.NewError(errors.Join(base)))
	add("error", types.NewError(wrapErr{base, "a"}))
	xs = append(xs, mk("binary", types.NewBinary(nil)))
	return xs
}

// containers is the catalogue of hand-picked containers (the shapes the statement names).
func containers() []item {
	var xs []item
	add := func(tag string, v types.Value) { xs = append(xs, mk(tag, v)) }
	i1, i64_1, u64_1 := types.NewInt(1), types.NewInt64(1), types.NewUint64(1)
	x, y := str("x"), str("y")
	nan1, nan2 := f64(0x7FF8000000000001), f64(0xFFF8000000000000)
	pz, nz := f64(0), f64(1<<63)

	add("slice", types.NewSlice())
	add("slice", types.NewSlice(nil))
	add("slice", types.NewSlice(nil, nil))
	add("slice", types.NewSlice(i1))
	add("slice", types.NewSlice(i64_1))
	add("slice", types.NewSlice(i1, types.NewInt(2)))
	add("slice", types.NewSlice(types.NewInt(2), i1))
	add("slice", types.NewSlice(types.NewSlice(i1)))
	add("slice", types.NewSlice(types.NewSlice()))
	add("slice:nan", types.NewSlice(nan1))
	add("slice:nan", types.NewSlice(nan2))
	add("slice:zero", types.NewSlice(pz))
	add("slice:zero", types.NewSlice(nz))

	add("map", types.NewMap())
	add("map:mutable", mutMap())
	add("map", types.NewMap(str("a"), i1))
	add("map:mutable", mutMap(str("a"), i1))
	add("map", types.NewMap(str("a"), types.NewInt(2)))
	add("map", types.NewMap(str("b"), i1)) // differs from {"a":1} only in the key
	add("map", types.NewMap(str("a"), i1, str("b"), i1))
	add("map:mutable", mutMap(str("b"), i1, str("a"), i1))
	// same-hash keys of different kinds; maps that differ only in such keys
	add("map:samehash", types.NewMap(i1, x))
	add("map:samehash", types.NewMap(i64_1, x))
	add("map:samehash", types.NewMap(u64_1, x))
	add("map:samehash", types.NewMap(str(le1x8), x))
	add("map:samehash", types.NewMap(bin(le1x8), x))
	add("map:samehash", types.NewMap(f64(1), x))
	add("map:collide", types.NewMap(i1, x, i64_1, y))
	add("map:collide", types.NewMap(i64_1, y, i1, x))
	add("map:collide", types.NewMap(i1, y, i64_1, x))
	add("map:collide", mutMap(i1, x, i64_1, y, u64_1, x))
	add("map:collide", types.NewMap(types.NewInt8(1), x, types.True, y, str("\x01"), x))
	// nil keys and values
	add("map:nil", types.NewMap(nil, nil))
	add("map:nil", types.NewMap(nil, x))
	add("map:nil", types.NewMap(x, nil))
	// same-hash keys of different kinds mapped to nil (Get cannot tell "absent" from "present with nil":
	// seeded change c14d compared maps through Get of the other map)
	add("map:samehash-nil", types.NewMap(i1, nil))
	add("map:samehash-nil", types.NewMap(i64_1, nil))
	add("map:samehash-nil", types.NewMap(u64_1, nil))
	add("map:samehash-nil", mutMap(u64_1, nil))
	add("map:samehash-nil", types.NewMap(types.NewInt8(1), nil))
	add("map:samehash-nil", types.NewMap(types.NewUint8(1), nil))
	add("map:samehash-nil", types.NewMap(str(""), nil))
	add("map:samehash-nil", types.NewMap(bin(""), nil))
	add("map:samehash-nil", types.NewMap(str(""), nil, str("a"), i1))
	add("map:samehash-nil", types.NewMap(bin(""), nil, str("a"), i1))
	add("map:samehash-nil", types.NewMap(str(le1x8), nil, str("a"), x))
	add("map:samehash-nil", types.NewMap(bin(le1x8), nil, str("a"), x))
	add("slice:nested", types.NewSlice(types.NewMap(types.NewInt8(1), nil)))
	add("slice:nested", types.NewSlice(types.NewMap(types.NewUint8(1), nil)))
	add("map:nested", types.NewMap(types.NewMap(i1, nil), x))
	add("map:nested", types.NewMap(types.NewMap(i64_1, nil), x))
	// floats inside maps
	add("map:nan", types.NewMap(str("k"), nan1))
	add("map:nan", types.NewMap(str("k"), nan2))
	add("map:nan", types.NewMap(nan1, x))
	add("map:nan", types.NewMap(nan2, x))
	add("map:zero", types.NewMap(pz, x))
	add("map:zero", types.NewMap(nz, x))
	add("map:zero", types.NewMap(str("k"), pz))
	add("map:zero", types.NewMap(str("k"), nz))
	// nesting, mutable views nested inside immutable containers
	add("map:nested", types.NewMap(str("m"), types.NewMap(str("a"), i1)))
	add("map:nested", types.NewMap(str("m"), mutMap(str("a"), i1)))
	add("map:nested", types.NewMap(str("m"), types.NewMap(str("b"), i1)))
	add("map:nested", types.NewMap(types.NewMap(str("a"), i1), x))
	add("map:nested", types.NewMap(mutMap(str("a"), i1), x))
	add("slice:nested", types.NewSlice(types.NewMap(str("a"), i1)))
	add("slice:nested", types.NewSlice(mutMap(str("a"), i1)))
	add("slice:nested", types.NewSlice(types.NewMap(str("b"), i1)))
	add("map:nested", types.NewMap(str("l"), types.NewSlice(i1, nil)))
	return xs
}

// core is in every pool: the values on which the laws are most delicate.
func core() []item {
	var xs []item
	add := func(tag string, v types.Value) { xs = append(xs, mk(tag, v)) }
	add("nil", nil)
	add("f64:zero", f64(0))
	add("f64:zero", f64(1<<63))
	add("f64:nan", f64(0x7FF8000000000001))
	add("f64:nan", f64(0xFFF0000000000123))
	add("f64", f64(0xFFF0000000000000))
	add("f32:zero", f32(0))
	add("f32:zero", f32(1<<31))
	add("f32:nan", f32(0x7FC00000))
	add("f32:nan", f32(0xFF800001))
	add("samehash", types.NewInt(1))
	add("samehash", types.NewInt64(1))
	add("samehash", types.NewUint64(1))
	add("samehash", str(le1x8))
	add("samehash", bin(le1x8))
	add("samehash", f64(1))
	add("map", types.NewMap(str("a"), types.NewInt(1)))
	add("map", types.NewMap(str("b"), types.NewInt(1)))
	add("map:mutable", mutMap(str("a"), types.NewInt(1)))
	// a slice that is the result of a growing Append (its backing array may have spare capacity) and a
	// sibling appended to it: a later Append on the shared parent must not reach into the sibling
	// (seeded change c14f made Append alias the parent's array)
	{
		grown := types.NewSlice(types.NewInt(1), types.NewInt(2), types.NewInt(3)).Append(types.NewInt(4))
		add("slice:grown", grown)
		add("slice:grown-sibling", grown.Append(str("e")))
		grown2 := types.NewSlice(str("a")).Append(str("b")).Append(str("c"))
		add("slice:grown", grown2)
		add("slice:grown-sibling", grown2.Append(types.NewSlice(types.NewInt(1))))
	}
	return xs
}

func randScalar(r *lib.RNG, sc []item) types.Value {
	if r.Chance(3, 4) {
		return lib.Pick(r, sc).v
	}
	switch r.Intn(8) {
	case 0:
		return types.NewInt(int(r.Uint64()))
	case 1:
		return types.NewInt16(int16(r.Uint64()))
	case 2:
		return types.NewUint32(uint32(r.Uint64()))
	case 3:
		return f64(r.Uint64())
	case 4:
		return f32(uint32(r.Uint64()))
	case 5:
		n := r.Intn(5)
		b := make([]byte, n)
		for i := range b {
			b[i] = byte(r.Intn(4)) + 'a'
		}
		return str(string(b))
	case 6:
		n := r.Intn(10)
		b := make([]byte, n)
		for i := range b {
			b[i] = byte(r.Uint64())
		}
		return bin(string(b))
	}
	return types.NewInt64(int64(r.Uint64()))
}

// smallKey draws from a small key alphabet so that random maps share keys and collide.
func smallKey(r *lib.RNG) types.Value {
	switch r.Intn(12) {
	case 0:
		return types.NewInt(1)
	case 1:
		return types.NewInt64(1)
	case 2:
		return types.NewUint64(1)
	case 3:
		return str(le1x8)
	case 4:
		return str("a")
	case 5:
		return str("b")
	case 6:
		return types.NewInt(2)
	case 7:
		return f64(0x7FF8000000000001)
	case 8:
		return f64(0)
	case 9:
		return f64(1 << 63)
	case 10:
		return nil
	}
	return str("c")
}

func randVal(r *lib.RNG, sc []item, depth int) types.Value {
	if depth <= 0 || r.Chance(2, 5) {
		return randScalar(r, sc)
	}
	if r.Bool() {
		n := r.Intn(4)
		es := make([]types.Value, n)
		for i := range es {
			es[i] = randVal(r, sc, depth-1)
		}
		return types.NewSlice(es...)
	}
	n := r.Intn(4)
	ps := make([]types.Value, 0, 2*n)
	for i := 0; i < n; i++ {
		var k types.Value
		if r.Chance(3, 4) {
			k = smallKey(r)
		} else {
			k = randVal(r, sc, depth-1)
		}
		if r.Chance(1, 6) {
			ps = append(ps, k, nil) // present with nil
		} else {
			ps = append(ps, k, randVal(r, sc, depth-1))
		}
	}
	if r.Chance(1, 3) {
		return mutMap(ps...)
	}
	return types.NewMap(ps...)
}

func tagOf(v types.Value) string {
	switch x := v.(type) {
	case nil:
		return "nil"
	case types.Map:
		if x.Mutable() == types.Value(x) {
			return "map:mutable"
		}
		return "map"
	case types.Slice:
		return "slice"
	}
	return fmt.Sprintf("kind%d", v.Kind())
}

func genPool(c *lib.Ctx, r *lib.RNG, size int) []item {
	sc, ct := scalars(), containers()
	var pool []item
	// a random half of the hand-picked containers, a random sample of scalars, random nestings,
	// and "near copies" (same content rebuilt, other view) of earlier pool members
	pool = append(pool, core()...)
	for _, it := range ct {
		if r.Chance(2, 5) {
			pool = append(pool, it)
		}
	}
	for len(pool) < size*2/3 {
		pool = append(pool, lib.Pick(r, sc))
	}
	for len(pool) < size {
		if r.Chance(1, 4) && len(pool) > 0 {
			src := lib.Pick(r, pool)
			if src.wire != "" {
				if cp, err := lib.DecodeValString(src.wire); err == nil {
					if m, ok := cp.(types.Map); ok && r.Bool() {
						cp = m.Mutable()
					}
					pool = append(pool, mk("copy", cp))
					continue
				}
			}
		}
		v := randVal(r, sc, 3)
		pool = append(pool, mk("rand:"+tagOf(v), v))
	}
	// LARGE values (tenth of the pools at quick, more at thorough, carry a family of them): maps of 17–70 pairs and
	// slices of 17–70 elements, each with a sibling that has one pair / element more and one that differs in the last
	// pair only, strings and binaries of 40–300 bytes – every other value of the pools has at most a handful of
	// parts (seeded change c14k: Map.Compare looked at the sizes first when the RECEIVER had more than 16 pairs)
	if r.Chance(1, 2) {
		n := lib.Pick(r, []int{17, 18, 24, 33, 40, 65, 70})
		var ps, es []types.Value
		for i := 0; i < n; i++ {
			var k types.Value
			switch r.Intn(3) {
			case 0:
				k = types.NewInt(i)
			case 1:
				k = str(fmt.Sprintf("k%02d", i))
			default:
				k = types.NewUint8(uint8(i))
			}
			ps = append(ps, k, randScalar(r, sc))
			es = append(es, randScalar(r, sc))
		}
		more := append(append([]types.Value{}, ps...), str("one-more"), types.NewInt(1))
		last := append([]types.Value{}, ps...)
		last[len(last)-1] = str("other-last")
		pool = append(pool, mk("big:map", types.NewMap(ps...)), mk("big:map+1", types.NewMap(more...)), mk("big:map-last", types.NewMap(last...)),
			mk("big:map:mutable", mutMap(ps...)), mk("big:slice", types.NewSlice(es...)), mk("big:slice+1", types.NewSlice(append(append([]types.Value{}, es...), types.NewInt(1))...)),
			mk("big:string", str(strings.Repeat("ab", 20+r.Intn(130)))), mk("big:binary", bin(strings.Repeat("\x00\xff", 20+r.Intn(130)))))
	}
	// two buffers: identity semantics, no wire form – oracle only
	pool = append(pool, mk("buffer", types.NewBuffer(bytes.NewReader([]byte("a")))), mk("buffer", types.NewBuffer(bytes.NewReader([]byte("a")))))
	for _, it := range pool {
		c.Hit("pool:" + it.tag)
	}
	return pool
}

type matrices struct {
	eq   [][]bool
	cmp  [][]int
	hash []uint64
	pan  string
}

func evaluate(pool []item) matrices {
	n := len(pool)
	m := matrices{eq: make([][]bool, n), cmp: make([][]int, n), hash: make([]uint64, n)}
	m.pan = lib.Safe(func() {
		for i := range pool {
			m.eq[i] = make([]bool, n)
			m.cmp[i] = make([]int, n)
			m.hash[i] = types.HashOf(pool[i].v)
			for j := range pool {
				m.eq[i][j] = types.Equal(pool[i].v, pool[j].v)
				m.cmp[i][j] = types.Compare(pool[i].v, pool[j].v)
			}
		}
	})
	return m
}

func show(it item) string {
	if it.wire == "" {
		return "<" + it.tag + ">"
	}
	return it.wire
}

// replayOf writes the witness values as corpus lines (`v <wire>` / `vm <wire>`).
func replayOf(its ...item) string {
	var b strings.Builder
	for _, it := range its {
		pfx := "v "
		if m, ok := it.v.(types.Map); ok && m.Mutable() == types.Value(m) {
			pfx = "vm "
		}
		b.WriteString(pfx + show(it) + "\n")
	}
	return b.String()
}

// laws checks the statement's laws on the implementation's own answers.
func laws(c *lib.Ctx, pool []item, m matrices) []lib.OracleFail {
	var fails []lib.OracleFail
	per := map[string]int{}
	fail := func(class, what string, its ...item) {
		per[class]++
		c.Hit("oracle-fail:" + class)
		if per[class] <= 2 {
			fails = append(fails, lib.OracleFail{Class: class, What: what, Replay: replayOf(its...)})
		}
	}
	if m.pan != "" {
		fail("panic", "Equal/Compare/Hash panicked: "+m.pan)
		return fails
	}
	n := len(pool)
	for i := 0; i < n; i++ {
		a := pool[i]
		if !m.eq[i][i] {
			fail("equal-refl", "Equal(a,a) = false for a = "+show(a), a)
		}
		for j := 0; j < n; j++ {
			b := pool[j]
			if m.eq[i][j] != m.eq[j][i] {
				fail("equal-symm", fmt.Sprintf("Equal(a,b)=%v but Equal(b,a)=%v; a = %s ; b = %s", m.eq[i][j], m.eq[j][i], show(a), show(b)), a, b)
			}
			if m.cmp[i][j] != -m.cmp[j][i] {
				fail("cmp-antisymm", fmt.Sprintf("Compare(a,b)=%d but Compare(b,a)=%d; a = %s ; b = %s", m.cmp[i][j], m.cmp[j][i], show(a), show(b)), a, b)
			}
			if m.eq[i][j] && m.cmp[i][j] != 0 {
				fail("equal-cmp-zero", fmt.Sprintf("Equal(a,b) but Compare(a,b)=%d; a = %s ; b = %s", m.cmp[i][j], show(a), show(b)), a, b)
			}
			if m.eq[i][j] && m.hash[i] != m.hash[j] {
				fail("equal-hash", fmt.Sprintf("Equal(a,b) but Hash(a)=%d, Hash(b)=%d; a = %s ; b = %s", m.hash[i], m.hash[j], show(a), show(b)), a, b)
			}
		}
	}
	for i := 0; i < n; i++ {
		for j := 0; j < n; j++ {
			if !m.eq[i][j] && m.cmp[i][j] > 0 {
				continue
			}
			for k := 0; k < n; k++ {
				if m.eq[i][j] && m.eq[j][k] && !m.eq[i][k] {
					fail("equal-trans", fmt.Sprintf("Equal(a,b), Equal(b,c), not Equal(a,c); a = %s ; b = %s ; c = %s", show(pool[i]), show(pool[j]), show(pool[k])), pool[i], pool[j], pool[k])
				}
				if m.cmp[i][j] <= 0 && m.cmp[j][k] <= 0 && m.cmp[i][k] > 0 {
					fail("cmp-trans", fmt.Sprintf("Compare(a,b)=%d, Compare(b,c)=%d but Compare(a,c)=%d; a = %s ; b = %s ; c = %s",
						m.cmp[i][j], m.cmp[j][k], m.cmp[i][k], show(pool[i]), show(pool[j]), show(pool[k])), pool[i], pool[j], pool[k])
				}
			}
		}
	}
	return fails
}

// derive builds and mutates other values from every pool member; the members themselves are
// only read. Returns a recovered panic, if any.
func derive(c *lib.Ctx, r *lib.RNG, pool []item) string {
	return lib.Safe(func() {
		for _, it := range pool {
			switch x := it.v.(type) {
			case types.Map:
				keys := x.Keys()
				fresh, val := str("fresh-key"), types.NewInt(r.Intn(1000)+7000)
				im := x.Immutable()
				d1 := im.Set(fresh, val)
				_ = d1.Hash()
				if len(keys) > 0 {
					k := lib.Pick(r, keys)
					d2 := im.Set(k, val) // overwrite an existing key in a derived map
					d3 := im.Delete(k)
					_, _ = d2.Hash(), d3.Len()
					mm := d1.Mutable()
					mm.Set(k, str("overwritten"))
					mm.Delete(k)
					c.Hit("derive:map-overwrite")
				}
				mm := d1.Mutable()
				mm.Set(fresh, str("again"))
				mm.Set(str("other"), val)
				mm.Clear()
				c.Hit("derive:map")
			case types.Slice:
				_ = x.Append(str("sibling-1"))
				_ = x.Append(str("sibling-2"), types.NewInt(3))
				_ = x.Prepend(str("front"))
				d := x.Append(types.NewInt(1)).Prepend(types.NewInt(2))
				if x.Len() > 0 {
					d = x.Set(0, str("changed"))
					_ = x.Sub(0, 1).Hash()
				}
				_ = d.Hash()
				c.Hit("derive:slice")
			}
		}
	})
}

func stability(c *lib.Ctx, pool []item, before, after matrices) []lib.OracleFail {
	var fails []lib.OracleFail
	if after.pan != "" {
		return []lib.OracleFail{{Class: "panic", What: "re-evaluation panicked: " + after.pan}}
	}
	for i := range pool {
		if before.hash[i] != after.hash[i] {
			fails = append(fails, lib.OracleFail{Class: "stability", What: fmt.Sprintf("Hash(a) changed from %d to %d after other values were derived from it; a was %s, now reads %s",
				before.hash[i], after.hash[i], show(pool[i]), lib.EncodeVal(pool[i].v)), Replay: replayOf(pool[i])})
			c.Hit("oracle-fail:stability")
			continue
		}
		for j := range pool {
			if before.eq[i][j] != after.eq[i][j] || before.cmp[i][j] != after.cmp[i][j] {
				fails = append(fails, lib.OracleFail{Class: "stability", What: fmt.Sprintf("Equal/Compare(a,b) changed from %v/%d to %v/%d after other values were derived; a = %s ; b = %s",
					before.eq[i][j], before.cmp[i][j], after.eq[i][j], after.cmp[i][j], show(pool[i]), show(pool[j])), Replay: replayOf(pool[i], pool[j])})
				c.Hit("oracle-fail:stability")
				break
			}
		}
		if len(fails) > 4 {
			break
		}
	}
	return fails
}

func b2s(b bool) string {
	if b {
		return "true"
	}
	return "false"
}

// emit writes the pool's correspondence lines: one case per pool member.
func emit(c *lib.Ctx, sc *lib.Script, pool []item, m matrices) {
	if m.pan != "" {
		return
	}
	for i, a := range pool {
		if a.wire == "" {
			continue
		}
		sc.Begin()
		sc.Op("val "+a.wire, a.wire)
		sc.Op("hash "+a.wire, fmt.Sprint(m.hash[i]))
		for j, b := range pool {
			if b.wire == "" {
				continue
			}
			sc.Op("eq "+a.wire+" "+b.wire, b2s(m.eq[i][j]))
			sc.Op("cmp "+a.wire+" "+b.wire, fmt.Sprint(m.cmp[i][j]))
			key := ""
			if i != j {
				key = a.wire + "|" + b.wire
			}
			c.Count(key)
			switch {
			case m.eq[i][j]:
				c.Hit("pair:equal")
			case m.cmp[i][j] == 0:
				c.Hit("pair:cmp0-not-equal")
			case types.KindOf(a.v) == types.KindOf(b.v):
				c.Hit("pair:same-kind-ordered")
			default:
				c.Hit("pair:cross-kind")
			}
		}
	}
}

func corpusPool(path string) ([]item, error) {
	var pool []item
	for _, ln := range lib.ReadLines(path) {
		f := strings.Fields(ln)
		if len(f) < 2 || (f[0] != "v" && f[0] != "vm") {
			return nil, fmt.Errorf("%s: bad corpus line %q", path, ln)
		}
		v, err := lib.DecodeValString(strings.Join(f[1:], " "))
		if err != nil {
			return nil, fmt.Errorf("%s: %v", path, err)
		}
		if f[0] == "vm" {
			m, ok := v.(types.Map)
			if !ok {
				return nil, fmt.Errorf("%s: vm needs a map: %q", path, ln)
			}
			v = m.Mutable()
		}
		pool = append(pool, mk("corpus", v))
	}
	return pool, nil
}

func Run(c *lib.Ctx) {
	r := lib.NewRNG(c.Seed).Fork() // Fork: NewRNG streams of neighbouring seeds are shifted copies of each other
	c.Rule = "a case is one ordered pair (a,b) of pool values on which eq and cmp are compared with the model (plus hash and the parser echo per value); non-trivial = a and b are different pool members; distinct by the wire encodings of the pair"
	c.Assumptions = []string{
		"amd64: Int/Uint are 64 bit and integers are hashed over their little-endian bytes",
		"Buffer values (io.Reader, identity semantics, hash = address) are outside the model; the oracle covers them",
		"hash/fnv and IEEE-754 comparison are re-implemented in the model (FNV-1a-64 on UInt64, float order on bit patterns); the correspondence run is what ties them to Go",
		"mutable and immutable views of a map are one model value: the model predicts the same answers for both and the run compares both views",
	}
	c.Trusted = []string{"harness/lib/valwire.go encoder (Map.Range order defines the model's pair layout)"}

	sc := &lib.Script{}
	var fails []lib.OracleFail
	run := func(pool []item, rr *lib.RNG) {
		before := evaluate(pool)
		fails = append(fails, laws(c, pool, before)...)
		if p := derive(c, rr, pool); p != "" {
			fails = append(fails, lib.OracleFail{Class: "panic", What: "deriving values panicked: " + p})
		}
		after := evaluate(pool)
		if before.pan == "" {
			fails = append(fails, stability(c, pool, before, after)...)
		}
		emit(c, sc, pool, before)
	}
	for _, f := range c.CorpusFiles() {
		pool, err := corpusPool(f)
		if err != nil {
			fails = append(fails, lib.OracleFail{Class: "corpus", What: err.Error()})
			continue
		}
		c.Hit("corpus-file")
		run(pool, r.Fork())
	}
	// one round over ALL hand-picked scalars at once (every boundary number of every width meets every
	// other one: seeded change c14e – Compare by int64 subtraction – only shows for MinInt64/MaxInt64
	// against values of the other sign, which a random sample of the scalars rarely puts together)
	{
		all := append(core(), scalars()...)
		c.Hit("pool:all-scalars")
		run(all, r.Fork())
	}
	rounds, size := c.Scale(8, 60), c.Scale(64, 80)
	for i := 0; i < rounds; i++ {
		rr := r.Fork()
		pool := genPool(c, rr, size)
		if i == 0 {
			for _, it := range pool[:4] {
				c.Sample(it.tag + ": " + show(it))
			}
		}
		run(pool, rr)
	}
	fails = append(fails, mutatedInPlace(c, r.Fork())...)
	fails = append(fails, rewrittenInPlace(c, r.Fork())...)
	fails = append(fails, derivedThenRewritten(c, lib.NewRNG(c.Seed*104729+7))...)
	fails = append(fails, nestedOfDocuments(c, r.Fork())...)
	ms, err := c.RunModel("c14", sc)
	if err != nil {
		ms = append(ms, lib.Mismatch{Op: "(model driver failed)", Model: err.Error()})
	}
	c.Conclude("types.Equal/Compare/HashOf ≈ Uniflow.Value.equal/cmp/hash", ms, fails)
}

// mutatedInPlace: the laws on a value that has been OBSERVED and then changed in place. A mutable map is hashed,
// compared and used as an element, then Set / Delete / Clear change it, and after every change it must obey the
// laws against a FRESH map with the same pairs: Equal both ways, Compare 0 both ways, equal hashes – alone and as
// an element of a slice and as a value of a map. (Seeded change c14i: mutableMap.Hash memoised, the memo reset
// at every bucket store but not where Delete removes a bucket: Equal values with different hashes, Equal not
// symmetric.) The pool rounds above never change a value after it was hashed.
func mutatedInPlace(c *lib.Ctx, r *lib.RNG) (fails []lib.OracleFail) {
	keys := []types.Value{str("a"), str("b"), str("c"), types.NewInt(1), types.NewBinary([]byte("a")), types.NewFloat64(0), types.NewUint8(1)}
	vals := []types.Value{types.NewInt(1), str("x"), nil, types.NewSlice(types.NewInt(1)), types.True}
	for round := 0; round < c.Scale(60, 600) && len(fails) < 3; round++ {
		m := types.NewMapWithSize(0)
		var trace []string
		for step := 0; step < r.Range(3, 12) && len(fails) < 3; step++ {
			if p := lib.Safe(func() {
				// observe first (what a later change must invalidate)
				switch r.Intn(4) {
				case 0:
					_ = m.Hash()
					trace = append(trace, "hash")
				case 1:
					_ = types.NewSlice(m).Hash()
					trace = append(trace, "hash-as-element")
				case 2:
					_ = types.Equal(types.NewMap(), m)
					trace = append(trace, "equal-as-argument")
				}
				k := lib.Pick(r, keys)
				switch r.Weighted([]int{5, 4, 1}) {
				case 0:
					m.Set(k, lib.Pick(r, vals))
					trace = append(trace, "set "+lib.EncodeVal(k))
				case 1:
					m.Delete(k)
					trace = append(trace, "delete "+lib.EncodeVal(k))
				default:
					m.Clear()
					trace = append(trace, "clear")
				}
			}); p != "" {
				fails = append(fails, lib.OracleFail{Class: "panic", What: "mutating a hashed map panicked: " + p, Replay: strings.Join(trace, "\n")})
				return
			}
			var pairs []types.Value
			for k, v := range m.Range() {
				pairs = append(pairs, k, v)
			}
			fresh := types.NewMap(pairs...)
			c.Evaluations++
			bad := func(what string) {
				c.Hit("oracle-fail:equal-hash")
				fails = append(fails, lib.OracleFail{Class: "equal-hash", What: fmt.Sprintf("a map changed in place after it had been observed, against a fresh map with the same pairs [%s]: %s", lib.EncodeVal(fresh), what), Replay: strings.Join(trace, "\n")})
			}
			switch {
			case !types.Equal(m, fresh) || !types.Equal(fresh, m):
				bad(fmt.Sprintf("Equal(m,fresh)=%v Equal(fresh,m)=%v", types.Equal(m, fresh), types.Equal(fresh, m)))
			case types.Compare(m, fresh) != 0 || types.Compare(fresh, m) != 0:
				bad(fmt.Sprintf("Compare = %d / %d", types.Compare(m, fresh), types.Compare(fresh, m)))
			case types.HashOf(m) != types.HashOf(fresh):
				bad(fmt.Sprintf("Equal but Hash %d != %d", types.HashOf(m), types.HashOf(fresh)))
			case types.HashOf(types.NewSlice(m)) != types.HashOf(types.NewSlice(fresh)) || !types.Equal(types.NewSlice(fresh), types.NewSlice(m)):
				bad("as the element of a slice: hashes or Equal differ")
			case types.NewMap(str("k"), m).Hash() != types.NewMap(str("k"), fresh).Hash():
				bad("as the value of a map: hashes differ")
			}
		}
		c.Hit("oracle-mutated-in-place")
	}
	return fails
}

// rewrittenInPlace: the laws on a value that has been OBSERVED and then re-written in place by one of its own
// unmarshalers – Binary.UnmarshalText / UnmarshalBinary, Slice.UnmarshalJSON, the immutable map's UnmarshalJSON,
// Error.UnmarshalText – with input that is ACCEPTED or REFUSED (corrupt base64 after a valid prefix, truncated
// JSON, JSON of the wrong shape). Whatever the call returned, the value must afterwards obey the laws against a
// FRESH value built from what it now reads: Equal both ways, Compare 0 both ways, equal hashes, alone and as an
// element. Nothing is demanded about WHAT it reads after a refusal (the property does not say), only that its
// hash and its contents agree. (Seeded change c14j: Binary.UnmarshalText stores the decoded prefix before it
// looks at the error and resets the memoised hash only on success – after a refused write the value holds new
// bytes under its old hash.)
func rewrittenInPlace(c *lib.Ctx, r *lib.RNG) (fails []lib.OracleFail) {
	texts := []string{"AAEC", "AAECAwQF", "", "YQ==", "AAEC!!!!", "AAECAw=", "!", "YWJj*GRl", "AAEC\n", "QUJD"}
	jsons := []string{`[1,"a",null]`, `[]`, `[[1],{"k":2}]`, `[1,`, `{"a":1}`, `"x"`, `{"a":1,"b":[1,2]}`, `{}`, `{"a":`, `[1] 2`, `null`, `{"a":{"b":{}}}`}
	mkTarget := func(kind int) (types.Value, func() types.Value) {
		switch kind {
		case 0:
			b := types.NewBinary([]byte{0, 1, 2, 3, 4, 5})
			return b, func() types.Value { return types.NewBinary(append([]byte{}, b.Bytes()...)) }
		case 1:
			s := types.NewSlice(types.NewInt(1), str("x"))
			return s, func() types.Value { return types.NewSlice(append([]types.Value{}, s.Values()...)...) }
		case 2:
			m := types.NewMap(str("a"), types.NewInt(1), str("z"), str("y"))
			return m, func() types.Value {
				var pairs []types.Value
				for k, v := range m.Range() {
					pairs = append(pairs, k, v)
				}
				return types.NewMap(pairs...)
			}
		default:
			e := types.NewError(errors.New("first"))
			return e, func() types.Value { return types.NewError(errors.New(e.Error())) }
		}
	}
	for round := 0; round < c.Scale(80, 800) && len(fails) < 3; round++ {
		kind := r.Intn(4)
		v, freshOf := mkTarget(kind)
		var trace []string
		for step := 0; step < r.Range(2, 6) && len(fails) < 3; step++ {
			var err error
			if p := lib.Safe(func() {
				switch r.Intn(4) {
				case 0:
					_ = v.Hash()
					trace = append(trace, "hash")
				case 1:
					_ = types.NewSlice(v).Hash()
					trace = append(trace, "hash-as-element")
				case 2:
					_ = types.Equal(freshOf(), v)
					trace = append(trace, "equal-as-argument")
				}
				switch x := v.(type) {
				case types.Binary:
					if r.Intn(4) == 0 {
						data := []byte(lib.Pick(r, texts))
						err = x.UnmarshalBinary(data)
						trace = append(trace, fmt.Sprintf("binary.UnmarshalBinary %q", data))
					} else {
						t := lib.Pick(r, texts)
						if r.Intn(3) == 0 {
							err = json.Unmarshal([]byte(`"`+strings.ReplaceAll(t, "\n", "\\n")+`"`), x)
							trace = append(trace, fmt.Sprintf("json.Unmarshal %q into the binary", t))
						} else {
							err = x.UnmarshalText([]byte(t))
							trace = append(trace, fmt.Sprintf("binary.UnmarshalText %q", t))
						}
					}
				case types.Slice:
					t := lib.Pick(r, jsons)
					err = x.UnmarshalJSON([]byte(t))
					trace = append(trace, "slice.UnmarshalJSON "+t)
				case types.Map:
					t := lib.Pick(r, jsons)
					err = json.Unmarshal([]byte(t), x)
					trace = append(trace, "map.UnmarshalJSON "+t)
				case types.Error:
					t := lib.Pick(r, texts)
					err = x.UnmarshalText([]byte(t))
					trace = append(trace, fmt.Sprintf("error.UnmarshalText %q", t))
				}
			}); p != "" {
				fails = append(fails, lib.OracleFail{Class: "panic", What: "re-writing an observed value in place panicked: " + p, Replay: strings.Join(trace, "\n")})
				return
			}
			if err != nil {
				trace[len(trace)-1] += "   -> refused: " + err.Error()
				c.Hit(fmt.Sprintf("rewrite:refused:kind%d", kind))
			} else {
				c.Hit(fmt.Sprintf("rewrite:accepted:kind%d", kind))
			}
			fresh := freshOf()
			c.Evaluations++
			bad := func(what string) {
				c.Hit("oracle-fail:equal-hash")
				fails = append(fails, lib.OracleFail{Class: "equal-hash", What: fmt.Sprintf("a value re-written in place after it had been observed, against a fresh value with the contents it now reads [%s]: %s", lib.EncodeVal(fresh), what), Replay: strings.Join(trace, "\n")})
			}
			switch {
			case !types.Equal(v, fresh) || !types.Equal(fresh, v):
				bad(fmt.Sprintf("Equal(v,fresh)=%v Equal(fresh,v)=%v", types.Equal(v, fresh), types.Equal(fresh, v)))
			case types.Compare(v, fresh) != 0 || types.Compare(fresh, v) != 0:
				bad(fmt.Sprintf("Compare = %d / %d", types.Compare(v, fresh), types.Compare(fresh, v)))
			case types.HashOf(v) != types.HashOf(fresh):
				bad(fmt.Sprintf("Equal but Hash %d != %d", types.HashOf(v), types.HashOf(fresh)))
			case types.HashOf(types.NewSlice(v)) != types.HashOf(types.NewSlice(fresh)) || !types.Equal(types.NewSlice(fresh), types.NewSlice(v)):
				bad("as the element of a slice: hashes or Equal differ")
			case types.NewMap(str("k"), v).Hash() != types.NewMap(str("k"), fresh).Hash():
				bad("as the value of a map: hashes differ")
			}
		}
		c.Hit("oracle-rewritten-in-place")
	}
	return fails
}

// derivedThenRewritten: a value that has been OBSERVED (hashed, compared with a twin) stays what it was when a
// value DERIVED from it – a slice's Sub / Append / Prepend / Set, a map's Set / Delete / Clear / Mutable /
// Immutable().Mutable() – is afterwards re-written in place by its own UnmarshalJSON (accepted or refused input,
// shorter than, as long as and longer than the derived value). After every such write the parent must obey the laws
// against the twin built before and against a fresh value of what it now reads. (Seeded change c14m: Slice.Sub
// returns a window of the parent's array, Slice.UnmarshalJSON decodes into the storage the slice already has – the
// parent changes under its memoised hash.)
func derivedThenRewritten(c *lib.Ctx, r *lib.RNG) (fails []lib.OracleFail) {
	jsonsS := []string{`["x"]`, `["x","y"]`, `[9,8,7]`, `[]`, `[1,2,3,4,5,6,7,8]`, `[1,`, `{"a":1}`, `[null]`}
	jsonsM := []string{`{"a":9}`, `{}`, `{"q":1,"r":2,"s":3}`, `{"a":`, `[1]`, `{"a":{"b":1}}`}
	for round := 0; round < c.Scale(120, 1200) && len(fails) < 3; round++ {
		var trace []string
		var parent, twin types.Value
		var fresh func() types.Value
		var rewrite func() error
		if r.Chance(2, 3) {
			n := r.Range(1, 6)
			var elems []types.Value
			for i := 0; i < n; i++ {
				elems = append(elems, lib.Pick(r, []types.Value{types.NewInt(i), str(fmt.Sprint("e", i)), types.NewSlice(types.NewInt(i)), types.NewMap(str("k"), types.NewInt(i))}))
			}
			p := types.NewSlice(append([]types.Value{}, elems...)...)
			parent, twin = p, types.NewSlice(append([]types.Value{}, elems...)...)
			fresh = func() types.Value { return types.NewSlice(append([]types.Value{}, p.Values()...)...) }
			var d types.Slice
			switch r.Intn(5) {
			case 0, 1:
				a := r.Intn(n)
				b := r.Range(a, n)
				d = p.Sub(a, b)
				trace = append(trace, fmt.Sprintf("d = p.Sub(%d,%d) of a slice of %d", a, b, n))
			case 2:
				d = p.Append(str("tail"))
				trace = append(trace, "d = p.Append(tail)")
			case 3:
				d = p.Prepend(str("head"))
				trace = append(trace, "d = p.Prepend(head)")
			default:
				i := r.Intn(n)
				d = p.Set(i, str("set"))
				trace = append(trace, fmt.Sprintf("d = p.Set(%d, set)", i))
			}
			rewrite = func() error {
				t := lib.Pick(r, jsonsS)
				trace = append(trace, "d.UnmarshalJSON "+t)
				return d.UnmarshalJSON([]byte(t))
			}
		} else {
			pairs := []types.Value{str("a"), types.NewInt(1), str("b"), types.NewSlice(types.NewInt(2)), str("c"), types.NewMap(str("x"), str("y"))}
			p := types.NewMap(pairs...)
			parent, twin = p, types.NewMap(pairs...)
			fresh = func() types.Value {
				var ps []types.Value
				for k, v := range p.Range() {
					ps = append(ps, k, v)
				}
				return types.NewMap(ps...)
			}
			var d types.Map
			switch r.Intn(6) {
			case 0:
				d = p.Set(str("a"), types.NewInt(7))
				trace = append(trace, "d = p.Set(a,7)")
			case 1:
				d = p.Set(str("n"), types.NewInt(7))
				trace = append(trace, "d = p.Set(n,7)")
			case 2:
				d = p.Delete(str("b"))
				trace = append(trace, "d = p.Delete(b)")
			case 3:
				d = p.Clear()
				trace = append(trace, "d = p.Clear()")
			case 4:
				d = p.Mutable()
				trace = append(trace, "d = p.Mutable()")
			default:
				d = p.Mutable().Set(str("m"), types.NewInt(1)).Immutable().Delete(str("m"))
				trace = append(trace, "d = p.Mutable().Set(m,1).Immutable().Delete(m)")
			}
			rewrite = func() error {
				t := lib.Pick(r, jsonsM)
				trace = append(trace, "json.Unmarshal "+t+" into d")
				return json.Unmarshal([]byte(t), d)
			}
		}
		// observe the parent
		h0 := types.HashOf(parent)
		if !types.Equal(parent, twin) || !types.Equal(twin, parent) || types.Compare(parent, twin) != 0 || h0 != types.HashOf(twin) {
			fails = append(fails, lib.OracleFail{Class: "equal-hash", What: "two values built from the same elements differ", Replay: strings.Join(trace, "\n")})
			return
		}
		for step := 0; step < r.Range(1, 3) && len(fails) < 3; step++ {
			var err error
			if p := lib.Safe(func() { err = rewrite() }); p != "" {
				fails = append(fails, lib.OracleFail{Class: "panic", What: "re-writing a derived value in place panicked: " + p, Replay: strings.Join(trace, "\n")})
				return
			}
			if err != nil {
				trace[len(trace)-1] += "   -> refused: " + err.Error()
			}
			c.Evaluations++
			f := fresh()
			bad := func(what string) {
				c.Hit("oracle-fail:derived-rewritten")
				fails = append(fails, lib.OracleFail{Class: "stability", What: fmt.Sprintf("an observed value after a value DERIVED from it was re-written in place; it was %s, it now reads %s: %s", lib.EncodeVal(twin), lib.EncodeVal(f), what), Replay: strings.Join(trace, "\n")})
			}
			switch {
			case !types.Equal(parent, twin) || !types.Equal(twin, parent):
				bad(fmt.Sprintf("Equal with its twin was true both ways, now %v / %v", types.Equal(parent, twin), types.Equal(twin, parent)))
			case types.Compare(parent, twin) != 0 || types.Compare(twin, parent) != 0:
				bad(fmt.Sprintf("Compare with its twin was 0, now %d / %d", types.Compare(parent, twin), types.Compare(twin, parent)))
			case types.HashOf(parent) != h0:
				bad("its hash changed")
			case !types.Equal(parent, f) || !types.Equal(f, parent) || types.HashOf(parent) != types.HashOf(f):
				bad("Equal / Hash against a fresh value of what it reads differ")
			}
		}
		c.Hit("oracle-derived-then-rewritten")
	}
	return fails
}

// nestedOfDocuments: a document built by types.Marshal from Go data (objects nested in objects, in lists, three levels)
// or read by a map's / slice's UnmarshalJSON is an immutable value ALL THE WAY DOWN: Set / Delete / Clear on a map
// found inside it (Get, Lookup) return new maps and leave the document as it was. After every such call the document
// must still obey the laws against a twin built before (Equal both ways, Compare 0, equal hashes) and read the same.
// The pools above build their maps with NewMap, which never yields a mutable map inside an immutable one. (Seeded
// change c14l: a fast path of Marshal returned objects nested directly in objects as the unfrozen builder; writing
// through them changed the enclosing document under its memoised hash.)
func nestedOfDocuments(c *lib.Ctx, r *lib.RNG) (fails []lib.OracleFail) {
	mkGo := func() map[string]any {
		return map[string]any{
			"name": "doc",
			"meta": map[string]any{"kind": "a", "labels": map[string]any{"x": "1", "y": "2"}, "n": float64(r.Intn(5))},
			"list": []any{map[string]any{"k": "v", "in": map[string]any{"z": true}}, "s"},
			"deep": map[string]any{"l1": map[string]any{"l2": map[string]any{"l3": "end"}}},
		}
	}
	paths := [][]string{{"meta"}, {"meta", "labels"}, {"deep"}, {"deep", "l1"}, {"deep", "l1", "l2"}}
	for round := 0; round < c.Scale(40, 400) && len(fails) < 3; round++ {
		var doc, twin types.Value
		var how string
		g := mkGo()
		switch r.Intn(3) {
		case 0:
			doc, _ = types.Marshal(g)
			twin, _ = types.Marshal(g)
			how = "types.Marshal(map[string]any{…})"
		case 1:
			text, _ := json.Marshal(g)
			m1, m2 := types.NewMap(), types.NewMap()
			_ = json.Unmarshal(text, m1)
			_ = json.Unmarshal(text, m2)
			doc, twin, how = m1, m2, "json.Unmarshal(text, types.NewMap())"
		default:
			text, _ := json.Marshal([]any{g, g["meta"]})
			s1, s2 := types.NewSlice(), types.NewSlice()
			_ = s1.UnmarshalJSON(text)
			_ = s2.UnmarshalJSON(text)
			doc, twin, how = s1, s2, "Slice.UnmarshalJSON(text)"
		}
		if doc == nil || twin == nil {
			continue
		}
		_ = doc.Hash() // observe first
		before := lib.EncodeVal(doc)
		var trace []string
		for step := 0; step < r.Range(1, 4) && len(fails) < 3; step++ {
			path := lib.Pick(r, paths)
			var cur types.Value = doc
			if sl, ok := cur.(types.Slice); ok {
				cur = sl.Get(0)
			}
			for _, k := range path {
				m, ok := cur.(types.Map)
				if !ok {
					cur = nil
					break
				}
				cur = m.Get(types.NewString(k))
			}
			m, ok := cur.(types.Map)
			if !ok {
				continue
			}
			if p := lib.Safe(func() {
				switch r.Intn(3) {
				case 0:
					_ = m.Set(types.NewString("kind"), types.NewString("changed"))
					trace = append(trace, "Get("+strings.Join(path, ".")+").Set(kind, changed)")
				case 1:
					for k := range m.Range() {
						_ = m.Delete(k)
						trace = append(trace, "Get("+strings.Join(path, ".")+").Delete("+lib.EncodeVal(k)+")")
						break
					}
				default:
					_ = m.Clear()
					trace = append(trace, "Get("+strings.Join(path, ".")+").Clear()")
				}
			}); p != "" {
				fails = append(fails, lib.OracleFail{Class: "panic", What: "writing to a map found inside a document panicked: " + p, Replay: how + "\n" + strings.Join(trace, "\n")})
				return
			}
			c.Evaluations++
			bad := func(what string) {
				c.Hit("oracle-fail:stability")
				fails = append(fails, lib.OracleFail{Class: "stability", What: fmt.Sprintf("a document built by %s changed although only maps FOUND INSIDE it were asked for a changed copy: %s", how, what), Replay: how + "\n" + strings.Join(trace, "\n")})
			}
			switch {
			case lib.EncodeVal(doc) != before:
				bad("it reads " + lib.EncodeVal(doc) + ", it was " + before)
			case !types.Equal(doc, twin) || !types.Equal(twin, doc):
				bad(fmt.Sprintf("Equal(doc,twin)=%v Equal(twin,doc)=%v", types.Equal(doc, twin), types.Equal(twin, doc)))
			case types.Compare(doc, twin) != 0 || types.Compare(twin, doc) != 0:
				bad(fmt.Sprintf("Compare = %d / %d", types.Compare(doc, twin), types.Compare(twin, doc)))
			case types.HashOf(doc) != types.HashOf(twin):
				bad("hashes differ from the twin's")
			}
		}
		c.Hit("oracle-nested-of-documents")
	}
	return fails
}
