// Command c20stress is the implementation half of property C20: contention workloads on ONE
// shared instance of each object the engine shares between goroutines, meant to be built with
// `-race -tags verif` and run by harness/c20 as a subprocess.
//
//	c20stress -seed N -dur <seconds per object> -procs P [-only <object>] [-bound <seconds>]
//
// stdout: one line per finding
//
//	FINDING kind=<panic|deadlock|snapshot-changed> object=<name> detail=<one line>
//
// and one `RUN object=… procs=… seed=… ops=… secs=…` line per workload. Data races are reported
// by the race runtime on stderr (GORACE="halt_on_error=0"); the harness parses those blocks.
// Markers `### OBJECT <name>` on stderr say which workload was running. Every random choice
// derives from -seed (the interleaving itself is the scheduler's).
package main

import (
	"bytes"
	"flag"
	"fmt"
	"os"
	"regexp"
	"runtime"
	"sort"
	"strings"
	"sync"
	"sync/atomic"
	"time"

	"verifharness/lib"
)

type workload struct {
	name string
	run  func(e *env)
}

var workloads = []workload{
	{"symbol.Table", tableWorkload},
	{"store.Store", storeWorkload},
	{"process.Process", processWorkload},
	{"process.Local", localWorkload},
	{"port.Port", portWorkload},
	{"packet.Writer", writerWorkload},
	{"packet.Tracer", tracerWorkload},
	{"runtime.Agent", agentWorkload},
	{"types.Map", mapWorkload},
	{"types.MapColliding", collideWorkload},
	{"types.Codec", codecWorkload},
	{"encoding.Group", groupWorkload},
}

// ------------------------------------------------------------------ framework

type opRec struct {
	name  string
	start time.Time
	note  *atomic.Pointer[string] // what the workload knows about the situation the operation is in (set later, by others)
}

type worker struct {
	e    *env
	id   int
	role string
	rng  *lib.RNG
	gid  string
	cur  atomic.Pointer[opRec]
}

type env struct {
	name     string
	seed     int64
	procs    int
	rng      *lib.RNG
	start    time.Time
	deadline time.Time
	bound    time.Duration
	stop     atomic.Bool
	ops      atomic.Int64

	mu       sync.Mutex
	workers  []*worker
	wg       sync.WaitGroup // active workers (loop until the deadline)
	bg       sync.WaitGroup // background goroutines (consumers; end at teardown)
	done     chan struct{}  // closed when the workload function has returned
	main     *worker
	timeouts atomic.Int64 // answers not received in time (not a C20 matter; reported for information)
	seen     map[string]int
	findings int
}

var outMu sync.Mutex

func emit(format string, a ...any) {
	outMu.Lock()
	defer outMu.Unlock()
	fmt.Fprintf(os.Stdout, format+"\n", a...)
}

func oneLine(s string) string {
	s = strings.ReplaceAll(s, "\n", " ")
	s = strings.ReplaceAll(s, "\t", " ")
	if len(s) > 600 {
		s = s[:600] + "…"
	}
	return s
}

func (e *env) finding(kind, detail string) {
	detail = oneLine(detail)
	e.mu.Lock()
	key := kind + "|" + detail
	if e.seen == nil {
		e.seen = map[string]int{}
	}
	e.seen[key]++
	first := e.seen[key] == 1
	if first {
		e.findings++
	}
	e.mu.Unlock()
	if first {
		emit("FINDING kind=%s object=%s detail=%s", kind, e.name, detail)
	}
}

// running is the workers' loop condition.
func (e *env) running() bool {
	return !e.stop.Load() && time.Now().Before(e.deadline)
}

// frac is the elapsed fraction of the workload's time budget.
func (e *env) frac() float64 {
	return float64(time.Since(e.start)) / float64(e.deadline.Sub(e.start))
}

var gidRe = regexp.MustCompile(`^goroutine (\d+) `)

func curGID() string {
	buf := make([]byte, 64)
	buf = buf[:runtime.Stack(buf, false)]
	if m := gidRe.FindSubmatch(buf); m != nil {
		return string(m[1])
	}
	return "?"
}

// spawn starts n active workers running body; each has its own generator derived from the seed.
func (e *env) spawn(n int, role string, body func(w *worker)) { e.start_(&e.wg, n, role, body) }

// background starts n helper goroutines (packet consumers and the like) that end when their
// channel closes or e.done is closed; they may be started by a running worker.
func (e *env) background(n int, role string, body func(w *worker)) { e.start_(&e.bg, n, role, body) }

func (e *env) start_(wg *sync.WaitGroup, n int, role string, body func(w *worker)) {
	for i := 0; i < n; i++ {
		e.mu.Lock()
		w := &worker{e: e, role: role, rng: e.rng.Fork()}
		w.id = len(e.workers)
		e.workers = append(e.workers, w)
		e.mu.Unlock()
		wg.Add(1)
		go func() {
			defer wg.Done()
			w.gid = curGID()
			defer func() {
				if r := recover(); r != nil {
					e.finding("panic", fmt.Sprintf("op=%s/loop value=%v | %s", role, r, uniflowFrames(stackHere(), 6)))
				}
			}()
			body(w)
		}()
	}
}

func stackHere() string {
	buf := make([]byte, 1<<16)
	return string(buf[:runtime.Stack(buf, false)])
}

const modPrefix = "github.com/siyul-park/uniflow/"

// uniflowFrames lists the functions of uniflow frames of one goroutine's stack text, innermost
// first (no line numbers: they go into classes).
func uniflowFrames(stack string, max int) string {
	var fs []string
	for _, ln := range strings.Split(stack, "\n") {
		if strings.HasPrefix(ln, "\t") || !strings.HasPrefix(ln, modPrefix) {
			continue
		}
		f := strings.TrimPrefix(ln, modPrefix)
		if i := strings.LastIndex(f, "("); i > 0 {
			f = f[:i]
		}
		f = strings.TrimPrefix(f, "pkg/")
		fs = append(fs, f)
		if len(fs) >= max {
			break
		}
	}
	if len(fs) == 0 {
		return "(no uniflow frame)"
	}
	return strings.Join(fs, " < ")
}

// do runs one operation on the shared object: counted, watched by the watchdog, panics
// recovered and reported.
func (w *worker) do(name string, f func()) { w.doNote(name, nil, f) }

// doNote is do with a note other goroutines fill in while the operation is in flight; the
// watchdog quotes it when the operation never returns.
func (w *worker) doNote(name string, note *atomic.Pointer[string], f func()) {
	w.cur.Store(&opRec{name: name, start: time.Now(), note: note})
	defer func() {
		w.cur.Store(nil)
		w.e.ops.Add(1)
		if r := recover(); r != nil {
			w.e.finding("panic", fmt.Sprintf("op=%s value=%v | %s", name, r, uniflowFrames(stackHere(), 6)))
		}
	}()
	f()
}

// quiet runs helper code that is not an operation on the shared object (not counted, not
// watched) but must not kill the worker.
func (w *worker) quiet(f func()) {
	defer func() {
		if r := recover(); r != nil {
			w.e.finding("panic", fmt.Sprintf("op=%s/helper value=%v | %s", w.role, r, uniflowFrames(stackHere(), 6)))
		}
	}()
	f()
}

// watchdog reports an operation that has not returned within the bound as a deadlock suspect,
// dumps the goroutines that are inside uniflow code and ends the process (nothing after a real
// deadlock can be trusted, and the workers cannot be stopped).
func (e *env) watchdog(done <-chan struct{}) {
	t := time.NewTicker(200 * time.Millisecond)
	defer t.Stop()
	for {
		select {
		case <-done:
			return
		case <-t.C:
		}
		e.mu.Lock()
		ws := append([]*worker(nil), e.workers...)
		e.mu.Unlock()
		for _, w := range ws {
			r := w.cur.Load()
			if r == nil || time.Since(r.start) < e.bound {
				continue
			}
			buf := make([]byte, 8<<20)
			buf = buf[:runtime.Stack(buf, true)]
			blocks := strings.Split(string(buf), "\n\n")
			var mine string
			var dump bytes.Buffer
			for _, b := range blocks {
				if strings.HasPrefix(b, "goroutine "+w.gid+" ") {
					mine = b
				}
				if strings.Contains(b, modPrefix) {
					dump.WriteString(filterBlock(b))
					dump.WriteString("\n")
				}
			}
			// every blocked operation, not only the first one found
			var blocked []string
			for _, w2 := range ws {
				if r2 := w2.cur.Load(); r2 != nil && time.Since(r2.start) >= e.bound/2 {
					blocked = append(blocked, r2.name)
				}
			}
			sort.Strings(blocked)
			note := ""
			if r.note != nil {
				if n := r.note.Load(); n != nil {
					note = " [" + *n + "]"
				}
			}
			e.finding("deadlock", fmt.Sprintf("op=%s blocked>%ds%s (also blocked: %s) | %s", r.name, int(e.bound.Seconds()), note,
				strings.Join(dedup(blocked), ","), uniflowFrames(mine, 8)))
			outMu.Lock()
			fmt.Fprintf(os.Stderr, "### GOROUTINE DUMP BEGIN object=%s op=%s\n%s### GOROUTINE DUMP END\n", e.name, r.name, dump.String())
			emitRunLocked(e)
			os.Stdout.Sync()
			os.Exit(3)
		}
	}
}

func dedup(xs []string) []string {
	var out []string
	for i, x := range xs {
		if i == 0 || xs[i-1] != x {
			out = append(out, x)
		}
	}
	return out
}

// filterBlock keeps the header of a goroutine block and its uniflow / stress-program frames.
func filterBlock(b string) string {
	lines := strings.Split(b, "\n")
	var out []string
	for i := 0; i < len(lines) && len(out) < 40; i++ {
		ln := lines[i]
		if i == 0 {
			out = append(out, ln)
			continue
		}
		if strings.HasPrefix(ln, modPrefix) || strings.HasPrefix(ln, "main.") || strings.HasPrefix(ln, "sync.") {
			out = append(out, "  "+ln)
			if i+1 < len(lines) && strings.HasPrefix(lines[i+1], "\t") {
				out = append(out, "    "+strings.TrimSpace(lines[i+1]))
				i++
			}
		}
	}
	return strings.Join(out, "\n") + "\n"
}

func emitRunLocked(e *env) {
	fmt.Fprintf(os.Stdout, "RUN object=%s procs=%d seed=%d ops=%d secs=%.2f findings=%d unanswered=%d\n", e.name, e.procs, e.seed, e.ops.Load(),
		time.Since(e.start).Seconds(), e.findings, e.timeouts.Load())
}

// waitActive blocks until the time budget is over and every active worker has returned (the
// watchdog still watches operations in flight).
func (e *env) waitActive() {
	if d := time.Until(e.deadline); d > 0 {
		time.Sleep(d)
	}
	e.stop.Store(true)
	e.wg.Wait()
}

// within runs f in its own goroutine and waits at most d for it; used for *waiting on results*
// (answers to packets), which other properties (C01–C03) speak about, not C20: a missing answer
// is not reported here.
func within(d time.Duration, ch <-chan struct{}) bool {
	t := time.NewTimer(d)
	defer t.Stop()
	select {
	case <-ch:
		return true
	case <-t.C:
		return false
	}
}

func runOne(wl workload, seed int64, procs int, dur, bound time.Duration) int {
	fmt.Fprintf(os.Stderr, "### OBJECT %s\n", wl.name)
	e := &env{name: wl.name, seed: seed, procs: procs, rng: lib.NewRNG(seed*1000003 + int64(len(wl.name))*7919 + int64(procs)),
		start: time.Now(), bound: bound, done: make(chan struct{})}
	e.deadline = e.start.Add(dur)
	done := make(chan struct{})
	go e.watchdog(done)
	// the workload function itself runs as a watched worker so that a blocking setup/teardown
	// call is seen by the watchdog as well
	main := &worker{e: e, role: "main", rng: e.rng.Fork(), gid: curGID()}
	e.mu.Lock()
	e.workers = append(e.workers, main)
	e.main = main
	e.mu.Unlock()
	func() {
		defer func() {
			if r := recover(); r != nil {
				e.finding("panic", fmt.Sprintf("op=main value=%v | %s", r, uniflowFrames(stackHere(), 6)))
			}
		}()
		wl.run(e)
	}()
	e.stop.Store(true)
	e.wg.Wait()
	close(e.done)
	bgDone := make(chan struct{})
	go func() { e.bg.Wait(); close(bgDone) }()
	if !within(bound, bgDone) {
		e.finding("deadlock", "op=teardown background goroutines of the workload did not end (stress program or engine)")
	}
	close(done)
	outMu.Lock()
	emitRunLocked(e)
	outMu.Unlock()
	fmt.Fprintf(os.Stderr, "### END %s\n", wl.name)
	return e.findings
}

func main() {
	seed := flag.Int64("seed", 1, "seed of every random choice")
	dur := flag.Float64("dur", 1, "seconds per object workload")
	procs := flag.Int("procs", 4, "GOMAXPROCS")
	only := flag.String("only", "", "run only this object")
	bound := flag.Float64("bound", 20, "seconds after which an operation that has not returned is a deadlock suspect")
	list := flag.Bool("list", false, "list the object names")
	flag.Parse()
	if *list {
		for _, w := range workloads {
			fmt.Println(w.name)
		}
		return
	}
	runtime.GOMAXPROCS(*procs)
	total := 0
	ran := 0
	for _, wl := range workloads {
		if *only != "" && wl.name != *only {
			continue
		}
		ran++
		total += runOne(wl, *seed, *procs, time.Duration(*dur*float64(time.Second)), time.Duration(*bound*float64(time.Second)))
	}
	if ran == 0 {
		fmt.Fprintf(os.Stderr, "unknown object %q\n", *only)
		os.Exit(2)
	}
	os.Stdout.Sync()
	if total > 0 {
		os.Exit(1)
	}
}
