package main

import (
	"context"
	"encoding/json"
	"errors"
	"fmt"
	"math"
	"reflect"
	goruntime "runtime"
	"strings"
	"sync/atomic"
	"time"
	"unsafe"

	"github.com/siyul-park/uniflow/pkg/encoding"
	"github.com/siyul-park/uniflow/pkg/store"
	"github.com/siyul-park/uniflow/pkg/types"

	"verifharness/lib"
)

// ------------------------------------------------------------------ store (+ streams)

func storeWorkload(e *env) {
	s := store.New()
	ctx := context.Background()
	const K = 48
	keys := make([]string, K)
	for i := range keys {
		keys[i] = uuidFrom(e.rng).String()
	}
	doc := func(r *lib.RNG) map[string]any {
		return map[string]any{"id": keys[r.Intn(K)], "a": r.Intn(20), "b": fmt.Sprintf("b%d", r.Intn(5)), "c": r.Bool()}
	}
	filter := func(r *lib.RNG) any {
		switch r.Intn(6) {
		case 0:
			return nil
		case 1:
			return map[string]any{"id": keys[r.Intn(K)]}
		case 2:
			return map[string]any{"a": map[string]any{"$gt": r.Intn(20)}}
		case 3:
			lo := r.Intn(20)
			return map[string]any{"a": map[string]any{"$gte": lo, "$lt": lo + r.Range(1, 6)}}
		case 4:
			return map[string]any{"b": fmt.Sprintf("b%d", r.Intn(5))}
		default:
			return map[string]any{"$and": []any{map[string]any{"b": fmt.Sprintf("b%d", r.Intn(5))}, map[string]any{"a": map[string]any{"$lte": r.Intn(20)}}}}
		}
	}
	indexKeys := [][]string{{"a"}, {"b"}, {"b", "a"}, {"c"}}
	e.spawn(8, "store", func(w *worker) {
		for e.running() {
			switch w.rng.Weighted([]int{24, 14, 10, 26, 5, 4}) {
			case 0:
				n := w.rng.Range(1, 3)
				docs := make([]any, n)
				for i := range docs {
					docs[i] = doc(w.rng)
				}
				w.do("Store.Insert", func() { _ = s.Insert(ctx, docs) })
			case 1:
				f := filter(w.rng)
				u := map[string]any{"$set": map[string]any{"a": w.rng.Intn(20), "b": fmt.Sprintf("b%d", w.rng.Intn(5))}}
				up := w.rng.Chance(1, 4)
				if up {
					f = map[string]any{"id": keys[w.rng.Intn(K)]}
				}
				w.do("Store.Update", func() { _, _ = s.Update(ctx, f, u, store.UpdateOptions{Upsert: up}) })
			case 2:
				f := filter(w.rng)
				if f == nil && !w.rng.Chance(1, 10) {
					f = map[string]any{"id": keys[w.rng.Intn(K)]}
				}
				w.do("Store.Delete", func() { _, _ = s.Delete(ctx, f) })
			case 3:
				f := filter(w.rng)
				var opt store.FindOptions
				if w.rng.Bool() {
					opt.Limit = w.rng.Intn(8)
					opt.Skip = w.rng.Intn(4)
				}
				if w.rng.Bool() {
					opt.Sort = map[string]any{"a": 1 - 2*w.rng.Intn(2)}
				}
				var cur store.Cursor
				w.do("Store.Find", func() { cur, _ = s.Find(ctx, f, opt) })
				if cur != nil {
					w.quiet(func() {
						if w.rng.Bool() {
							var out []map[string]any
							_ = cur.All(ctx, &out)
						} else {
							for cur.Next(ctx) {
								var d map[string]any
								_ = cur.Decode(&d)
							}
						}
						_ = cur.Close(ctx)
					})
				}
			case 4:
				ks := indexKeys[w.rng.Intn(len(indexKeys))]
				var opts []store.IndexOptions
				if w.rng.Chance(1, 3) {
					opts = append(opts, store.IndexOptions{Filter: map[string]any{"c": true}})
				}
				w.do("Store.Index", func() { _ = s.Index(ctx, ks, opts...) })
			case 5:
				ks := indexKeys[w.rng.Intn(len(indexKeys))]
				w.do("Store.Unindex", func() { _ = s.Unindex(ctx, ks) })
			}
		}
	})
	// watchers: every stream has ONE consumer (this worker); Close and the context's cancel may
	// come from another goroutine (the store itself closes the stream from a goroutine when the
	// context ends)
	var events atomic.Int64
	e.spawn(3, "watcher", func(w *worker) {
		for e.running() {
			wctx, cancel := context.WithCancel(ctx)
			var strm store.Stream
			f := filter(w.rng)
			w.do("Store.Watch", func() { strm, _ = s.Watch(wctx, f) })
			if strm == nil {
				cancel()
				continue
			}
			n := w.rng.Range(1, 30)
			mode := w.rng.Intn(3)
			stopper := make(chan struct{})
			delay := time.Duration(w.rng.Range(1, 40)) * time.Millisecond
			go func() {
				select {
				case <-time.After(delay):
				case <-stopper:
				}
				if mode == 0 {
					cancel()
				} else if mode == 1 {
					_ = strm.Close(ctx)
				}
			}()
			for i := 0; i < n; i++ {
				nctx, ncancel := context.WithTimeout(ctx, 20*time.Millisecond)
				var ok bool
				w.do("Stream.Next", func() { ok = strm.Next(nctx) })
				ncancel()
				if !ok {
					if nctx.Err() == nil {
						break // closed
					}
					continue
				}
				events.Add(1)
				w.do("Stream.Decode", func() {
					if w.rng.Bool() {
						var ev store.Event
						_ = strm.Decode(&ev)
					} else {
						var ev map[string]any
						_ = strm.Decode(&ev)
					}
				})
			}
			close(stopper)
			w.do("Stream.Close", func() { _ = strm.Close(ctx) })
			cancel()
		}
	})
	e.waitActive()
}

// ------------------------------------------------------------------ types.Map

func bigMap(r *lib.RNG) (types.Map, []types.Value) {
	var pairs []types.Value
	var keys []types.Value
	for i := 0; i < 40; i++ {
		var k types.Value
		if i%3 == 0 {
			k = types.NewInt(i)
		} else {
			k = types.NewString(fmt.Sprintf("k%d", i))
		}
		var v types.Value
		switch i % 6 {
		case 0:
			v = types.NewString(fmt.Sprintf("v%d", r.Intn(100)))
		case 1:
			v = types.NewInt(r.Intn(100))
		case 2:
			v = types.NewMap(types.NewString("x"), types.NewInt(r.Intn(9)), types.NewString("y"), types.NewSlice(types.NewInt(1), types.NewString("z")))
		case 3:
			v = types.NewSlice(types.NewInt(r.Intn(9)), types.NewBinary([]byte{1, 2, 3}), types.NewMap(types.NewString("q"), types.NewBoolean(true)))
		case 4:
			v = types.NewBinary([]byte(fmt.Sprintf("bin%d", r.Intn(100))))
		default:
			v = types.NewFloat64(float64(r.Intn(1000)) / 8)
		}
		keys = append(keys, k)
		pairs = append(pairs, k, v)
	}
	return types.NewMap(pairs...), keys
}

func mapWorkload(e *env) {
	fork := e.rng.Fork()
	cp := *fork
	m, keys := bigMap(fork)
	m2, _ := bigMap(&cp) // an equal map built separately
	other := types.NewMap(types.NewString("k1"), types.NewInt(1))
	e.spawn(8, "map", func(w *worker) {
		for e.running() {
			k := keys[w.rng.Intn(len(keys))]
			switch w.rng.Intn(16) {
			case 0:
				w.do("Map.Get", func() { _ = m.Get(k) })
			case 1:
				w.do("Map.Has", func() { _ = m.Has(k); _ = m.Has(types.NewString("absent")) })
			case 2:
				w.do("Map.Hash", func() { _ = m.Hash(); _ = types.HashOf(m) })
			case 3:
				w.do("Map.Equal", func() { _ = m.Equal(m2); _ = types.Equal(m2, m); _ = m.Equal(other) })
			case 4:
				w.do("Map.Compare", func() { _ = m.Compare(m2); _ = types.Compare(m, other) })
			case 5:
				w.do("Map.Len/Keys/Values/Pairs", func() {
					n := m.Len()
					ks, vs, ps := m.Keys(), m.Values(), m.Pairs()
					if len(ks) != n || len(vs) != n || len(ps) != 2*n {
						panic("Map.Keys/Values/Pairs disagree with Len")
					}
					for _, xs := range [][]types.Value{ks, vs, ps} { // every element is read
						for _, x := range xs {
							_ = types.HashOf(x)
						}
					}
				})
			case 6:
				w.do("Map.Range", func() {
					for kk, v := range m.Range() {
						_ = types.HashOf(kk)
						_ = types.HashOf(v)
					}
				})
			case 7:
				w.do("Map.Set(overwrite)", func() {
					d := m.Set(k, types.NewInt(w.rng.Intn(100)))
					_ = d.Get(k)
					_ = d.Hash()
				})
			case 8:
				w.do("Map.Set(new)", func() {
					d := m.Set(types.NewString(fmt.Sprintf("new%d", w.rng.Intn(100))), types.NewInt(1))
					_ = d.Len()
				})
			case 9:
				w.do("Map.Delete", func() {
					d := m.Delete(k)
					_ = d.Has(k)
					_ = d.Hash()
				})
			case 10:
				w.do("Map.Mutable", func() {
					d := m.Mutable()
					d.Set(k, types.NewString("mut"))
					d.Delete(keys[w.rng.Intn(len(keys))])
					d.Set(types.NewString("fresh"), types.NewInt(2))
					_ = d.Immutable().Hash()
				})
			case 11:
				w.do("Map.MarshalJSON", func() { _, _ = m.MarshalJSON(); _, _ = json.Marshal(m) })
			case 12:
				w.do("Map.Interface/Map", func() { _ = m.Interface(); _ = m.Map() })
			case 13:
				w.do("types.Unmarshal(Map)", func() {
					var out map[any]any
					_ = types.Unmarshal(m, &out)
				})
			case 14:
				w.do("Map.Clear/Immutable/Kind", func() { _ = m.Clear(); _ = m.Immutable(); _ = m.Kind() })
				// a mutable map is owned by one goroutine (this one): the whole interface once,
				// next to the readers of the map it was derived from
				w.do("mutableMap.*", func() {
					d := m.Mutable()
					d.Set(k, types.NewString("own"))
					_, _, _, _ = d.Has(k), d.Get(k), d.Len(), d.Kind()
					_, _, _ = d.Keys(), d.Values(), d.Pairs()
					for kk, v := range d.Range() {
						_, _ = kk, v
					}
					_, _, _ = d.Hash(), d.Interface(), d.Map()
					_, _ = d.Equal(m), d.Compare(m)
					_ = d.Mutable()
					if b, err := d.MarshalJSON(); err == nil {
						f := types.NewMap().Mutable()
						_ = f.UnmarshalJSON(b)
						g := types.NewMap() // a fresh immutable map, not yet shared
						_ = g.UnmarshalJSON(b)
						_ = g.Len()
					}
					d.Delete(k)
					d.Clear()
				})
			case 15:
				w.do("Value hash caches", func() {
					for _, v := range m.Values() {
						_ = v.Hash()
					}
				})
			}
		}
	})
	e.waitActive()
}

// ------------------------------------------------------------------ types.Map with colliding keys

// collidingKeys returns distinct keys of different kinds whose 64-bit hashes are equal: the
// scalar hashes are FNV over the raw bytes and ignore the kind. All of them land in ONE bucket.
func collidingKeys(x uint64) []types.Value {
	b := []byte{byte(x), byte(x >> 8), byte(x >> 16), byte(x >> 24), byte(x >> 32), byte(x >> 40), byte(x >> 48), byte(x >> 56)}
	return []types.Value{types.NewInt64(int64(x)), types.NewUint64(x), types.NewInt(int(x)), types.NewUint(uint(x)),
		types.NewFloat64(math.Float64frombits(x)), types.NewString(string(b)), types.NewBinary(b)}
}

// collideRound is one shared immutable map whose bucket of colliding keys was grown pair by
// pair (so the bucket's backing array may have spare capacity), and what it must keep holding.
type collideRound struct {
	shared types.Map
	twin   types.Map     // an equal map built separately
	keys   []types.Value // the keys of shared, colliding ones first
	vals   []types.Value
	spare  []types.Value // colliding keys NOT in shared
	closed atomic.Bool
	active atomic.Int64
}

// keyStr prints a key with its kind, strings quoted (the colliding strings are not printable).
func keyStr(k types.Value) string {
	if s, ok := k.Interface().(string); ok {
		return fmt.Sprintf("%T(%q)", k, s)
	}
	return fmt.Sprintf("%T(%v)", k, k.Interface())
}

func describeKeys(ks []types.Value) string {
	var ps []string
	for _, k := range ks {
		ps = append(ps, keyStr(k))
	}
	return strings.Join(ps, ",")
}

// checkShared verifies that the shared map still holds exactly its pairs ("" when it does).
func (r *collideRound) checkShared() string {
	var bad []string
	if n := r.shared.Len(); n != len(r.keys) {
		bad = append(bad, fmt.Sprintf("Len=%d want %d", n, len(r.keys)))
	}
	for i, k := range r.keys {
		v := r.shared.Get(k)
		if v == nil || !types.Equal(v, r.vals[i]) {
			got := "absent"
			if v != nil {
				got = fmt.Sprint(v.Interface())
			}
			bad = append(bad, fmt.Sprintf("Get(%s)=%s want %v", keyStr(k), got, r.vals[i].Interface()))
		}
		if !r.shared.Has(k) {
			bad = append(bad, fmt.Sprintf("Has(%s)=false", keyStr(k)))
		}
	}
	for _, k := range r.spare {
		if r.shared.Has(k) {
			bad = append(bad, fmt.Sprintf("Has(%s)=true for a key that was only set on derived maps", keyStr(k)))
		}
	}
	seen := 0
	for k, v := range r.shared.Range() {
		seen++
		found := false
		for i, kk := range r.keys {
			if types.Equal(k, kk) && types.Compare(k, kk) == 0 {
				found = types.Equal(v, r.vals[i])
				break
			}
		}
		if !found {
			bad = append(bad, fmt.Sprintf("Range yields (%s,%v)", keyStr(k), v.Interface()))
		}
	}
	if seen != len(r.keys) {
		bad = append(bad, fmt.Sprintf("Range yields %d pairs want %d", seen, len(r.keys)))
	}
	if len(bad) == 0 {
		return ""
	}
	if len(bad) > 4 {
		bad = append(bad[:4], "…")
	}
	return strings.Join(bad, "; ")
}

func newCollideRound(r *lib.RNG) *collideRound {
	fam := collidingKeys(uint64(r.Range(1, 250)))
	// random order: where a later key lands inside the bucket (the bucket is sorted by kind) varies
	for i := len(fam) - 1; i > 0; i-- {
		j := r.Intn(i + 1)
		fam[i], fam[j] = fam[j], fam[i]
	}
	n := []int{3, 5, 6, 3}[r.Intn(4)]
	cr := &collideRound{spare: fam[n:]}
	build := func() types.Map {
		m := types.NewMap()
		for i := 0; i < n; i++ { // successive Sets on immutable maps: the bucket grows pair by pair
			m = m.Set(fam[i], types.NewInt(i))
		}
		for i := 0; i < 3; i++ {
			m = m.Set(types.NewString(fmt.Sprintf("plain%d", i)), types.NewString("p"))
		}
		return m
	}
	cr.shared, cr.twin = build(), build()
	for i := 0; i < n; i++ {
		cr.keys = append(cr.keys, fam[i])
		cr.vals = append(cr.vals, types.NewInt(i))
	}
	for i := 0; i < 3; i++ {
		cr.keys = append(cr.keys, types.NewString(fmt.Sprintf("plain%d", i)))
		cr.vals = append(cr.vals, types.NewString("p"))
	}
	return cr
}

// collideWorkload: readers of a shared immutable map race writers that derive maps from it by
// adding, deleting and overwriting keys of the SAME bucket; after every round the shared map is
// checked, sequentially, to hold exactly its pairs.
func collideWorkload(e *env) {
	var cur atomic.Pointer[collideRound]
	cur.Store(newCollideRound(e.rng.Fork()))
	enter := func() *collideRound {
		r := cur.Load()
		r.active.Add(1)
		if r.closed.Load() {
			r.active.Add(-1)
			return nil
		}
		return r
	}
	var changed atomic.Int64
	e.spawn(1, "rounds", func(w *worker) {
		for e.running() {
			time.Sleep(time.Duration(w.rng.Range(300, 1500)) * time.Microsecond)
			r := cur.Load()
			r.closed.Store(true)
			for r.active.Load() != 0 {
				goruntime.Gosched()
			}
			w.do("post-check(shared map unchanged)", func() {
				if bad := r.checkShared(); bad != "" && changed.Add(1) <= 3 { // the first few in full; every round would repeat it
					e.finding("snapshot-changed", fmt.Sprintf("a shared immutable map changed while maps were derived from it: %s | shared keys: %s | keys set on derived maps only: %s",
						bad, describeKeys(r.keys), describeKeys(r.spare)))
				}
			})
			cur.Store(newCollideRound(w.rng))
		}
	})
	e.spawn(4, "reader", func(w *worker) {
		for e.running() {
			r := enter()
			if r == nil {
				goruntime.Gosched()
				continue
			}
			k := r.keys[w.rng.Intn(len(r.keys))]
			switch w.rng.Intn(8) {
			case 0:
				w.do("Map.Get", func() { _ = r.shared.Get(k) })
			case 1:
				w.do("Map.Has", func() { _ = r.shared.Has(k); _ = r.shared.Has(r.spare[0]) })
			case 2:
				w.do("Map.Len", func() { _ = r.shared.Len() })
			case 3:
				w.do("Map.Keys/Values/Pairs", func() {
					for _, xs := range [][]types.Value{r.shared.Keys(), r.shared.Values(), r.shared.Pairs()} {
						for _, x := range xs {
							_ = types.HashOf(x)
						}
					}
				})
			case 4:
				w.do("Map.Range", func() {
					for kk, v := range r.shared.Range() {
						_, _ = kk, v
					}
				})
			case 5:
				w.do("Map.Hash", func() { _ = r.shared.Hash() })
			case 6:
				w.do("Map.Equal/Compare", func() { _ = r.shared.Equal(r.twin); _ = r.twin.Compare(r.shared) })
			case 7:
				// (not Map(): a Binary key makes the native map panic even from one goroutine – not a matter of concurrent use)
				w.do("Map.Interface", func() { _ = r.shared.Interface() })
			}
			r.active.Add(-1)
		}
	})
	e.spawn(3, "writer", func(w *worker) {
		for e.running() {
			r := enter()
			if r == nil {
				goruntime.Gosched()
				continue
			}
			fresh := r.spare[w.rng.Intn(len(r.spare))]
			old := r.keys[w.rng.Intn(len(r.keys))]
			switch w.rng.Intn(5) {
			case 0:
				w.do("Map.Set(new colliding key)", func() {
					d := r.shared.Set(fresh, types.NewInt(100+w.rng.Intn(9)))
					_ = d.Get(fresh)
					if len(r.spare) > 1 {
						d = d.Set(r.spare[(w.rng.Intn(len(r.spare)))], types.NewInt(7))
					}
					_ = d.Len()
				})
			case 1:
				w.do("Map.Delete", func() { d := r.shared.Delete(old); _ = d.Has(old); _ = d.Len() })
			case 2:
				w.do("Map.Mutable().Set", func() {
					d := r.shared.Mutable()
					d.Set(fresh, types.NewString("m"))
					d.Delete(old)
					_ = d.Immutable().Hash()
				})
			case 3:
				w.do("Map.Set(overwrite)", func() { d := r.shared.Set(old, types.NewString("o")); _ = d.Get(old) })
			case 4:
				w.do("Map.Set(new plain key)", func() { d := r.shared.Set(types.NewString("fresh"), types.NewInt(1)); _ = d.Len() })
			}
			r.active.Add(-1)
		}
	})
	e.waitActive()
}

// ------------------------------------------------------------------ codec registries

type cInner struct {
	A int               `json:"a"`
	B string            `json:"b,omitempty"`
	C []float64         `json:"c"`
	D map[string]uint16 `json:"d"`
}
type cOuter struct {
	ID    string         `json:"id"`
	In    cInner         `json:"in"`
	Ptr   *cInner        `json:"ptr,omitempty"`
	List  []cInner       `json:"list"`
	Bytes []byte         `json:"bytes"`
	When  time.Time      `json:"when"`
	Dur   time.Duration  `json:"dur"`
	Any   any            `json:"any"`
	M     map[string]any `json:"m"`
}

// (no self-referential types: the codec compiles those by unbounded recursion even from one
// goroutine, which is not a matter of concurrent use)
type cLeaf struct {
	Name string `json:"name"`
}
type cRec struct {
	Name string   `json:"name"`
	Next *cLeaf   `json:"next,omitempty"`
	Kids []*cLeaf `json:"kids,omitempty"`
}
type cNums struct {
	I8  int8    `json:"i8"`
	I16 int16   `json:"i16"`
	I32 int32   `json:"i32"`
	I64 int64   `json:"i64"`
	U8  uint8   `json:"u8"`
	U32 uint32  `json:"u32"`
	U64 uint64  `json:"u64"`
	F32 float32 `json:"f32"`
	F64 float64 `json:"f64"`
	B   bool    `json:"b"`
}
type cTagged struct {
	X int    `json:"x"`
	Y string `json:"-"`
	cNums
}

func mkInner(r *lib.RNG) cInner {
	return cInner{A: r.Intn(100), B: fmt.Sprintf("s%d", r.Intn(9)), C: []float64{1.5, float64(r.Intn(9))}, D: map[string]uint16{"k": uint16(r.Intn(99))}}
}

// codecCase returns a value and a function producing a fresh decode target of the same type.
func codecCase(r *lib.RNG) (any, func() any) {
	switch r.Intn(14) {
	case 0:
		return mkInner(r), func() any { return new(cInner) }
	case 1:
		in := mkInner(r)
		return cOuter{ID: "x", In: mkInner(r), Ptr: &in, List: []cInner{mkInner(r)}, Bytes: []byte{1, 2}, When: time.Unix(int64(r.Intn(1e6)), 0).UTC(),
			Dur: time.Duration(r.Intn(1e6)), Any: "a", M: map[string]any{"p": 1, "q": []any{"r", 2.5}}}, func() any { return new(cOuter) }
	case 2:
		return &cRec{Name: "a", Next: &cLeaf{Name: "b"}, Kids: []*cLeaf{{Name: "c"}, {Name: "d"}}}, func() any { return new(*cRec) }
	case 3:
		return cNums{I8: int8(r.Intn(100)), I16: 2, I32: 3, I64: int64(r.Intn(1e9)), U8: 5, U32: 6, U64: r.Uint64() >> 12, F32: 1.25, F64: 2.5, B: r.Bool()}, func() any { return new(cNums) }
	case 4:
		return cTagged{X: r.Intn(9), Y: "hidden", cNums: cNums{I8: 1}}, func() any { return new(cTagged) }
	case 5:
		return []int{r.Intn(9), 2, 3}, func() any { return new([]int) }
	case 6:
		return map[string][]string{"a": {"b", "c"}}, func() any { return new(map[string][]string) }
	case 7:
		return []any{"x", r.Intn(9), 1.5, true, map[string]any{"k": "v"}}, func() any { return new([]any) }
	case 8:
		return time.Unix(int64(r.Intn(1e6)), 0).UTC(), func() any { return new(time.Time) }
	case 9:
		return []byte(fmt.Sprintf("bytes%d", r.Intn(99))), func() any { return new([]byte) }
	case 10:
		return fmt.Sprintf("str%d", r.Intn(99)), func() any { return new(string) }
	case 11:
		return uint32(r.Intn(1e6)), func() any { return new(uint64) }
	case 12:
		return [3]int{1, 2, r.Intn(9)}, func() any { return new([3]int) }
	default:
		return map[string]cInner{"i": mkInner(r)}, func() any { return new(map[string]cInner) }
	}
}

type codecPair struct {
	enc *encoding.EncodeAssembler[any, types.Value]
	dec *encoding.DecodeAssembler[types.Value, any]
}

func codecWorkload(e *env) {
	var fresh atomic.Pointer[codecPair]
	fresh.Store(&codecPair{types.VerifNewEncoder(), types.VerifNewDecoder()})
	e.spawn(8, "codec", func(w *worker) {
		for e.running() {
			v, tgt := codecCase(w.rng)
			switch w.rng.Intn(8) {
			case 0, 1, 2:
				// the package-level registries
				var val types.Value
				w.do("types.Marshal", func() { val, _ = types.Marshal(v) })
				if val != nil {
					w.do("types.Unmarshal", func() { _ = types.Unmarshal(val, tgt()) })
				}
			case 3, 4, 5, 6:
				// registries with cold caches, shared by all workers (many first compilations of
				// the same types at once)
				p := fresh.Load()
				var val types.Value
				w.do("EncodeAssembler.Encode", func() { val, _ = p.enc.Encode(v) })
				if val != nil {
					w.do("DecodeAssembler.Decode", func() { _ = p.dec.Decode(val, tgt()) })
				}
				if w.rng.Chance(1, 8) {
					w.do("Assembler.Compile/Len", func() {
						_, _ = p.enc.Compile(reflect.TypeOf(v))
						_, _ = p.dec.Compile(reflect.TypeOf(tgt()))
						_, _ = p.enc.Len(), p.dec.Len()
					})
				}
			case 7:
				if w.rng.Chance(1, 20) {
					fresh.Store(&codecPair{types.VerifNewEncoder(), types.VerifNewDecoder()})
				}
			}
		}
	})
	e.waitActive()
}

// ------------------------------------------------------------------ encoding groups / assemblers: Add vs use

type gSrc struct{ V int }

func groupWorkload(e *env) {
	type groups struct {
		dg *encoding.DecoderGroup[any, *int]
		eg *encoding.EncoderGroup[any, int]
		ea *encoding.EncodeAssembler[any, int]
		da *encoding.DecodeAssembler[int, any]
	}
	mk := func() *groups {
		return &groups{encoding.NewDecoderGroup[any, *int](), encoding.NewEncoderGroup[any, int](),
			encoding.NewEncodeAssembler[any, int](), encoding.NewDecodeAssembler[int, any]()}
	}
	var cur atomic.Pointer[groups]
	cur.Store(mk())
	decFor := func(k int) encoding.Decoder[any, *int] {
		return encoding.DecodeFunc(func(src any, tgt *int) error {
			switch s := src.(type) {
			case int:
				if k%2 == 0 {
					*tgt = s
					return nil
				}
			case string:
				if k%2 == 1 {
					*tgt = len(s)
					return nil
				}
			case gSrc:
				if k%3 == 0 {
					*tgt = s.V
					return nil
				}
				if k%3 == 1 {
					return errors.New("bad value")
				}
			}
			return encoding.ErrUnsupportedType
		})
	}
	encFor := func(k int) encoding.Encoder[any, int] {
		return encoding.EncodeFunc(func(src any) (int, error) {
			switch s := src.(type) {
			case int:
				if k%2 == 0 {
					return s, nil
				}
			case string:
				if k%2 == 1 {
					return len(s), nil
				}
			}
			return 0, encoding.ErrUnsupportedType
		})
	}
	intT := reflect.TypeOf(0)
	// compilers in the style of pkg/types: a leaf compiler for int, and a pointer compiler that
	// asks the assembler for the element type's codec
	encCompilers := func(g *groups, k int) encoding.EncodeCompiler[any, int] {
		if k%2 == 0 {
			return encoding.EncodeCompilerFunc[any, int](func(typ reflect.Type) (encoding.Encoder[any, int], error) {
				if typ == intT {
					return encFor(0), nil
				}
				return nil, encoding.ErrUnsupportedType
			})
		}
		return encoding.EncodeCompilerFunc[any, int](func(typ reflect.Type) (encoding.Encoder[any, int], error) {
			if typ != nil && typ.Kind() == reflect.Pointer {
				inner, err := g.ea.Compile(typ.Elem())
				if err != nil {
					return nil, err
				}
				return encoding.EncodeFunc(func(src any) (int, error) {
					return inner.Encode(reflect.ValueOf(src).Elem().Interface())
				}), nil
			}
			return nil, encoding.ErrUnsupportedType
		})
	}
	decCompilers := func(g *groups, k int) encoding.DecodeCompiler[int] {
		if k%2 == 0 {
			return encoding.DecodeCompilerFunc[int](func(typ reflect.Type) (encoding.Decoder[int, unsafe.Pointer], error) {
				if typ != nil && typ.Kind() == reflect.Pointer && typ.Elem() == intT {
					return encoding.DecodeFunc(func(src int, tgt unsafe.Pointer) error {
						*(*int)(tgt) = src
						return nil
					}), nil
				}
				return nil, encoding.ErrUnsupportedType
			})
		}
		return encoding.DecodeCompilerFunc[int](func(typ reflect.Type) (encoding.Decoder[int, unsafe.Pointer], error) {
			if typ != nil && typ.Kind() == reflect.Pointer && typ.Elem().Kind() == reflect.Pointer {
				inner, err := g.da.Compile(typ.Elem())
				if err != nil {
					return nil, err
				}
				return encoding.DecodeFunc(func(src int, tgt unsafe.Pointer) error {
					t := reflect.NewAt(typ.Elem(), tgt)
					if t.Elem().IsNil() {
						t.Elem().Set(reflect.New(typ.Elem().Elem()))
					}
					return inner.Decode(src, t.Elem().UnsafePointer())
				}), nil
			}
			return nil, encoding.ErrUnsupportedType
		})
	}
	e.spawn(2, "adder", func(w *worker) {
		k := 0
		for e.running() {
			g := cur.Load()
			k++
			kk := k
			switch w.rng.Intn(5) {
			case 0:
				w.do("DecoderGroup.Add", func() { g.dg.Add(decFor(kk)) })
			case 1:
				w.do("EncoderGroup.Add", func() { g.eg.Add(encFor(kk)) })
			case 2:
				w.do("EncodeAssembler.Add", func() { g.ea.Add(encCompilers(g, kk)) })
			case 3:
				w.do("DecodeAssembler.Add", func() { g.da.Add(decCompilers(g, kk)) })
			case 4:
				if g.dg.Len() > 24 || g.ea.Len() > 24 || w.rng.Chance(1, 40) {
					cur.Store(mk())
				}
			}
			time.Sleep(time.Duration(w.rng.Intn(100)) * time.Microsecond)
		}
	})
	e.spawn(6, "user", func(w *worker) {
		for e.running() {
			g := cur.Load()
			switch w.rng.Intn(6) {
			case 0:
				var src any
				switch w.rng.Intn(3) {
				case 0:
					src = w.rng.Intn(99)
				case 1:
					src = "abc"
				default:
					src = gSrc{w.rng.Intn(9)}
				}
				w.do("DecoderGroup.Decode", func() {
					var t int
					_ = g.dg.Decode(src, &t)
					_ = g.dg.Len()
				})
			case 1:
				w.do("EncoderGroup.Encode", func() {
					_, _ = g.eg.Encode(w.rng.Intn(99))
					_, _ = g.eg.Encode("abc")
					_ = g.eg.Len()
				})
			case 2:
				w.do("EncodeAssembler.Encode", func() { _, _ = g.ea.Encode(w.rng.Intn(99)) })
			case 3:
				x := w.rng.Intn(99)
				px := &x
				w.do("EncodeAssembler.Encode(ptr)", func() { _, _ = g.ea.Encode(&px) })
			case 4:
				w.do("DecodeAssembler.Decode", func() {
					var t int
					_ = g.da.Decode(5, &t)
				})
			case 5:
				w.do("DecodeAssembler.Decode(ptr)", func() {
					var t **int
					_ = g.da.Decode(5, &t)
					_ = g.da.Len()
				})
			}
		}
	})
	e.waitActive()
}
