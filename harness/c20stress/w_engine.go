package main

import (
	"errors"
	"fmt"
	goruntime "runtime"
	"sync"
	"sync/atomic"
	"time"

	"github.com/gofrs/uuid"
	"github.com/siyul-park/uniflow/pkg/node"
	"github.com/siyul-park/uniflow/pkg/packet"
	"github.com/siyul-park/uniflow/pkg/port"
	"github.com/siyul-park/uniflow/pkg/process"
	"github.com/siyul-park/uniflow/pkg/runtime"
	"github.com/siyul-park/uniflow/pkg/spec"
	"github.com/siyul-park/uniflow/pkg/symbol"
	"github.com/siyul-park/uniflow/pkg/types"

	"verifharness/lib"
)

func uuidFrom(r *lib.RNG) uuid.UUID {
	var u uuid.UUID
	a, b := r.Uint64(), r.Uint64()
	for i := 0; i < 8; i++ {
		u[i] = byte(a >> (8 * i))
		u[8+i] = byte(b >> (8 * i))
	}
	u[6] = (u[6] & 0x0f) | 0x40
	u[8] = (u[8] & 0x3f) | 0x80
	return u
}

func passThrough(_ *process.Process, in *packet.Packet) (*packet.Packet, *packet.Packet) {
	return packet.New(in.Payload()), nil
}

// echoListener answers every packet that arrives at `in` (a sink).
func echoListener(in *port.InPort) port.Listener {
	return port.ListenFunc(func(proc *process.Process) {
		r := in.Open(proc)
		for pck := range r.Read() {
			r.Receive(pck)
		}
	})
}

// sendVia writes one packet through a private out-port linked to `in` on a fresh process and
// waits (bounded) for the answer. Waiting for answers is C01–C03's business: a missing answer is
// only counted.
func sendVia(w *worker, in *port.InPort, writes int, wait time.Duration) {
	out := port.NewOut()
	proc := process.New()
	var wr *packet.Writer
	w.do("OutPort.Link+Open", func() {
		out.Link(in)
		wr = out.Open(proc)
	})
	n := 0
	for i := 0; i < writes; i++ {
		w.do("Writer.Write", func() {
			if wr.Write(packet.New(types.NewString(fmt.Sprintf("p%d", i)))) > 0 {
				n++
			}
		})
	}
	t := time.NewTimer(wait)
	for i := 0; i < n; i++ {
		select {
		case _, ok := <-wr.Receive():
			if !ok {
				i = n
			}
		case <-t.C:
			w.e.timeouts.Add(1)
			i = n
		}
	}
	t.Stop()
	w.do("Process.Exit", func() { proc.Exit(nil) })
	w.do("OutPort.Close", func() { out.Close() })
}

// ------------------------------------------------------------------ symbol.Table

func tableWorkload(e *env) {
	var loads, unloads atomic.Int64
	var lhooks []symbol.LoadHook
	var uhooks []symbol.UnloadHook
	for i := 0; i < 4; i++ {
		lhooks = append(lhooks, symbol.LoadFunc(func(*symbol.Symbol) error { loads.Add(1); return nil }))
		uhooks = append(uhooks, symbol.UnloadFunc(func(*symbol.Symbol) error { unloads.Add(1); return nil }))
	}
	tbl := symbol.NewTable(symbol.TableOption{LoadHooks: lhooks[:1], UnloadHooks: uhooks[:1]})
	const N = 12
	ids := make([]uuid.UUID, N)
	names := make([]string, N)
	for i := range ids {
		ids[i] = uuidFrom(e.rng)
		names[i] = fmt.Sprintf("n%d", i)
	}
	mk := func(r *lib.RNG, i int) *symbol.Symbol {
		m := &spec.Meta{ID: ids[i], Kind: "stress", Namespace: "default"}
		if r.Chance(1, 10) {
			m.Namespace = "other"
		}
		if r.Chance(2, 3) {
			m.Name = names[i]
		}
		if i+1 < N && r.Chance(2, 3) { // links only towards higher indices: no packet cycles
			k := r.Range(i+1, N-1)
			p := spec.Port{Port: node.PortIn}
			if r.Bool() {
				p.ID = ids[k]
			} else {
				p.Name = names[k]
			}
			m.Ports = map[string][]spec.Port{node.PortOut: {p}}
		}
		if i+1 < N && r.Chance(1, 6) { // an init port: the table sends a packet through it while loading
			if m.Ports == nil {
				m.Ports = map[string][]spec.Port{}
			}
			m.Ports[node.PortInit] = []spec.Port{{ID: ids[r.Range(i+1, N-1)], Port: node.PortIn}}
		}
		return &symbol.Symbol{Spec: m, Node: node.NewOneToOneNode(passThrough)}
	}
	for i := 0; i < N; i += 2 {
		sb := mk(e.rng, i)
		e.main.do("Table.Insert", func() { _ = tbl.Insert(sb) })
	}
	e.spawn(8, "table", func(w *worker) {
		for e.running() {
			i := w.rng.Intn(N)
			switch w.rng.Weighted([]int{28, 14, 24, 10, 4, 4, 4, 4, 8}) {
			case 0:
				sb := mk(w.rng, i)
				w.do("Table.Insert", func() { _ = tbl.Insert(sb) })
			case 1:
				w.do("Table.Free", func() { _, _ = tbl.Free(ids[i]) })
			case 2:
				w.do("Table.Lookup", func() {
					if sb := tbl.Lookup(ids[i]); sb != nil {
						_, _, _, _ = sb.ID(), sb.Name(), sb.Namespace(), sb.Ports()
						_, _ = sb.Ins(), sb.Outs()
						_ = sb.In(node.PortIn)
						_ = sb.Out(node.PortOut)
					}
				})
			case 3:
				w.do("Table.Keys", func() {
					for _, id := range tbl.Keys() { // every element of the result is used
						if sb := tbl.Lookup(id); sb != nil && sb.ID() != id {
							panic("Table.Lookup returned another symbol")
						}
					}
				})
			case 4:
				w.do("Table.AddLoadHook", func() { tbl.AddLoadHook(lhooks[w.rng.Intn(4)]) })
			case 5:
				w.do("Table.RemoveLoadHook", func() { tbl.RemoveLoadHook(lhooks[1+w.rng.Intn(3)]) })
			case 6:
				w.do("Table.AddUnloadHook", func() { tbl.AddUnloadHook(uhooks[w.rng.Intn(4)]) })
			case 7:
				w.do("Table.RemoveUnloadHook", func() { tbl.RemoveUnloadHook(uhooks[1+w.rng.Intn(3)]) })
			case 8:
				var in *port.InPort
				w.do("Table.Lookup", func() {
					if sb := tbl.Lookup(ids[i]); sb != nil {
						in = sb.In(node.PortIn)
					}
				})
				if in != nil {
					sendVia(w, in, 1, 300*time.Millisecond)
				}
			}
		}
	})
	e.waitActive()
	e.main.do("Table.Close", func() { _ = tbl.Close() })
}

// ------------------------------------------------------------------ process.Process

func processWorkload(e *env) {
	root := process.New()
	children := make(chan *process.Process, 4096)
	var hookRuns atomic.Int64
	hooks := make([]process.ExitHook, 6)
	for i := range hooks {
		hooks[i] = process.ExitFunc(func(error) { hookRuns.Add(1) })
	}
	var last atomic.Pointer[process.Process]
	last.Store(root)
	pick := func(r *lib.RNG) *process.Process {
		if r.Bool() {
			return root
		}
		return last.Load()
	}
	var exited atomic.Bool
	e.spawn(8, "process", func(w *worker) {
		for e.running() {
			switch w.rng.Weighted([]int{14, 14, 8, 12, 12, 8, 6, 10, 6, 2, 4, 5}) {
			case 0:
				w.do("Process.Fork", func() {
					c := root.Fork()
					last.Store(c)
					select {
					case children <- c:
					default:
						c.Exit(nil)
					}
				})
			case 1:
				select {
				case c := <-children:
					w.do("Process.Exit(child)", func() { c.Exit(nil) })
					if w.rng.Chance(1, 8) {
						w.do("Process.Exit(child,again)", func() { c.Exit(errors.New("again")) })
					}
				default:
				}
			case 2:
				p := pick(w.rng)
				h := hooks[w.rng.Intn(len(hooks))]
				if w.rng.Chance(1, 3) {
					h = process.ExitFunc(func(error) { hookRuns.Add(int64(p.Status())); _ = p.Err(); _ = p.Value(1) })
				}
				w.do("Process.AddExitHook", func() { p.AddExitHook(h) })
			case 3:
				p := pick(w.rng)
				k := w.rng.Intn(8)
				w.do("Process.SetValue", func() { p.SetValue(k, w.rng.Intn(100)) })
			case 4:
				p := pick(w.rng)
				k := w.rng.Intn(8)
				w.do("Process.Value", func() { _ = p.Value(k) })
			case 5:
				p := pick(w.rng)
				w.do("Process.Keys", func() {
					for _, k := range p.Keys() {
						_ = p.Value(k)
					}
				})
			case 6:
				p := pick(w.rng)
				k := w.rng.Intn(8)
				w.do("Process.RemoveValue", func() { _ = p.RemoveValue(k) })
			case 7:
				p := pick(w.rng)
				w.do("Process.Status/Err/Times", func() {
					_, _, _, _ = p.Status(), p.Err(), p.StartTime(), p.EndTime()
					_, _ = p.ID(), p.Parent()
					_, _ = p.Deadline()
					select {
					case <-p.Done():
					default:
					}
				})
			case 8:
				// a sub-tree owned by this worker: fork grandchildren, let other goroutines end
				// them, Join, Exit (the documented order: Join after the forks)
				var m *process.Process
				w.do("Process.Fork", func() { m = root.Fork() })
				k := w.rng.Range(1, 3)
				var gs []*process.Process
				for i := 0; i < k; i++ {
					w.do("Process.Fork(grandchild)", func() { gs = append(gs, m.Fork()) })
				}
				for _, g := range gs {
					g := g
					e.background(1, "exit-grandchild", func(w2 *worker) {
						w2.do("Process.Exit(grandchild)", func() { g.Exit(nil) })
					})
				}
				w.do("Process.Join", func() { m.Join() })
				w.do("Process.Exit", func() { m.Exit(nil) })
			case 10:
				// Join while another goroutine keeps forking (ext's ForkNode does this): allowed
				// as long as a child is outstanding for the whole time
				var m, first *process.Process
				w.do("Process.Fork", func() { m = root.Fork() })
				w.do("Process.Fork(grandchild)", func() { first = m.Fork() })
				forked := make(chan struct{})
				e.background(1, "forker", func(w2 *worker) {
					defer close(forked)
					for i := 0; i < 4; i++ {
						var g *process.Process
						w2.do("Process.Fork(grandchild)", func() { g = m.Fork() })
						w2.do("Process.Exit(grandchild)", func() { g.Exit(nil) })
					}
				})
				joined := make(chan struct{})
				e.background(1, "joiner", func(w2 *worker) {
					defer close(joined)
					w2.do("Process.Join", func() { m.Join() })
				})
				<-forked
				w.do("Process.Exit(grandchild)", func() { first.Exit(nil) })
				<-joined
				w.do("Process.Exit", func() { m.Exit(nil) })
			case 11:
				// several goroutines parked in Join on ONE process while its children are still
				// running; then the children exit: every joiner must return (the last child's exit
				// has to wake them all)
				var m *process.Process
				w.do("Process.Fork", func() { m = root.Fork() })
				k := w.rng.Range(1, 3)
				var gs []*process.Process
				for i := 0; i < k; i++ {
					w.do("Process.Fork(grandchild)", func() { gs = append(gs, m.Fork()) })
				}
				j := w.rng.Range(2, 4)
				var note atomic.Pointer[string]
				var entered atomic.Int64
				joined := make(chan struct{}, j)
				for i := 0; i < j; i++ {
					e.background(1, "joiner", func(w2 *worker) {
						defer func() { joined <- struct{}{} }()
						w2.doNote("Process.Join(one of several joiners)", &note, func() {
							entered.Add(1)
							m.Join()
						})
					})
				}
				// let the joiners park: all have entered, then the scheduler is invited a few times
				for spin := 0; entered.Load() < int64(j) && spin < 10000; spin++ {
					goruntime.Gosched()
				}
				time.Sleep(time.Duration(w.rng.Range(100, 600)) * time.Microsecond)
				for _, g := range gs {
					w.do("Process.Exit(grandchild)", func() { g.Exit(nil) })
				}
				s := fmt.Sprintf("%d joiners were started on one process with %d children outstanding; every child has terminated since", j, k)
				note.Store(&s)
				for i := 0; i < j; i++ {
					<-joined
				}
				w.do("Process.Exit", func() { m.Exit(nil) })
			case 9:
				if e.frac() > 0.7 && exited.CompareAndSwap(false, true) {
					w.do("Process.Exit(root)", func() { root.Exit(errors.New("root exit")) })
				}
			}
		}
	})
	e.waitActive()
	for {
		select {
		case c := <-children:
			e.main.do("Process.Exit(child)", func() { c.Exit(nil) })
			continue
		default:
		}
		break
	}
	e.main.do("Process.Join(root)", func() { root.Join() })
	e.main.do("Process.Exit(root)", func() { root.Exit(nil) })
}

// ------------------------------------------------------------------ process.Local

func localWorkload(e *env) {
	l := process.NewLocal[int]()
	const N = 16
	var pool [N]atomic.Pointer[process.Process]
	for i := range pool {
		pool[i].Store(process.New())
	}
	var hookRuns atomic.Int64
	hooks := make([]process.StoreHook[int], 6)
	for i := range hooks {
		hooks[i] = process.StoreFunc(func(int) { hookRuns.Add(1) })
	}
	e.spawn(8, "local", func(w *worker) {
		for e.running() {
			i := w.rng.Intn(N)
			p := pool[i].Load()
			switch w.rng.Weighted([]int{18, 16, 16, 10, 10, 6, 8, 10, 1}) {
			case 0:
				w.do("Local.Store", func() { l.Store(p, w.rng.Intn(1000)) })
			case 1:
				w.do("Local.Load", func() { _, _ = l.Load(p) })
			case 2:
				fail := w.rng.Chance(1, 6)
				w.do("Local.LoadOrStore", func() {
					_, _ = l.LoadOrStore(p, func() (int, error) {
						if fail {
							return 0, errors.New("init failed")
						}
						return 7, nil
					})
				})
			case 3:
				w.do("Local.Delete", func() { l.Delete(p) })
			case 4:
				h := hooks[w.rng.Intn(len(hooks))]
				if w.rng.Chance(1, 4) {
					h = process.StoreFunc(func(int) { _, _ = l.Load(p) })
				}
				w.do("Local.AddStoreHook", func() { l.AddStoreHook(p, h) })
			case 5:
				w.do("Local.RemoveStoreHook", func() { l.RemoveStoreHook(p, hooks[w.rng.Intn(len(hooks))]) })
			case 6:
				w.do("Local.Keys", func() {
					for _, q := range l.Keys() {
						_, _ = q.Status(), q.ID()
						_, _ = l.Load(q)
					}
				})
			case 7:
				w.do("Process.Exit", func() { p.Exit(nil) })
				pool[i].CompareAndSwap(p, process.New())
			case 8:
				if e.frac() > 0.5 {
					w.do("Local.Close", func() { l.Close() })
				}
			}
		}
	})
	e.waitActive()
	e.main.do("Local.Close", func() { l.Close() })
	for i := range pool {
		p := pool[i].Load()
		e.main.do("Process.Exit", func() { p.Exit(nil) })
	}
}

// ------------------------------------------------------------------ port.InPort / port.OutPort

func portWorkload(e *env) {
	in := port.NewIn()
	out := port.NewOut()
	in.AddListener(echoListener(in))
	out.Link(in)
	extra := make([]*port.InPort, 3)
	for i := range extra {
		extra[i] = port.NewIn()
		extra[i].AddListener(echoListener(extra[i]))
	}
	var hookRuns atomic.Int64
	openHooks := make([]port.OpenHook, 5)
	closeHooks := make([]port.CloseHook, 5)
	for i := range openHooks {
		openHooks[i] = port.OpenHookFunc(func(*process.Process) { hookRuns.Add(1) })
		closeHooks[i] = port.CloseHookFunc(func() { hookRuns.Add(1) })
	}
	const N = 12
	var pool [N]atomic.Pointer[process.Process]
	for i := range pool {
		pool[i].Store(process.New())
	}
	var listeners atomic.Int64
	e.spawn(8, "port", func(w *worker) {
		for e.running() {
			i := w.rng.Intn(N)
			p := pool[i].Load()
			switch w.rng.Weighted([]int{12, 12, 14, 7, 7, 5, 5, 8, 8, 4, 8, 2, 2}) {
			case 0:
				w.do("InPort.Open", func() { _ = in.Open(p) })
			case 1:
				w.do("OutPort.Open", func() { _ = out.Open(p) })
			case 2:
				// traffic on a fresh process through the shared ports
				proc := process.New()
				var wr *packet.Writer
				w.do("OutPort.Open", func() { wr = out.Open(proc) })
				n := 0
				w.do("Writer.Write", func() { n = wr.Write(packet.New(types.NewString("x"))) })
				if n > 0 {
					select {
					case <-wr.Receive():
					case <-time.After(300 * time.Millisecond):
						e.timeouts.Add(1)
					}
				}
				w.do("Process.Exit", func() { proc.Exit(nil) })
			case 3:
				h := openHooks[w.rng.Intn(len(openHooks))]
				if w.rng.Bool() {
					w.do("InPort.AddOpenHook", func() { in.AddOpenHook(h) })
				} else {
					w.do("OutPort.AddOpenHook", func() { out.AddOpenHook(h) })
				}
			case 4:
				h := openHooks[w.rng.Intn(len(openHooks))]
				if w.rng.Bool() {
					w.do("InPort.RemoveOpenHook", func() { in.RemoveOpenHook(h) })
				} else {
					w.do("OutPort.RemoveOpenHook", func() { out.RemoveOpenHook(h) })
				}
			case 5:
				h := closeHooks[w.rng.Intn(len(closeHooks))]
				if w.rng.Bool() {
					w.do("InPort.AddCloseHook", func() { in.AddCloseHook(h) })
				} else {
					w.do("OutPort.AddCloseHook", func() { out.AddCloseHook(h) })
				}
			case 6:
				h := closeHooks[w.rng.Intn(len(closeHooks))]
				if w.rng.Bool() {
					w.do("InPort.RemoveCloseHook", func() { in.RemoveCloseHook(h) })
				} else {
					w.do("OutPort.RemoveCloseHook", func() { out.RemoveCloseHook(h) })
				}
			case 7:
				x := extra[w.rng.Intn(len(extra))]
				w.do("OutPort.Link", func() { out.Link(x) })
			case 8:
				x := extra[w.rng.Intn(len(extra))]
				w.do("OutPort.Unlink", func() { out.Unlink(x) })
			case 9:
				w.do("OutPort.Links", func() {
					n := 0
					for round := 0; round < 2; round++ {
						for _, x := range out.Links() { // read every element of the result
							if x == in || x == extra[0] || x == extra[1] || x == extra[2] {
								n++
							}
						}
						goruntime.Gosched()
					}
					hookRuns.Add(int64(n))
				})
			case 10:
				w.do("Process.Exit", func() { p.Exit(nil) })
				pool[i].CompareAndSwap(p, process.New())
			case 11:
				if listeners.Add(1) <= 3 {
					l := port.ListenFunc(func(*process.Process) { hookRuns.Add(1) })
					if w.rng.Bool() {
						w.do("InPort.AddListener", func() { in.AddListener(l) })
					} else {
						w.do("OutPort.AddListener", func() { out.AddListener(l) })
					}
				}
			case 12:
				if e.frac() > 0.8 {
					if w.rng.Bool() {
						w.do("InPort.Close", func() { in.Close() })
						w.do("InPort.AddListener", func() { in.AddListener(echoListener(in)) })
						w.do("OutPort.Link", func() { out.Link(in) })
					} else {
						w.do("OutPort.Close", func() { out.Close() })
						w.do("OutPort.Link", func() { out.Link(in) })
					}
				}
			}
		}
	})
	e.waitActive()
	e.main.do("OutPort.Close", func() { out.Close() })
	e.main.do("InPort.Close", func() { in.Close() })
	for _, x := range extra {
		x := x
		e.main.do("InPort.Close", func() { x.Close() })
	}
	for i := range pool {
		p := pool[i].Load()
		e.main.do("Process.Exit", func() { p.Exit(nil) })
	}
}

// ------------------------------------------------------------------ packet.Writer / packet.Reader

// consume starts the consumer of a reader: it answers every packet it reads.
func consume(e *env, r *packet.Reader) {
	e.background(1, "consumer", func(w *worker) {
		for {
			select {
			case pck, ok := <-r.Read():
				if !ok {
					return
				}
				w.do("Reader.Receive", func() { r.Receive(pck) })
			case <-e.done:
				return
			}
		}
	})
}

// drain starts the receiver of a writer's answers.
func drain(e *env, wr *packet.Writer) {
	e.background(1, "receiver", func(w *worker) {
		for {
			select {
			case _, ok := <-wr.Receive():
				if !ok {
					return
				}
			case <-e.done:
				return
			}
		}
	})
}

func writerWorkload(e *env) {
	wr := packet.NewWriter()
	drain(e, wr)
	var others [2]atomic.Pointer[packet.Writer]
	for i := range others {
		o := packet.NewWriter()
		others[i].Store(o)
		drain(e, o)
	}
	const N = 6
	var readers [N]atomic.Pointer[packet.Reader]
	for i := range readers {
		r := packet.NewReader()
		readers[i].Store(r)
		consume(e, r)
		if i < 3 {
			wr.Link(r)
		}
	}
	// one reader shared by all three writers for the whole run
	shared := packet.NewReader()
	consume(e, shared)
	wr.Link(shared)
	for i := range others {
		others[i].Load().Link(shared)
	}
	var hookRuns atomic.Int64
	var nhooks atomic.Int64
	e.spawn(4, "writer", func(w *worker) {
		for e.running() {
			t := wr
			if w.rng.Chance(1, 4) {
				t = others[w.rng.Intn(len(others))].Load()
			}
			w.do("Writer.Write", func() { t.Write(packet.New(types.NewInt(w.rng.Intn(1000)))) })
			if w.rng.Chance(1, 16) {
				w.do("Writer.Links", func() {
					for _, r := range wr.Links() {
						if r == shared {
							hookRuns.Add(1)
						}
					}
				})
			}
		}
	})
	e.spawn(3, "linker", func(w *worker) {
		for e.running() {
			i := w.rng.Intn(N)
			r := readers[i].Load()
			switch w.rng.Weighted([]int{30, 30, 10, 6, 14, 6}) {
			case 5:
				// close one of the other writers while it is written to, and replace it
				j := w.rng.Intn(len(others))
				o := others[j].Load()
				w.do("Writer.Close", func() { o.Close() })
				no := packet.NewWriter()
				if others[j].CompareAndSwap(o, no) {
					drain(e, no)
					w.do("Writer.Link", func() { no.Link(shared) })
				} else {
					no.Close()
				}
			case 0:
				w.do("Writer.Link", func() { wr.Link(r) })
			case 1:
				w.do("Writer.Unlink", func() { wr.Unlink(r) })
			case 2:
				w.do("Writer.Links", func() {
					ls := wr.Links()
					goruntime.Gosched()
					for _, r := range ls {
						if r == shared {
							hookRuns.Add(1)
						}
					}
				})
			case 3:
				if nhooks.Add(1) <= 8 {
					h := packet.HookFunc(func(*packet.Packet) { hookRuns.Add(1) })
					switch w.rng.Intn(4) {
					case 0:
						w.do("Writer.AddInboundHook", func() { wr.AddInboundHook(h) })
					case 1:
						w.do("Writer.AddOutboundHook", func() { wr.AddOutboundHook(h) })
					case 2:
						w.do("Reader.AddInboundHook", func() { shared.AddInboundHook(h) })
					case 3:
						w.do("Reader.AddOutboundHook", func() { shared.AddOutboundHook(h) })
					}
				}
			case 4:
				w.do("Reader.Close", func() { r.Close() })
				nr := packet.NewReader()
				if readers[i].CompareAndSwap(r, nr) {
					consume(e, nr)
				} else {
					nr.Close()
				}
			}
			time.Sleep(time.Duration(w.rng.Intn(200)) * time.Microsecond)
		}
	})
	e.waitActive()
	e.main.do("Writer.Close", func() { wr.Close() })
	for i := range others {
		o := others[i].Load()
		e.main.do("Writer.Close", func() { o.Close() })
	}
	e.main.do("Reader.Close", func() { shared.Close() })
	for i := range readers {
		r := readers[i].Load()
		e.main.do("Reader.Close", func() { r.Close() })
	}
}

// ------------------------------------------------------------------ packet.Tracer (through real nodes)

// readPackets reads every element of a slice an accessor returned – several times, with the
// scheduler invited in between: the slice belongs to the caller now, whatever the object does next.
func readPackets(ps []*packet.Packet) int {
	n := 0
	for round := 0; round < 3; round++ {
		for _, p := range ps {
			if p != nil {
				_ = p.ID()
				_ = p.Payload()
				n++
			}
		}
		goruntime.Gosched()
	}
	return n
}

// inflight is what a driver of a tracer publishes for the inspectors: the packets, reader and
// writer it is currently pushing through the tracer.
type inflight struct {
	tr   *packet.Tracer
	p, o *packet.Packet
	r    *packet.Reader
	w    *packet.Writer
}

func inspectTracer(w *worker, it *inflight, seen *atomic.Int64) {
	tr := it.tr
	if it.p != nil {
		w.do("Tracer.Receives", func() { seen.Add(int64(readPackets(tr.Receives(it.p)))) })
		w.do("Tracer.Links", func() {
			seen.Add(int64(readPackets(tr.Links(it.p, nil))))
			seen.Add(int64(readPackets(tr.Links(nil, it.p))))
		})
	}
	if it.o != nil {
		w.do("Tracer.Receives", func() { seen.Add(int64(readPackets(tr.Receives(it.o)))) })
		w.do("Tracer.Links", func() {
			seen.Add(int64(readPackets(tr.Links(nil, it.o))))
			if it.p != nil {
				seen.Add(int64(readPackets(tr.Links(it.p, it.o))))
			}
		})
	}
	if it.r != nil {
		var reads []*packet.Packet
		w.do("Tracer.Reads", func() { reads = tr.Reads(it.r); seen.Add(int64(readPackets(reads))) })
		for _, p := range reads {
			if p != nil {
				w.do("Tracer.Receives", func() { seen.Add(int64(readPackets(tr.Receives(p)))) })
				w.do("Tracer.Links", func() { seen.Add(int64(readPackets(tr.Links(p, nil)))) })
			}
		}
	}
	if it.w != nil {
		var writes []*packet.Packet
		w.do("Tracer.Writes", func() { writes = tr.Writes(it.w); seen.Add(int64(readPackets(writes))) })
		for _, p := range writes {
			if p != nil {
				w.do("Tracer.Receives", func() { seen.Add(int64(readPackets(tr.Receives(p)))) })
				w.do("Tracer.Links", func() { seen.Add(int64(readPackets(tr.Links(nil, p)))) })
			}
		}
	}
}

func tracerWorkload(e *env) {
	n1 := node.NewOneToOneNode(func(_ *process.Process, in *packet.Packet) (*packet.Packet, *packet.Packet) {
		if s, ok := in.Payload().(types.String); ok && s.String() == "err" {
			return nil, packet.New(types.NewError(errors.New("boom")))
		}
		return packet.New(in.Payload()), nil
	})
	n2 := node.NewOneToManyNode(func(_ *process.Process, in *packet.Packet) ([]*packet.Packet, *packet.Packet) {
		return []*packet.Packet{packet.New(in.Payload()), packet.New(in.Payload())}, nil
	})
	n3 := node.NewManyToOneNode(func(_ *process.Process, ins []*packet.Packet) (*packet.Packet, *packet.Packet) {
		ps := make([]types.Value, 0, len(ins))
		for _, p := range ins {
			ps = append(ps, p.Payload())
		}
		return packet.New(types.NewSlice(ps...)), nil
	})
	sink := port.NewIn()
	sink.AddListener(echoListener(sink))
	// ports are created before any traffic flows
	n1.Out(node.PortOut).Link(n2.In(node.PortIn))
	n2.Out(node.PortWithIndex(node.PortOut, 0)).Link(n3.In(node.PortWithIndex(node.PortIn, 0)))
	n2.Out(node.PortWithIndex(node.PortOut, 1)).Link(n3.In(node.PortWithIndex(node.PortIn, 1)))
	n3.Out(node.PortOut).Link(sink)
	entry := n1.In(node.PortIn)

	// what the inspectors look at: a ring of recently published in-flight items
	var ring [64]atomic.Pointer[inflight]
	var ringN atomic.Int64
	publish := func(it *inflight) { ring[int(ringN.Add(1))%len(ring)].Store(it) }
	var procs [16]atomic.Pointer[process.Process]
	var procN atomic.Int64
	var inspected atomic.Int64

	e.spawn(6, "pipeline", func(w *worker) {
		for e.running() {
			out := port.NewOut()
			proc := process.New()
			procs[int(procN.Add(1))%len(procs)].Store(proc)
			var wr *packet.Writer
			w.do("OutPort.Link+Open", func() {
				out.Link(entry)
				wr = out.Open(proc)
			})
			k := w.rng.Range(1, 3)
			n := 0
			for i := 0; i < k; i++ {
				payload := "ok"
				if w.rng.Chance(1, 6) {
					payload = "err"
				}
				w.do("Writer.Write", func() {
					if wr.Write(packet.New(types.NewString(payload))) > 0 {
						n++
					}
				})
			}
			t := time.NewTimer(2 * time.Second)
			for i := 0; i < n; i++ {
				select {
				case _, ok := <-wr.Receive():
					if !ok {
						i = n
					}
				case <-t.C:
					e.timeouts.Add(1)
					i = n
				}
			}
			t.Stop()
			w.do("Process.Exit", func() { proc.Exit(nil) })
			w.do("OutPort.Close", func() { out.Close() })
		}
	})

	// the Tracer API itself, one shared tracer, every worker with its own readers and writers
	tr := packet.NewTracer()
	var hookRuns atomic.Int64
	e.spawn(4, "tracer", func(w *worker) {
		for e.running() {
			feed, r := packet.NewWriter(), packet.NewReader()
			wOut, rOut := packet.NewWriter(), packet.NewReader()
			feed.Link(r)
			wOut.Link(rOut)
			stop := make(chan struct{})
			var bgw sync.WaitGroup
			bgw.Add(1)
			go func() { // downstream consumer echoes
				defer bgw.Done()
				for {
					select {
					case p, ok := <-rOut.Read():
						if !ok {
							return
						}
						rOut.Receive(p)
					case <-stop:
						return
					}
				}
			}()
			k := w.rng.Range(1, 3)
			for i := 0; i < k; i++ {
				feed.Write(packet.New(types.NewInt(i)))
			}
			for i := 0; i < k; i++ {
				var p *packet.Packet
				select {
				case p = <-r.Read():
				case <-time.After(time.Second):
				}
				if p == nil {
					e.timeouts.Add(1)
					break
				}
				o := packet.New(p.Payload())
				w.do("Tracer.Read", func() { tr.Read(r, p) })
				w.do("Tracer.Link", func() { tr.Link(p, o) })
				if w.rng.Bool() {
					w.do("Tracer.Dispatch", func() { tr.Dispatch(o, packet.HookFunc(func(*packet.Packet) { hookRuns.Add(1) })) })
				}
				publish(&inflight{tr: tr, p: p, o: o, r: r, w: wOut})
				w.do("Tracer.Write", func() { tr.Write(wOut, o) })
				w.do("Tracer.Reads/Writes/Receives/Links", func() {
					n := readPackets(tr.Reads(r)) + readPackets(tr.Writes(wOut)) + readPackets(tr.Receives(p))
					n += readPackets(tr.Links(p, nil)) + readPackets(tr.Links(nil, o)) + readPackets(tr.Links(p, o))
					inspected.Add(int64(n))
				})
			}
			drop := w.rng.Chance(1, 8)
			for i := 0; i < k; i++ {
				if drop && i == k-1 {
					// give up on the last answer: Drop answers what is still pending on the writer
					w.do("Tracer.Drop", func() { tr.Drop(wOut) })
					break
				}
				select {
				case back, ok := <-wOut.Receive():
					if ok {
						w.do("Tracer.Receive", func() { tr.Receive(wOut, back) })
					}
				case <-time.After(time.Second):
					e.timeouts.Add(1)
				}
			}
			for i := 0; i < k; i++ {
				select {
				case <-feed.Receive():
				case <-time.After(time.Second):
					e.timeouts.Add(1)
					i = k
				}
			}
			close(stop)
			feed.Close()
			wOut.Close()
			r.Close()
			rOut.Close()
			bgw.Wait()
		}
	})
	// inspectors: call the read accessors of the shared tracer and of the nodes' tracers on what
	// *other* goroutines are pushing through them right now, and read everything they return
	nodeTracers := []*packet.Tracer{node.VerifTracer(n1), node.VerifTracer(n2), node.VerifTracer(n3)}
	e.spawn(3, "inspector", func(w *worker) {
		for e.running() {
			if w.rng.Chance(2, 3) {
				if it := ring[w.rng.Intn(len(ring))].Load(); it != nil {
					inspectTracer(w, it, &inspected)
				}
				continue
			}
			proc := procs[w.rng.Intn(len(procs))].Load()
			if proc == nil || proc.Status() == process.StatusTerminated {
				goruntime.Gosched()
				continue
			}
			// the readers/writers the nodes use for this process (Open returns the existing ones)
			switch w.rng.Intn(3) {
			case 0:
				var r *packet.Reader
				var wr *packet.Writer
				w.do("InPort.Open", func() { r = n1.In(node.PortIn).Open(proc) })
				w.do("OutPort.Open", func() { wr = n1.Out(node.PortOut).Open(proc) })
				inspectTracer(w, &inflight{tr: nodeTracers[0], r: r, w: wr}, &inspected)
			case 1:
				var r *packet.Reader
				var wr *packet.Writer
				w.do("InPort.Open", func() { r = n2.In(node.PortIn).Open(proc) })
				w.do("OutPort.Open", func() { wr = n2.Out(node.PortWithIndex(node.PortOut, w.rng.Intn(2))).Open(proc) })
				inspectTracer(w, &inflight{tr: nodeTracers[1], r: r, w: wr}, &inspected)
			default:
				var r *packet.Reader
				var wr *packet.Writer
				w.do("InPort.Open", func() { r = n3.In(node.PortWithIndex(node.PortIn, w.rng.Intn(2))).Open(proc) })
				w.do("OutPort.Open", func() { wr = n3.Out(node.PortOut).Open(proc) })
				inspectTracer(w, &inflight{tr: nodeTracers[2], r: r, w: wr}, &inspected)
			}
		}
	})
	e.waitActive()
	e.main.do("Tracer.Close", func() { tr.Close() })
	e.main.do("Node.Close", func() { _ = n1.Close(); _ = n2.Close(); _ = n3.Close() })
	e.main.do("InPort.Close", func() { sink.Close() })
}

// ------------------------------------------------------------------ runtime.Agent

func readFrame(f *runtime.Frame) int {
	n := 0
	if f.InPck != nil {
		n++
		_ = f.InPck.Payload()
	}
	if f.OutPck != nil {
		n++
		_ = f.OutPck.Payload()
	}
	if !f.InTime.IsZero() {
		n++
	}
	if !f.OutTime.IsZero() {
		n++
	}
	if f.Process != nil && f.Symbol != nil {
		n++
	}
	if f.InPort != nil || f.OutPort != nil {
		n++
	}
	return n
}

func agentWorkload(e *env) {
	agent := runtime.NewAgent()
	tbl := symbol.NewTable(symbol.TableOption{LoadHooks: []symbol.LoadHook{agent}, UnloadHooks: []symbol.UnloadHook{agent}})
	const N = 4
	ids := make([]uuid.UUID, N)
	for i := range ids {
		ids[i] = uuidFrom(e.rng)
	}
	mk := func(i int) *symbol.Symbol {
		m := &spec.Meta{ID: ids[i], Kind: "stress", Namespace: "default", Name: fmt.Sprintf("s%d", i)}
		if i+1 < N {
			m.Ports = map[string][]spec.Port{node.PortOut: {{ID: ids[i+1], Port: node.PortIn}}}
		}
		return &symbol.Symbol{Spec: m, Node: node.NewOneToOneNode(passThrough)}
	}
	for i := N - 1; i >= 0; i-- {
		sb := mk(i)
		e.main.do("Table.Insert", func() { _ = tbl.Insert(sb) })
	}
	var seen atomic.Int64
	e.spawn(4, "traffic", func(w *worker) {
		for e.running() {
			var in *port.InPort
			w.do("Table.Lookup", func() {
				if sb := tbl.Lookup(ids[0]); sb != nil {
					in = sb.In(node.PortIn)
				}
			})
			if in == nil {
				time.Sleep(100 * time.Microsecond)
				continue
			}
			sendVia(w, in, w.rng.Range(1, 2), time.Second)
		}
	})
	e.spawn(3, "inspector", func(w *worker) {
		for e.running() {
			switch w.rng.Intn(4) {
			case 0:
				w.do("Agent.Processes+Frames", func() {
					for _, p := range agent.Processes() {
						_ = p.Status()
						fs := agent.Frames(p.ID())
						for round := 0; round < 2; round++ {
							for _, f := range fs {
								seen.Add(int64(readFrame(f)))
							}
							goruntime.Gosched()
						}
						if q := agent.Process(p.ID()); q != nil && q != p {
							panic("Agent.Process returned another process")
						}
					}
				})
			case 1:
				w.do("Agent.Symbols", func() {
					for _, s := range agent.Symbols() {
						_, _ = s.Name(), s.Namespace()
						_ = agent.Symbol(s.ID())
					}
				})
			case 2:
				w.do("Agent.Frames", func() { _ = agent.Frames(ids[0]) })
			case 3:
				time.Sleep(50 * time.Microsecond)
			}
		}
	})
	e.spawn(2, "watcher", func(w *worker) {
		for e.running() {
			var wt runtime.Watcher
			if w.rng.Chance(3, 4) {
				wt = runtime.NewFrameWatcher(func(f *runtime.Frame) { seen.Add(int64(readFrame(f))) })
			} else {
				wt = runtime.NewProcessWatcher(func(p *process.Process) { _ = p.ID() })
			}
			w.do("Agent.Watch", func() { agent.Watch(wt) })
			time.Sleep(time.Duration(w.rng.Range(100, 2000)) * time.Microsecond)
			w.do("Agent.Unwatch", func() { agent.Unwatch(wt) })
		}
	})
	e.spawn(1, "reload", func(w *worker) {
		for e.running() {
			i := w.rng.Intn(N)
			if w.rng.Bool() {
				w.do("Table.Free", func() { _, _ = tbl.Free(ids[i]) })
			}
			sb := mk(i)
			w.do("Table.Insert", func() { _ = tbl.Insert(sb) })
			time.Sleep(time.Duration(w.rng.Range(200, 3000)) * time.Microsecond)
		}
	})
	e.waitActive()
	e.main.do("Table.Close", func() { _ = tbl.Close() })
	e.main.do("Agent.Close", func() { agent.Close() })
}
