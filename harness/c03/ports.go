package c03

// Ports: ONE port.OutPort fanning out, at port level, to m = 2 or 3 in-ports (a branch is a sink's
// in-port, or the in-port of a pass-through OneToOneNode in front of its sink), used by several
// processes one after the other:
//
//	out ─┬ in[0] (sink 0)
//	     ├ in[1] = N1.in → N1.out → sink 1
//	     └ in[2] (sink 2)
//
// A case is a script of port-level and process-level steps:
//
//	L<b> / U<b>   out.Link(in[b]) / out.Unlink(in[b]) – also Link of a linked port, Unlink of a port
//	              that is not linked, and link → unlink → link of the same port (what a
//	              symbol.Cluster does to its ports on unload / load, a Table to its neighbours)
//	P             a new process opens the out-port (its writer is linked to what is linked NOW)
//	Q<p>          process p sends a request; every sink answers at once with payload·16 + branch + answerBase
//	H<p>          … a request the sinks hold (outstanding during the next teardown)
//	X<b> / N<b>   in-port b is closed / the node of branch b is closed
//	G             the sinks answer what they hold, the requesters collect
//
// Fan-in: with `outs k` (2–4) there are k out-ports; steps carry the out-port: L<o>.<b>, U<o>.<b>,
// P<o> (a new process opens out-port o).  Several out-ports feed ONE in-port (each Link registers its
// own close hook on it), some of them also fan out to other live in-ports; the shared in-port (or its
// node) is closed with and without requests waiting; EARLIER processes (opened before the close) and
// LATER ones go through every feeder.  Closing the shared in-port must unlink it from EVERY feeder.
//
// Oracle only (Go reference).  What the statement of C03 demands:
//   - Link / Unlink report what they did; OutPort.Links() lists exactly the in-ports that are linked
//     and not closed, in link order – a closed in-port is no longer linked (class stale-link);
//   - the writer of a process is linked to the in-ports linked when it opened the port; a request gets
//     packet.Join, in that order, of the real answers of those branches that are still alive when it is
//     written; a branch closed while it holds the request contributes the dropped error; no live
//     branch at all: the write is refused;
//   - so a process that opens the port AFTER an in-port was closed never sees that port: its
//     requests get the correct answers of the live branches (class unaffected otherwise) – "requesters
//     in other processes or on unaffected paths still receive their correct answers".

import (
	"fmt"
	"strconv"
	"strings"
	"sync"
	"time"

	"github.com/gofrs/uuid"
	"github.com/siyul-park/uniflow/pkg/node"
	"github.com/siyul-park/uniflow/pkg/packet"
	"github.com/siyul-park/uniflow/pkg/port"
	"github.com/siyul-park/uniflow/pkg/process"
	"github.com/siyul-park/uniflow/pkg/spec"
	"github.com/siyul-park/uniflow/pkg/symbol"
	"github.com/siyul-park/uniflow/pkg/types"

	"verifharness/lib"
)

type ptStep struct {
	op byte // L U P Q H X N G
	n  int  // branch (L U X N) or process (Q H)
	o  int  // out-port (L U P)
}

func (s ptStep) String() string {
	switch s.op {
	case 'G':
		return "G"
	case 'P':
		return "P" + strconv.Itoa(s.o)
	case 'L', 'U':
		return string(s.op) + strconv.Itoa(s.o) + "." + strconv.Itoa(s.n)
	}
	return string(s.op) + strconv.Itoa(s.n)
}

type ptPlan struct {
	id     int
	k      int // out-ports (1: the fan-out shapes; 2–4: fan-in)
	m      int
	nodes  []bool
	kinds  []string // per process, in the order of the P steps: send raw
	script []ptStep
}

func (p *ptPlan) describe() string {
	var bs []string
	for b := 0; b < p.m; b++ {
		if p.nodes[b] {
			bs = append(bs, fmt.Sprintf("in[%d] = pass-through node → sink %d", b, b))
		} else {
			bs = append(bs, fmt.Sprintf("in[%d] = sink %d", b, b))
		}
	}
	if p.k > 1 {
		return fmt.Sprintf("ports: %d out-ports (fan-in), in-ports %s; requesters of the processes: %s", p.k, strings.Join(bs, ", "), strings.Join(p.kinds, " "))
	}
	return fmt.Sprintf("ports: one out-port, port-level fan-out to %s; requesters of the processes: %s", strings.Join(bs, ", "), strings.Join(p.kinds, " "))
}

func ptScript(ss []ptStep) string {
	var out []string
	for _, s := range ss {
		out = append(out, s.String())
	}
	return strings.Join(out, " ")
}

// ptRef is the reference state: what is linked (in order), what is closed, what every process is
// linked to, which request every process has outstanding.
type ptRef struct {
	linked [][]int // per out-port
	closed []bool
	procs  []*ptProcRef
}

type ptProcRef struct {
	out   int
	links []int
	held  *ptReq
}

type ptReq struct {
	v     int
	cells []string // per link of the process: "-" not accepted, "" awaited, else canonical answer
}

func (r *ptRef) isLinked(o, b int) bool {
	for _, x := range r.linked[o] {
		if x == b {
			return true
		}
	}
	return false
}

func (r *ptRef) unlink(o, b int) {
	for i, x := range r.linked[o] {
		if x == b {
			r.linked[o] = append(r.linked[o][:i:i], r.linked[o][i+1:]...)
			return
		}
	}
}

// ptValid tells whether the harness can run a script: processes exist, one held request at a time,
// no request of a process that still waits, closed ports are left alone, nodes only where they are.
func ptValid(p *ptPlan) string {
	closed := make([]bool, p.m)
	var busy []bool
	for i, s := range p.script {
		bad := func(why string) string { return fmt.Sprintf("step %d (%s): %s", i, s, why) }
		switch s.op {
		case 'L', 'U', 'X', 'N':
			if s.n < 0 || s.n >= p.m {
				return bad("no such branch")
			}
			if s.o < 0 || s.o >= max(p.k, 1) {
				return bad("no such out-port")
			}
			if closed[s.n] {
				return bad("the in-port is already closed")
			}
			if s.op == 'N' && !p.nodes[s.n] {
				return bad("the branch has no node")
			}
			if s.op == 'X' || s.op == 'N' {
				closed[s.n] = true
			}
		case 'P':
			if s.o < 0 || s.o >= max(p.k, 1) {
				return bad("no such out-port")
			}
			busy = append(busy, false)
		case 'Q', 'H':
			if s.n < 0 || s.n >= len(busy) {
				return bad("no such process")
			}
			if busy[s.n] {
				return bad("the process still waits for a held request")
			}
			busy[s.n] = s.op == 'H'
		case 'G':
			for j := range busy {
				busy[j] = false
			}
		default:
			return bad("unknown step")
		}
	}
	if len(busy) > len(p.kinds) {
		return "more processes than requester kinds"
	}
	return ""
}

// ---------------------------------------------------------------- the live workflow

type ptHeldEntry struct {
	b  int
	v  int
	rd *packet.Reader
}

type ptWF struct {
	plan  *ptPlan
	outs  []*port.OutPort
	ins   []*port.InPort
	nds   []*node.OneToOneNode
	sinks []*port.InPort
	procs []*process.Process
	rs    []*requester

	mu    sync.Mutex
	hold  map[int]bool
	held  []ptHeldEntry
	arrCh chan arrival

	ref   ptRef
	nextV int

	trace []string
	fails []string
}

func (f *ptWF) fail(class, format string, a ...any) {
	f.fails = append(f.fails, class+"\t"+fmt.Sprintf(format, a...))
}

func (f *ptWF) log(format string, a ...any) { f.trace = append(f.trace, fmt.Sprintf(format, a...)) }

func ptBuild(p *ptPlan) *ptWF {
	f := &ptWF{plan: p, hold: map[int]bool{}, arrCh: make(chan arrival, 64), nextV: 1,
		ref: ptRef{closed: make([]bool, p.m), linked: make([][]int, max(p.k, 1))}, nds: make([]*node.OneToOneNode, p.m)}
	for o := 0; o < max(p.k, 1); o++ {
		f.outs = append(f.outs, port.NewOut())
	}
	for b := 0; b < p.m; b++ {
		b := b
		sink := port.NewIn()
		sink.AddListener(port.ListenFunc(func(proc *process.Process) {
			rd := sink.Open(proc)
			for pck := range rd.Read() {
				v := payloadOf(pck)
				f.mu.Lock()
				h := f.hold[v]
				if h {
					f.held = append(f.held, ptHeldEntry{b, v, rd})
				}
				f.mu.Unlock()
				if h {
					f.arrCh <- arrival{b, v}
				} else {
					rd.Receive(mkAns("v" + strconv.Itoa(v*foMul+b+answerBase)))
				}
			}
		}))
		f.sinks = append(f.sinks, sink)
		if p.nodes[b] {
			nd := node.NewOneToOneNode(func(_ *process.Process, pck *packet.Packet) (*packet.Packet, *packet.Packet) {
				return packet.New(pck.Payload()), nil
			})
			nd.Out(node.PortOut).Link(sink)
			f.nds[b] = nd
			f.ins = append(f.ins, nd.In(node.PortIn))
		} else {
			f.ins = append(f.ins, sink)
		}
	}
	return f
}

func (f *ptWF) cleanup() {
	for _, r := range f.rs {
		close(r.cmd)
	}
	lib.Safe(func() {
		for _, pr := range f.procs {
			pr.Exit(nil)
		}
		for _, o := range f.outs {
			o.Close()
		}
		for _, nd := range f.nds {
			if nd != nil {
				_ = nd.Close()
			}
		}
		for _, s := range f.sinks {
			s.Close()
		}
	})
}

// checkLinks compares OutPort.Links() with the reference.
func (f *ptWF) checkLinks(after string) {
	for o, out := range f.outs {
		var got []string
		stale := -1
		for _, in := range out.Links() {
			b := -1
			for i, x := range f.ins {
				if x == in {
					b = i
				}
			}
			got = append(got, strconv.Itoa(b))
			if b >= 0 && f.ref.closed[b] {
				stale = b
			}
		}
		var want []string
		for _, b := range f.ref.linked[o] {
			want = append(want, strconv.Itoa(b))
		}
		g, w := strings.Join(got, ","), strings.Join(want, ",")
		if g == w {
			continue
		}
		if stale >= 0 {
			f.fail("stale-link", "after %s out[%d].Links() = [%s]: in-port %d is closed and still linked – every process that opens this out-port from now on is linked to a reader of the dead port; expected [%s]", after, o, g, stale, w)
		} else {
			f.fail("links", "after %s out[%d].Links() = [%s], expected [%s] (link order)", after, o, g, w)
		}
	}
}

func (f *ptWF) reply(r *requester) (reqRes, bool) {
	select {
	case res := <-r.res:
		return res, true
	case <-time.After(watchdog):
		return reqRes{}, false
	}
}

// cellsFor: the cells of a request process p writes now.
func (f *ptWF) cellsFor(p, v int, answered bool) (cells []string, accepting int) {
	for _, b := range f.ref.procs[p].links {
		switch {
		case f.ref.closed[b]:
			cells = append(cells, "-")
		case answered:
			cells = append(cells, "v"+strconv.Itoa(v*foMul+b+answerBase))
			accepting++
		default:
			cells = append(cells, "")
			accepting++
		}
	}
	return
}

func ptExpect(cells []string) string {
	var cs []string
	for _, c := range cells {
		if c != "-" {
			cs = append(cs, c)
		}
	}
	return joinCanon(cs)
}

func (f *ptWF) describeCells(p int, cells []string) string {
	var out []string
	for i, b := range f.ref.procs[p].links {
		switch cells[i] {
		case "-":
			out = append(out, fmt.Sprintf("in[%d] closed before the write", b))
		case "E0":
			out = append(out, fmt.Sprintf("in[%d] closed while it held the request: dropped", b))
		default:
			out = append(out, fmt.Sprintf("in[%d] alive: %s", b, cells[i]))
		}
	}
	return strings.Join(out, "; ")
}

func (f *ptWF) judge(p int, v int, cells []string, res reqRes, when string) {
	r := f.rs[p]
	what := fmt.Sprintf("process %d (%s), request %d (%s)", p, r.kind, v, when)
	c := ""
	switch {
	case res.panicked != "":
		f.fail("panic", "%s: the requester panicked: %s", what, res.panicked)
		return
	case res.closed:
		f.fail("closed-channel", "%s: received the zero value of the closed Receive() channel although its writer was not closed", what)
		return
	case res.pck == nil:
		f.fail("nil-packet", "%s: was handed a nil packet", what)
		return
	default:
		c = canon(res.pck)
	}
	f.log("process %d is handed %s for request %d", p, c, v)
	exp := ptExpect(cells)
	if c == exp {
		return
	}
	class := "wrong-answer"
	for _, x := range cells {
		if x != "-" && x != "E0" {
			class = "unaffected"
		}
	}
	f.fail(class, "%s: got %s, expected %s = Join, in the link order of the process's writer, of [%s] – a process is linked to what was linked and alive when it opened the out-port; a closed in-port is no longer linked", what, c, exp, f.describeCells(p, cells))
}

// request: process p sends request v (hold: the sinks keep it).  Returns false when the case cannot go on.
func (f *ptWF) request(p int, hold bool) bool {
	r := f.rs[p]
	v := f.nextV
	f.nextV++
	cells, accepting := f.cellsFor(p, v, !hold)
	if hold && accepting > 0 {
		f.mu.Lock()
		f.hold[v] = true
		f.mu.Unlock()
	}
	tag := "Q"
	if hold {
		tag = "H"
	}
	f.log("%s%d: process %d sends request %d (%d of the %d in-ports its writer is linked to are alive)", tag, p, p, v, accepting, len(cells))
	if r.kind == "raw" {
		r.cmd <- reqCmd{"write", v}
		res, ok := f.reply(r)
		if !ok || res.panicked != "" {
			f.fail("blocked", "process %d: Write of request %d did not return (panic %q)", p, v, res.panicked)
			return false
		}
		if res.cnt != accepting {
			f.fail("write-count", "process %d: Write of request %d returned %d, expected %d = the in-ports its writer is linked to that are alive [%s]", p, v, res.cnt, accepting, f.describeCells(p, cells))
			return false
		}
		if accepting == 0 {
			return true
		}
	} else {
		r.cmd <- reqCmd{op: "send", v: v}
	}
	if hold && accepting > 0 {
		for i := 0; i < accepting; i++ {
			select {
			case <-f.arrCh:
			case <-time.After(watchdog):
				f.fail("lost-request", "process %d: held request %d reached only %d of %d live sinks", p, v, i, accepting)
				return false
			}
		}
		f.ref.procs[p].held = &ptReq{v: v, cells: cells}
		return true
	}
	if r.kind == "raw" {
		r.cmd <- reqCmd{op: "recv"}
	}
	res, ok := f.reply(r)
	if !ok {
		f.fail("blocked", "process %d (%s): request %d written with %d live branches, no response within %v [%s]", p, r.kind, v, accepting, watchdog, f.describeCells(p, cells))
		return false
	}
	if accepting == 0 {
		// Send on a writer nobody accepts from: the fallback (packet.None)
		if c := canon(res.pck); c != "N" {
			f.fail("wrong-answer", "process %d: Send of request %d with no live branch returned %s, expected packet.None", p, v, c)
		}
		return true
	}
	f.judge(p, v, cells, res, "answered at once")
	return true
}

// release: the sinks answer what they hold, the waiting requesters collect.
func (f *ptWF) release() bool {
	f.mu.Lock()
	held := f.held
	f.held = nil
	f.mu.Unlock()
	for _, h := range held {
		if f.ref.closed[h.b] {
			continue
		}
		a := "v" + strconv.Itoa(h.v*foMul+h.b+answerBase)
		ret := false
		if pmsg := lib.Safe(func() { ret = h.rd.Receive(mkAns(a)) }); pmsg != "" {
			f.fail("panic", "Reader.Receive of sink %d panicked: %s", h.b, pmsg)
		}
		f.log("G: sink %d answers held request %d with %s => %v", h.b, h.v, a, ret)
		for _, pr := range f.ref.procs {
			if pr.held != nil && pr.held.v == h.v {
				for i, b := range pr.links {
					if b == h.b && pr.held.cells[i] == "" {
						pr.held.cells[i] = a
					}
				}
			}
		}
	}
	for p, pr := range f.ref.procs {
		if pr.held == nil {
			continue
		}
		q := pr.held
		pr.held = nil
		r := f.rs[p]
		if r.kind == "raw" {
			r.cmd <- reqCmd{op: "recv"}
		}
		res, ok := f.reply(r)
		if !ok {
			f.fail("blocked", "process %d (%s): held request %d never got a response [%s]", p, r.kind, q.v, f.describeCells(p, q.cells))
			return false
		}
		f.judge(p, q.v, q.cells, res, "held during the teardown")
	}
	return true
}

type ptResult struct {
	trace, fails []string
	relinkClosed bool // an in-port that was linked, unlinked and linked again was closed, and a process opened the out-port afterwards
	sharedClosed bool // an in-port fed by two or more out-ports was closed, and a process opened an out-port afterwards
}

func runPorts(p *ptPlan) (res ptResult) {
	f := ptBuild(p)
	defer f.cleanup()
	unlinked := map[[2]int]bool{}
	relinked := map[[2]int]bool{}
	closedRelinked := false
	closedShared := false
	for _, s := range p.script {
		switch s.op {
		case 'L':
			want := !f.ref.isLinked(s.o, s.n)
			got := f.outs[s.o].Link(f.ins[s.n])
			f.log("%s: out[%d].Link(in[%d]) => %v", s, s.o, s.n, got)
			if want {
				f.ref.linked[s.o] = append(f.ref.linked[s.o], s.n)
				if unlinked[[2]int{s.o, s.n}] {
					relinked[[2]int{s.o, s.n}] = true
				}
			}
			if got != want {
				f.fail("links", "out[%d].Link(in[%d]) returned %v, expected %v", s.o, s.n, got, want)
			}
			f.checkLinks(s.String())
		case 'U':
			want := f.ref.isLinked(s.o, s.n)
			got := f.outs[s.o].Unlink(f.ins[s.n])
			f.log("%s: out[%d].Unlink(in[%d]) => %v", s, s.o, s.n, got)
			if want {
				f.ref.unlink(s.o, s.n)
				unlinked[[2]int{s.o, s.n}] = true
			}
			if got != want {
				f.fail("links", "out[%d].Unlink(in[%d]) returned %v, expected %v", s.o, s.n, got, want)
			}
			f.checkLinks(s.String())
		case 'P':
			pr := process.New()
			i := len(f.procs)
			f.procs = append(f.procs, pr)
			w := f.outs[s.o].Open(pr)
			r := &requester{q: qid{0, i}, wid: i, w: w, kind: p.kinds[i], cmd: make(chan reqCmd, 16), res: make(chan reqRes, 16)}
			f.rs = append(f.rs, r)
			go r.loop()
			f.ref.procs = append(f.ref.procs, &ptProcRef{out: s.o, links: append([]int(nil), f.ref.linked[s.o]...)})
			f.log("%s: process %d opens out-port %d; linked now: %v", s, i, s.o, f.ref.linked[s.o])
			if closedRelinked {
				res.relinkClosed = true
			}
			if closedShared {
				res.sharedClosed = true
			}
		case 'Q', 'H':
			if !f.request(s.n, s.op == 'H') {
				f.checkLinks("the end")
				res.trace, res.fails = f.trace, f.fails
				return
			}
		case 'X', 'N':
			var do func()
			if s.op == 'X' {
				do = func() { f.ins[s.n].Close() }
			} else {
				do = func() { _ = f.nds[s.n].Close() }
			}
			if pmsg := lib.Safe(do); pmsg != "" {
				f.fail("panic", "%s panicked: %s", s, pmsg)
			}
			f.log("%s: in-port %d closed", s, s.n)
			feeders := 0
			for o := range f.outs {
				if f.ref.isLinked(o, s.n) {
					feeders++
					if relinked[[2]int{o, s.n}] {
						closedRelinked = true
					}
				}
			}
			if feeders >= 2 {
				closedShared = true
			}
			f.ref.closed[s.n] = true
			for o := range f.outs {
				f.ref.unlink(o, s.n)
			}
			for _, pr := range f.ref.procs {
				if pr.held == nil {
					continue
				}
				for i, b := range pr.links {
					if b == s.n && pr.held.cells[i] == "" {
						pr.held.cells[i] = "E0"
					}
				}
			}
			f.checkLinks(s.String())
		case 'G':
			if !f.release() {
				res.trace, res.fails = f.trace, f.fails
				return
			}
		}
	}
	f.release()
	f.checkLinks("the end")
	res.trace, res.fails = f.trace, f.fails
	return
}

// ---------------------------------------------------------------- generation, corpus, driver loop

func genPorts(rng *lib.RNG, id int) *ptPlan {
	m := rng.Range(2, 3)
	p := &ptPlan{id: id, k: 1, m: m}
	for b := 0; b < m; b++ {
		p.nodes = append(p.nodes, rng.Chance(1, 3))
	}
	for i := 0; i < 3; i++ {
		p.kinds = append(p.kinds, lib.Pick(rng, []string{"send", "send", "raw"}))
	}
	linked := make([]bool, m)
	closed := make([]bool, m)
	add := func(op byte, n int) { p.script = append(p.script, ptStep{op: op, n: n}) }
	ops := func(n int) {
		for i := 0; i < n; i++ {
			b := rng.Intn(m)
			if closed[b] {
				continue
			}
			if rng.Chance(3, 5) {
				add('L', b)
				linked[b] = true
			} else {
				add('U', b)
				linked[b] = false
			}
		}
	}
	relink := func(b int) {
		if closed[b] {
			return
		}
		if !linked[b] {
			add('L', b)
		}
		add('U', b)
		if rng.Chance(1, 4) {
			add('U', b) // Unlink of a port that is not linked
		}
		add('L', b)
		if rng.Chance(1, 4) {
			add('L', b) // Link of a linked port
		}
		linked[b] = true
	}
	tear := func(b int) {
		if closed[b] {
			return
		}
		if p.nodes[b] && rng.Bool() {
			add('N', b)
		} else {
			add('X', b)
		}
		closed[b], linked[b] = true, false
	}
	// set-up
	ops(rng.Intn(4))
	if rng.Chance(4, 5) {
		for b := 0; b < m; b++ {
			if !linked[b] {
				add('L', b)
				linked[b] = true
			}
		}
	}
	t := rng.Intn(m)
	if rng.Chance(3, 5) {
		relink(t)
	}
	// process 0
	add('P', 0)
	for i := rng.Intn(3); i > 0; i-- {
		add('Q', 0)
	}
	held := false
	if rng.Chance(1, 2) {
		add('H', 0)
		held = true
	}
	if rng.Chance(1, 3) {
		ops(rng.Range(1, 2))
	}
	if rng.Chance(1, 4) {
		relink(t) // re-link while a process is running
	}
	tear(t)
	if held && rng.Bool() {
		add('G', 0)
		held = false
	}
	// process 1
	if rng.Chance(1, 4) {
		ops(rng.Range(1, 2))
	}
	add('P', 0)
	add('Q', 1)
	if held {
		add('G', 0)
		held = false
	}
	add('Q', 0)
	if rng.Chance(1, 2) {
		add('H', 1)
		held = true
	}
	// a second teardown, process 2
	if rng.Chance(1, 2) {
		t2 := rng.Intn(m)
		if rng.Chance(1, 2) {
			relink(t2)
		}
		tear(t2)
	} else if rng.Chance(1, 2) {
		ops(rng.Range(1, 2))
	}
	add('P', 0)
	add('Q', 2)
	if held {
		add('G', 0)
	}
	add('Q', 1)
	add('Q', 0)
	return p
}

// genFanInPorts: 2–4 out-ports feed in[0] (linked in random order, with some link / unlink noise), some of
// them also fan out to the other in-ports; EARLIER processes go through some feeders (some with a request
// held), in[0] – or its node – is closed, then LATER processes go through every feeder and everybody sends
// again.  Sometimes a second in-port is closed and a third round follows.
func genFanInPorts(rng *lib.RNG, id int) *ptPlan {
	k := rng.Range(2, 4)
	m := rng.Range(2, 3)
	p := &ptPlan{id: id, k: k, m: m}
	for b := 0; b < m; b++ {
		p.nodes = append(p.nodes, rng.Chance(1, 3))
	}
	linked := make([][]bool, k)
	for o := range linked {
		linked[o] = make([]bool, m)
	}
	closed := make([]bool, m)
	link := func(o, b int) {
		if !closed[b] {
			p.script = append(p.script, ptStep{op: 'L', o: o, n: b})
			linked[o][b] = true
		}
	}
	unlink := func(o, b int) {
		if !closed[b] {
			p.script = append(p.script, ptStep{op: 'U', o: o, n: b})
			linked[o][b] = false
		}
	}
	nproc := 0
	var held []bool
	open := func(o int) int {
		p.script = append(p.script, ptStep{op: 'P', o: o})
		p.kinds = append(p.kinds, lib.Pick(rng, []string{"send", "send", "raw"}))
		held = append(held, false)
		nproc++
		return nproc - 1
	}
	q := func(i int) {
		if !held[i] {
			p.script = append(p.script, ptStep{op: 'Q', n: i})
		}
	}
	h := func(i int) {
		if !held[i] {
			p.script = append(p.script, ptStep{op: 'H', n: i})
			held[i] = true
		}
	}
	g := func() {
		p.script = append(p.script, ptStep{op: 'G'})
		for i := range held {
			held[i] = false
		}
	}
	tear := func(b int) {
		if closed[b] {
			return
		}
		if p.nodes[b] && rng.Bool() {
			p.script = append(p.script, ptStep{op: 'N', n: b})
		} else {
			p.script = append(p.script, ptStep{op: 'X', n: b})
		}
		closed[b] = true
		for o := range linked {
			linked[o][b] = false
		}
	}
	// set-up: the feeders are linked to the shared in[0] in a random order; fan-out links in between
	order := make([]int, k)
	for i := range order {
		order[i] = i
	}
	for i := k - 1; i > 0; i-- {
		j := rng.Intn(i + 1)
		order[i], order[j] = order[j], order[i]
	}
	for _, o := range order {
		if rng.Chance(1, 2) {
			link(o, rng.Range(1, m-1)) // fan-out to a live in-port, linked before the shared one
		}
		link(o, 0)
		if rng.Chance(1, 2) {
			link(o, rng.Range(1, m-1))
		}
		if rng.Chance(1, 6) {
			unlink(o, 0)
			link(o, 0)
		}
	}
	// earlier processes
	for _, o := range order {
		if rng.Chance(2, 3) {
			i := open(o)
			if rng.Bool() {
				q(i)
			}
			if rng.Chance(1, 3) {
				h(i)
			}
		}
	}
	tear(0)
	if rng.Bool() {
		g()
	}
	// later processes through every feeder, then everybody again
	for o := 0; o < k; o++ {
		q(open(o))
	}
	g()
	for i := 0; i < nproc; i++ {
		q(i)
	}
	if m == 3 && rng.Bool() {
		if rng.Bool() {
			h(rng.Intn(nproc))
		}
		tear(rng.Range(1, 2))
		g()
		for o := 0; o < k; o++ {
			if rng.Bool() {
				q(open(o))
			}
		}
		for i := 0; i < nproc; i++ {
			if rng.Bool() {
				q(i)
			}
		}
	}
	return p
}

// isPortsCorpus tells whether a corpus file belongs to the ports family:
//
//	ports <m>
//	outs <k>                      (optional, default 1: the number of out-ports)
//	nodes <0|1> × m
//	kinds <send|raw> …            (one per P step)
//	script L0 L1 U1 L1 P Q0 H0 X1 G P Q1 Q0 …      (L<b>, U<b>, P: out-port 0; else L<o>.<b>, U<o>.<b>, P<o>)
func isPortsCorpus(path string) bool {
	ls := lib.ReadLines(path)
	return len(ls) > 0 && strings.HasPrefix(ls[0], "ports ")
}

func parsePortsCorpus(path string, id int) (p *ptPlan, err string) {
	p = &ptPlan{id: id}
	for _, l := range lib.ReadLines(path) {
		f := strings.Fields(l)
		switch f[0] {
		case "ports":
			if len(f) != 2 || (f[1] != "2" && f[1] != "3") {
				return nil, "ports needs the number of in-ports (2 or 3)"
			}
			p.m, _ = strconv.Atoi(f[1])
		case "nodes":
			for _, x := range f[1:] {
				if x != "0" && x != "1" {
					return nil, "nodes needs 0 or 1 per branch"
				}
				p.nodes = append(p.nodes, x == "1")
			}
		case "kinds":
			for _, x := range f[1:] {
				if x != "send" && x != "raw" {
					return nil, "unknown requester kind " + x
				}
				p.kinds = append(p.kinds, x)
			}
		case "outs":
			if len(f) != 2 || (f[1] != "1" && f[1] != "2" && f[1] != "3" && f[1] != "4") {
				return nil, "outs needs the number of out-ports (1 to 4)"
			}
			p.k, _ = strconv.Atoi(f[1])
		case "script":
			for _, t := range f[1:] {
				s := ptStep{op: t[0]}
				body := t[1:]
				switch {
				case t == "G" || t == "P":
				case t[0] == 'P':
					o, e := strconv.Atoi(body)
					if e != nil {
						return nil, "bad step " + t
					}
					s.o = o
				case (t[0] == 'L' || t[0] == 'U') && strings.Contains(body, "."):
					ab := strings.SplitN(body, ".", 2)
					o, e1 := strconv.Atoi(ab[0])
					n, e2 := strconv.Atoi(ab[1])
					if e1 != nil || e2 != nil {
						return nil, "bad step " + t
					}
					s.o, s.n = o, n
				default:
					n, e := strconv.Atoi(body)
					if e != nil || !strings.ContainsRune("LUQHXN", rune(t[0])) {
						return nil, "bad step " + t
					}
					s.n = n
				}
				p.script = append(p.script, s)
			}
		default:
			return nil, "unknown line " + l
		}
	}
	if p.k == 0 {
		p.k = 1
	}
	if p.m == 0 || len(p.nodes) != p.m {
		return nil, "inconsistent case (ports m, m node flags)"
	}
	if e := ptValid(p); e != "" {
		return nil, e
	}
	return p, ""
}

func ptCorpusText(p *ptPlan) string {
	var ns []string
	for _, n := range p.nodes {
		if n {
			ns = append(ns, "1")
		} else {
			ns = append(ns, "0")
		}
	}
	return fmt.Sprintf("ports %d\nouts %d\nnodes %s\nkinds %s\nscript %s\n", p.m, max(p.k, 1), strings.Join(ns, " "), strings.Join(p.kinds, " "), ptScript(p.script))
}

// runPortsFamily runs the ports family (oracle only).
func runPortsFamily(c *lib.Ctx, rng *lib.RNG, add func(class, what, replay string), progress func(string), stop func() bool) {
	one := func(p *ptPlan) {
		progress(fmt.Sprintf("ports scenario %d (%s) script=%s", p.id, p.describe(), ptScript(p.script)))
		if e := ptValid(p); e != "" {
			add("corpus", "unusable ports script: "+e, ptCorpusText(p))
			return
		}
		res := runPorts(p)
		key := ""
		if res.relinkClosed {
			key = fmt.Sprintf("pt%d", p.id)
			c.Hit("ports-relinked-in-port-closed-then-new-process")
		}
		if res.sharedClosed {
			key = fmt.Sprintf("pt%d", p.id)
			c.Hit("ports-fan-in-shared-in-port-closed-then-new-process")
		}
		c.Count(key)
		if p.k > 1 {
			c.Hit(fmt.Sprintf("workflow-ports-fan-in-%d-feeders", p.k))
		} else {
			c.Hit(fmt.Sprintf("workflow-ports-fan-out-%d", p.m))
		}
		for _, fl := range res.fails {
			parts := strings.SplitN(fl, "\t", 2)
			var b strings.Builder
			fmt.Fprintf(&b, "# scenario: %s\n# script: %s\n# as a corpus file (corpus/C03/*.ops):\n", p.describe(), ptScript(p.script))
			for _, cl := range strings.Split(strings.TrimSpace(ptCorpusText(p)), "\n") {
				fmt.Fprintf(&b, "#   %s\n", cl)
			}
			for _, l := range res.trace {
				fmt.Fprintf(&b, "%s\n", l)
			}
			add(parts[0], parts[1], b.String())
		}
	}
	for i, fl := range c.CorpusFiles() {
		if !isPortsCorpus(fl) {
			continue
		}
		p, e := parsePortsCorpus(fl, 500+i)
		if e != "" {
			add("corpus", "unusable corpus file "+fl+": "+e, "")
			continue
		}
		c.Hit("corpus-case")
		one(p)
	}
	n := c.Scale(300, 3000)
	for i := 0; i < n && !stop(); i++ {
		one(genPorts(rng.Fork(), 4000+i))
	}
	nf := c.Scale(300, 3000)
	for i := 0; i < nf && !stop(); i++ {
		one(genFanInPorts(rng.Fork(), 8000+i))
	}
}

// ---------------------------------------------------------------- the symbol-table route

// tableFanIn: the same fan-in built by a symbol.Table.  Symbols X and Y answer requests (X with
// payload·16 + 0 + answerBase, Y with … + 1 …); 2–3 pass-through symbols U_j reference X's in-port in
// their specs, some of them Y's as well; everything is inserted in a random order (the table links the
// ports).  X is freed (Table.Free) or replaced (Insert of a symbol with X's id, answering with … + 2 …):
// Table.free does not unlink the feeders itself, it relies on the close hooks of X's in-port.
// Afterwards no feeder's out-port may list X's old in-port, and processes – one opened before, one
// after – through every feeder get the Join of the live answers in link order (nothing linked: the
// pass-through node answers the request with itself).
func tableFanIn(c *lib.Ctx, rng *lib.RNG, tries int) (fails []lib.OracleFail) {
	for try := 0; try < tries && len(fails) == 0; try++ {
		tb := symbol.NewTable()
		var trace []string
		log := func(format string, a ...any) { trace = append(trace, fmt.Sprintf(format, a...)) }
		mk := func(id uuid.UUID, nd node.Node, ports map[string][]spec.Port) *symbol.Symbol {
			return &symbol.Symbol{Spec: &spec.Meta{ID: id, Kind: "verif", Namespace: "default", Ports: ports}, Node: nd}
		}
		responder := func(b int) node.Node {
			return node.NewOneToOneNode(func(_ *process.Process, pck *packet.Packet) (*packet.Packet, *packet.Packet) {
				return packet.New(types.NewInt64(int64(payloadOf(pck)*foMul + b + answerBase))), nil
			})
		}
		pass := func() node.Node {
			return node.NewOneToOneNode(func(_ *process.Process, pck *packet.Packet) (*packet.Packet, *packet.Packet) {
				return packet.New(pck.Payload()), nil
			})
		}
		xid, yid := uuid.Must(uuid.NewV7()), uuid.Must(uuid.NewV7())
		x, y := mk(xid, responder(0), nil), mk(yid, responder(1), nil)
		nU := rng.Range(2, 3)
		var us []*symbol.Symbol
		var alsoY []bool
		for j := 0; j < nU; j++ {
			ports := []spec.Port{{ID: xid, Port: node.PortIn}}
			ay := j == 0 || rng.Bool()
			if ay {
				if rng.Bool() {
					ports = append(ports, spec.Port{ID: yid, Port: node.PortIn})
				} else {
					ports = append([]spec.Port{{ID: yid, Port: node.PortIn}}, ports...)
				}
			}
			alsoY = append(alsoY, ay)
			us = append(us, mk(uuid.Must(uuid.NewV7()), pass(), map[string][]spec.Port{node.PortOut: ports}))
		}
		all := append([]*symbol.Symbol{x, y}, us...)
		names := []string{"X", "Y", "U0", "U1", "U2"}
		order := make([]int, len(all))
		for i := range order {
			order[i] = i
		}
		for i := len(order) - 1; i > 0; i-- {
			j := rng.Intn(i + 1)
			order[i], order[j] = order[j], order[i]
		}
		bad := func(class, format string, a ...any) {
			what := "symbol-table fan-in: " + fmt.Sprintf(format, a...)
			fails = append(fails, lib.OracleFail{Class: class, What: what, Replay: strings.Join(trace, "\n") + "\n"})
		}
		for _, i := range order {
			if err := tb.Insert(all[i]); err != nil {
				bad("setup", "Insert(%s): %v", names[i], err)
			}
			log("Insert %s", names[i])
		}
		xin, yin := x.In(node.PortIn), y.In(node.PortIn)
		// drivers and the earlier processes
		type drv struct {
			out *port.OutPort
			ws  []*packet.Writer
		}
		var ds []*drv
		for _, u := range us {
			d := &drv{out: port.NewOut()}
			d.out.Link(u.In(node.PortIn))
			ds = append(ds, d)
		}
		var procs []*process.Process
		nextV := 1
		send := func(j int, w *packet.Writer, when string, cell func(in *port.InPort) string) {
			v := nextV
			nextV++
			// reference: Join, in the link order of U_j's out-port, of the live answers
			var cs []string
			for _, in := range us[j].Out(node.PortOut).Links() {
				if a := cell(in); a != "" {
					cs = append(cs, a)
				}
			}
			exp := "v" + strconv.Itoa(v) // nothing linked: the pass-through node's write is refused, the request is its own answer
			if len(cs) > 0 {
				exp = "v" + strings.Join(cs, ",")
				if len(cs) > 1 {
					exp = "V" + strings.Join(cs, ",")
				}
			}
			done := make(chan *packet.Packet, 1)
			go func() { done <- packet.Send(w, packet.New(types.NewInt64(int64(v)))) }()
			select {
			case pck := <-done:
				got := canon(pck)
				log("%s: process through U%d sends %d => %s", when, j, v, got)
				if got != exp {
					bad("unaffected", "%s, request %d through U%d: got %s, expected %s = Join of the answers of the symbols still linked to U%d's out-port", when, v, j, got, exp, j)
				}
			case <-time.After(watchdog):
				bad("blocked", "%s, request %d through U%d: no response within %v", when, v, j, watchdog)
			}
		}
		ans := func(xAlive, replaced bool, x2in *port.InPort) func(in *port.InPort) string {
			return func(in *port.InPort) string {
				switch {
				case in == yin:
					return "Y"
				case in == xin && xAlive:
					return "X"
				case replaced && in == x2in:
					return "Z"
				}
				return ""
			}
		}
		resolve := func(f func(in *port.InPort) string, v int) func(in *port.InPort) string {
			return func(in *port.InPort) string {
				switch f(in) {
				case "X":
					return strconv.Itoa(v*foMul + 0 + answerBase)
				case "Y":
					return strconv.Itoa(v*foMul + 1 + answerBase)
				case "Z":
					return strconv.Itoa(v*foMul + 2 + answerBase)
				}
				return ""
			}
		}
		early := process.New()
		procs = append(procs, early)
		for j, d := range ds {
			w := d.out.Open(early)
			d.ws = append(d.ws, w)
			send(j, w, "before the teardown", resolve(ans(true, false, nil), nextV))
		}
		if len(fails) > 0 {
			break
		}
		// the teardown
		replace := rng.Chance(1, 3)
		var x2in *port.InPort
		if replace {
			x2 := mk(xid, responder(2), nil)
			if err := tb.Insert(x2); err != nil {
				bad("setup", "Insert (replace X): %v", err)
			}
			x2in = x2.In(node.PortIn)
			log("Insert a symbol with X's id (replaces X)")
		} else {
			if _, err := tb.Free(xid); err != nil {
				bad("setup", "Free(X): %v", err)
			}
			log("Free X")
		}
		for j, u := range us {
			for _, in := range u.Out(node.PortOut).Links() {
				if in == xin {
					bad("stale-link", "after X was %s U%d's out-port still lists X's closed in-port: every process that opens it from now on is linked to a reader of the dead port", map[bool]string{true: "replaced", false: "freed"}[replace], j)
				}
			}
			if replace {
				found := false
				for _, in := range u.Out(node.PortOut).Links() {
					found = found || in == x2in
				}
				if !found {
					bad("links", "after X was replaced U%d's out-port is not linked to the new symbol's in-port", j)
				}
			}
		}
		late := process.New()
		procs = append(procs, late)
		for j, d := range ds {
			w := d.out.Open(late)
			send(j, w, "process opened after the teardown", resolve(ans(false, replace, x2in), nextV))
		}
		// the earlier process again: its writers in U_j's out-ports keep the readers they were linked to
		for j, d := range ds {
			v := nextV
			nextV++
			var cs []string
			done := make(chan *packet.Packet, 1)
			go func() { done <- packet.Send(d.ws[0], packet.New(types.NewInt64(int64(v)))) }()
			if alsoY[j] {
				cs = append(cs, strconv.Itoa(v*foMul+1+answerBase))
			}
			exp := "v" + strconv.Itoa(v)
			if len(cs) > 0 {
				exp = "v" + cs[0]
			}
			select {
			case pck := <-done:
				got := canon(pck)
				log("process opened before the teardown, through U%d, sends %d => %s", j, v, got)
				if got != exp {
					bad("unaffected", "process opened before the teardown, request %d through U%d: got %s, expected %s (X is gone; Y's answer if U%d feeds Y, else the request itself)", v, j, got, exp, j)
				}
			case <-time.After(watchdog):
				bad("blocked", "process opened before the teardown, request %d through U%d: no response within %v", v, j, watchdog)
			}
		}
		c.Hit("table-fan-in")
		if replace {
			c.Hit("table-fan-in-replace")
		}
		c.Count("")
		lib.Safe(func() {
			for _, p := range procs {
				p.Exit(nil)
			}
			for _, d := range ds {
				d.out.Close()
			}
			_ = tb.Close()
		})
	}
	return
}
