package c03

// Ports: ONE port.OutPort fanning out, at port level, to m = 2 or 3 in-ports (a branch is a sink's
// in-port, or the in-port of a pass-through OneToOneNode in front of its sink), used by several
// processes one after the other:
//
//	out ─┬ in[0] (sink 0)
//	     ├ in[1] = N1.in → N1.out → sink 1
//	     └ in[2] (sink 2)
//
// A case is a script of port-level and process-level steps:
//
//	L<b> / U<b>   out.Link(in[b]) / out.Unlink(in[b]) – also Link of a linked port, Unlink of a port
//	              that is not linked, and link → unlink → link of the same port (what a
//	              symbol.Cluster does to its ports on unload / load, a Table to its neighbours)
//	P             a new process opens the out-port (its writer is linked to what is linked NOW)
//	Q<p>          process p sends a request; every sink answers at once with payload·16 + branch + answerBase
//	H<p>          … a request the sinks hold (outstanding during the next teardown)
//	X<b> / N<b>   in-port b is closed / the node of branch b is closed
//	G             the sinks answer what they hold, the requesters collect
//
// Oracle only (Go reference).  What the statement of C03 demands:
//   - Link / Unlink report what they did; OutPort.Links() lists exactly the in-ports that are linked
//     and not closed, in link order – a closed in-port is no longer linked (class stale-link);
//   - the writer of a process is linked to the in-ports linked when it opened the port; a request gets
//     packet.Join, in that order, of the real answers of those branches that are still alive when it is
//     written; a branch closed while it holds the request contributes the dropped error; no live
//     branch at all: the write is refused;
//   - so a process that opens the port AFTER an in-port was closed never sees that port: its
//     requests get the correct answers of the live branches (class unaffected otherwise) – "requesters
//     in other processes or on unaffected paths still receive their correct answers".

import (
	"fmt"
	"strconv"
	"strings"
	"sync"
	"time"

	"github.com/siyul-park/uniflow/pkg/node"
	"github.com/siyul-park/uniflow/pkg/packet"
	"github.com/siyul-park/uniflow/pkg/port"
	"github.com/siyul-park/uniflow/pkg/process"

	"verifharness/lib"
)

type ptStep struct {
	op byte // L U P Q H X N G
	n  int  // branch (L U X N) or process (Q H)
}

func (s ptStep) String() string {
	if s.op == 'P' || s.op == 'G' {
		return string(s.op)
	}
	return string(s.op) + strconv.Itoa(s.n)
}

type ptPlan struct {
	id     int
	m      int
	nodes  []bool
	kinds  []string // per process, in the order of the P steps: send raw
	script []ptStep
}

func (p *ptPlan) describe() string {
	var bs []string
	for b := 0; b < p.m; b++ {
		if p.nodes[b] {
			bs = append(bs, fmt.Sprintf("in[%d] = pass-through node → sink %d", b, b))
		} else {
			bs = append(bs, fmt.Sprintf("in[%d] = sink %d", b, b))
		}
	}
	return fmt.Sprintf("ports: one out-port, port-level fan-out to %s; requesters of the processes: %s", strings.Join(bs, ", "), strings.Join(p.kinds, " "))
}

func ptScript(ss []ptStep) string {
	var out []string
	for _, s := range ss {
		out = append(out, s.String())
	}
	return strings.Join(out, " ")
}

// ptRef is the reference state: what is linked (in order), what is closed, what every process is
// linked to, which request every process has outstanding.
type ptRef struct {
	linked []int
	closed []bool
	procs  []*ptProcRef
}

type ptProcRef struct {
	links []int
	held  *ptReq
}

type ptReq struct {
	v     int
	cells []string // per link of the process: "-" not accepted, "" awaited, else canonical answer
}

func (r *ptRef) isLinked(b int) bool {
	for _, x := range r.linked {
		if x == b {
			return true
		}
	}
	return false
}

func (r *ptRef) unlink(b int) {
	for i, x := range r.linked {
		if x == b {
			r.linked = append(r.linked[:i:i], r.linked[i+1:]...)
			return
		}
	}
}

// ptValid tells whether the harness can run a script: processes exist, one held request at a time,
// no request of a process that still waits, closed ports are left alone, nodes only where they are.
func ptValid(p *ptPlan) string {
	closed := make([]bool, p.m)
	var busy []bool
	for i, s := range p.script {
		bad := func(why string) string { return fmt.Sprintf("step %d (%s): %s", i, s, why) }
		switch s.op {
		case 'L', 'U', 'X', 'N':
			if s.n < 0 || s.n >= p.m {
				return bad("no such branch")
			}
			if closed[s.n] {
				return bad("the in-port is already closed")
			}
			if s.op == 'N' && !p.nodes[s.n] {
				return bad("the branch has no node")
			}
			if s.op == 'X' || s.op == 'N' {
				closed[s.n] = true
			}
		case 'P':
			busy = append(busy, false)
		case 'Q', 'H':
			if s.n < 0 || s.n >= len(busy) {
				return bad("no such process")
			}
			if busy[s.n] {
				return bad("the process still waits for a held request")
			}
			busy[s.n] = s.op == 'H'
		case 'G':
			for j := range busy {
				busy[j] = false
			}
		default:
			return bad("unknown step")
		}
	}
	if len(busy) > len(p.kinds) {
		return "more processes than requester kinds"
	}
	return ""
}

// ---------------------------------------------------------------- the live workflow

type ptHeldEntry struct {
	b  int
	v  int
	rd *packet.Reader
}

type ptWF struct {
	plan  *ptPlan
	out   *port.OutPort
	ins   []*port.InPort
	nds   []*node.OneToOneNode
	sinks []*port.InPort
	procs []*process.Process
	rs    []*requester

	mu    sync.Mutex
	hold  map[int]bool
	held  []ptHeldEntry
	arrCh chan arrival

	ref   ptRef
	nextV int

	trace []string
	fails []string
}

func (f *ptWF) fail(class, format string, a ...any) {
	f.fails = append(f.fails, class+"\t"+fmt.Sprintf(format, a...))
}

func (f *ptWF) log(format string, a ...any) { f.trace = append(f.trace, fmt.Sprintf(format, a...)) }

func ptBuild(p *ptPlan) *ptWF {
	f := &ptWF{plan: p, out: port.NewOut(), hold: map[int]bool{}, arrCh: make(chan arrival, 64), nextV: 1,
		ref: ptRef{closed: make([]bool, p.m)}, nds: make([]*node.OneToOneNode, p.m)}
	for b := 0; b < p.m; b++ {
		b := b
		sink := port.NewIn()
		sink.AddListener(port.ListenFunc(func(proc *process.Process) {
			rd := sink.Open(proc)
			for pck := range rd.Read() {
				v := payloadOf(pck)
				f.mu.Lock()
				h := f.hold[v]
				if h {
					f.held = append(f.held, ptHeldEntry{b, v, rd})
				}
				f.mu.Unlock()
				if h {
					f.arrCh <- arrival{b, v}
				} else {
					rd.Receive(mkAns("v" + strconv.Itoa(v*foMul+b+answerBase)))
				}
			}
		}))
		f.sinks = append(f.sinks, sink)
		if p.nodes[b] {
			nd := node.NewOneToOneNode(func(_ *process.Process, pck *packet.Packet) (*packet.Packet, *packet.Packet) {
				return packet.New(pck.Payload()), nil
			})
			nd.Out(node.PortOut).Link(sink)
			f.nds[b] = nd
			f.ins = append(f.ins, nd.In(node.PortIn))
		} else {
			f.ins = append(f.ins, sink)
		}
	}
	return f
}

func (f *ptWF) cleanup() {
	for _, r := range f.rs {
		close(r.cmd)
	}
	lib.Safe(func() {
		for _, pr := range f.procs {
			pr.Exit(nil)
		}
		f.out.Close()
		for _, nd := range f.nds {
			if nd != nil {
				_ = nd.Close()
			}
		}
		for _, s := range f.sinks {
			s.Close()
		}
	})
}

// checkLinks compares OutPort.Links() with the reference.
func (f *ptWF) checkLinks(after string) {
	var got []string
	stale := -1
	for _, in := range f.out.Links() {
		b := -1
		for i, x := range f.ins {
			if x == in {
				b = i
			}
		}
		got = append(got, strconv.Itoa(b))
		if b >= 0 && f.ref.closed[b] {
			stale = b
		}
	}
	var want []string
	for _, b := range f.ref.linked {
		want = append(want, strconv.Itoa(b))
	}
	g, w := strings.Join(got, ","), strings.Join(want, ",")
	if g == w {
		return
	}
	if stale >= 0 {
		f.fail("stale-link", "after %s OutPort.Links() = [%s]: in-port %d is closed and still linked – every process that opens the out-port from now on is linked to a reader of the dead port; expected [%s]", after, g, stale, w)
	} else {
		f.fail("links", "after %s OutPort.Links() = [%s], expected [%s] (link order)", after, g, w)
	}
}

func (f *ptWF) reply(r *requester) (reqRes, bool) {
	select {
	case res := <-r.res:
		return res, true
	case <-time.After(watchdog):
		return reqRes{}, false
	}
}

// cellsFor: the cells of a request process p writes now.
func (f *ptWF) cellsFor(p, v int, answered bool) (cells []string, accepting int) {
	for _, b := range f.ref.procs[p].links {
		switch {
		case f.ref.closed[b]:
			cells = append(cells, "-")
		case answered:
			cells = append(cells, "v"+strconv.Itoa(v*foMul+b+answerBase))
			accepting++
		default:
			cells = append(cells, "")
			accepting++
		}
	}
	return
}

func ptExpect(cells []string) string {
	var cs []string
	for _, c := range cells {
		if c != "-" {
			cs = append(cs, c)
		}
	}
	return joinCanon(cs)
}

func (f *ptWF) describeCells(p int, cells []string) string {
	var out []string
	for i, b := range f.ref.procs[p].links {
		switch cells[i] {
		case "-":
			out = append(out, fmt.Sprintf("in[%d] closed before the write", b))
		case "E0":
			out = append(out, fmt.Sprintf("in[%d] closed while it held the request: dropped", b))
		default:
			out = append(out, fmt.Sprintf("in[%d] alive: %s", b, cells[i]))
		}
	}
	return strings.Join(out, "; ")
}

func (f *ptWF) judge(p int, v int, cells []string, res reqRes, when string) {
	r := f.rs[p]
	what := fmt.Sprintf("process %d (%s), request %d (%s)", p, r.kind, v, when)
	c := ""
	switch {
	case res.panicked != "":
		f.fail("panic", "%s: the requester panicked: %s", what, res.panicked)
		return
	case res.closed:
		f.fail("closed-channel", "%s: received the zero value of the closed Receive() channel although its writer was not closed", what)
		return
	case res.pck == nil:
		f.fail("nil-packet", "%s: was handed a nil packet", what)
		return
	default:
		c = canon(res.pck)
	}
	f.log("process %d is handed %s for request %d", p, c, v)
	exp := ptExpect(cells)
	if c == exp {
		return
	}
	class := "wrong-answer"
	for _, x := range cells {
		if x != "-" && x != "E0" {
			class = "unaffected"
		}
	}
	f.fail(class, "%s: got %s, expected %s = Join, in the link order of the process's writer, of [%s] – a process is linked to what was linked and alive when it opened the out-port; a closed in-port is no longer linked", what, c, exp, f.describeCells(p, cells))
}

// request: process p sends request v (hold: the sinks keep it).  Returns false when the case cannot go on.
func (f *ptWF) request(p int, hold bool) bool {
	r := f.rs[p]
	v := f.nextV
	f.nextV++
	cells, accepting := f.cellsFor(p, v, !hold)
	if hold && accepting > 0 {
		f.mu.Lock()
		f.hold[v] = true
		f.mu.Unlock()
	}
	tag := "Q"
	if hold {
		tag = "H"
	}
	f.log("%s%d: process %d sends request %d (%d of the %d in-ports its writer is linked to are alive)", tag, p, p, v, accepting, len(cells))
	if r.kind == "raw" {
		r.cmd <- reqCmd{"write", v}
		res, ok := f.reply(r)
		if !ok || res.panicked != "" {
			f.fail("blocked", "process %d: Write of request %d did not return (panic %q)", p, v, res.panicked)
			return false
		}
		if res.cnt != accepting {
			f.fail("write-count", "process %d: Write of request %d returned %d, expected %d = the in-ports its writer is linked to that are alive [%s]", p, v, res.cnt, accepting, f.describeCells(p, cells))
			return false
		}
		if accepting == 0 {
			return true
		}
	} else {
		r.cmd <- reqCmd{op: "send", v: v}
	}
	if hold && accepting > 0 {
		for i := 0; i < accepting; i++ {
			select {
			case <-f.arrCh:
			case <-time.After(watchdog):
				f.fail("lost-request", "process %d: held request %d reached only %d of %d live sinks", p, v, i, accepting)
				return false
			}
		}
		f.ref.procs[p].held = &ptReq{v: v, cells: cells}
		return true
	}
	if r.kind == "raw" {
		r.cmd <- reqCmd{op: "recv"}
	}
	res, ok := f.reply(r)
	if !ok {
		f.fail("blocked", "process %d (%s): request %d written with %d live branches, no response within %v [%s]", p, r.kind, v, accepting, watchdog, f.describeCells(p, cells))
		return false
	}
	if accepting == 0 {
		// Send on a writer nobody accepts from: the fallback (packet.None)
		if c := canon(res.pck); c != "N" {
			f.fail("wrong-answer", "process %d: Send of request %d with no live branch returned %s, expected packet.None", p, v, c)
		}
		return true
	}
	f.judge(p, v, cells, res, "answered at once")
	return true
}

// release: the sinks answer what they hold, the waiting requesters collect.
func (f *ptWF) release() bool {
	f.mu.Lock()
	held := f.held
	f.held = nil
	f.mu.Unlock()
	for _, h := range held {
		if f.ref.closed[h.b] {
			continue
		}
		a := "v" + strconv.Itoa(h.v*foMul+h.b+answerBase)
		ret := false
		if pmsg := lib.Safe(func() { ret = h.rd.Receive(mkAns(a)) }); pmsg != "" {
			f.fail("panic", "Reader.Receive of sink %d panicked: %s", h.b, pmsg)
		}
		f.log("G: sink %d answers held request %d with %s => %v", h.b, h.v, a, ret)
		for _, pr := range f.ref.procs {
			if pr.held != nil && pr.held.v == h.v {
				for i, b := range pr.links {
					if b == h.b && pr.held.cells[i] == "" {
						pr.held.cells[i] = a
					}
				}
			}
		}
	}
	for p, pr := range f.ref.procs {
		if pr.held == nil {
			continue
		}
		q := pr.held
		pr.held = nil
		r := f.rs[p]
		if r.kind == "raw" {
			r.cmd <- reqCmd{op: "recv"}
		}
		res, ok := f.reply(r)
		if !ok {
			f.fail("blocked", "process %d (%s): held request %d never got a response [%s]", p, r.kind, q.v, f.describeCells(p, q.cells))
			return false
		}
		f.judge(p, q.v, q.cells, res, "held during the teardown")
	}
	return true
}

type ptResult struct {
	trace, fails []string
	relinkClosed bool // an in-port that was linked, unlinked and linked again was closed, and a process opened the out-port afterwards
}

func runPorts(p *ptPlan) (res ptResult) {
	f := ptBuild(p)
	defer f.cleanup()
	linkCount := make([]int, p.m)
	unlinked := make([]bool, p.m)
	relinked := make([]bool, p.m)
	closedRelinked := false
	for _, s := range p.script {
		switch s.op {
		case 'L':
			want := !f.ref.isLinked(s.n)
			got := f.out.Link(f.ins[s.n])
			f.log("L%d: out.Link(in[%d]) => %v", s.n, s.n, got)
			if want {
				f.ref.linked = append(f.ref.linked, s.n)
				linkCount[s.n]++
				if unlinked[s.n] {
					relinked[s.n] = true
				}
			}
			if got != want {
				f.fail("links", "out.Link(in[%d]) returned %v, expected %v", s.n, got, want)
			}
			f.checkLinks(s.String())
		case 'U':
			want := f.ref.isLinked(s.n)
			got := f.out.Unlink(f.ins[s.n])
			f.log("U%d: out.Unlink(in[%d]) => %v", s.n, s.n, got)
			if want {
				f.ref.unlink(s.n)
				unlinked[s.n] = true
			}
			if got != want {
				f.fail("links", "out.Unlink(in[%d]) returned %v, expected %v", s.n, got, want)
			}
			f.checkLinks(s.String())
		case 'P':
			pr := process.New()
			i := len(f.procs)
			f.procs = append(f.procs, pr)
			w := f.out.Open(pr)
			r := &requester{q: qid{0, i}, wid: i, w: w, kind: p.kinds[i], cmd: make(chan reqCmd, 16), res: make(chan reqRes, 16)}
			f.rs = append(f.rs, r)
			go r.loop()
			f.ref.procs = append(f.ref.procs, &ptProcRef{links: append([]int(nil), f.ref.linked...)})
			f.log("P: process %d opens the out-port; linked now: %v", i, f.ref.linked)
			if closedRelinked {
				res.relinkClosed = true
			}
		case 'Q', 'H':
			if !f.request(s.n, s.op == 'H') {
				f.checkLinks("the end")
				res.trace, res.fails = f.trace, f.fails
				return
			}
		case 'X', 'N':
			var do func()
			if s.op == 'X' {
				do = func() { f.ins[s.n].Close() }
			} else {
				do = func() { _ = f.nds[s.n].Close() }
			}
			if pmsg := lib.Safe(do); pmsg != "" {
				f.fail("panic", "%s panicked: %s", s, pmsg)
			}
			f.log("%s: in-port %d closed", s, s.n)
			if relinked[s.n] && f.ref.isLinked(s.n) {
				closedRelinked = true
			}
			f.ref.closed[s.n] = true
			f.ref.unlink(s.n)
			for _, pr := range f.ref.procs {
				if pr.held == nil {
					continue
				}
				for i, b := range pr.links {
					if b == s.n && pr.held.cells[i] == "" {
						pr.held.cells[i] = "E0"
					}
				}
			}
			f.checkLinks(s.String())
		case 'G':
			if !f.release() {
				res.trace, res.fails = f.trace, f.fails
				return
			}
		}
	}
	f.release()
	f.checkLinks("the end")
	res.trace, res.fails = f.trace, f.fails
	return
}

// ---------------------------------------------------------------- generation, corpus, driver loop

func genPorts(rng *lib.RNG, id int) *ptPlan {
	m := rng.Range(2, 3)
	p := &ptPlan{id: id, m: m}
	for b := 0; b < m; b++ {
		p.nodes = append(p.nodes, rng.Chance(1, 3))
	}
	for i := 0; i < 3; i++ {
		p.kinds = append(p.kinds, lib.Pick(rng, []string{"send", "send", "raw"}))
	}
	linked := make([]bool, m)
	closed := make([]bool, m)
	add := func(op byte, n int) { p.script = append(p.script, ptStep{op, n}) }
	ops := func(n int) {
		for i := 0; i < n; i++ {
			b := rng.Intn(m)
			if closed[b] {
				continue
			}
			if rng.Chance(3, 5) {
				add('L', b)
				linked[b] = true
			} else {
				add('U', b)
				linked[b] = false
			}
		}
	}
	relink := func(b int) {
		if closed[b] {
			return
		}
		if !linked[b] {
			add('L', b)
		}
		add('U', b)
		if rng.Chance(1, 4) {
			add('U', b) // Unlink of a port that is not linked
		}
		add('L', b)
		if rng.Chance(1, 4) {
			add('L', b) // Link of a linked port
		}
		linked[b] = true
	}
	tear := func(b int) {
		if closed[b] {
			return
		}
		if p.nodes[b] && rng.Bool() {
			add('N', b)
		} else {
			add('X', b)
		}
		closed[b], linked[b] = true, false
	}
	// set-up
	ops(rng.Intn(4))
	if rng.Chance(4, 5) {
		for b := 0; b < m; b++ {
			if !linked[b] {
				add('L', b)
				linked[b] = true
			}
		}
	}
	t := rng.Intn(m)
	if rng.Chance(3, 5) {
		relink(t)
	}
	// process 0
	add('P', 0)
	for i := rng.Intn(3); i > 0; i-- {
		add('Q', 0)
	}
	held := false
	if rng.Chance(1, 2) {
		add('H', 0)
		held = true
	}
	if rng.Chance(1, 3) {
		ops(rng.Range(1, 2))
	}
	if rng.Chance(1, 4) {
		relink(t) // re-link while a process is running
	}
	tear(t)
	if held && rng.Bool() {
		add('G', 0)
		held = false
	}
	// process 1
	if rng.Chance(1, 4) {
		ops(rng.Range(1, 2))
	}
	add('P', 0)
	add('Q', 1)
	if held {
		add('G', 0)
		held = false
	}
	add('Q', 0)
	if rng.Chance(1, 2) {
		add('H', 1)
		held = true
	}
	// a second teardown, process 2
	if rng.Chance(1, 2) {
		t2 := rng.Intn(m)
		if rng.Chance(1, 2) {
			relink(t2)
		}
		tear(t2)
	} else if rng.Chance(1, 2) {
		ops(rng.Range(1, 2))
	}
	add('P', 0)
	add('Q', 2)
	if held {
		add('G', 0)
	}
	add('Q', 1)
	add('Q', 0)
	return p
}

// isPortsCorpus tells whether a corpus file belongs to the ports family:
//
//	ports <m>
//	nodes <0|1> × m
//	kinds <send|raw> …            (one per P step)
//	script L0 L1 U1 L1 P Q0 H0 X1 G P Q1 Q0 …
func isPortsCorpus(path string) bool {
	ls := lib.ReadLines(path)
	return len(ls) > 0 && strings.HasPrefix(ls[0], "ports ")
}

func parsePortsCorpus(path string, id int) (p *ptPlan, err string) {
	p = &ptPlan{id: id}
	for _, l := range lib.ReadLines(path) {
		f := strings.Fields(l)
		switch f[0] {
		case "ports":
			if len(f) != 2 || (f[1] != "2" && f[1] != "3") {
				return nil, "ports needs the number of in-ports (2 or 3)"
			}
			p.m, _ = strconv.Atoi(f[1])
		case "nodes":
			for _, x := range f[1:] {
				if x != "0" && x != "1" {
					return nil, "nodes needs 0 or 1 per branch"
				}
				p.nodes = append(p.nodes, x == "1")
			}
		case "kinds":
			for _, x := range f[1:] {
				if x != "send" && x != "raw" {
					return nil, "unknown requester kind " + x
				}
				p.kinds = append(p.kinds, x)
			}
		case "script":
			for _, t := range f[1:] {
				s := ptStep{op: t[0]}
				if t != "P" && t != "G" {
					n, e := strconv.Atoi(t[1:])
					if e != nil || !strings.ContainsRune("LUQHXN", rune(t[0])) {
						return nil, "bad step " + t
					}
					s.n = n
				}
				p.script = append(p.script, s)
			}
		default:
			return nil, "unknown line " + l
		}
	}
	if p.m == 0 || len(p.nodes) != p.m {
		return nil, "inconsistent case (ports m, m node flags)"
	}
	if e := ptValid(p); e != "" {
		return nil, e
	}
	return p, ""
}

func ptCorpusText(p *ptPlan) string {
	var ns []string
	for _, n := range p.nodes {
		if n {
			ns = append(ns, "1")
		} else {
			ns = append(ns, "0")
		}
	}
	return fmt.Sprintf("ports %d\nnodes %s\nkinds %s\nscript %s\n", p.m, strings.Join(ns, " "), strings.Join(p.kinds, " "), ptScript(p.script))
}

// runPortsFamily runs the ports family (oracle only).
func runPortsFamily(c *lib.Ctx, rng *lib.RNG, add func(class, what, replay string), progress func(string), stop func() bool) {
	one := func(p *ptPlan) {
		progress(fmt.Sprintf("ports scenario %d (%s) script=%s", p.id, p.describe(), ptScript(p.script)))
		if e := ptValid(p); e != "" {
			add("corpus", "unusable ports script: "+e, ptCorpusText(p))
			return
		}
		res := runPorts(p)
		key := ""
		if res.relinkClosed {
			key = fmt.Sprintf("pt%d", p.id)
			c.Hit("ports-relinked-in-port-closed-then-new-process")
		}
		c.Count(key)
		c.Hit(fmt.Sprintf("workflow-ports-fan-out-%d", p.m))
		for _, fl := range res.fails {
			parts := strings.SplitN(fl, "\t", 2)
			var b strings.Builder
			fmt.Fprintf(&b, "# scenario: %s\n# script: %s\n# as a corpus file (corpus/C03/*.ops):\n", p.describe(), ptScript(p.script))
			for _, cl := range strings.Split(strings.TrimSpace(ptCorpusText(p)), "\n") {
				fmt.Fprintf(&b, "#   %s\n", cl)
			}
			for _, l := range res.trace {
				fmt.Fprintf(&b, "%s\n", l)
			}
			add(parts[0], parts[1], b.String())
		}
	}
	for i, fl := range c.CorpusFiles() {
		if !isPortsCorpus(fl) {
			continue
		}
		p, e := parsePortsCorpus(fl, 500+i)
		if e != "" {
			add("corpus", "unusable corpus file "+fl+": "+e, "")
			continue
		}
		c.Hit("corpus-case")
		one(p)
	}
	n := c.Scale(300, 3000)
	for i := 0; i < n && !stop(); i++ {
		one(genPorts(rng.Fork(), 4000+i))
	}
}
