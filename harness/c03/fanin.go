package c03

// Fan-in: several writers linked to ONE reader (two out-ports linked to one in-port, same
// process; or two packet.Writers linked to one packet.Reader).  The reader's queue
// (Reader.writers) interleaves the requests of the writers; its owner reads the request packets
// in order and answers them in order.  Every request payload is unique and every answer is
// derived from the request it answers (answer = request + answerBase), so a requester can tell
// whose answer it was handed.
//
// Shapes:
//	0  packet level: writers 0 and 1 linked to one reader (sink 0)
//	1  ports: out-ports O0, O1 linked to in-port I, one process: writers 0, 1 → the reader of I
//	2  ports with a node upstream of the first writer: S0 → node N → I and S1 → I:
//	   writer 0 (S0) → N's in-reader, writer 2 (N's out-writer) and writer 1 (S1) → the reader of I
//
// For every scenario, every prefix of its quiesced schedule {requester i writes, the owner answers
// the oldest request it holds, raw requester i receives} is a crash point; every teardown action
// of the shape is applied, singly and in a few pairs; afterwards the owner answers everything it
// still holds, in order, and every requester collects what it is owed.
//
// Oracle (independent of the model): a requester whose chain was torn down while a response was
// owed gets the dropped error; every other accepted request is answered with exactly the answer
// derived from it – an answer derived from another request is class `misrouted-answer`.
// Correspondence: the same lines through Uniflow.Teardown.step (the reader's queue is `Sys.queue`,
// the owner's answer is `Step.sinkAnswer`).

import (
	"fmt"
	"sort"
	"strconv"
	"strings"
	"sync"
	"time"

	"github.com/siyul-park/uniflow/pkg/node"
	"github.com/siyul-park/uniflow/pkg/packet"
	"github.com/siyul-park/uniflow/pkg/port"
	"github.com/siyul-park/uniflow/pkg/process"
	"github.com/siyul-park/uniflow/pkg/types"

	"verifharness/lib"
)

const answerBase = 100000

type fanEv struct {
	kind byte // 'W' requester i writes, 'A' the owner answers its oldest held request, 'R' raw requester i receives
	i    int
	err  bool // A: the answer is an error value
}

type fanPlan struct {
	id     int
	shape  int
	kinds  [2]string
	events []fanEv
}

func (p *fanPlan) describe() string {
	shapes := []string{"two packet.Writers on one packet.Reader", "two out-ports linked to one in-port (one process)", "S0 → node → I and S1 → I (one process)"}
	return fmt.Sprintf("fan-in %d: %s; requesters %s %s", p.shape, shapes[p.shape], p.kinds[0], p.kinds[1])
}

func fanEvents(es []fanEv) string {
	var out []string
	for _, e := range es {
		switch e.kind {
		case 'W':
			out = append(out, "W"+strconv.Itoa(e.i))
		case 'R':
			out = append(out, "R"+strconv.Itoa(e.i))
		case 'A':
			if e.err {
				out = append(out, "Ae")
			} else {
				out = append(out, "A")
			}
		}
	}
	return strings.Join(out, " ")
}

// fanAction is a teardown action with the chains (requesters) it tears down.
type fanAction struct {
	name   string
	lines  []string // model lines (a reader shared by two writers is closed endpoint by endpoint)
	tears  [2]bool  // requester i's chain is torn down
	closes [2]bool  // requester i's own source writer is closed (class (i) for raw receivers)
	sink   bool     // the shared reader is closed: the owner holds nothing any more
	do     func(f *fanWF)
}

type heldReq struct {
	ri int
	v  int
}

type fanWF struct {
	plan    *fanPlan
	reqs    [2]*requester
	shared  *packet.Reader
	writers map[int]*packet.Writer
	readers map[[2]int]*packet.Reader
	proc    *process.Process
	outs    []*port.OutPort
	ins     []*port.InPort
	nd      *node.OneToOneNode
	held    []heldReq
	arrCh   chan int
	mu      sync.Mutex
	avail   map[int][]*packet.Packet
	availCh chan int
	nextV   int

	lines, impls []string
	fails        []string
	noCompare    bool
}

func (f *fanWF) emit(line, impl string) {
	f.lines = append(f.lines, line)
	f.impls = append(f.impls, impl)
}

func (f *fanWF) fail(class, format string, a ...any) {
	f.fails = append(f.fails, class+"\t"+fmt.Sprintf(format, a...))
}

func (f *fanWF) topo(format string, a ...any) {
	l := fmt.Sprintf(format, a...)
	out := "ok"
	if strings.HasPrefix(l, "link ") {
		out = "t"
	}
	f.emit(l, out)
}

func (f *fanWF) addRequester(i, wid int, w *packet.Writer) {
	r := &requester{q: qid{i, 0}, wid: wid, w: w, kind: f.plan.kinds[i], cmd: make(chan reqCmd, 16), res: make(chan reqRes, 16)}
	f.reqs[i] = r
	w.AddInboundHook(packet.HookFunc(func(p *packet.Packet) {
		f.mu.Lock()
		f.avail[wid] = append(f.avail[wid], p)
		f.mu.Unlock()
		select {
		case f.availCh <- wid:
		default:
		}
	}))
	go r.loop()
}

func payloadOf(pck *packet.Packet) int {
	if i, ok := pck.Payload().(types.Int64); ok {
		return int(i.Int())
	}
	return -1
}

func fanBuild(p *fanPlan) (f *fanWF, err string) {
	f = &fanWF{plan: p, writers: map[int]*packet.Writer{}, readers: map[[2]int]*packet.Reader{}, arrCh: make(chan int, 64),
		avail: map[int][]*packet.Packet{}, availCh: make(chan int, 64), nextV: 1}
	listen := func(rd *packet.Reader) {
		for pck := range rd.Read() {
			f.arrCh <- payloadOf(pck)
		}
	}
	switch p.shape {
	case 0:
		rd := packet.NewReader()
		f.shared = rd
		go listen(rd)
		for i := 0; i < 2; i++ {
			w := packet.NewWriter()
			f.writers[i] = w
			f.readers[[2]int{i, 0}] = rd
			f.topo("cons %d req", i)
			f.topo("lis %d 0 sink 0", i)
			if !w.Link(rd) {
				return f, "Link returned false on a fresh writer"
			}
			f.topo("link %d 0", i)
			f.addRequester(i, i, w)
		}
	case 1, 2:
		f.proc = process.New()
		in := port.NewIn()
		in.AddListener(port.ListenFunc(func(proc *process.Process) { listen(in.Open(proc)) }))
		o0, o1 := port.NewOut(), port.NewOut()
		if p.shape == 1 {
			o0.Link(in)
			o1.Link(in)
			f.outs = []*port.OutPort{o0, o1}
			f.ins = []*port.InPort{in}
			for i := 0; i < 2; i++ {
				f.topo("cons %d req", i)
				f.topo("lis %d 0 sink 0", i)
			}
			f.topo("inport 0 0 1 0")
			f.topo("outport 0")
			f.topo("outport 1")
			f.topo("proc W 0 R 0 0 R 1 0 W 1")
			f.topo("link 0 0")
			f.topo("link 1 0")
		} else {
			f.nd = node.NewOneToOneNode(func(_ *process.Process, pck *packet.Packet) (*packet.Packet, *packet.Packet) {
				return packet.New(pck.Payload()), nil
			})
			o0.Link(f.nd.In(node.PortIn))
			f.nd.Out(node.PortOut).Link(in)
			o1.Link(in)
			f.outs = []*port.OutPort{o0, f.nd.Out(node.PortOut), o1}
			f.ins = []*port.InPort{f.nd.In(node.PortIn), in}
			f.topo("cons 0 req")
			f.topo("cons 2 node 0 0")
			f.topo("lis 0 0 node 2")
			f.topo("lis 2 0 sink 0")
			f.topo("cons 1 req")
			f.topo("lis 1 0 sink 0")
			f.topo("inport 0 0")
			f.topo("inport 2 0 1 0")
			f.topo("outport 0")
			f.topo("outport 2")
			f.topo("outport 1")
			f.topo("node 0 1")
			f.topo("proc W 0 R 0 0 W 2 R 2 0 R 1 0 W 1")
			f.topo("link 0 0")
			f.topo("link 2 0")
			f.topo("link 1 0")
		}
		f.writers[0] = o0.Open(f.proc)
		f.addRequester(0, 0, f.writers[0])
	}
	// warm every chain up (opens the lazily opened endpoints, makes sure the loops run)
	for i := 0; i < 2; i++ {
		if p.shape != 0 && i == 1 {
			o1 := f.outs[len(f.outs)-1]
			f.writers[1] = o1.Open(f.proc)
			f.addRequester(1, 1, f.writers[1])
		}
		if !f.doWrite(i) {
			return f, "the warm-up request did not reach the reader"
		}
		if p.shape != 0 && f.shared == nil {
			f.shared = f.ins[len(f.ins)-1].Open(f.proc)
		}
		f.doAnswer(false, true)
		if f.reqs[i].kind == "raw" {
			f.doRecv(i)
		}
		if len(f.fails) > 0 {
			return f, "warm-up failed: " + f.fails[0]
		}
	}
	if p.shape != 0 {
		f.readers[[2]int{1, 0}] = f.shared
		if p.shape == 1 {
			f.readers[[2]int{0, 0}] = f.shared
		} else {
			f.readers[[2]int{2, 0}] = f.shared
			f.readers[[2]int{0, 0}] = f.nd.In(node.PortIn).Open(f.proc)
			f.writers[2] = f.nd.Out(node.PortOut).Open(f.proc)
		}
	}
	return f, ""
}

func (f *fanWF) reply(r *requester) (reqRes, bool) {
	select {
	case res := <-r.res:
		return res, true
	case <-time.After(watchdog):
		return reqRes{}, false
	}
}

func (f *fanWF) waitAvail(wid int) (*packet.Packet, bool) {
	deadline := time.After(watchdog)
	for {
		f.mu.Lock()
		if len(f.avail[wid]) > 0 {
			p := f.avail[wid][0]
			f.avail[wid] = f.avail[wid][1:]
			f.mu.Unlock()
			return p, true
		}
		f.mu.Unlock()
		select {
		case <-f.availCh:
		case <-time.After(20 * time.Millisecond):
		case <-deadline:
			return nil, false
		}
	}
}

// doWrite: requester i writes a fresh request; quiesced (the request has reached the shared reader).
func (f *fanWF) doWrite(i int) bool {
	r := f.reqs[i]
	v := f.nextV
	f.nextV++
	w := &reqWrite{v: v}
	r.writes = append(r.writes, w)
	if r.kind == "raw" {
		r.cmd <- reqCmd{"write", v}
		res, ok := f.reply(r)
		if !ok || res.panicked != "" || res.cnt != 1 {
			f.fail("lost-request", "requester %d: Write before any teardown returned %d (panic %q)", i, res.cnt, res.panicked)
			return false
		}
		r.owedRecv++
	} else {
		r.cmd <- reqCmd{op: r.kind, v: v}
		r.inSend = true
	}
	select {
	case got := <-f.arrCh:
		if got != v {
			f.fail("lost-request", "requester %d: request %d written, the reader's owner read %d", i, v, got)
			return false
		}
	case <-time.After(watchdog):
		f.fail("lost-request", "requester %d: request %d did not reach the reader before any teardown", i, v)
		return false
	}
	w.accepted = true
	f.held = append(f.held, heldReq{i, v})
	f.emit(fmt.Sprintf("write %d %d", r.wid, v), fmt.Sprintf("n1 d0:%d", v))
	return true
}

// doAnswer: the owner answers the oldest request it holds with the answer derived from it.
func (f *fanWF) doAnswer(isErr, quiesce bool) {
	if len(f.held) == 0 {
		return
	}
	h := f.held[0]
	f.held = f.held[1:]
	a := "v" + strconv.Itoa(h.v+answerBase)
	if isErr {
		a = "e" + strconv.Itoa(h.v+answerBase)
	}
	ret := false
	if pmsg := lib.Safe(func() { ret = f.shared.Receive(mkAns(a)) }); pmsg != "" {
		f.fail("panic", "Reader.Receive panicked: %s", pmsg)
	}
	tok := a[:1] + " " + a[1:]
	if !quiesce {
		f.emit("pans 0 "+tok, tf(ret))
		return
	}
	r := f.reqs[h.ri]
	out := tf(ret)
	pck, ok := f.waitAvail(r.wid)
	if !ok {
		f.fail("lost-response", "the owner answered request %d: no response reached requester %d before any teardown", h.v, h.ri)
	} else {
		out += fmt.Sprintf(" | w%d:%s", r.wid, canon(pck))
	}
	f.emit("ans 0 "+tok, out)
	if r.inSend {
		res, ok := f.reply(r)
		if !ok {
			r.blocked++
			f.fail("blocked", "requester %d (%s) did not return from Send although its response was available", h.ri, r.kind)
			return
		}
		r.inSend = false
		f.record(r, res, true)
	}
}

func (f *fanWF) record(r *requester, res reqRes, emitLine bool) {
	var w *reqWrite
	for _, x := range r.writes {
		if x.accepted && x.result == "" {
			w = x
			break
		}
	}
	c := ""
	switch {
	case res.panicked != "":
		f.fail("panic", "requester %d (%s) panicked: %s", r.q.a, r.kind, res.panicked)
		c = "panic"
	case res.closed:
		c = "closed"
	default:
		c = canon(res.pck)
	}
	if w != nil {
		w.result = c
	}
	if c == "closed" {
		r.got = append(r.got, "E0")
	} else {
		r.got = append(r.got, c)
	}
	if emitLine {
		f.emit(fmt.Sprintf("recv %d", r.wid), c)
	}
}

func (f *fanWF) doRecv(i int) {
	r := f.reqs[i]
	r.cmd <- reqCmd{op: "recv"}
	res, ok := f.reply(r)
	if !ok {
		r.blocked++
		f.fail("blocked", "requester %d (raw) did not receive an available response", i)
		return
	}
	r.owedRecv--
	f.record(r, res, true)
}

func (f *fanWF) cleanup() {
	for _, r := range f.reqs {
		if r != nil {
			close(r.cmd)
		}
	}
	lib.Safe(func() {
		if f.proc != nil {
			f.proc.Exit(nil)
		}
		for _, o := range f.outs {
			o.Close()
		}
		if f.nd != nil {
			_ = f.nd.Close()
		}
		for _, in := range f.ins {
			in.Close()
		}
		for _, w := range f.writers {
			w.Close()
		}
		if f.shared != nil {
			f.shared.Close()
		}
	})
}

// fanActions lists the teardown actions of a shape.
func fanActions(shape int) []fanAction {
	wr := func(w int, tears, closes [2]bool) fanAction {
		return fanAction{name: fmt.Sprintf("writer %d", w), lines: []string{fmt.Sprintf("down writer %d", w)}, tears: tears, closes: closes,
			do: func(f *fanWF) { f.writers[w].Close() }}
	}
	both := [2]bool{true, true}
	only0, only1 := [2]bool{true, false}, [2]bool{false, true}
	none := [2]bool{}
	switch shape {
	case 0:
		return []fanAction{
			wr(0, only0, only0), wr(1, only1, only1),
			{name: "reader shared", lines: []string{"down reader 0 0", "down reader 1 0"}, tears: both, sink: true, do: func(f *fanWF) { f.shared.Close() }},
		}
	case 1:
		return []fanAction{
			wr(0, only0, only0), wr(1, only1, only1),
			{name: "outport 0", lines: []string{"down outport 0"}, tears: only0, closes: only0, do: func(f *fanWF) { f.outs[0].Close() }},
			{name: "outport 1", lines: []string{"down outport 1"}, tears: only1, closes: only1, do: func(f *fanWF) { f.outs[1].Close() }},
			{name: "inport 0", lines: []string{"down inport 0"}, tears: both, sink: true, do: func(f *fanWF) { f.ins[0].Close() }},
			{name: "reader shared", lines: []string{"down reader 0 0", "down reader 1 0"}, tears: both, sink: true, do: func(f *fanWF) { f.shared.Close() }},
			{name: "exit 0", lines: []string{"down exit 0"}, tears: both, closes: both, sink: true, do: func(f *fanWF) { f.proc.Exit(nil) }},
		}
	}
	return []fanAction{
		wr(0, only0, only0), wr(2, only0, none), wr(1, only1, only1),
		{name: "outport 0", lines: []string{"down outport 0"}, tears: only0, closes: only0, do: func(f *fanWF) { f.outs[0].Close() }},
		{name: "outport 1 (the node's)", lines: []string{"down outport 1"}, tears: only0, do: func(f *fanWF) { f.outs[1].Close() }},
		{name: "outport 2", lines: []string{"down outport 2"}, tears: only1, closes: only1, do: func(f *fanWF) { f.outs[2].Close() }},
		{name: "inport 0 (the node's)", lines: []string{"down inport 0"}, tears: only0, do: func(f *fanWF) { f.ins[0].Close() }},
		{name: "reader 0 0 (the node's)", lines: []string{"down reader 0 0"}, tears: only0, do: func(f *fanWF) { f.readers[[2]int{0, 0}].Close() }},
		{name: "node 0", lines: []string{"down node 0"}, tears: only0, do: func(f *fanWF) { _ = f.nd.Close() }},
		{name: "inport 1", lines: []string{"down inport 1"}, tears: both, sink: true, do: func(f *fanWF) { f.ins[1].Close() }},
		{name: "reader shared", lines: []string{"down reader 2 0", "down reader 1 0"}, tears: both, sink: true, do: func(f *fanWF) { f.shared.Close() }},
		{name: "exit 0", lines: []string{"down exit 0"}, tears: both, closes: both, sink: true, do: func(f *fanWF) { f.proc.Exit(nil) }},
	}
}

type fanResult struct {
	lines, impls []string
	fails        []string
	noCompare    bool
	queuedBehind bool // at the crash point an unaffected requester's request was queued behind one of a torn-down writer
}

func runFan(p *fanPlan, prefix int, acts []fanAction) (res fanResult) {
	f, e := fanBuild(p)
	defer f.cleanup()
	finish := func() fanResult {
		return fanResult{lines: f.lines, impls: f.impls, fails: f.fails, noCompare: f.noCompare, queuedBehind: res.queuedBehind}
	}
	if e != "" {
		f.fail("setup", "%s", e)
		return finish()
	}
	for _, ev := range p.events[:prefix] {
		switch ev.kind {
		case 'W':
			f.doWrite(ev.i)
		case 'A':
			f.doAnswer(ev.err, true)
		case 'R':
			f.doRecv(ev.i)
		}
		if len(f.fails) > 0 {
			return finish()
		}
	}
	// the crash
	var torn, srcClosed [2]bool
	sinkClosed := false
	for _, a := range acts {
		for i := 0; i < 2; i++ {
			torn[i] = torn[i] || a.tears[i]
			srcClosed[i] = srcClosed[i] || a.closes[i]
		}
		sinkClosed = sinkClosed || a.sink
	}
	seenTorn := false
	for _, h := range f.held {
		if torn[h.ri] {
			seenTorn = true
		} else if seenTorn {
			res.queuedBehind = true
		}
	}
	for i, r := range f.reqs {
		if r.kind == "raw" && srcClosed[i] && r.owedRecv > 0 {
			f.noCompare = true // known finding close-discards-buffered: schedule-dependent for a raw receiver
		}
		// the reference: what is owed on a torn-down chain is the dropped error; anything else is the
		// answer derived from the request (whether already given or still to come)
		for _, w := range r.writes {
			if !w.accepted || w.result != "" {
				continue
			}
			answered := true
			for _, h := range f.held {
				if h.v == w.v {
					answered = false
				}
			}
			if torn[i] && !answered {
				w.hard, w.expect = true, "E0"
			}
		}
	}
	for _, a := range acts {
		if pmsg := lib.Safe(func() { a.do(f) }); pmsg != "" {
			f.fail("panic", "%s panicked: %s", a.name, pmsg)
		}
		for _, l := range a.lines {
			f.emit(l, "u")
		}
	}
	// the owner goes on answering what it has read, in order
	if sinkClosed {
		f.held = nil
	}
	for len(f.held) > 0 {
		f.doAnswer(false, false)
	}
	// every requester collects
	deadline := time.Now().Add(watchdog)
	for _, r := range f.reqs {
		if r.blocked == 0 && r.kind == "raw" {
			for k := 0; k < r.owedRecv; k++ {
				r.cmd <- reqCmd{op: "recv"}
			}
		}
	}
	for i, r := range f.reqs {
		if r.blocked > 0 {
			continue
		}
		n := r.owedRecv
		if r.kind != "raw" {
			n = 0
			if r.inSend {
				n = 1
			}
		}
		for k := 0; k < n; k++ {
			select {
			case rr := <-r.res:
				r.inSend = false
				f.record(r, rr, false)
			case <-time.After(time.Until(deadline)):
				r.blocked += n - k
				f.fail("blocked", "requester %d (%s) still blocked %v after the teardown with %d responses owed", i, r.kind, watchdog, n-k)
				k = n
			}
		}
	}
	var groups []string
	rs := []*requester{f.reqs[0], f.reqs[1]}
	sort.Slice(rs, func(a, b int) bool { return rs[a].wid < rs[b].wid })
	for _, r := range rs {
		acc := 0
		for _, w := range r.writes {
			if w.accepted {
				acc++
			}
		}
		if acc == 0 {
			continue
		}
		g := fmt.Sprintf("w%d:%s", r.wid, strings.Join(r.got, ","))
		if acc > len(r.got) {
			g += fmt.Sprintf(";blocked%d", acc-len(r.got))
		}
		groups = append(groups, g)
	}
	f.emit("settle", strings.Join(groups, " "))
	// the oracle
	owner := map[int]int{}
	for i, r := range f.reqs {
		for _, w := range r.writes {
			owner[w.v] = i
		}
	}
	for i, r := range f.reqs {
		for _, w := range r.writes {
			if !w.accepted {
				continue
			}
			what := fmt.Sprintf("requester %d (%s), request %d", i, r.kind, w.v)
			switch w.result {
			case "":
				if r.blocked == 0 {
					f.fail("blocked", "%s: never received a response", what)
				}
				continue
			case "nil":
				f.fail("nil-packet", "%s: was handed a nil packet", what)
				continue
			case "closed":
				if srcClosed[i] {
					f.fail("close-discards-buffered", "%s: raw receive on its own closed writer saw the closed channel instead of the packet", what)
				} else {
					f.fail("closed-channel", "%s: received the zero value of the closed Receive() channel while a response was owed and its writer was not closed", what)
				}
				continue
			case "panic":
				continue
			}
			if w.hard {
				if w.result != "E0" {
					f.fail("wrong-answer", "%s outstanding when its chain was torn down: got %s, expected the dropped error", what, w.result)
				}
				continue
			}
			own := strconv.Itoa(w.v + answerBase)
			if w.result == "v"+own || w.result == "E"+own {
				continue
			}
			// whose answer is it?
			if len(w.result) > 1 {
				if n, err := strconv.Atoi(w.result[1:]); err == nil && n > answerBase {
					if j, ok := owner[n-answerBase]; ok {
						f.fail("misrouted-answer", "%s on a chain that was not torn down was handed %s – the answer to request %d of requester %d – instead of the answer to its own request", what, w.result, n-answerBase, j)
						continue
					}
				}
			}
			f.fail("unaffected", "%s on a chain that was not torn down (or answered before the teardown): got %s, expected the answer %s derived from it", what, w.result, own)
		}
	}
	return finish()
}

func genFan(rng *lib.RNG, id, maxEvents int) *fanPlan {
	kinds := []string{"raw", "raw", "send", "fb"}
	p := &fanPlan{id: id, shape: rng.Intn(3), kinds: [2]string{lib.Pick(rng, kinds), lib.Pick(rng, kinds)}}
	type st struct {
		owed, avail int
		inSend      bool
	}
	var s [2]st
	var held []int
	n := rng.Range(2, maxEvents)
	for tries := 0; len(p.events) < n && tries < 200; tries++ {
		switch rng.Weighted([]int{5, 3, 2}) {
		case 0:
			i := rng.Intn(2)
			if p.kinds[i] == "raw" {
				if s[i].owed+s[i].avail >= 2 {
					continue
				}
			} else if s[i].inSend {
				continue
			}
			p.events = append(p.events, fanEv{kind: 'W', i: i})
			s[i].owed++
			s[i].inSend = p.kinds[i] != "raw"
			held = append(held, i)
		case 1:
			if len(held) == 0 {
				continue
			}
			i := held[0]
			held = held[1:]
			p.events = append(p.events, fanEv{kind: 'A', err: rng.Chance(1, 6)})
			s[i].owed--
			if p.kinds[i] == "raw" {
				s[i].avail++
			} else {
				s[i].inSend = false
			}
		case 2:
			i := rng.Intn(2)
			if p.kinds[i] != "raw" || s[i].avail == 0 {
				continue
			}
			s[i].avail--
			p.events = append(p.events, fanEv{kind: 'R', i: i})
		}
	}
	return p
}

// fanCorpusPlans are the hand-written fan-in cases (the witness of the seeded change c03c: the
// first writer's request read but unanswered, the second writer's request queued behind it, the
// first writer closed).
func fanCorpusPlans() []*fanPlan {
	var out []*fanPlan
	for shape := 0; shape < 3; shape++ {
		for _, k := range [][2]string{{"raw", "raw"}, {"send", "send"}} {
			out = append(out, &fanPlan{id: 900 + len(out), shape: shape, kinds: k, events: []fanEv{{kind: 'W', i: 0}, {kind: 'W', i: 1}}})
		}
	}
	return out
}

// parseFanCorpus reads a corpus/C03/*.ops file of the fan-in family:
//
//	fanin <shape>
//	kinds <raw|send|fb> <raw|send|fb>
//	events W0 W1 A Ae R0 …
//	prefix <n>
//	actions <name of an action of the shape> [+ <name>]
func parseFanCorpus(path string, id int) (p *fanPlan, prefix int, acts []fanAction, err string) {
	p = &fanPlan{id: id, kinds: [2]string{"raw", "raw"}}
	prefix = -1
	for _, l := range lib.ReadLines(path) {
		f := strings.Fields(l)
		switch f[0] {
		case "fanin":
			if len(f) != 2 {
				return nil, 0, nil, "fanin needs a shape"
			}
			n, e := strconv.Atoi(f[1])
			if e != nil || n < 0 || n > 2 {
				return nil, 0, nil, "unknown shape " + f[1]
			}
			p.shape = n
		case "kinds":
			if len(f) != 3 {
				return nil, 0, nil, "kinds needs two requester kinds"
			}
			for i, k := range f[1:] {
				if k != "raw" && k != "send" && k != "fb" {
					return nil, 0, nil, "unknown requester kind " + k
				}
				p.kinds[i] = k
			}
		case "events":
			for _, t := range f[1:] {
				switch {
				case t == "A":
					p.events = append(p.events, fanEv{kind: 'A'})
				case t == "Ae":
					p.events = append(p.events, fanEv{kind: 'A', err: true})
				case len(t) == 2 && (t[0] == 'W' || t[0] == 'R') && (t[1] == '0' || t[1] == '1'):
					p.events = append(p.events, fanEv{kind: t[0], i: int(t[1] - '0')})
				default:
					return nil, 0, nil, "bad event " + t
				}
			}
		case "prefix":
			n, e := strconv.Atoi(f[len(f)-1])
			if e != nil || n < 0 {
				return nil, 0, nil, "bad prefix"
			}
			prefix = n
		case "actions":
			for _, name := range strings.Split(strings.Join(f[1:], " "), "+") {
				name = strings.TrimSpace(name)
				found := false
				for _, a := range fanActions(p.shape) {
					if a.name == name {
						acts = append(acts, a)
						found = true
					}
				}
				if !found {
					return nil, 0, nil, "unknown action " + name
				}
			}
		default:
			return nil, 0, nil, "unknown line " + l
		}
	}
	if prefix < 0 || prefix > len(p.events) || len(acts) == 0 || len(acts) > 2 {
		return nil, 0, nil, "inconsistent case (prefix within the schedule, one or two actions)"
	}
	// the schedule must be one the requesters can follow: a Send caller has one request outstanding,
	// a raw requester at most two owed or uncollected; answers and receives need something to act on
	var owed, avail [2]int
	var held []int
	for _, e := range p.events {
		switch e.kind {
		case 'W':
			if (p.kinds[e.i] == "raw" && owed[e.i]+avail[e.i] >= 2) || (p.kinds[e.i] != "raw" && owed[e.i] >= 1) {
				return nil, 0, nil, "schedule not executable: too many requests outstanding for requester " + strconv.Itoa(e.i)
			}
			owed[e.i]++
			held = append(held, e.i)
		case 'A':
			if len(held) == 0 {
				return nil, 0, nil, "schedule not executable: an answer with nothing held"
			}
			i := held[0]
			held = held[1:]
			owed[i]--
			if p.kinds[i] == "raw" {
				avail[i]++
			}
		case 'R':
			if p.kinds[e.i] != "raw" || avail[e.i] == 0 {
				return nil, 0, nil, "schedule not executable: nothing to receive for requester " + strconv.Itoa(e.i)
			}
			avail[e.i]--
		}
	}
	return p, prefix, acts, ""
}

// isFanCorpus tells whether a corpus file belongs to the fan-in family.
func isFanCorpus(path string) bool {
	ls := lib.ReadLines(path)
	return len(ls) > 0 && strings.HasPrefix(ls[0], "fanin")
}

// runFanIn runs the fan-in family; cases go into the same model script.
func runFanIn(c *lib.Ctx, rng *lib.RNG, model *lib.Script, add func(class, what, replay string), progress func(string)) {
	one := func(p *fanPlan, prefix int, acts []fanAction) {
		var names []string
		for _, a := range acts {
			names = append(names, a.name)
		}
		progress(fmt.Sprintf("fan-in scenario %d (%s) events=%s prefix=%d actions=%s", p.id, p.describe(), fanEvents(p.events), prefix, strings.Join(names, " + ")))
		res := runFan(p, prefix, acts)
		key := ""
		if res.queuedBehind {
			key = fmt.Sprintf("fan%d/%d/p%d/%s", p.id, p.shape, prefix, strings.Join(names, "+"))
			c.Hit("fan-in-unaffected-request-queued-behind-torn-down-writer")
		}
		c.Count(key)
		c.Hit(fmt.Sprintf("workflow-fan-in-%d", p.shape))
		if res.noCompare {
			c.Hit("not-compared-known-class")
		} else {
			model.Begin()
			for i, l := range res.lines {
				model.Op(l, res.impls[i])
			}
		}
		for _, fl := range res.fails {
			parts := strings.SplitN(fl, "\t", 2)
			var b strings.Builder
			fmt.Fprintf(&b, "# scenario: %s\n# schedule: %s\n# crash point: after %d events; actions: %s\n", p.describe(), fanEvents(p.events), prefix, strings.Join(names, " + "))
			for i, l := range res.lines {
				fmt.Fprintf(&b, "%s\t=> impl: %s\n", l, res.impls[i])
			}
			add(parts[0], parts[1], b.String())
		}
	}
	for i, fl := range c.CorpusFiles() {
		if !isFanCorpus(fl) {
			continue
		}
		p, prefix, acts, e := parseFanCorpus(fl, 800+i)
		if e != "" {
			add("corpus", "unusable corpus file "+fl+": "+e, "")
			continue
		}
		c.Hit("corpus-case")
		one(p, prefix, acts)
	}
	for _, p := range fanCorpusPlans() {
		c.Hit("corpus-case")
		for _, a := range fanActions(p.shape) {
			one(p, len(p.events), []fanAction{a})
		}
	}
	n := c.Scale(12, 150)
	maxEv := c.Scale(5, 7)
	for i := 0; i < n; i++ {
		p := genFan(rng.Fork(), 1000+i, maxEv)
		acts := fanActions(p.shape)
		for prefix := 0; prefix <= len(p.events); prefix++ {
			for _, a := range acts {
				one(p, prefix, []fanAction{a})
			}
			for j := 0; j < 2; j++ {
				a, b := acts[rng.Intn(len(acts))], acts[rng.Intn(len(acts))]
				if a.name == b.name {
					continue
				}
				one(p, prefix, []fanAction{a, b})
			}
		}
	}
}
