// Package c03: teardown at any point releases every waiting requester with a real packet.
//
// Crash-point enumeration on the real code.  Small real workflows – a bare packet.Writer with
// one or two packet.Readers; port paths `source OutPort → 0..2 OneToOneNodes → sink InPort` with
// a harness listener on the sink that holds every request until told to answer – each with a
// second, independent path and a second process as the "unaffected" control.  Requesters run in
// their own goroutines and use packet.Send, packet.SendOrFallback or a raw Write + <-Receive().
// For every scenario, every prefix of its (sequentialised, quiesced) schedule of
// {requester writes, sink answers, requester receives} is a crash point; at the crash point
// each teardown action (process exit, node close, in-port close, out-port close, reader close,
// writer close) is applied, singly and in pairs; afterwards the sinks answer or stall, every
// requester may issue one more request, the unaffected paths are answered, and every requester
// must come back within the watchdog.
//
// (a) correspondence: the same lines are run through Uniflow.Teardown.step (driver `c03`):
//
//	before the crash point every step's return value, the requests that reach sinks and the
//	responses that become available to requesters are compared; after it only
//	schedule-independent facts: return values of the synchronous calls and, at `settle`, what
//	each requester received in total (the model runs the fair completion in which every
//	consumer is parked when its packet is handed over).  Cases whose outcome depends on the
//	schedule because of the known finding close-discards-buffered (a raw receiver owed
//	something on its own closed writer) are run and judged by the oracle but not compared.
//	A requester whose release hangs on a node whose out-writer alone is closed is released
//	deterministically since the node's backward loop drops what is pending when the channel
//	closes (Tracer.Drop); those cases are compared like all others.
//
// (b) property oracle (independent of the model): every requester returns within the watchdog;
//
//	no nil packet, no closed channel while a response is owed (on a writer that was not closed:
//	a violation; on the requester's own closed writer: the known finding, Send users get the
//	dropped packet), no panic; the payload is the real answer if the answer passed before the
//	path was torn down, the dropped error otherwise (a request written after the teardown may
//	also be echoed by the node that found nobody downstream); requesters on unaffected
//	paths/processes get exactly their answers; nothing further is delivered afterwards; a Send
//	caller whose response is taken by another consumer still gets a packet when the writer closes.
//
// Fan-in (fanin.go): several writers linked to one reader – two packet.Writers on one packet.Reader,
// two out-ports linked to one in-port of one process, the same with a node upstream of the first
// writer – with unique request payloads and answers derived from the request they answer, so that
// an unaffected requester handed somebody else's answer is detected (class misrouted-answer).
//
// The window (window.go): no warm-up; the teardown lands before the first send, between the forward
// loop's Open of the out-writer and its Write, or after the first send while the backward listener
// (started by that Open in its own goroutine) is still parked before its own Open – goroutines
// parked at the pkg/port yield points.
//
// Fan-out (fanout.go, oracle only): a real node.OneToManyNode with 2–3 out-ports and an action that
// returns a fresh packet per port (sometimes nil for some ports); one branch (sampled: two) is torn
// down – out-port, downstream in-port, downstream reader, the process's writer – at every point of
// the schedule, also while a request is inside the action, and before the next request.  The
// requester must get packet.Join, in port order, of dropped/echo for the torn-down branch and the
// REAL answers of the live branches (class unaffected otherwise).
//
// Join (join.go, oracle only): a real node.ManyToOneNode with 2–3 in-ports fed by separate sources, out
// and error port to their own sinks; requests in flight on several inputs; ONE upstream out-port / one
// in-port / one in-reader of the join, the join's out-port, the downstream in-port, the process or the
// node is torn down at every prefix.  A request whose path is torn down gets the dropped error, the
// requests of the OTHER inputs still get their real answers (class unaffected otherwise).
//
// Ports (ports.go, oracle only): ONE out-port fanning out at port level to 2–3 in-ports (sinks, or
// pass-through nodes in front of sinks); scripts of Link / Unlink (also link → unlink → link of the same
// in-port, Link twice, Unlink of a port that is not linked), in-port / node close, and a first, second
// and third process opening the out-port and sending requests.  A process is linked to what is linked
// and alive when it opens the port; OutPort.Links() never lists a closed in-port (class stale-link);
// later processes get the correct answers of the live branches (class unaffected otherwise).
//
// The whole enumeration runs in a child process of the harness binary: a panic inside a node
// goroutine kills the process and is reported with the scenario that was running.
package c03

import (
	"errors"
	"fmt"
	"os"
	"os/exec"
	"path/filepath"
	"runtime"
	"sort"
	"strconv"
	"strings"
	"sync"
	"sync/atomic"
	"time"

	"github.com/siyul-park/uniflow/pkg/node"
	"github.com/siyul-park/uniflow/pkg/packet"
	"github.com/siyul-park/uniflow/pkg/port"
	"github.com/siyul-park/uniflow/pkg/process"
	"github.com/siyul-park/uniflow/pkg/types"

	"verifharness/lib"
)

// watchdog for anything that may block. Generous: a loaded machine must not cause a false alarm.
const watchdog = 12 * time.Second

// ---------------------------------------------------------------- canonical form

func canon(p *packet.Packet) string {
	if p == nil {
		return "nil"
	}
	if p == packet.None {
		return "N"
	}
	switch v := p.Payload().(type) {
	case nil:
		return "nilpayload"
	case types.Error:
		var ids []string
		for _, m := range strings.Split(v.Error(), "\n") {
			switch {
			case m == "dropped packet":
				ids = append(ids, "0")
			case strings.HasPrefix(m, "e"):
				ids = append(ids, m[1:])
			default:
				ids = append(ids, "?"+m)
			}
		}
		return "E" + strings.Join(ids, ",")
	case types.Int64:
		return "v" + strconv.FormatInt(v.Int(), 10)
	case types.Slice:
		var ids []string
		for _, e := range v.Values() {
			if i, ok := e.(types.Int64); ok {
				ids = append(ids, strconv.FormatInt(i.Int(), 10))
			} else {
				ids = append(ids, "?")
			}
		}
		return "V" + strings.Join(ids, ",")
	}
	return "?"
}

// joinCanon is packet.Join as the statement of C01 describes it.
func joinCanon(cs []string) string {
	if len(cs) == 0 {
		return "N"
	}
	if len(cs) == 1 {
		return cs[0]
	}
	var es, vs []string
	for _, c := range cs {
		switch c[0] {
		case 'E':
			es = append(es, c[1:])
		case 'v':
			vs = append(vs, c[1:])
		}
	}
	switch {
	case len(es) > 0:
		return "E" + strings.Join(es, ",")
	case len(vs) == 0:
		return "N"
	case len(vs) == 1:
		return "v" + vs[0]
	}
	return "V" + strings.Join(vs, ",")
}

func mkAns(a string) *packet.Packet {
	k, _ := strconv.Atoi(a[1:])
	if a[0] == 'e' {
		return packet.New(types.NewError(errors.New("e" + strconv.Itoa(k))))
	}
	return packet.New(types.NewInt64(int64(k)))
}

// ---------------------------------------------------------------- held-back drop notices (verif hook)

var (
	hookOnce sync.Once
	holding  atomic.Bool
	gate     atomic.Pointer[chan struct{}]
	parkedN  atomic.Int64

	heldMu    sync.Mutex
	heldDrops []*heldDrop
)

// heldDrop is one parked `go w.receive(dropped, r, link, write)` goroutine of Reader.Close.
type heldDrop struct {
	w       *packet.Writer
	r       *packet.Reader
	write   uint64
	release chan struct{}
	done    chan struct{}
}

// spawnedByClose reports whether the calling (*Writer).receive is the entry function of its
// goroutine, i.e. one of the `go w.receive(dropped, r)` that Reader.Close starts.
func spawnedByClose() bool {
	var pcs [12]uintptr
	n := runtime.Callers(2, pcs[:])
	fr := runtime.CallersFrames(pcs[:n])
	seen := false
	for {
		f, more := fr.Next()
		if seen {
			return f.Function == "runtime.goexit"
		}
		if strings.HasSuffix(f.Function, "(*Writer).receive") {
			seen = true
		}
		if !more {
			return false
		}
	}
}

func yieldHook(w *packet.Writer, r *packet.Reader, _ *packet.Packet, _ uint64, write uint64) func() {
	if !holding.Load() || !spawnedByClose() {
		return nil
	}
	g := gate.Load()
	if g == nil {
		return nil
	}
	h := &heldDrop{w: w, r: r, write: write, release: make(chan struct{}), done: make(chan struct{})}
	heldMu.Lock()
	heldDrops = append(heldDrops, h)
	heldMu.Unlock()
	parkedN.Add(1)
	select {
	case <-h.release:
		return func() { close(h.done) }
	case <-*g:
		return nil
	}
}

// releaseDrops lets the held-back drop notices run one at a time, in a random order (the Go
// scheduler may run the goroutines Reader.Close spawned in any order; C03.drop_notices_commute:
// the order does not matter). Each release is mirrored in the model (`dropw`).
func (wf *workflow) releaseDrops(seed uint64) {
	// every notice was spawned synchronously by the crash actions; wait until their goroutines have parked
	last, stable := -1, 0
	for i := 0; i < 200 && stable < 2; i++ {
		heldMu.Lock()
		n := len(heldDrops)
		heldMu.Unlock()
		if n == last {
			stable++
		} else {
			last, stable = n, 0
		}
		time.Sleep(100 * time.Microsecond)
	}
	heldMu.Lock()
	hs := append([]*heldDrop(nil), heldDrops...)
	heldDrops = nil
	heldMu.Unlock()
	x := seed*6364136223846793005 + 1442695040888963407
	for i := len(hs) - 1; i > 0; i-- {
		x = x*6364136223846793005 + 1442695040888963407
		j := int((x >> 33) % uint64(i+1))
		hs[i], hs[j] = hs[j], hs[i]
	}
	for _, h := range hs {
		wid, rid := -1, -1
		for id, w := range wf.writers {
			if w == h.w {
				wid = id
			}
		}
		for key, r := range wf.readers {
			if r == h.r && key[0] == wid {
				rid = key[1]
			}
		}
		if wid >= 0 && rid >= 0 {
			wf.emit(fmt.Sprintf("dropw %d %d %d", wid, rid, h.write), "u")
			wf.dropsReleased++
		}
		close(h.release)
		select {
		case <-h.done:
		case <-time.After(watchdog):
			wf.fail("blocked", "a released drop notice (writer %d, write %d) did not finish", wid, h.write)
		}
	}
}

// ---------------------------------------------------------------- scenario description

type qid struct{ a, p int } // requester: path (or bare writer) a, process p

type ev struct {
	kind byte // 'W' requester writes, 'A' sink answers its oldest held request, 'R' raw requester receives
	q    qid  // W, R
	k    int  // A: sink
	ans  string
}

type scen struct {
	bare     bool
	nNodes   []int          // ports: nodes per path
	readers  []int          // bare: readers per writer
	nP       int            // processes (ports); 1 for bare
	kinds    map[qid]string // raw | send | fb
	events   []ev           // the full pre-crash schedule; a crash point is a prefix length
	dropHold bool           // hold the goroutines Reader.Close spawns until all crash actions have run
	postAns  bool           // after the crash the sinks of torn-down paths try to answer what they hold
	postReq  bool           // after the crash every requester issues one more request
	errPath  bool           // every node of path 0 fails its action: the request travels on through the node's ERROR port (the catch loop, not the backward loop, passes the answers up)
	postRace bool           // … at once, racing with the propagation of the teardown (not mirrored in the model); otherwise after the torn-down paths have released their requesters
	id       int
}

type action struct {
	kind string // reader writer inport outport node exit
	w, r int    // reader: writer id, reader id; writer: writer id
	i    int    // inport/outport/node/exit index
}

func (a action) line() string {
	switch a.kind {
	case "reader":
		return fmt.Sprintf("down reader %d %d", a.w, a.r)
	case "writer":
		return fmt.Sprintf("down writer %d", a.w)
	}
	return fmt.Sprintf("down %s %d", a.kind, a.i)
}

const hops = 3 // writer ids per (path, process): source + up to two node out-writers

func (s *scen) paths() int {
	if s.bare {
		return len(s.readers)
	}
	return len(s.nNodes)
}

func (s *scen) wid(a, p, h int) int {
	if s.bare {
		return a
	}
	return (a*s.nP+p)*hops + h
}

func (s *scen) describe() string {
	var b strings.Builder
	if s.bare {
		fmt.Fprintf(&b, "bare writers with %v readers", s.readers)
	} else {
		fmt.Fprintf(&b, "port paths with %v nodes, %d processes", s.nNodes, s.nP)
		if s.errPath {
			b.WriteString(", the nodes of path 0 fail and route through their error ports")
		}
	}
	var ks []string
	for a := 0; a < s.paths(); a++ {
		for p := 0; p < s.nP; p++ {
			ks = append(ks, fmt.Sprintf("q%d.%d=%s", a, p, s.kinds[qid{a, p}]))
		}
	}
	fmt.Fprintf(&b, "; requesters %s; dropHold=%v postAns=%v postReq=%v postRace=%v", strings.Join(ks, " "), s.dropHold, s.postAns, s.postReq, s.postRace)
	return b.String()
}

// ---------------------------------------------------------------- the live workflow

type arrival struct {
	k int
	v int
}

type reqCmd struct {
	op string // write recv send fb
	v  int
}

type reqRes struct {
	op       string
	v        int
	cnt      int
	pck      *packet.Packet
	closed   bool
	fallback bool
	panicked string
}

type requester struct {
	q    qid
	wid  int
	w    *packet.Writer
	kind string
	cmd  chan reqCmd
	res  chan reqRes
	// bookkeeping (harness goroutine only)
	inSend   bool     // a Send is in progress
	owedRecv int      // raw: accepted writes not yet received
	got      []string // everything received for accepted writes, in order
	blocked  int
	writes   []*reqWrite
}

type reqWrite struct {
	v        int
	post     bool
	accepted bool
	cells    map[int]string // sink -> answer given ("" pending)
	sinks    []int          // sinks that accepted it, link order
	result   string         // what the requester received ("" not yet)
	hard     bool           // the path was torn down while the response was owed
	done     bool           // response determined (emitted) in the reference
	expect   string
}

func (r *requester) loop() {
	for c := range r.cmd {
		res := reqRes{op: c.op, v: c.v}
		func() {
			defer func() {
				if p := recover(); p != nil {
					res.panicked = fmt.Sprint(p)
				}
			}()
			out := packet.New(types.NewInt64(int64(c.v)))
			switch c.op {
			case "write":
				res.cnt = r.w.Write(out)
			case "recv":
				pck, ok := <-r.w.Receive()
				res.pck, res.closed = pck, !ok
			case "send":
				res.pck = packet.Send(r.w, out)
				res.fallback = res.pck == packet.None
			case "fb":
				back := packet.New(types.NewString("fallback"))
				res.pck = packet.SendOrFallback(r.w, out, back)
				res.fallback = res.pck == back
			}
		}()
		r.res <- res
	}
}

type sinkRT struct {
	k      int
	wid    int
	rid    int
	q      qid
	reader *packet.Reader
	held   []int // payloads held, oldest first
}

type workflow struct {
	sc      *scen
	procs   []*process.Process
	procIdx map[*process.Process]int
	src     []*port.OutPort
	nodes   [][]*node.OneToOneNode
	sinkP   []*port.InPort
	writers map[int]*packet.Writer
	readers map[[2]int]*packet.Reader
	sinks   []*sinkRT
	reqs    []*requester
	reqOf   map[qid]*requester
	arrCh   chan arrival
	mu      sync.Mutex
	avail   map[int][]*packet.Packet // source writer id -> responses pushed into its pump, not yet reported
	availCh chan int

	lines, impls  []string
	fails         []string // oracle failures: "class\twhat"
	nextV, nextA  int
	firstPostV    int          // payloads from here on belong to requests written after the crash point
	dropsReleased int          // held-back drop notices released one at a time, in random order
	srcClosed     map[qid]bool // the requester's own writer was closed by the crash (class (i) of close-discards-buffered)
	nodeLossy     map[qid]bool // always empty now: the release of q through a node whose out-writer alone is closed used to be schedule-dependent
	noCompare     bool         // the outcome is schedule-dependent (known finding): not compared with the model
	inPortIdx     map[string]int
	outPortIdx    map[string]int
	nodeIdx       map[string]int
	topoLines     []string
	pendingCnt    map[int]*requester // line index of a pwrite whose count is known only at the end
}

// routed is the port a node of path a passes its requests on through: the out port, or – when the
// nodes of the path fail their actions – the error port.
func (wf *workflow) routed(a int, n *node.OneToOneNode) *port.OutPort {
	if wf.sc.errPath && a == 0 {
		return n.Out(node.PortError)
	}
	return n.Out(node.PortOut)
}

func (wf *workflow) emit(line, impl string) int {
	wf.lines = append(wf.lines, line)
	wf.impls = append(wf.impls, impl)
	return len(wf.lines) - 1
}

func (wf *workflow) fail(class, format string, a ...any) {
	wf.fails = append(wf.fails, class+"\t"+fmt.Sprintf(format, a...))
}

func (wf *workflow) topo(format string, a ...any) {
	l := fmt.Sprintf(format, a...)
	wf.topoLines = append(wf.topoLines, l)
	out := "ok"
	if strings.HasPrefix(l, "link ") {
		out = "t"
	}
	wf.emit(l, out)
}

func (wf *workflow) addRequester(q qid, wid int, w *packet.Writer) {
	r := &requester{q: q, wid: wid, w: w, kind: wf.sc.kinds[q], cmd: make(chan reqCmd, 256), res: make(chan reqRes, 256)}
	wf.reqs = append(wf.reqs, r)
	wf.reqOf[q] = r
	w.AddInboundHook(packet.HookFunc(func(p *packet.Packet) {
		wf.mu.Lock()
		wf.avail[wid] = append(wf.avail[wid], p)
		wf.mu.Unlock()
		select {
		case wf.availCh <- wid:
		default:
		}
	}))
	go r.loop()
}

func build(sc *scen) (wf *workflow, err string) {
	hookOnce.Do(func() { packet.VerifReceiveWrite = yieldHook })
	wf = &workflow{sc: sc, procIdx: map[*process.Process]int{}, writers: map[int]*packet.Writer{}, readers: map[[2]int]*packet.Reader{},
		reqOf: map[qid]*requester{}, arrCh: make(chan arrival, 256), avail: map[int][]*packet.Packet{}, availCh: make(chan int, 256),
		nextV: 1, nextA: 1000, srcClosed: map[qid]bool{}, nodeLossy: map[qid]bool{}, inPortIdx: map[string]int{}, outPortIdx: map[string]int{}, nodeIdx: map[string]int{}, pendingCnt: map[int]*requester{}}
	if sc.bare {
		k := 0
		for a, n := range sc.readers {
			w := packet.NewWriter()
			wf.writers[a] = w
			wf.topo("cons %d req", a)
			for r := 0; r < n; r++ {
				rd := packet.NewReader()
				wf.readers[[2]int{a, r}] = rd
				s := &sinkRT{k: k, wid: a, rid: r, q: qid{a, 0}, reader: rd}
				wf.sinks = append(wf.sinks, s)
				wf.topo("lis %d %d sink %d", a, r, k)
				kk := k
				go func() {
					for pck := range rd.Read() {
						v := -1
						if i, ok := pck.Payload().(types.Int64); ok {
							v = int(i.Int())
						}
						wf.arrCh <- arrival{kk, v}
					}
				}()
				k++
				if !w.Link(rd) {
					return wf, "Link returned false on a fresh writer"
				}
				wf.topo("link %d %d", a, r)
			}
			wf.addRequester(qid{a, 0}, a, w)
		}
		return wf, ""
	}
	// port paths
	for p := 0; p < sc.nP; p++ {
		pr := process.New()
		wf.procs = append(wf.procs, pr)
		wf.procIdx[pr] = p
	}
	nIn, nOut, nNode := 0, 0, 0
	for a, nn := range sc.nNodes {
		a := a
		src := port.NewOut()
		sink := port.NewIn()
		var ns []*node.OneToOneNode
		prev := src
		wf.outPortIdx[fmt.Sprintf("%d.0", a)] = nOut
		nOut++
		for j := 0; j < nn; j++ {
			fails := sc.errPath && a == 0
			n := node.NewOneToOneNode(func(_ *process.Process, in *packet.Packet) (*packet.Packet, *packet.Packet) {
				if fails {
					return nil, packet.New(in.Payload())
				}
				return packet.New(in.Payload()), nil
			})
			ns = append(ns, n)
			prev.Link(n.In(node.PortIn))
			prev = wf.routed(a, n)
			wf.inPortIdx[fmt.Sprintf("%d.%d", a, j)] = nIn
			wf.outPortIdx[fmt.Sprintf("%d.%d", a, j+1)] = nOut
			wf.nodeIdx[fmt.Sprintf("%d.%d", a, j)] = nNode
			nIn++
			nOut++
			nNode++
		}
		prev.Link(sink)
		wf.inPortIdx[fmt.Sprintf("%d.%d", a, nn)] = nIn
		nIn++
		sink.AddListener(port.ListenFunc(func(proc *process.Process) {
			rd := sink.Open(proc)
			k := a*sc.nP + wf.procIdx[proc]
			for pck := range rd.Read() {
				v := -1
				if i, ok := pck.Payload().(types.Int64); ok {
					v = int(i.Int())
				}
				wf.arrCh <- arrival{k, v}
			}
		}))
		wf.src = append(wf.src, src)
		wf.nodes = append(wf.nodes, ns)
		wf.sinkP = append(wf.sinkP, sink)
	}
	// wiring lines (static: every endpoint exists after the warm-up)
	for a, nn := range sc.nNodes {
		for p := 0; p < sc.nP; p++ {
			wf.topo("cons %d req", sc.wid(a, p, 0))
			for h := 1; h <= nn; h++ {
				wf.topo("cons %d node %d 0", sc.wid(a, p, h), sc.wid(a, p, h-1))
			}
			for h := 0; h < nn; h++ {
				wf.topo("lis %d 0 node %d", sc.wid(a, p, h), sc.wid(a, p, h+1))
			}
			wf.topo("lis %d 0 sink %d", sc.wid(a, p, nn), a*sc.nP+p)
		}
	}
	for a, nn := range sc.nNodes {
		for j := 0; j <= nn; j++ { // in-port j of path a: node j's in (j < nn) or the sink
			l := "inport"
			for p := 0; p < sc.nP; p++ {
				l += fmt.Sprintf(" %d 0", sc.wid(a, p, j))
			}
			wf.topo("%s", l)
		}
	}
	for a, nn := range sc.nNodes {
		for j := 0; j <= nn; j++ { // out-port j of path a: source (0) or node j-1's out
			l := "outport"
			for p := 0; p < sc.nP; p++ {
				l += fmt.Sprintf(" %d", sc.wid(a, p, j))
			}
			wf.topo("%s", l)
		}
	}
	for a, nn := range sc.nNodes {
		for j := 0; j < nn; j++ {
			wf.topo("node %d %d", wf.inPortIdx[fmt.Sprintf("%d.%d", a, j)], wf.outPortIdx[fmt.Sprintf("%d.%d", a, j+1)])
		}
	}
	for p := 0; p < sc.nP; p++ {
		l := "proc"
		for a, nn := range sc.nNodes {
			for h := 0; h <= nn; h++ {
				l += fmt.Sprintf(" W %d R %d 0", sc.wid(a, p, h), sc.wid(a, p, h))
			}
		}
		wf.topo("%s", l)
	}
	for a, nn := range sc.nNodes {
		for p := 0; p < sc.nP; p++ {
			for h := 0; h <= nn; h++ {
				wf.topo("link %d 0", sc.wid(a, p, h))
			}
		}
	}
	// open the sources (path by path, process by process) and warm every path up
	for a, nn := range sc.nNodes {
		for p := 0; p < sc.nP; p++ {
			q := qid{a, p}
			w := wf.src[a].Open(wf.procs[p])
			wf.writers[sc.wid(a, p, 0)] = w
			wf.addRequester(q, sc.wid(a, p, 0), w)
			s := &sinkRT{k: a*sc.nP + p, wid: sc.wid(a, p, nn), rid: 0, q: q}
			wf.sinks = append(wf.sinks, s)
			if e := wf.warm(q, s); e != "" {
				return wf, e
			}
			// every endpoint of (a, p) exists now
			s.reader = wf.sinkP[a].Open(wf.procs[p])
			wf.readers[[2]int{s.wid, 0}] = s.reader
			for j, n := range wf.nodes[a] {
				wf.readers[[2]int{sc.wid(a, p, j), 0}] = n.In(node.PortIn).Open(wf.procs[p])
				wf.writers[sc.wid(a, p, j+1)] = wf.routed(a, n).Open(wf.procs[p])
			}
		}
	}
	return wf, ""
}

// warm sends one request down path q and answers it, so that every lazily opened endpoint exists.
func (wf *workflow) warm(q qid, s *sinkRT) string {
	r := wf.reqOf[q]
	v := wf.nextV
	wf.nextV++
	w := &reqWrite{v: v, cells: map[int]string{}}
	r.writes = append(r.writes, w)
	if r.kind == "raw" {
		r.cmd <- reqCmd{"write", v}
		res, ok := wf.reply(r)
		if !ok || res.cnt != 1 {
			return fmt.Sprintf("warm-up write on %v returned %d", q, res.cnt)
		}
		r.owedRecv++
	} else {
		r.cmd <- reqCmd{op: r.kind, v: v}
		r.inSend = true
	}
	arr, ok := wf.waitArrivals(1)
	if !ok || arr[0].k != s.k || arr[0].v != v {
		return fmt.Sprintf("warm-up request of %v did not reach its sink", q)
	}
	w.accepted, w.sinks = true, []int{s.k}
	w.cells[s.k] = ""
	wf.emit(fmt.Sprintf("write %d %d", r.wid, v), fmt.Sprintf("n1 d%d:%d", s.k, v))
	s.held = append(s.held, v)
	if s.reader == nil {
		// first use: the sink listener opened the reader; fetch it (Open returns the existing one)
		s.reader = wf.sinkP[q.a].Open(wf.procs[q.p])
	}
	wf.doAnswer(s, fmt.Sprintf("v%d", wf.nextA), true)
	wf.nextA++
	if r.kind == "raw" {
		wf.doRecv(r)
	}
	return ""
}

// shortWait is how long a requester whose release is known to be schedule-dependent (known
// finding close-discards-buffered, former class (ii) – no requester is in it any more) is waited for; whatever the outcome it is
// attributed to the finding.
const shortWait = 400 * time.Millisecond

func (wf *workflow) patience(r *requester) time.Duration {
	if wf.nodeLossy[r.q] {
		return shortWait
	}
	return watchdog
}

func (wf *workflow) reply(r *requester) (reqRes, bool) {
	select {
	case res := <-r.res:
		return res, true
	case <-time.After(wf.patience(r)):
		return reqRes{}, false
	}
}

func (wf *workflow) waitArrivals(n int) ([]arrival, bool) {
	var out []arrival
	for len(out) < n {
		select {
		case a := <-wf.arrCh:
			out = append(out, a)
		case <-time.After(watchdog):
			return out, false
		}
	}
	sort.Slice(out, func(i, j int) bool { return out[i].k < out[j].k })
	return out, true
}

// waitAvail waits until n responses have been pushed into the pump of source writer wid.
func (wf *workflow) waitAvail(wid, n int) ([]*packet.Packet, bool) {
	deadline := time.After(watchdog)
	for {
		wf.mu.Lock()
		if len(wf.avail[wid]) >= n {
			out := wf.avail[wid][:n]
			wf.avail[wid] = wf.avail[wid][n:]
			wf.mu.Unlock()
			return out, true
		}
		wf.mu.Unlock()
		select {
		case <-wf.availCh:
		case <-time.After(20 * time.Millisecond):
		case <-deadline:
			return nil, false
		}
	}
}

func (wf *workflow) sinksOf(q qid) []*sinkRT {
	var out []*sinkRT
	for _, s := range wf.sinks {
		if s.q == q {
			out = append(out, s)
		}
	}
	return out
}

// ---------------------------------------------------------------- reference bookkeeping (oracle)

// refAnswer records that sink s answered (or, closed, dropped) its oldest pending cell and
// returns the responses that become available at the requester (head rows that are complete).
func (wf *workflow) refFill(s *sinkRT, a string) []string {
	r := wf.reqOf[s.q]
	for _, w := range r.writes {
		if !w.accepted || w.done {
			continue
		}
		if c, has := w.cells[s.k]; has && c == "" {
			w.cells[s.k] = a
			break
		}
	}
	return wf.refFlush(r)
}

func (wf *workflow) refFlush(r *requester) (out []string) {
	for _, w := range r.writes {
		if !w.accepted || w.done {
			continue
		}
		var cs []string
		for _, k := range w.sinks {
			c := w.cells[k]
			if c == "" {
				return out
			}
			cs = append(cs, c)
		}
		w.done = true
		w.expect = joinCanon(cs)
		out = append(out, w.expect)
	}
	return out
}

// ---------------------------------------------------------------- pre-crash steps (quiesced)

func (wf *workflow) doWrite(r *requester) {
	v := wf.nextV
	wf.nextV++
	w := &reqWrite{v: v, cells: map[int]string{}}
	r.writes = append(r.writes, w)
	ss := wf.sinksOf(r.q)
	cnt := len(ss)
	if r.kind == "raw" {
		r.cmd <- reqCmd{"write", v}
		res, ok := wf.reply(r)
		if !ok {
			wf.fail("blocked", "requester %v: Write did not return", r.q)
			return
		}
		if res.panicked != "" {
			wf.fail("panic", "requester %v: Write panicked: %s", r.q, res.panicked)
			return
		}
		cnt = res.cnt
		if cnt > 0 {
			r.owedRecv++
		}
	} else {
		r.cmd <- reqCmd{op: r.kind, v: v}
		r.inSend = true
	}
	arr, ok := wf.waitArrivals(len(ss))
	if !ok {
		wf.fail("lost-request", "requester %v: request %d reached %d of %d sinks before any teardown", r.q, v, len(arr), len(ss))
	}
	out := "n" + strconv.Itoa(cnt)
	for _, a := range arr {
		out += fmt.Sprintf(" d%d:%d", a.k, a.v)
		for _, s := range ss {
			if s.k == a.k {
				s.held = append(s.held, a.v)
				w.cells[s.k] = ""
				w.sinks = append(w.sinks, s.k)
			}
		}
	}
	w.accepted = cnt > 0
	wf.emit(fmt.Sprintf("write %d %d", r.wid, v), out)
}

// doAnswer lets sink s answer its oldest held request; quiesced: waits for the responses the
// reference says become available and, for Send requesters, for the Send to return.
func (wf *workflow) doAnswer(s *sinkRT, a string, quiesce bool) {
	if len(s.held) == 0 {
		return
	}
	heldV := s.held[0]
	s.held = s.held[1:]
	ret := false
	pmsg := lib.Safe(func() { ret = s.reader.Receive(mkAns(a)) })
	if pmsg != "" {
		wf.fail("panic", "sink %d: Reader.Receive panicked: %s", s.k, pmsg)
	}
	tok := strings.ToLower(a[:1]) + " " + a[1:]
	if !quiesce {
		if !(wf.sc.postRace && wf.firstPostV > 0 && heldV >= wf.firstPostV) { // unmirrored post-crash request
			wf.emit(fmt.Sprintf("pans %d %s", s.k, tok), tf(ret))
		}
		return
	}
	r := wf.reqOf[s.q]
	exp := wf.refFill(s, canonAns(a))
	out := tf(ret)
	pcks, ok := wf.waitAvail(r.wid, len(exp))
	if !ok {
		wf.fail("lost-response", "sink %d answered %s: %d responses should reach requester %v before any teardown", s.k, a, len(exp), r.q)
	}
	for _, p := range pcks {
		out += fmt.Sprintf(" | w%d:%s", r.wid, canon(p))
	}
	wf.emit(fmt.Sprintf("ans %d %s", s.k, tok), out)
	if r.inSend && len(exp) > 0 {
		wf.collectSend(r, true)
	}
}

func canonAns(a string) string { // "v12" -> "v12", "e7" -> "E7"
	if a[0] == 'e' {
		return "E" + a[1:]
	}
	return a
}

func tf(b bool) string {
	if b {
		return "t"
	}
	return "f"
}

// nextOwed is the oldest accepted write of r whose result is still unknown.
func (r *requester) nextOwed() *reqWrite {
	for _, w := range r.writes {
		if w.accepted && w.result == "" {
			return w
		}
	}
	return nil
}

func (wf *workflow) record(r *requester, res reqRes, emitLine bool) {
	w := r.nextOwed()
	c := ""
	switch {
	case res.panicked != "":
		wf.fail("panic", "requester %v (%s): panicked: %s", r.q, r.kind, res.panicked)
		c = "panic"
	case res.closed:
		c = "closed"
	default:
		c = canon(res.pck)
	}
	if w != nil {
		w.result = c
	}
	if w != nil && w.post && wf.sc.postRace {
		// not mirrored in the model: judged by the oracle only
		return
	}
	if c == "closed" {
		// the closed channel stands for the dropped response the pump discarded: compared as such,
		// judged by the oracle (class close-discards-buffered when the requester's own writer was closed)
		r.got = append(r.got, "E0")
	} else {
		r.got = append(r.got, c)
	}
	if emitLine {
		wf.emit(fmt.Sprintf("recv %d", r.wid), c)
	}
}

// collectSend reads the result of the Send in progress.
func (wf *workflow) collectSend(r *requester, emitLine bool) {
	res, ok := wf.reply(r)
	if !ok {
		r.blocked++
		wf.fail("blocked", "requester %v (%s) did not return from Send within %v although its response was available", r.q, r.kind, watchdog)
		return
	}
	r.inSend = false
	wf.record(r, res, emitLine)
}

func (wf *workflow) doRecv(r *requester) {
	r.cmd <- reqCmd{op: "recv"}
	res, ok := wf.reply(r)
	if !ok {
		r.blocked++
		wf.fail("blocked", "requester %v (raw) did not receive an available response within %v", r.q, watchdog)
		return
	}
	r.owedRecv--
	wf.record(r, res, true)
}

// ---------------------------------------------------------------- the crash

func (wf *workflow) apply(a action) {
	pmsg := lib.Safe(func() {
		switch a.kind {
		case "reader":
			wf.readers[[2]int{a.w, a.r}].Close()
		case "writer":
			wf.writers[a.w].Close()
		case "inport":
			wf.inPortByIdx(a.i).Close()
		case "outport":
			wf.outPortByIdx(a.i).Close()
		case "node":
			_ = wf.nodeByIdx(a.i).Close()
		case "exit":
			wf.procs[a.i].Exit(nil)
		}
	})
	if pmsg != "" {
		wf.fail("panic", "%s panicked: %s", a.line(), pmsg)
	}
	wf.emit(a.line(), "u")
}

func (wf *workflow) inPortByIdx(i int) *port.InPort {
	for key, idx := range wf.inPortIdx {
		if idx == i {
			var a, j int
			fmt.Sscanf(key, "%d.%d", &a, &j)
			if j < len(wf.nodes[a]) {
				return wf.nodes[a][j].In(node.PortIn)
			}
			return wf.sinkP[a]
		}
	}
	return nil
}

func (wf *workflow) outPortByIdx(i int) *port.OutPort {
	for key, idx := range wf.outPortIdx {
		if idx == i {
			var a, j int
			fmt.Sscanf(key, "%d.%d", &a, &j)
			if j == 0 {
				return wf.src[a]
			}
			return wf.routed(a, wf.nodes[a][j-1])
		}
	}
	return nil
}

func (wf *workflow) nodeByIdx(i int) *node.OneToOneNode {
	for key, idx := range wf.nodeIdx {
		if idx == i {
			var a, j int
			fmt.Sscanf(key, "%d.%d", &a, &j)
			return wf.nodes[a][j]
		}
	}
	return nil
}

func (wf *workflow) pathOfPortIdx(m map[string]int, i int) int {
	for key, idx := range m {
		if idx == i {
			var a, j int
			fmt.Sscanf(key, "%d.%d", &a, &j)
			return a
		}
	}
	return -1
}

// classify evaluates the class predicates of the known finding close-discards-buffered.
//
//	(i)  srcClosed[q]: the crash closes q's own source writer (raw receivers may see the closed channel);
//	(the former class (ii) – q is owed a response and the most upstream endpoint the crash closes on
//	     q's chain is a node's out-writer – is repaired: the node's backward loop drops what is
//	     pending when the channel closes.)
func (wf *workflow) classify(acts []action, owed map[qid]int) {
	sc := wf.sc
	if sc.bare {
		for _, a := range acts {
			if a.kind == "writer" {
				wf.srcClosed[qid{a.w, 0}] = true
			}
		}
		return
	}
	for a := 0; a < sc.paths(); a++ {
		nn := sc.nNodes[a]
		for p := 0; p < sc.nP; p++ {
			q := qid{a, p}
			// position of an endpoint on the chain: W_h at 2h, R_h at 2h+1
			first := 1 << 30
			mark := func(pos int) {
				if pos < first {
					first = pos
				}
			}
			for _, act := range acts {
				switch act.kind {
				case "reader", "writer":
					if act.w/hops == a*sc.nP+p {
						h := act.w % hops
						if act.kind == "writer" {
							mark(2 * h)
						} else {
							mark(2*h + 1)
						}
					}
				case "inport":
					if wf.pathOfPortIdx(wf.inPortIdx, act.i) == a {
						mark(2*wf.hopOf(wf.inPortIdx, act.i) + 1)
					}
				case "outport":
					if wf.pathOfPortIdx(wf.outPortIdx, act.i) == a {
						mark(2 * wf.hopOf(wf.outPortIdx, act.i))
					}
				case "node":
					if wf.pathOfPortIdx(wf.nodeIdx, act.i) == a {
						mark(2*wf.hopOf(wf.nodeIdx, act.i) + 1) // its in-reader is upstream of its out-writer
					}
				case "exit":
					if act.i == p {
						mark(0)
					}
				}
			}
			_ = nn
			if first == 0 {
				wf.srcClosed[q] = true
			}
			// (the most upstream endpoint closed being a node's out-writer used to be class (ii): the
			// node's backward loop now drops what is pending when the channel closes, the release of q
			// is deterministic and such cases are compared like all others)
			_ = owed
		}
	}
}

func (wf *workflow) hopOf(m map[string]int, i int) int {
	for key, idx := range m {
		if idx == i {
			var a, j int
			fmt.Sscanf(key, "%d.%d", &a, &j)
			return j
		}
	}
	return -1
}

// effect of an action by the harness's own reading of the statement: which requesters' paths
// are torn down ("hard": every response still owed becomes dropped), which sinks are closed.
func (wf *workflow) affected(a action) (hard []qid, closedSinks []int) {
	sc := wf.sc
	qOfW := func(w int) qid {
		if sc.bare {
			return qid{w, 0}
		}
		return qid{w / hops / sc.nP, (w / hops) % sc.nP}
	}
	switch a.kind {
	case "reader":
		if sc.bare {
			for _, s := range wf.sinks {
				if s.wid == a.w && s.rid == a.r {
					closedSinks = append(closedSinks, s.k)
				}
			}
			return
		}
		hard = []qid{qOfW(a.w)}
	case "writer":
		hard = []qid{qOfW(a.w)}
	case "inport", "outport", "node":
		p := -1
		switch a.kind {
		case "inport":
			p = wf.pathOfPortIdx(wf.inPortIdx, a.i)
		case "outport":
			p = wf.pathOfPortIdx(wf.outPortIdx, a.i)
		default:
			p = wf.pathOfPortIdx(wf.nodeIdx, a.i)
		}
		for pp := 0; pp < sc.nP; pp++ {
			hard = append(hard, qid{p, pp})
		}
	case "exit":
		for aa := 0; aa < sc.paths(); aa++ {
			hard = append(hard, qid{aa, a.i})
		}
	}
	return
}

// ---------------------------------------------------------------- one case

type caseResult struct {
	lines, impls []string
	fails        []string
	key          string
	outstanding  int // responses owed at the crash point
	released     int // of those, released with dropped
	noCompare    bool
	drops        int // held-back drop notices released in random order
}

func runCase(sc *scen, prefix int, acts []action) (res caseResult) {
	wf, e := build(sc)
	defer wf.cleanup()
	if e != "" {
		wf.fail("setup", "%s", e)
		return wf.result(sc, prefix, acts)
	}
	// 1. the schedule up to the crash point
	for _, ev := range sc.events[:prefix] {
		switch ev.kind {
		case 'W':
			wf.doWrite(wf.reqOf[ev.q])
		case 'A':
			wf.doAnswer(wf.sinks[ev.k], ev.ans, true)
		case 'R':
			wf.doRecv(wf.reqOf[ev.q])
		}
		if len(wf.fails) > 0 {
			return wf.result(sc, prefix, acts)
		}
	}
	// 2. the crash
	wf.firstPostV = wf.nextV
	hardSet := map[qid]bool{}
	closedSink := map[int]bool{}
	owedAtCrash := map[qid]int{}
	for _, r := range wf.reqs {
		for _, w := range r.writes {
			if w.accepted && !w.done {
				owedAtCrash[r.q]++
			}
		}
	}
	wf.classify(acts, owedAtCrash)
	for _, r := range wf.reqs {
		// class (i): a raw receiver that is owed something (or has not yet collected an answer that
		// has arrived) when its own writer is closed may see the closed channel instead – whether it
		// does depends on whether it is parked: not compared with the model
		if r.kind == "raw" && wf.srcClosed[r.q] && r.owedRecv > 0 {
			wf.noCompare = true
		}
	}
	var g chan struct{}
	// a drop notice racing with a later close of the writer it is aimed at changes a proper join
	// (two readers): such pairs are run with the notices held back until both actions are done
	hold := sc.dropHold || (sc.bare && len(acts) == 2)
	if hold {
		g = make(chan struct{})
		heldMu.Lock()
		heldDrops = nil
		heldMu.Unlock()
		gate.Store(&g)
		holding.Store(true)
	}
	var softOrder []int
	for _, a := range acts {
		wf.apply(a)
		hard, cs := wf.affected(a)
		for _, q := range hard {
			hardSet[q] = true
		}
		for _, k := range cs {
			if !closedSink[k] {
				closedSink[k] = true
				softOrder = append(softOrder, k)
			}
		}
	}
	if hold {
		wf.releaseDrops(uint64(sc.id)*131 + uint64(prefix)*17 + uint64(len(acts)))
		holding.Store(false)
		close(g)
	}
	// the reference: on a torn-down path every response still owed is the dropped error; a closed
	// reader of a writer that stays open answers `dropped` for what it held
	for q := range hardSet {
		for _, w := range wf.reqOf[q].writes {
			if w.accepted && !w.done {
				w.done, w.hard, w.expect = true, true, "E0"
			}
		}
	}
	for _, k := range softOrder {
		s := wf.sinks[k]
		if !hardSet[s.q] {
			for range s.held {
				wf.refFill(s, "E0")
			}
		}
		s.held = nil
	}
	// 3. sinks of torn-down paths try to answer what they still hold
	if sc.postAns {
		for _, s := range wf.sinks {
			if hardSet[s.q] && !closedSink[s.k] {
				for len(s.held) > 0 {
					wf.doAnswer(s, fmt.Sprintf("v%d", wf.nextA), false)
					wf.nextA++
				}
			}
		}
	}
	// 4. one more request per requester: either at once, racing with the propagation of the
	//    teardown, or after the torn-down paths have released their requesters
	if sc.postReq {
		if !sc.postRace {
			wf.collectHard(hardSet)
		}
		for _, r := range wf.reqs {
			if r.inSend || r.blocked > 0 {
				continue
			}
			wf.postWrite(r, hardSet, closedSink)
		}
	}
	// 5. the paths that were not torn down are answered
	for _, s := range wf.sinks {
		if hardSet[s.q] || closedSink[s.k] {
			continue
		}
		for len(s.held) > 0 {
			a := fmt.Sprintf("v%d", wf.nextA)
			wf.nextA++
			wf.refFill(s, a)
			wf.doAnswer(s, a, false)
		}
	}
	// 6. every requester comes back
	wf.finale()
	return wf.result(sc, prefix, acts)
}

// collectHard lets the requesters of torn-down paths receive everything they are owed.
func (wf *workflow) collectHard(hardSet map[qid]bool) {
	for _, r := range wf.reqs {
		if !hardSet[r.q] || r.blocked > 0 {
			continue
		}
		if r.kind == "raw" {
			for r.owedRecv > 0 && r.blocked == 0 {
				r.cmd <- reqCmd{op: "recv"}
				res, ok := wf.reply(r)
				if !ok {
					r.blocked += r.owedRecv
					wf.fail(wf.blockedClass(r), "requester %v (raw) still blocked %v after the teardown with %d responses owed", r.q, wf.patience(r), r.owedRecv)
					break
				}
				r.owedRecv--
				wf.record(r, res, false)
			}
		} else if r.inSend {
			res, ok := wf.reply(r)
			if !ok {
				r.blocked++
				wf.fail(wf.blockedClass(r), "requester %v (%s) still blocked in Send %v after the teardown", r.q, r.kind, wf.patience(r))
				continue
			}
			r.inSend = false
			wf.record(r, res, false)
		}
	}
}

func (wf *workflow) postWrite(r *requester, hardSet map[qid]bool, closedSink map[int]bool) {
	v := wf.nextV
	wf.nextV++
	w := &reqWrite{v: v, post: true, cells: map[int]string{}}
	r.writes = append(r.writes, w)
	var open []*sinkRT
	for _, s := range wf.sinksOf(r.q) {
		if !closedSink[s.k] {
			open = append(open, s)
		}
	}
	line := fmt.Sprintf("pwrite %d %d", r.wid, v)
	if r.kind == "raw" {
		r.cmd <- reqCmd{"write", v}
		res, ok := wf.reply(r)
		if !ok {
			r.blocked++
			wf.fail("blocked", "requester %v: Write after the teardown did not return", r.q)
			return
		}
		if res.panicked != "" {
			wf.fail("panic", "requester %v: Write after the teardown panicked: %s", r.q, res.panicked)
			return
		}
		w.accepted = res.cnt > 0
		if w.accepted {
			r.owedRecv++
		}
		if !wf.sc.postRace {
			wf.emit(line, "n"+strconv.Itoa(res.cnt))
		}
	} else {
		r.cmd <- reqCmd{op: r.kind, v: v}
		r.inSend = true
		if !wf.sc.postRace {
			wf.pendingCnt[wf.emit(line, "n?")] = r
		}
	}
	if hardSet[r.q] {
		// torn down: the request must not reach a sink; whatever comes back is dropped or the echo
		w.hard = true
		return
	}
	// intact path: the request reaches every open sink
	arr, ok := wf.waitArrivals(len(open))
	if !ok {
		wf.fail("unaffected", "requester %v on an intact path: request %d reached %d of %d sinks", r.q, v, len(arr), len(open))
	}
	for _, a := range arr {
		for _, s := range open {
			if s.k == a.k {
				s.held = append(s.held, a.v)
				w.cells[s.k] = ""
				w.sinks = append(w.sinks, s.k)
			}
		}
	}
	if r.kind != "raw" {
		w.accepted = len(arr) > 0
	}
}

func (wf *workflow) blockedClass(r *requester) string {
	if wf.nodeLossy[r.q] {
		return "close-discards-buffered"
	}
	return "blocked"
}

func (wf *workflow) until(r *requester, deadline, shortDeadline time.Time) time.Duration {
	if wf.nodeLossy[r.q] {
		return time.Until(shortDeadline)
	}
	return time.Until(deadline)
}

func (wf *workflow) finale() {
	deadline := time.Now().Add(watchdog)
	shortDeadline := time.Now().Add(shortWait)
	for _, r := range wf.reqs {
		if r.blocked > 0 {
			continue
		}
		if r.kind == "raw" {
			for i := 0; i < r.owedRecv; i++ {
				r.cmd <- reqCmd{op: "recv"}
			}
		}
	}
	for _, r := range wf.reqs {
		if r.blocked > 0 {
			continue
		}
		n := r.owedRecv
		if r.kind != "raw" {
			n = 0
			if r.inSend {
				n = 1
			}
		}
		for i := 0; i < n; i++ {
			select {
			case res := <-r.res:
				if r.kind != "raw" {
					r.inSend = false
					// the count of the Send's write is known only now
					for idx, rr := range wf.pendingCnt {
						if rr == r {
							if res.fallback {
								wf.impls[idx] = "n0"
							} else {
								// Send hides the count; it is the number of sinks the request reached (one reader
								// per writer on port paths)
								n := 1
								if w := r.lastWrite(); w != nil && len(w.sinks) > 1 {
									n = len(w.sinks)
								}
								wf.impls[idx] = "n" + strconv.Itoa(n)
							}
							delete(wf.pendingCnt, idx)
						}
					}
					if res.fallback && res.panicked == "" {
						// Write reported no accepting reader: nothing is owed
						if w := r.lastWrite(); w != nil && w.post {
							if w.accepted && !w.hard {
								wf.fail("unaffected", "requester %v: Send on an intact path returned its fallback although the request reached a sink", r.q)
							}
							w.accepted = false
						}
						continue
					}
					if w := r.lastWrite(); w != nil && w.post {
						w.accepted = true
					}
				}
				wf.record(r, res, false)
			case <-time.After(wf.until(r, deadline, shortDeadline)):
				r.blocked += n - i
				wf.fail(wf.blockedClass(r), "requester %v (%s) still blocked %v after the teardown with %d responses owed", r.q, r.kind, wf.patience(r), n-i)
				i = n
			}
		}
	}
	for idx, r := range wf.pendingCnt {
		n := 1 // still inside Send: the write was accepted
		if w := r.lastWrite(); w != nil && len(w.sinks) > 1 {
			n = len(w.sinks)
		}
		wf.impls[idx] = "n" + strconv.Itoa(n)
	}
	// settle line: what every requester received in total
	var groups []string
	for _, r := range wf.sortedReqs() {
		acc := 0
		for _, w := range r.writes {
			if w.accepted && !(w.post && wf.sc.postRace) {
				acc++
			}
		}
		if acc == 0 {
			continue
		}
		g := fmt.Sprintf("w%d:%s", r.wid, strings.Join(r.got, ","))
		if acc > len(r.got) {
			g += fmt.Sprintf(";blocked%d", acc-len(r.got))
		}
		groups = append(groups, g)
	}
	out := strings.Join(groups, " ")
	if out == "" {
		out = "-"
	}
	wf.emit("settle", out)
	wf.judge()
}

func (r *requester) lastWrite() *reqWrite {
	if len(r.writes) == 0 {
		return nil
	}
	return r.writes[len(r.writes)-1]
}

func (wf *workflow) sortedReqs() []*requester {
	rs := append([]*requester(nil), wf.reqs...)
	sort.Slice(rs, func(i, j int) bool { return rs[i].wid < rs[j].wid })
	return rs
}

// judge is the property oracle proper: what each requester got against the statement.
func (wf *workflow) judge() {
	for _, r := range wf.reqs {
		for _, w := range r.writes {
			if !w.accepted {
				continue
			}
			what := fmt.Sprintf("requester %v (%s), request %d", r.q, r.kind, w.v)
			switch w.result {
			case "":
				// reported as blocked already (or never released)
				if r.blocked == 0 {
					wf.fail(wf.blockedClass(r), "%s: never received a response", what)
				}
				continue
			case "nil":
				wf.fail("nil-packet", "%s: was handed a nil packet", what)
				continue
			case "closed":
				if wf.srcClosed[r.q] {
					wf.fail("close-discards-buffered", "%s: raw receive on its own closed writer saw the closed channel instead of the dropped packet", what)
				} else {
					wf.fail("closed-channel", "%s: received the zero value of the closed Receive() channel while a response was owed and its writer was not closed", what)
				}
				continue
			case "panic":
				continue
			}
			switch {
			case w.post && w.hard && w.result == "N" && wf.sc.postRace && !wf.sc.bare:
				// the request entered a node while that node's tracer was resolving the drop notices of
				// the teardown: Tracer.resolve answers a read whose slots are not registered yet with the
				// empty packet (DESIGN.md §7 row 6, owned by C02)
				wf.fail("tracer-empty-answer", "%s written while the teardown was still propagating: answered with the empty packet", what)
			case w.post && w.hard:
				if w.result != "E0" && w.result != fmt.Sprintf("v%d", w.v) {
					wf.fail("wrong-answer", "%s written after the teardown: got %s, expected the dropped error or its own echo", what, w.result)
				}
			case w.hard:
				if w.result != "E0" {
					wf.fail("wrong-answer", "%s outstanding at the teardown: got %s, expected the dropped error", what, w.result)
				}
			default:
				if !w.done {
					wf.refFlush(r)
				}
				if w.expect == "" || w.result != w.expect {
					wf.fail("unaffected", "%s on a path that was not torn down (or answered before the teardown): got %s, expected %q", what, w.result, w.expect)
				}
			}
		}
		// nothing further may be delivered (exactly once): the writer's channel is empty or closed
		if r.blocked == 0 && !r.inSend {
			select {
			case p, ok := <-r.w.Receive():
				if ok {
					wf.fail("extra-packet", "requester %v: a further packet %s was delivered after every owed response had been received", r.q, canon(p))
				}
			default:
			}
		}
	}
}

func (wf *workflow) result(sc *scen, prefix int, acts []action) caseResult {
	var as []string
	for _, a := range acts {
		as = append(as, a.line())
	}
	res := caseResult{lines: wf.lines, impls: wf.impls, fails: wf.fails,
		key: fmt.Sprintf("s%d/p%d/%s", sc.id, prefix, strings.Join(as, "+")), noCompare: wf.noCompare, drops: wf.dropsReleased}
	for _, r := range wf.reqs {
		for _, w := range r.writes {
			if w.accepted && w.hard && !w.post {
				res.outstanding++
				if w.result == "E0" {
					res.released++
				}
			}
		}
	}
	return res
}

func (wf *workflow) cleanup() {
	holding.Store(false)
	for _, r := range wf.reqs {
		close(r.cmd)
	}
	lib.Safe(func() {
		for _, p := range wf.procs {
			p.Exit(nil)
		}
		for a := range wf.src {
			wf.src[a].Close()
			for _, n := range wf.nodes[a] {
				_ = n.Close()
			}
			wf.sinkP[a].Close()
		}
		if wf.sc.bare {
			for _, w := range wf.writers {
				w.Close()
			}
			for _, r := range wf.readers {
				r.Close()
			}
		}
	})
}

// ---------------------------------------------------------------- generation

func genScen(rng *lib.RNG, id int, maxEvents int) *scen {
	sc := &scen{id: id, kinds: map[qid]string{}, dropHold: rng.Chance(1, 2), postAns: rng.Chance(1, 2), postReq: rng.Chance(2, 3), postRace: rng.Chance(1, 3), errPath: rng.Chance(1, 3)}
	if rng.Chance(1, 4) {
		sc.bare = true
		sc.nP = 1
		sc.readers = []int{rng.Range(1, 2), 1}
	} else {
		sc.nP = 2
		sc.nNodes = []int{rng.Intn(3), rng.Intn(2)}
	}
	kinds := []string{"raw", "raw", "send", "fb"}
	for a := 0; a < sc.paths(); a++ {
		for p := 0; p < sc.nP; p++ {
			sc.kinds[qid{a, p}] = lib.Pick(rng, kinds)
		}
	}
	// a valid schedule: per requester ≤ 2 responses owed or waiting (raw), ≤ 1 (Send)
	type qs struct {
		pending int // accepted, not yet complete
		avail   int // complete, not yet received (raw)
		inSend  bool
		cells   [][]int // per pending write: sinks still to answer
	}
	st := map[qid]*qs{}
	sinksOf := map[qid][]int{}
	k := 0
	for a := 0; a < sc.paths(); a++ {
		for p := 0; p < sc.nP; p++ {
			q := qid{a, p}
			st[q] = &qs{}
			if sc.bare {
				for r := 0; r < sc.readers[a]; r++ {
					sinksOf[q] = append(sinksOf[q], k)
					k++
				}
			}
		}
	}
	if !sc.bare {
		for a := 0; a < sc.paths(); a++ {
			for p := 0; p < sc.nP; p++ {
				sinksOf[qid{a, p}] = []int{a*sc.nP + p}
			}
		}
	}
	held := map[int]int{} // sink -> held count
	n := rng.Range(1, maxEvents)
	ansID := 5000
	for len(sc.events) < n {
		// bias towards the path/process that will be torn down
		q := qid{0, 0}
		if rng.Chance(2, 5) {
			q = qid{rng.Intn(sc.paths()), rng.Intn(sc.nP)}
		}
		s := st[q]
		switch rng.Weighted([]int{5, 3, 2}) {
		case 0:
			if sc.kinds[q] == "raw" {
				if s.pending+s.avail >= 2 {
					continue
				}
			} else if s.inSend {
				continue
			}
			sc.events = append(sc.events, ev{kind: 'W', q: q})
			s.pending++
			s.cells = append(s.cells, append([]int(nil), sinksOf[q]...))
			if sc.kinds[q] != "raw" {
				s.inSend = true
			}
			for _, k := range sinksOf[q] {
				held[k]++
			}
		case 1:
			ks := sinksOf[q]
			k := ks[rng.Intn(len(ks))]
			if held[k] == 0 {
				continue
			}
			held[k]--
			ansID++
			a := fmt.Sprintf("v%d", ansID)
			if rng.Chance(1, 6) {
				a = fmt.Sprintf("e%d", ansID)
			}
			sc.events = append(sc.events, ev{kind: 'A', k: k, ans: a})
			// the oldest pending write that still waits for k
			for i := range s.cells {
				idx := -1
				for j, kk := range s.cells[i] {
					if kk == k {
						idx = j
					}
				}
				if idx >= 0 {
					s.cells[i] = append(s.cells[i][:idx], s.cells[i][idx+1:]...)
					break
				}
			}
			for len(s.cells) > 0 && len(s.cells[0]) == 0 {
				s.cells = s.cells[1:]
				s.pending--
				if sc.kinds[q] == "raw" {
					s.avail++
				} else {
					s.inSend = false
				}
			}
		case 2:
			if sc.kinds[q] != "raw" || s.avail == 0 {
				continue
			}
			s.avail--
			sc.events = append(sc.events, ev{kind: 'R', q: q})
		}
	}
	return sc
}

// actions lists the teardown actions of a scenario: every kind, aimed at path 0 / process 0
// (the second path and process are the unaffected controls), plus two on the controls for pairs.
func actions(sc *scen) (primary, extra []action) {
	if sc.bare {
		for r := 0; r < sc.readers[0]; r++ {
			primary = append(primary, action{kind: "reader", w: 0, r: r})
		}
		primary = append(primary, action{kind: "writer", w: 0})
		extra = append(extra, action{kind: "reader", w: 1, r: 0}, action{kind: "writer", w: 1})
		return
	}
	nn := sc.nNodes[0]
	for h := 0; h <= nn; h++ {
		primary = append(primary, action{kind: "reader", w: sc.wid(0, 0, h), r: 0})
		primary = append(primary, action{kind: "writer", w: sc.wid(0, 0, h)})
	}
	// port and node indices follow the numbering of build(): path 0 first
	for j := 0; j <= nn; j++ {
		primary = append(primary, action{kind: "inport", i: j})
		primary = append(primary, action{kind: "outport", i: j})
	}
	for j := 0; j < nn; j++ {
		primary = append(primary, action{kind: "node", i: j})
	}
	primary = append(primary, action{kind: "exit", i: 0})
	extra = append(extra, action{kind: "exit", i: 1}, action{kind: "outport", i: nn + 1}, action{kind: "inport", i: nn + 1 + sc.nNodes[1]})
	return
}

// lossyCase tells from the scenario alone whether the release of some requester hangs on a node whose
// out-writer is the most upstream endpoint closed (the former class (ii); counted for the evidence).
func lossyCase(sc *scen, prefix int, acts []action) bool {
	if sc.bare {
		return false
	}
	// responses owed per requester after the prefix
	owed := map[qid]int{}
	heldBy := map[int][]qid{}
	for _, e := range sc.events[:prefix] {
		switch e.kind {
		case 'W':
			owed[e.q]++
			k := e.q.a*sc.nP + e.q.p
			heldBy[k] = append(heldBy[k], e.q)
		case 'A':
			if qs := heldBy[e.k]; len(qs) > 0 {
				owed[qs[0]]--
				heldBy[e.k] = qs[1:]
			}
		}
	}
	// numbering of build(): path 0 first
	inPath := func(i int, in bool) (a, j int) {
		n0 := sc.nNodes[0] + 1
		if i < n0 {
			return 0, i
		}
		return 1, i - n0
	}
	for a := 0; a < sc.paths(); a++ {
		for p := 0; p < sc.nP; p++ {
			first := 1 << 30
			mark := func(pos int) {
				if pos < first {
					first = pos
				}
			}
			for _, act := range acts {
				switch act.kind {
				case "reader", "writer":
					if act.w/hops == a*sc.nP+p {
						h := act.w % hops
						if act.kind == "writer" {
							mark(2 * h)
						} else {
							mark(2*h + 1)
						}
					}
				case "inport":
					if pa, j := inPath(act.i, true); pa == a {
						mark(2*j + 1)
					}
				case "outport":
					if pa, j := inPath(act.i, false); pa == a {
						mark(2 * j)
					}
				case "node":
					pa, j := 0, act.i
					if act.i >= sc.nNodes[0] {
						pa, j = 1, act.i-sc.nNodes[0]
					}
					if pa == a {
						mark(2*j + 1)
					}
				case "exit":
					if act.i == p {
						mark(0)
					}
				}
			}
			if first != 1<<30 && first%2 == 0 && first >= 2 && owed[qid{a, p}] > 0 {
				return true
			}
		}
	}
	return false
}

// ---------------------------------------------------------------- stolen response (Send's own guard)

// stolen: another consumer of the same Receive() channel takes the response a Send caller
// waits for; when the writer is then closed the Send caller must still get a packet.
func stolen(c *lib.Ctx, tries int) (fails []lib.OracleFail) {
	for i := 0; i < tries; i++ {
		w := packet.NewWriter()
		r := packet.NewReader()
		w.Link(r)
		thiefReady := make(chan struct{})
		thiefGot := make(chan bool, 1)
		go func() {
			close(thiefReady)
			_, ok := <-w.Receive()
			thiefGot <- ok
		}()
		<-thiefReady
		for j := 0; j < 50; j++ {
			runtime.Gosched()
		}
		time.Sleep(200 * time.Microsecond)
		res := make(chan reqRes, 1)
		go func() {
			var rr reqRes
			defer func() {
				if p := recover(); p != nil {
					rr.panicked = fmt.Sprint(p)
				}
				res <- rr
			}()
			rr.pck = packet.Send(w, packet.New(types.NewInt64(1)))
		}()
		select {
		case <-r.Read():
		case <-time.After(watchdog):
			fails = append(fails, lib.OracleFail{Class: "lost-request", What: "stolen-response scenario: the request never reached the reader"})
			return
		}
		r.Receive(packet.New(types.NewInt64(2)))
		stolenByThief := false
		select {
		case <-thiefGot:
			stolenByThief = true
		case rr := <-res:
			res <- rr
		case <-time.After(watchdog):
		}
		w.Close()
		r.Close()
		select {
		case rr := <-res:
			if stolenByThief {
				c.Hit("stolen-thief-won")
				c.Count("")
				switch {
				case rr.panicked != "":
					fails = append(fails, lib.OracleFail{Class: "panic", What: "Send panicked after its response was taken by another consumer and the writer closed: " + rr.panicked})
				case rr.pck == nil:
					fails = append(fails, lib.OracleFail{Class: "nil-packet", What: "packet.Send returned nil: its response was taken by another consumer of Receive() and the writer was closed",
						Replay: "w := NewWriter(); r := NewReader(); w.Link(r); go func(){ <-w.Receive() }() /* parked first */; go Send(w, pck); <-r.Read(); r.Receive(answer); w.Close()  => Send returns nil"})
				case canon(rr.pck) != "E0":
					fails = append(fails, lib.OracleFail{Class: "wrong-answer", What: "Send returned " + canon(rr.pck) + " after its response was stolen and the writer closed; expected the dropped error"})
				}
			} else {
				c.Hit("stolen-thief-lost")
			}
		case <-time.After(watchdog):
			fails = append(fails, lib.OracleFail{Class: "blocked", What: "stolen-response scenario: Send did not return after the writer was closed"})
			return
		}
		if len(fails) > 0 {
			return
		}
	}
	return
}

// ---------------------------------------------------------------- re-wiring a torn-down writer

// relink: the only step that can raise the liveness measure of a writer all of whose linked
// readers are closed is a re-wiring Link (Props/C03.lean: C03.relink_can_increase – the stale drop
// notice of the re-linked reader is counted again). The histories of C03.relink_released on the
// real code: a writer linked to readers 0 and 1, one request taken by both; reader 0 is unlinked
// and closed (its drop notice is for a link generation that is gone), reader 1 is closed, and
// reader 0 is linked again before, between or after the two closes. The model: the requester is
// released with the dropped error in all three.
func relink(c *lib.Ctx, tries int) (fails []lib.OracleFail) {
	for i := 0; i < tries; i++ {
		pos := i % 3
		w := packet.NewWriter()
		r0, r1 := packet.NewReader(), packet.NewReader()
		w.Link(r0)
		w.Link(r1)
		res := make(chan reqRes, 1)
		go func() {
			var rr reqRes
			defer func() {
				if p := recover(); p != nil {
					rr.panicked = fmt.Sprint(p)
				}
				res <- rr
			}()
			rr.pck = packet.Send(w, packet.New(types.NewInt64(1)))
		}()
		for _, r := range []*packet.Reader{r0, r1} {
			select {
			case <-r.Read():
			case <-time.After(watchdog):
				fails = append(fails, lib.OracleFail{Class: "lost-request", What: "relink scenario: the request never reached a reader"})
				return
			}
		}
		w.Unlink(r0)
		if pos == 0 {
			w.Link(r0)
		}
		r0.Close()
		if pos == 1 {
			w.Link(r0)
		}
		r1.Close()
		if pos == 2 {
			w.Link(r0)
		}
		replay := fmt.Sprintf("w.Link(r0); w.Link(r1); go Send(w, pck); <-r0.Read(); <-r1.Read(); w.Unlink(r0); r0.Close(); r1.Close() with w.Link(r0) at position %d (0 before, 1 between, 2 after the closes)", pos)
		select {
		case rr := <-res:
			c.Hit(fmt.Sprintf("relink-%d", pos))
			c.Count("")
			switch {
			case rr.panicked != "":
				fails = append(fails, lib.OracleFail{Class: "panic", What: "relink scenario: Send panicked: " + rr.panicked, Replay: replay})
			case rr.pck == nil:
				fails = append(fails, lib.OracleFail{Class: "nil-packet", What: "relink scenario: Send returned nil", Replay: replay})
			case canon(rr.pck) != "E0":
				fails = append(fails, lib.OracleFail{Class: "wrong-answer", What: "relink scenario: Send returned " + canon(rr.pck) + "; the model (C03.relink_released) says the dropped error", Replay: replay})
			}
		case <-time.After(watchdog):
			fails = append(fails, lib.OracleFail{Class: "blocked", What: "relink scenario: the requester of a writer whose linked readers are all closed was not released after the writer was wired to a closed reader again", Replay: replay})
			return
		}
		w.Close()
		if len(fails) > 0 {
			return
		}
	}
	return
}

// flapRelease: a slow reader whose link is removed and restored while it holds an unanswered request.
// The requester of the removed link is released with the dropped error at once. Later – after the
// writer has been idle, served by a second reader that was unlinked again, or after the slow
// reader's link flapped once more – the slow reader is linked again and gets a new request; it then
// delivers its LATE answer to the old request (which must go nowhere) and either answers the new
// request or closes: the new requester gets its own answer, or the dropped error – never the
// answer to another request (C03: released with a well-formed packet, the real answer or a
// dropped-packet error; C01: a late answer over a removed link is credited to no write).
func flapRelease(c *lib.Ctx, tries int) (fails []lib.OracleFail) {
	send := func(w *packet.Writer, v int) chan reqRes {
		res := make(chan reqRes, 1)
		go func() {
			var rr reqRes
			defer func() {
				if p := recover(); p != nil {
					rr.panicked = fmt.Sprint(p)
				}
				res <- rr
			}()
			rr.pck = packet.Send(w, packet.New(types.NewInt64(int64(v))))
		}()
		return res
	}
	await := func(res chan reqRes) (string, bool) {
		select {
		case rr := <-res:
			if rr.panicked != "" {
				return "panic: " + rr.panicked, true
			}
			return canon(rr.pck), true
		case <-time.After(watchdog):
			return "", false
		}
	}
	take := func(r *packet.Reader) bool {
		select {
		case <-r.Read():
			return true
		case <-time.After(watchdog):
			return false
		}
	}
	for i := 0; i < tries; i++ {
		between, served, ending := i%3, 1+(i/3)%3, (i/9)%2
		var steps []string
		bad := func(class, what string) {
			fails = append(fails, lib.OracleFail{Class: class, What: "flapping link: " + what, Replay: strings.Join(steps, "; ")})
		}
		w := packet.NewWriter()
		slow, other := packet.NewReader(), packet.NewReader()
		w.Link(slow)
		res1 := send(w, 1)
		steps = append(steps, "w.Link(slow)", "go Send(w, 1)", "<-slow.Read()")
		if !take(slow) {
			bad("lost-request", "request 1 never reached the reader")
			return
		}
		w.Unlink(slow)
		steps = append(steps, "w.Unlink(slow)")
		if got, ok := await(res1); !ok {
			bad("blocked", "the requester of an unlinked reader was not released")
			return
		} else if got != "E0" {
			bad("wrong-answer", "request 1 (its only reader unlinked before answering) returned "+got+", not the dropped error")
		}
		switch between {
		case 1: // a second reader serves some requests and is unlinked while the writer is idle
			w.Link(other)
			steps = append(steps, "w.Link(other)")
			for k := 0; k < served; k++ {
				v := 10 + k
				res := send(w, v)
				if !take(other) {
					bad("lost-request", "a request never reached the second reader")
					return
				}
				other.Receive(packet.New(types.NewInt64(int64(100 + v))))
				steps = append(steps, fmt.Sprintf("go Send(w, %d); <-other.Read(); other.Receive(%d)", v, 100+v))
				if got, ok := await(res); !ok || got != fmt.Sprintf("v%d", 100+v) {
					bad("wrong-answer", fmt.Sprintf("request %d answered by the second reader with %d returned %q", v, 100+v, got))
				}
			}
			w.Unlink(other)
			steps = append(steps, "w.Unlink(other)")
		case 2: // the slow reader's link flaps once more while the writer is idle
			w.Link(slow)
			w.Unlink(slow)
			steps = append(steps, "w.Link(slow); w.Unlink(slow)")
		}
		w.Link(slow)
		steps = append(steps, "w.Link(slow)")
		var news []chan reqRes
		for k := 0; k < served; k++ {
			news = append(news, send(w, 2+k))
			steps = append(steps, fmt.Sprintf("go Send(w, %d); <-slow.Read()", 2+k))
			if !take(slow) {
				bad("lost-request", "a request after the relink never reached the reader")
				return
			}
		}
		// the late answer to request 1
		slow.Receive(packet.New(types.NewInt64(101)))
		steps = append(steps, "slow.Receive(101) – the late answer to request 1")
		if ending == 0 {
			for k := range news {
				slow.Receive(packet.New(types.NewInt64(int64(102 + k))))
				steps = append(steps, fmt.Sprintf("slow.Receive(%d)", 102+k))
			}
		} else {
			slow.Close()
			steps = append(steps, "slow.Close()")
		}
		for k, res := range news {
			want := fmt.Sprintf("v%d", 102+k)
			if ending == 1 {
				want = "E0"
			}
			got, ok := await(res)
			if !ok {
				bad("blocked", fmt.Sprintf("the requester of request %d was not released", 2+k))
				return
			}
			if got != want {
				bad("wrong-answer", fmt.Sprintf("request %d returned %s; it is owed %s (the late answer to request 1 is owed to nobody)", 2+k, got, want))
			}
		}
		c.Hit(fmt.Sprintf("flapping-link-between-%d-ending-%d", between, ending))
		c.Count("")
		w.Close()
		slow.Close()
		other.Close()
		if len(fails) > 0 {
			return
		}
	}
	return
}

// ---------------------------------------------------------------- Run

func progressPath(c *lib.Ctx) string {
	return filepath.Join(c.VerifDir, ".build", fmt.Sprintf("c03-progress-%s-%d.txt", c.Tier, c.Seed))
}

func Run(c *lib.Ctx) {
	if os.Getenv("VERIF_C03_CHILD") == "" {
		supervise(c)
		return
	}
	c.Rule = "a case (scenario × crash point × teardown action or pair) is non-trivial when at least one response was owed on a torn-down path at the crash point; distinct by scenario id, prefix length and the actions"
	c.Assumptions = []string{
		"every public method of Writer/Reader/ports/Process is one atomic step (runs under the object's mutex; C20); crash points are the quiesced states between the steps of a sequentialised schedule (after each write has reached its sinks, after each answer has reached its requester)",
		"after the crash point the real code runs freely (optionally with the goroutines Reader.Close spawns held back by the VerifReceive hook until all crash actions have run); only schedule-independent observations are compared: return values of synchronous calls and what each requester received in total; cases in the classes of the known finding close-discards-buffered are schedule-dependent and are judged by the oracle only",
		"the writer pump discards what it buffers when the writer is closed (the code; a drain was tried and withdrawn because it parks the goroutine for ever when nobody reads Receive() after Close – C05): the closed Receive() channel stands for the dropped responses; Send/SendOrFallback report it as a dropped packet (fix bb42815), the backward loops of nodes and Pipe resolve what is still pending as dropped (Tracer.Drop); raw receivers on their own closed writer see the closed channel (known finding, class (i))",
		"the model treats a OneToOneNode with one in and one out as a relay (forward: write or echo; backward: pass the response up); the Tracer's bookkeeping is C02's subject",
		"promptness is observed (watchdog " + watchdog.String() + "), not proved; liveness in Lean is a measure argument under weak fairness of drop deliveries, pump steps and node loops",
	}
	c.Trusted = []string{"pkg/packet verif hook VerifReceiveWrite (used to hold back the `go w.receive(dropped, r, link, write)` goroutines of Reader.Close, identified by their stack, and to release them one at a time in a random order, mirrored in the model by `dropw`)", "Go scheduler/channels/mutexes (modelled as atomic steps)"}

	rng := lib.NewRNG(c.Seed)
	model := &lib.Script{}
	var fails []lib.OracleFail
	prog, _ := os.Create(progressPath(c))
	defer prog.Close()

	nScen := c.Scale(60, 900)
	maxEv := c.Scale(6, 8)
	pairsPer := c.Scale(3, 6)
	totalOwed, totalReleased := 0, 0
	unknownFails := 0
	knownSeen := map[string]int{}
	isKnown := func(class string) bool {
		for _, f := range c.Findings {
			if f.Class == class {
				return true
			}
		}
		return false
	}

	runOne := func(sc *scen, prefix int, acts []action) {
		var as []string
		for _, a := range acts {
			as = append(as, a.line())
		}
		fmt.Fprintf(prog, "scenario %d (%s) events=%s prefix=%d actions=%s\n", sc.id, sc.describe(), showEvents(sc.events), prefix, strings.Join(as, " + "))
		if lossyCase(sc, prefix, acts) {
			c.Hit("node-out-writer-closed-alone-with-responses-owed")
		}
		res := runCase(sc, prefix, acts)
		key := ""
		if res.outstanding > 0 {
			key = res.key
		}
		c.Count(key)
		totalOwed += res.outstanding
		totalReleased += res.released
		if res.drops > 1 {
			c.Hit("several-drop-notices-released-in-random-order")
		}
		c.Hist["drop-notices-released-one-by-one"] += res.drops
		for _, a := range acts {
			c.Hit("action-" + a.kind)
		}
		if len(acts) == 2 {
			c.Hit("pair")
		} else {
			c.Hit("single")
		}
		if sc.bare {
			c.Hit("workflow-bare")
		} else {
			c.Hit(fmt.Sprintf("workflow-ports-%dnodes", sc.nNodes[0]))
		}
		c.Hit(fmt.Sprintf("owed-at-crash-%d", min(res.outstanding, 3)))
		if res.noCompare {
			c.Hit("not-compared-known-class")
		} else {
			model.Begin()
			for i, l := range res.lines {
				model.Op(l, res.impls[i])
			}
		}
		for _, f := range res.fails {
			parts := strings.SplitN(f, "\t", 2)
			var b strings.Builder
			fmt.Fprintf(&b, "# scenario: %s\n# schedule: %s\n# crash point: after %d events; actions: %s\n# as a corpus file (corpus/C03/*.ops):\n", sc.describe(), showEvents(sc.events), prefix, strings.Join(as, " + "))
			for _, cl := range strings.Split(strings.TrimSpace(corpusText(sc, prefix, acts)), "\n") {
				fmt.Fprintf(&b, "#   %s\n", cl)
			}
			for i, l := range res.lines {
				fmt.Fprintf(&b, "%s\t=> impl: %s\n", l, res.impls[i])
			}
			if isKnown(parts[0]) {
				knownSeen[parts[0]]++
				if knownSeen[parts[0]] > 2 {
					continue // attributed to the finding; two witnesses are enough
				}
			} else {
				unknownFails++
			}
			fails = append(fails, lib.OracleFail{Class: parts[0], What: parts[1], Replay: b.String()})
		}
		if res.outstanding > 0 && len(acts) == 1 {
			c.Sample(map[string]any{"scenario": sc.describe(), "schedule": showEvents(sc.events), "prefix": prefix, "action": as[0],
				"lines": res.lines[len(res.lines)-min(len(res.lines), 8):], "implementation": res.impls[len(res.impls)-min(len(res.impls), 8):]})
		}
	}

	// 1. corpus: hand-written crash points (witnesses of the fixed defect)
	for i, f := range c.CorpusFiles() {
		if isFanCorpus(f) || isWinCorpus(f) || isFanOutCorpus(f) || isJoinCorpus(f) || isPortsCorpus(f) {
			continue // run by runFanIn / runWindows
		}
		cc, e := parseCorpus(f, i+1)
		if e != "" {
			fails = append(fails, lib.OracleFail{Class: "corpus", What: "unusable corpus file " + f + ": " + e})
			continue
		}
		c.Hit("corpus-case")
		runOne(cc.sc, cc.prefix, cc.acts)
	}
	// 2. enumeration
	for i := 0; i < nScen && unknownFails < 6; i++ {
		sc := genScen(rng.Fork(), i+100, maxEv)
		primary, extra := actions(sc)
		all := append(append([]action(nil), primary...), extra...)
		for prefix := 0; prefix <= len(sc.events); prefix++ {
			for _, a := range primary {
				runOne(sc, prefix, []action{a})
			}
			for j := 0; j < pairsPer; j++ {
				a, b := all[rng.Intn(len(all))], all[rng.Intn(len(all))]
				if a == b {
					continue
				}
				runOne(sc, prefix, []action{a, b})
			}
		}
	}
	// 2b. size families (sizes.go): 9–40 requests outstanding at the teardown, on fresh and warmed-up writers
	for i := 0; i < c.Scale(10, 60) && unknownFails < 6; i++ {
		sc, warm, outstanding := genSizeScen(rng.Fork(), 20000+i)
		primary, _ := actions(sc)
		c.Hit("size-outstanding-" + sizeBucket(outstanding))
		c.Hit(fmt.Sprintf("size-warm-up-%d", warm))
		for _, a := range primary {
			c.Hit("size-action-" + a.kind)
			runOne(sc, len(sc.events), []action{a})
		}
		// the same teardown with some of the requests already outstanding and the rest still to come is the
		// ordinary enumeration; one earlier crash point with ≥ 9 outstanding is enough here
		if outstanding > 12 {
			runOne(sc, len(sc.events)-3, []action{primary[rng.Intn(len(primary))]})
		}
	}
	// 3. fan-in: several writers on one reader (fanin.go)
	runFanIn(c, rng, model, func(class, what, replay string) {
		if isKnown(class) {
			knownSeen[class]++
			if knownSeen[class] > 2 {
				return
			}
		} else {
			unknownFails++
		}
		fails = append(fails, lib.OracleFail{Class: class, What: what, Replay: replay})
	}, func(line string) { fmt.Fprintln(prog, line) })

	// 3b. the window between a writer's creation and the start of its backward loop (window.go)
	runWindows(c, model, func(class, what, replay string) {
		unknownFails++
		fails = append(fails, lib.OracleFail{Class: class, What: what, Replay: replay})
	}, func(line string) { fmt.Fprintln(prog, line) })

	// 3c. fan-out: a real OneToManyNode, one branch torn down (fanout.go; oracle only)
	runFanOuts(c, rng, func(class, what, replay string) {
		unknownFails++
		fails = append(fails, lib.OracleFail{Class: class, What: what, Replay: replay})
	}, func(line string) { fmt.Fprintln(prog, line) }, func() bool { return unknownFails >= 6 })

	// 3d. join: a real ManyToOneNode, one input / the output / everything torn down (join.go; oracle only)
	runJoins(c, rng, func(class, what, replay string) {
		if isKnown(class) {
			knownSeen[class]++
			if knownSeen[class] > 2 {
				return
			}
		} else {
			unknownFails++
		}
		fails = append(fails, lib.OracleFail{Class: class, What: what, Replay: replay})
	}, func(line string) { fmt.Fprintln(prog, line) }, func() bool { return unknownFails >= 6 })

	// 3e. ports: port-level link / unlink / link, port-level fan-out, several processes (ports.go; oracle only)
	runPortsFamily(c, rng, func(class, what, replay string) {
		unknownFails++
		fails = append(fails, lib.OracleFail{Class: class, What: what, Replay: replay})
	}, func(line string) { fmt.Fprintln(prog, line) }, func() bool { return unknownFails >= 6 })

	// 3f. the same fan-in built by a symbol.Table, the shared symbol freed or replaced (ports.go)
	if unknownFails < 6 {
		tf := tableFanIn(c, rng, c.Scale(120, 1200))
		unknownFails += len(tf)
		fails = append(fails, tf...)
	}

	// 4. Send's own guard
	fails = append(fails, stolen(c, c.Scale(40, 300))...)

	// 5. re-wiring a writer whose readers are closed (C03.relink_can_increase, C03.relink_released; covered by C03.teardown_releases_readers)
	fails = append(fails, relink(c, c.Scale(60, 300))...)
	fails = append(fails, flapRelease(c, c.Scale(54, 270))...)

	for k, n := range knownSeen {
		c.Extra["known-"+k] = fmt.Sprintf("%d oracle failures of this class were attributed to the known finding", n)
	}
	c.Extra["released"] = fmt.Sprintf("%d responses were owed on torn-down paths at the crash points; %d of them were released with the dropped error (the rest had been answered, or are reported as failures)", totalOwed, totalReleased)
	ms, err := c.RunModel("c03", model)
	if err != nil {
		c.Violation("model driver failed: "+err.Error(), "", false)
		return
	}
	c.Conclude("Uniflow.Teardown.step ~ packet/port/node/process (pre-crash: return values, sink deliveries, responses; post-crash: synchronous return values and what every requester received in total)", ms, fails)
}

func showEvents(es []ev) string {
	var out []string
	for _, e := range es {
		switch e.kind {
		case 'W':
			out = append(out, fmt.Sprintf("W%d.%d", e.q.a, e.q.p))
		case 'R':
			out = append(out, fmt.Sprintf("R%d.%d", e.q.a, e.q.p))
		case 'A':
			out = append(out, fmt.Sprintf("A%d:%s", e.k, e.ans))
		}
	}
	return strings.Join(out, " ")
}

type corpusCase struct {
	sc     *scen
	prefix int
	acts   []action
	name   string
}

// corpusText renders a case in the format of corpus/C03/*.ops (so a replay can be kept as a file).
func corpusText(sc *scen, prefix int, acts []action) string {
	var b strings.Builder
	if sc.bare {
		fmt.Fprintf(&b, "workflow bare")
		for _, n := range sc.readers {
			fmt.Fprintf(&b, " %d", n)
		}
	} else {
		fmt.Fprintf(&b, "workflow ports")
		for _, n := range sc.nNodes {
			fmt.Fprintf(&b, " %d", n)
		}
	}
	b.WriteString("\nkinds")
	for a := 0; a < sc.paths(); a++ {
		for p := 0; p < sc.nP; p++ {
			b.WriteString(" " + sc.kinds[qid{a, p}])
		}
	}
	b.WriteString("\nflags")
	for _, f := range []struct {
		on   bool
		name string
	}{{sc.dropHold, "dropHold"}, {sc.postAns, "postAns"}, {sc.postReq, "postReq"}, {sc.postRace, "postRace"}, {sc.errPath, "errPath"}} {
		if f.on {
			b.WriteString(" " + f.name)
		}
	}
	fmt.Fprintf(&b, "\nevents %s\nprefix %d\nactions", showEvents(sc.events), prefix)
	for i, a := range acts {
		if i > 0 {
			b.WriteString(" +")
		}
		b.WriteString(" " + strings.TrimPrefix(a.line(), "down "))
	}
	b.WriteString("\n")
	return b.String()
}

// parseCorpus reads one corpus/C03/*.ops file (see corpusText).
func parseCorpus(path string, id int) (cc corpusCase, err string) {
	sc := &scen{id: id, kinds: map[qid]string{}, nP: 2}
	cc = corpusCase{sc: sc, name: filepath.Base(path)}
	atoi := func(t string) int {
		v, e := strconv.Atoi(t)
		if e != nil || v < 0 {
			err = "bad number " + t
		}
		return v
	}
	var kinds []string
	for _, l := range lib.ReadLines(path) {
		f := strings.Fields(l)
		switch f[0] {
		case "workflow":
			if len(f) < 3 {
				return cc, "workflow needs a kind and sizes"
			}
			for _, t := range f[2:] {
				n := atoi(t)
				if f[1] == "bare" {
					sc.bare, sc.nP = true, 1
					sc.readers = append(sc.readers, n)
				} else {
					sc.nNodes = append(sc.nNodes, n)
				}
			}
		case "kinds":
			kinds = f[1:]
		case "flags":
			for _, t := range f[1:] {
				switch t {
				case "dropHold":
					sc.dropHold = true
				case "postAns":
					sc.postAns = true
				case "postReq":
					sc.postReq = true
				case "postRace":
					sc.postRace = true
				case "errPath":
					sc.errPath = true
				default:
					return cc, "unknown flag " + t
				}
			}
		case "events":
			for _, t := range f[1:] {
				var e ev
				switch t[0] {
				case 'W', 'R':
					e.kind = t[0]
					if n, _ := fmt.Sscanf(t[1:], "%d.%d", &e.q.a, &e.q.p); n != 2 {
						return cc, "bad event " + t
					}
				case 'A':
					e.kind = 'A'
					parts := strings.SplitN(t[1:], ":", 2)
					if len(parts) != 2 || len(parts[1]) < 2 || (parts[1][0] != 'v' && parts[1][0] != 'e') {
						return cc, "bad event " + t
					}
					e.k, e.ans = atoi(parts[0]), parts[1]
					atoi(parts[1][1:])
				default:
					return cc, "bad event " + t
				}
				sc.events = append(sc.events, e)
			}
		case "prefix":
			if len(f) != 2 {
				return cc, "prefix needs one number"
			}
			cc.prefix = atoi(f[1])
		case "actions":
			for _, part := range strings.Split(strings.Join(f[1:], " "), "+") {
				t := strings.Fields(part)
				if len(t) < 2 {
					return cc, "bad action " + part
				}
				a := action{kind: t[0]}
				switch t[0] {
				case "reader":
					if len(t) != 3 {
						return cc, "bad action " + part
					}
					a.w, a.r = atoi(t[1]), atoi(t[2])
				case "writer":
					a.w = atoi(t[1])
				case "inport", "outport", "node", "exit":
					a.i = atoi(t[1])
				default:
					return cc, "unknown action " + t[0]
				}
				cc.acts = append(cc.acts, a)
			}
		default:
			return cc, "unknown line " + l
		}
	}
	if err != "" {
		return cc, err
	}
	if sc.paths() != 2 || len(kinds) != sc.paths()*sc.nP || cc.prefix > len(sc.events) || len(cc.acts) == 0 || len(cc.acts) > 2 {
		return cc, "inconsistent case (two paths, one kind per requester, prefix within the schedule, one or two actions)"
	}
	i := 0
	for a := 0; a < sc.paths(); a++ {
		for p := 0; p < sc.nP; p++ {
			if kinds[i] != "raw" && kinds[i] != "send" && kinds[i] != "fb" {
				return cc, "unknown requester kind " + kinds[i]
			}
			sc.kinds[qid{a, p}] = kinds[i]
			i++
		}
	}
	// the schedule and the targets must make sense for the workflow
	if !sc.bare {
		for _, n := range sc.nNodes {
			if n > hops-1 {
				return cc, "at most two nodes per path"
			}
		}
	}
	return cc, ""
}

// supervise runs the check in a child process: a panic in a goroutine the harness does not own
// (node loops, pumps) would otherwise take the verdict with it.
func supervise(c *lib.Ctx) {
	exe, err := os.Executable()
	if err != nil {
		c.Violation("cannot locate the harness binary: "+err.Error(), "", false)
		return
	}
	_ = os.Remove(progressPath(c))
	cmd := exec.Command(exe, os.Args[1:]...)
	cmd.Env = append(os.Environ(), "VERIF_C03_CHILD=1")
	cmd.Stdout = os.Stdout
	var errb tailBuf
	cmd.Stderr = &errb
	runErr := cmd.Run()
	code := 0
	if runErr != nil {
		code = -1
		if ee, ok := runErr.(*exec.ExitError); ok {
			code = ee.ExitCode()
		}
	}
	if code == 0 || code == 1 {
		os.Stderr.Write(errb.bytes())
		os.Exit(code)
	}
	// the child died: report the scenario that was running
	last := ""
	if b, e := os.ReadFile(progressPath(c)); e == nil {
		ls := strings.Split(strings.TrimSpace(string(b)), "\n")
		last = ls[len(ls)-1]
	}
	os.Stderr.Write(errb.bytes())
	c.Violation(fmt.Sprintf("the process running the real code died (exit code %d) – a panic outside the harness's goroutines; running: %s", code, last),
		"# last scenario started:\n# "+last+"\n# stderr of the child (tail):\n"+string(errb.bytes()), true)
}

type tailBuf struct {
	mu sync.Mutex
	b  []byte
}

func (t *tailBuf) Write(p []byte) (int, error) {
	t.mu.Lock()
	defer t.mu.Unlock()
	t.b = append(t.b, p...)
	if len(t.b) > 1<<16 {
		t.b = t.b[len(t.b)-1<<15:]
	}
	return len(p), nil
}

func (t *tailBuf) bytes() []byte {
	t.mu.Lock()
	defer t.mu.Unlock()
	return append([]byte(nil), t.b...)
}
